package main

// W4 / C01-w4g2c2 — C01-R17: the DNSKEY fetch of verifyDNSSEC is a validating
// lookup.
//
// verifyDNSSEC reads the signer's key set from one of two places: the response
// under validation itself (msg == resp; C01-R12 decides that only DS-matched
// keys may vouch there), or the result of r.subQuery on a request it builds.
// On the second route the WHOLE key set is afterwards trusted for the
// signatures of resp (VerifyDSWithWork only asks that some key matches the
// DS).  That is sound only because the sub-query validates its own answer —
// answer() -> verifyDNSSEC(msg == resp) -> MatchDS — and the validation runs
// exactly when the request's CD bit is clear.  So:
//
//   the request handed to Resolver.subQuery from verifyDNSSEC (its closures
//   and unexported helpers) is a message built fresh for the purpose, and its
//   CheckingDisabled bit is never written with anything but the constant
//   false: not by a field store, not by a whole-header / whole-message copy,
//   not inside a callee the message is handed to (module helper or library
//   method such as (*dns.Msg).SetReply, whose bodies are read as SSA).
//
// Sites are discovered through the callee (subQuery) and the field
// (dns.MsgHdr.CheckingDisabled); nothing is executed.

import (
	"go/types"
	"sort"
	"strings"

	"golang.org/x/tools/go/ssa"
)

func init() {
	wrap := func(id string, extra func(c *Ctx), explain string) {
		pd := props[id]
		if pd == nil {
			return
		}
		orig := pd.Run
		pd.Run = func(c *Ctx) { orig(c); extra(c) }
		pd.Explanation += " " + explain
	}
	wrap("C01", c01R17, "R17 (added): the DNSKEY sub-query of verifyDNSSEC always validates — the request it builds never has its CD bit written (directly, by a header copy or by a callee); with CD=1 the key set comes back as received and every key an on-path attacker appended is trusted for the denial that makes a zone insecure.")
}

// w4MsgWrite is one write that can change the CD bit of a tracked message.
type w4MsgWrite struct {
	at   ssa.Instruction
	what string // description of the written value / construct
	ok   bool   // provably the constant false
}

// w4MsgTracker follows one *dns.Msg forward through aliases (phis, local
// cells, closures, callee parameters, helper results) and collects every write
// that can change the given header field.
type w4MsgTracker struct {
	c       *Ctx
	field   *types.Var // dns.MsgHdr.CheckingDisabled
	hdr     *types.Var // dns.Msg.MsgHdr
	stopAt  func(f *ssa.Function) bool
	seen    map[ssa.Value]bool
	writes  []w4MsgWrite
	escapes []string
}

func (t *w4MsgTracker) fieldOf(fa *ssa.FieldAddr) *types.Var {
	st, _ := deref(fa.X.Type()).Underlying().(*types.Struct)
	if st == nil || fa.Field >= st.NumFields() {
		return nil
	}
	return st.Field(fa.Field)
}

// visitHdr: p is a *dns.MsgHdr inside the tracked message.
func (t *w4MsgTracker) visitHdr(p ssa.Value, depth int) {
	if t.seen[p] {
		return
	}
	t.seen[p] = true
	refs := p.Referrers()
	if refs == nil {
		return
	}
	for _, r := range *refs {
		switch x := r.(type) {
		case *ssa.FieldAddr:
			if x.X == p && t.fieldOf(x) == t.field {
				t.visitBit(x)
			}
		case *ssa.Store:
			if x.Addr == p {
				t.writes = append(t.writes, w4MsgWrite{at: x, what: "the whole header is overwritten with " + trunc(Desc(x.Val).String(), 100)})
			}
		case *ssa.Call:
			t.visitCall(x, &x.Call, p, depth, true)
		}
	}
}

// visitBit: p is the address of the tracked bit.
func (t *w4MsgTracker) visitBit(p ssa.Value) {
	refs := p.Referrers()
	if refs == nil {
		return
	}
	for _, r := range *refs {
		if st, ok := r.(*ssa.Store); ok && st.Addr == p {
			e := Desc(st.Val)
			t.writes = append(t.writes, w4MsgWrite{at: st, what: trunc(e.String(), 120), ok: IsConstBool(false)(e)})
		}
	}
}

func (t *w4MsgTracker) visitCall(in ssa.Instruction, cc *ssa.CallCommon, v ssa.Value, depth int, isHdr bool) {
	if cc.IsInvoke() {
		return
	}
	callee := cc.StaticCallee()
	if callee == nil {
		return
	}
	if o := callee.Origin(); o != nil {
		callee = o
	}
	if t.stopAt(callee) || len(callee.Blocks) == 0 || depth >= 4 {
		return
	}
	for i, a := range cc.Args {
		if a != v || i >= len(callee.Params) {
			continue
		}
		if isHdr {
			t.visitHdr(callee.Params[i], depth+1)
		} else {
			t.visit(callee.Params[i], depth+1)
		}
	}
}

// visit: v is (an alias of) the tracked *dns.Msg.
func (t *w4MsgTracker) visit(v ssa.Value, depth int) {
	if v == nil || t.seen[v] {
		return
	}
	t.seen[v] = true
	refs := v.Referrers()
	if refs == nil {
		return
	}
	for _, r := range *refs {
		switch x := r.(type) {
		case *ssa.FieldAddr:
			if x.X != v {
				continue
			}
			switch t.fieldOf(x) {
			case t.hdr:
				t.visitHdr(x, depth)
			case t.field: // promoted through a named header type: not today's shape
				t.visitBit(x)
			}
		case *ssa.Store:
			if x.Addr == v {
				t.writes = append(t.writes, w4MsgWrite{at: x, what: "the whole message is overwritten with " + trunc(Desc(x.Val).String(), 100)})
				continue
			}
			// the pointer is kept in a local cell: follow the loads of the cell
			if cell, ok := x.Addr.(*ssa.Alloc); ok {
				t.visitCell(cell, depth)
			} else if fv, ok := x.Addr.(*ssa.FreeVar); ok {
				t.visitCell(fv, depth)
			}
		case *ssa.Phi:
			t.visit(x, depth)
		case *ssa.ChangeType:
			t.visit(x, depth)
		case *ssa.Call:
			t.visitCall(x, &x.Call, v, depth, false)
		case *ssa.Defer:
			t.visitCall(x, &x.Call, v, depth, false)
		case *ssa.Go:
			t.visitCall(x, &x.Call, v, depth, false)
		case *ssa.Return:
			// a helper that builds the request: continue at its call sites
			f := x.Parent()
			idx := -1
			for i, res := range x.Results {
				if res == v {
					idx = i
				}
			}
			fo := funcObjOf(f)
			if fo == nil || idx < 0 {
				continue
			}
			for _, s := range t.c.CallSites(fo) {
				cl, ok := s.Instr.(*ssa.Call)
				if !ok {
					continue
				}
				if len(x.Results) == 1 {
					t.visit(cl, depth)
					continue
				}
				if crefs := cl.Referrers(); crefs != nil {
					for _, cr := range *crefs {
						if ex, ok := cr.(*ssa.Extract); ok && ex.Index == idx {
							t.visit(ex, depth)
						}
					}
				}
			}
		}
	}
}

// visitCell: cell holds the tracked pointer; every load of it is an alias.
func (t *w4MsgTracker) visitCell(cell ssa.Value, depth int) {
	if t.seen[cell] {
		return
	}
	t.seen[cell] = true
	refs := cell.Referrers()
	if refs == nil {
		return
	}
	for _, r := range *refs {
		switch x := r.(type) {
		case *ssa.UnOp:
			if x.X == cell {
				t.visit(x, depth)
			}
		case *ssa.MakeClosure:
			fn, ok := x.Fn.(*ssa.Function)
			if !ok {
				continue
			}
			for i, b := range x.Bindings {
				if b == cell && i < len(fn.FreeVars) {
					t.visitCell(fn.FreeVars[i], depth)
				}
			}
		}
	}
}

// w4MsgRoots walks backwards from a request argument to the places where the
// message comes into being.  fresh: allocations; other: anything else.
func w4MsgRoots(c *Ctx, v ssa.Value, seen map[ssa.Value]bool, depth int, fresh *[]ssa.Value, other *[]string) {
	if v == nil || seen[v] {
		return
	}
	seen[v] = true
	switch x := v.(type) {
	case *ssa.Alloc:
		*fresh = append(*fresh, x)
	case *ssa.Phi:
		for _, e := range x.Edges {
			w4MsgRoots(c, e, seen, depth, fresh, other)
		}
	case *ssa.ChangeType:
		w4MsgRoots(c, x.X, seen, depth, fresh, other)
	case *ssa.UnOp:
		// load of a local cell holding the pointer
		var cell ssa.Value = x.X
		if a, ok := cell.(*ssa.Alloc); ok {
			if vals := cellStores(a); vals != nil {
				for _, sv := range vals {
					w4MsgRoots(c, sv, seen, depth, fresh, other)
				}
				return
			}
		}
		if fv, ok := cell.(*ssa.FreeVar); ok {
			// captured cell: resolve through the closure's creation sites
			fn := fv.Parent()
			idx := -1
			for i, f := range fn.FreeVars {
				if f == fv {
					idx = i
				}
			}
			found := false
			if par := fn.Parent(); par != nil && idx >= 0 {
				for _, b := range par.Blocks {
					for _, in := range b.Instrs {
						if mc, ok := in.(*ssa.MakeClosure); ok && mc.Fn == fn && idx < len(mc.Bindings) {
							if a, ok := mc.Bindings[idx].(*ssa.Alloc); ok {
								if vals := cellStores(a); vals != nil {
									found = true
									for _, sv := range vals {
										w4MsgRoots(c, sv, seen, depth, fresh, other)
									}
								}
							}
						}
					}
				}
			}
			if found {
				return
			}
		}
		*other = append(*other, trunc(Desc(v).String(), 120))
	case *ssa.Parameter:
		f := x.Parent()
		fo := funcObjOf(f)
		idx := -1
		for i, p := range f.Params {
			if p == x {
				idx = i
			}
		}
		if fo == nil || idx < 0 || depth >= 3 || fo.Exported() {
			*other = append(*other, "parameter "+x.Name()+" of "+fnKey(f))
			return
		}
		sites := c.CallSites(fo)
		if len(sites) == 0 {
			*other = append(*other, "parameter "+x.Name()+" of "+fnKey(f)+" (no call site)")
			return
		}
		for _, s := range sites {
			cc := callCommon(s.Instr)
			if cc == nil || cc.IsInvoke() || idx >= len(cc.Args) || cc.StaticCallee() == nil {
				*other = append(*other, "parameter "+x.Name()+" of "+fnKey(f)+" (used as a value)")
				continue
			}
			w4MsgRoots(c, cc.Args[idx], seen, depth+1, fresh, other)
		}
	case *ssa.Call:
		h := localHelper(x.Parent(), &x.Call)
		if h == nil || depth >= 3 {
			*other = append(*other, trunc(Desc(v).String(), 120))
			return
		}
		n := 0
		for _, b := range h.Blocks {
			for _, in := range b.Instrs {
				if ret, ok := in.(*ssa.Return); ok && len(ret.Results) == 1 {
					n++
					w4MsgRoots(c, ret.Results[0], seen, depth+1, fresh, other)
				}
			}
		}
		if n == 0 {
			*other = append(*other, trunc(Desc(v).String(), 120))
		}
	case *ssa.Extract:
		cl, ok := x.Tuple.(*ssa.Call)
		var h *ssa.Function
		if ok {
			h = localHelper(cl.Parent(), &cl.Call)
		}
		if h == nil || depth >= 3 {
			*other = append(*other, trunc(Desc(v).String(), 120))
			return
		}
		for _, b := range h.Blocks {
			for _, in := range b.Instrs {
				if ret, ok := in.(*ssa.Return); ok && x.Index < len(ret.Results) {
					w4MsgRoots(c, ret.Results[x.Index], seen, depth+1, fresh, other)
				}
			}
		}
	default:
		*other = append(*other, trunc(Desc(v).String(), 120))
	}
}

func c01R17(c *Ctx) {
	const R = "C01-R17"
	c.Doc(R, "Resolver.verifyDNSSEC (with its closures and unexported helpers): the request handed to Resolver.subQuery — the fetch of the signer's DNSKEY RRset, every key of which is afterwards trusted for the signatures of the validated response — is a message allocated for the purpose whose dns.MsgHdr.CheckingDisabled is never written with anything but the constant false (no field store, no whole-header or whole-message copy, no callee that writes it, e.g. (*dns.Msg).SetReply): the sub-query must validate its own answer (answer → MatchDS), which it does exactly when CD is clear")
	top := c.fn(R, "middleware/resolver.(*Resolver).verifyDNSSEC")
	subQ := c.fobj(R, "middleware/resolver.(*Resolver).subQuery")
	cdF := c.field(R, "github.com/miekg/dns.MsgHdr.CheckingDisabled")
	hdrF := c.field(R, "github.com/miekg/dns.Msg.MsgHdr")
	if top == nil || subQ == nil || cdF == nil || hdrF == nil {
		return
	}
	subFn := c.P.SSA.FuncValue(subQ)
	key := R + "|" + fnKey(top) + "|the DNSKEY sub-query request keeps CD clear"
	var sites []ssa.Instruction
	for _, f := range scopeFuncs(top) {
		for _, in := range instrsWhere(f, isCallTo(subQ)) {
			if in.Parent() == f {
				sites = append(sites, in)
			}
		}
	}
	if len(sites) == 0 {
		c.unresolved(R, "verifyDNSSEC|subQuery", "no Resolver.subQuery call in verifyDNSSEC, its closures or its unexported helpers: the rule cannot see where the signer's keys are fetched")
		return
	}
	var bad []string
	var badAt ssa.Instruction
	var undec []string
	nFresh := 0
	for _, site := range sites {
		req := callArg(site, 2) // receiver, ctx, req
		if req == nil {
			undec = append(undec, "sub-query request argument not found")
			continue
		}
		var fresh []ssa.Value
		var other []string
		w4MsgRoots(c, req, map[ssa.Value]bool{}, 0, &fresh, &other)
		for _, o := range other {
			bad = append(bad, "the request is not a message built for the fetch but "+o+" (its CD bit is whatever that message carries)")
			if badAt == nil {
				badAt = site
			}
		}
		for _, root := range fresh {
			nFresh++
			t := &w4MsgTracker{c: c, field: cdF, hdr: hdrF, seen: map[ssa.Value]bool{},
				stopAt: func(f *ssa.Function) bool { return f == subFn }}
			t.visit(root, 0)
			for _, w := range t.writes {
				if w.ok {
					continue
				}
				where := fnKey(w.at.Parent())
				msg := "CheckingDisabled := " + w.what + " in " + where
				if strings.HasPrefix(w.what, "the whole") {
					msg = w.what + " in " + where
				}
				bad = append(bad, msg)
				if badAt == nil {
					badAt = w.at
				}
			}
		}
	}
	sort.Strings(bad)
	switch {
	case len(bad) > 0:
		c.violation(R, key, instrPos(badAt), "the DNSKEY sub-query of verifyDNSSEC can go out with CD set: "+strings.Join(w4c2DedupStrings(bad), "; ")+" — with CD=1 the sub-query's answer() skips validation, the DNSKEY RRset comes back as received, VerifyDSWithWork only needs SOME key to match the DS and then every key of the set (including one an on-path attacker appended) may sign the response under validation, e.g. the NSEC that \"proves\" a delegation insecure")
	case len(undec) > 0 || nFresh == 0:
		c.undecided(R, key, instrPos(sites[0]), "could not trace the sub-query request to its allocation: "+strings.Join(undec, "; "))
	default:
		c.ok(R, key, instrPos(sites[0]), "every request handed to subQuery is freshly allocated and its CD bit is never written")
	}
}

func w4c2DedupStrings(in []string) []string {
	var out []string
	for i, s := range in {
		if i == 0 || s != in[i-1] {
			out = append(out, s)
		}
	}
	return out
}
