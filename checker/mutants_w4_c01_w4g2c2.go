package main

// Regression mutants for W4 C01-w4g2c2 / C01-R17 (the DNSKEY sub-query of verifyDNSSEC inherits CD).
func init() {
	addMutants("C01", []Mutant{
		{ID: "c01-w4g2c2-keyfetch-mirrors-cd", File: "middleware/resolver/resolver.go", Expect: "C01-R17|",
			Old: "\tkeyReq.SetEdns0(dnsutil.DefaultMsgSize, true)\n\n\tvar msg *dns.Msg\n",
			New: "\tkeyReq.SetEdns0(dnsutil.DefaultMsgSize, true)\n\tkeyReq.CheckingDisabled = resp.CheckingDisabled\n\n\tvar msg *dns.Msg\n",
			Why: "seeded change: authenticatedDelegationDS validates its CD=1 DS response by hand with verifyDNSSEC; mirroring that CD onto the DNSKEY sub-query makes the key set come back unvalidated, and every key in it (incl. an attacker's appended one) may then sign the no-DS NSEC that downgrades a signed child to insecure"},
		{ID: "c01-w4g2c2-keyfetch-cd-for-ds-questions", File: "middleware/resolver/resolver.go", Expect: "C01-R17|",
			Old: "\tvar msg *dns.Msg\n\n\tq := resp.Question[0]\n\n\tif q.Qtype != dns.TypeDNSKEY || q.Name != signer {",
			New: "\tvar msg *dns.Msg\n\n\tq := resp.Question[0]\n\tkeyReq.CheckingDisabled = q.Qtype == dns.TypeDS\n\n\tif q.Qtype != dns.TypeDNSKEY || q.Name != signer {",
			Why: "variant: the same downgrade spelled through the question type — the hand-validated DS responses are exactly the ones whose key fetch would skip validation"},
	})
}
