package main

// Regression mutants that re-introduce the five defects repaired in /repo commits 79ae339, 6ca42b3,
// 1e32e6d, f81870b, 8a4bfad (found by review after red-team wave 3; see DESIGN §10).
func init() {
	addMutants("C01", []Mutant{
		{ID: "c01-dnskey-rrset-vouches-for-itself", File: "middleware/resolver/resolver.go", Expect: "C01-R12",
			Old: "\tif ok, err = dnssec.VerifyRRSIGWithWork(signer, verifyKeys, resp, r.dnssecWork(ctx)); err != nil {", New: "\t_ = verifyKeys\n\tif ok, err = dnssec.VerifyRRSIGWithWork(signer, keys, resp, r.dnssecWork(ctx)); err != nil {",
			Why: "F-C01-3: any key in the DNSKEY response may sign the response"},
		{ID: "c01-root-reply-chain-unanchored-answer", File: "middleware/resolver/resolver.go", Expect: "C01-R13|answer",
			Old: "\t\tparentDS, err = r.chainStartDS(ctx, parentDS, zone)\n\t\tif err != nil {\n\t\t\treturn nil, err\n\t\t}\n\n\t\tsigners := r.findRRSIGSigners(resp, q.Name, true)", New: "\t\tsigners := r.findRRSIGSigners(resp, q.Name, true)",
			Why: "F-C01-4 (positive answers)"},
		{ID: "c01-root-reply-chain-unanchored-authority", File: "middleware/resolver/resolver.go", Expect: "C01-R13|authority",
			Old: "\t\tvar err error\n\t\tparentDS, err = r.chainStartDS(ctx, parentDS, zone)\n\t\tif err != nil {\n\t\t\treturn nil, err\n\t\t}\n\n\t\tsigners := r.findRRSIGSigners(resp, q.Name, false)", New: "\t\tsigners := r.findRRSIGSigners(resp, q.Name, false)",
			Why: "F-C01-4 (negative replies)"},
	})
	addMutants("C02", []Mutant{
		{ID: "c02-ent-counts-as-covered", File: "middleware/resolver/dnssec/nsec.go", Expect: "C02-R11",
			Old: "\tif nsecNextBelow(next, name) {\n\t\treturn false\n\t}\n\n", New: "",
			Why: "F-C02-1: NXDOMAIN for an empty non-terminal validates"},
		{ID: "c02-ent-test-ignored", File: "middleware/resolver/dnssec/nsec.go", Expect: "C02-R11",
			Old: "\tif nsecNextBelow(next, name) {\n\t\treturn false\n\t}\n\n", New: "\tif nsecNextBelow(next, name) && owner == \"\" {\n\t\treturn false\n\t}\n\n"},
	})
	addMutants("C07", []Mutant{
		{ID: "c07-answer-section-not-scrubbed", File: "middleware/resolver/resolver.go", Expect: "C07-R9",
			Old: "\tif len(resp.Answer) > 0 && rs.servers.Zone != rootzone {\n\t\tresp.Answer = dnsutil.FilterRRsToZone(resp.Answer, rs.servers.Zone)\n\t}\n", New: "",
			Why: "F-C07-1"},
		{ID: "c07-answer-scrubbed-only-when-minimized", File: "middleware/resolver/resolver.go", Expect: "C07-R9",
			Old: "\tif len(resp.Answer) > 0 && rs.servers.Zone != rootzone {\n\t\tresp.Answer = dnsutil.FilterRRsToZone(resp.Answer, rs.servers.Zone)", New: "\tif len(resp.Answer) > 0 && rs.servers.Zone != rootzone && minimized {\n\t\tresp.Answer = dnsutil.FilterRRsToZone(resp.Answer, rs.servers.Zone)"},
		{ID: "c07-dname-nodata-keeps-outer-sections", File: "middleware/resolver/resolver.go", Expect: "C07-R6",
			Old: "\t\t\ttargetAuthority := append([]dns.RR(nil), targetMsg.Ns...)\n\t\t\tresp = r.clearAdditional(req, resp, extra...)\n\t\t\tresp.Ns = targetAuthority\n\t\t\treturn resp, nil\n\t\t}\n\t}\n", New: "\t\t\tresp.Ns = append(resp.Ns, targetMsg.Ns...)\n\t\t\treturn resp, nil\n\t\t}\n\t}\n",
			Why: "F-C07-2"},
	})
}

func init() {
	addMutants("C15", []Mutant{
		{ID: "c15-pooled-window-not-cleared", File: "internal/wire/pack.go", Expect: "C15-R8",
			Old: "\tout := state.buf[:min(size+1, len(state.buf))]\n\tclear(out)\n", New: "\tout := state.buf[:min(size+1, len(state.buf))]\n",
			Why: "F-C15-1: octets the library skips show the previous message"},
	})
}
