package main

// Finding F-C01-9: the cache's alias chase (Cache.additionalAnswer) resolves the
// target of a CNAME with a sub-query through the internal pipeline.  The verdict
// of validation for that sub-query reaches the chase in exactly one form: the
// sub-reply's rcode (DNSHandler turns every validation error into SERVFAIL + EDE;
// Queryer.Query hands that message back with err == nil).  The chase looked at the
// sub-reply's sections, at NXDOMAIN and at a validated NODATA proof — never at
// SERVFAIL — and handed the alias message it had been given back to the caller:
// NOERROR, AD=1, CNAME only, for a target whose answer is bogus.
//
//   C01-R21  in every function of middleware/cache that issues a sub-query with
//       (*Cache).internalExchange: from that call no return that hands back the
//       function's own *dns.Msg parameter (the outer reply) is reachable unless
//       the path
//         - knows the sub-reply's rcode is not SERVFAIL (the false edge of
//           `reply.Rcode == RcodeServerFailure`, the true edge of `reply.Rcode ==
//           k` for another constant k, the corresponding edge of a test on
//           dnsutil.ClassifyResponse(reply), or the same test inside an
//           unexported helper — engine summaries), or
//         - is the one on which there is no sub-reply to look at (error result
//           non-nil / reply nil: the request-local and unwired-queryer route,
//           outside this rule), or
//         - stored SERVFAIL into a message's rcode itself.
//       A single-exit spelling (`out = msg … return out`) is followed through the
//       phi at the exit: the edges that carry the parameter are the targets.
//
// Path structure only; nothing is executed.  Not decided: what the failure reply
// looks like (EDE carried or not) and the err != nil route (left as is by the fix).

import (
	"go/constant"
	"go/token"
	"go/types"

	"golang.org/x/tools/go/ssa"
)

func init() {
	wrap := func(id string, extra func(c *Ctx), explain string) {
		pd := props[id]
		if pd == nil {
			return
		}
		orig := pd.Run
		pd.Run = func(c *Ctx) { orig(c); extra(c) }
		pd.Explanation += " " + explain
	}
	wrap("C01", fC019ChaseFailure, "R21 (added, F-C01-9): the validation verdict of the alias chase's sub-query reaches the cache only as rcode SERVFAIL of the sub-reply, so a function that issues a sub-query with Cache.internalExchange hands its own (outer) message back only on paths that tested that rcode for SERVFAIL (or had no sub-reply at all); otherwise a CNAME whose target is bogus is answered NOERROR, AD=1 with the lone alias.")
}

func fC019ChaseFailure(c *Ctx) {
	const R = "C01-R21"
	const cp = "middleware/cache"
	const what = "outer reply handed back after a chase sub-query only once the sub-reply's rcode was tested for SERVFAIL"
	c.Doc(R, "every function of middleware/cache that calls (*Cache).internalExchange: from the call, a return of the function's own *dns.Msg parameter is reachable only across `sub-reply.Rcode != SERVFAIL` (false edge of == RcodeServerFailure, true edge of == another rcode constant, the ClassifyResponse equivalent, or the same test in an unexported helper), across the no-sub-reply edges (err != nil, reply == nil), or after a store of SERVFAIL into a message's rcode — the sub-query's validation failure is visible to the chase only as that rcode")
	ie := c.fobj(R, cp+".(*Cache).internalExchange")
	rcodeF := c.field(R, "github.com/miekg/dns.MsgHdr.Rcode")
	classify := c.fobj(R, "internal/dnsutil.ClassifyResponse")
	if ie == nil || rcodeF == nil {
		return
	}
	servfail := int64(2)
	if v := c.P.ConstVal("github.com/miekg/dns.RcodeServerFailure"); v != nil {
		if n, ok := constant.Int64Val(v); ok {
			servfail = n
		}
	} else {
		c.unresolved(R, "github.com/miekg/dns.RcodeServerFailure", "constant not found")
		return
	}
	isReply := ResultOf(0, ie)
	// a read of the sub-reply's rcode
	replyRcode := func(e *Expr) bool {
		e = strip(e)
		return e != nil && e.K == EField && FieldIs(rcodeF)(e) && e.X != nil && Contains(isReply)(e.X)
	}
	otherRcodeConst := func(e *Expr) bool {
		e = strip(e)
		if e == nil || e.K != EConst || e.Val == nil || e.Val.Kind() != constant.Int {
			return false
		}
		n, ok := constant.Int64Val(e.Val)
		return ok && n != servfail
	}
	bars := []Barrier{
		OnCmp("sub-reply.Rcode==SERVFAIL is false", replyRcode, token.EQL, IsConstInt(servfail), false),
		OnCmp("sub-reply.Rcode==<other rcode> is true", replyRcode, token.EQL, otherRcodeConst, true),
		OnTrue("sub-query error", ResultOf(2, ie)),
		OnFalse("sub-reply", isReply),
		StoreBarrier("Rcode←SERVFAIL", rcodeF, IsConstInt(servfail)),
	}
	if classify != nil {
		if tv := c.P.ConstVal("internal/dnsutil.TypeServerFailure"); tv != nil {
			if tn, ok := constant.Int64Val(tv); ok {
				classOfReply := func(e *Expr) bool {
					if !ResultOf(0, classify)(e) {
						return false
					}
					e = strip(e)
					if e.K == EExtract {
						e = strip(e.X)
					}
					return e != nil && len(e.Args) > 0 && Contains(isReply)(e.Args[0])
				}
				bars = append(bars, OnCmp("ClassifyResponse(sub-reply)==TypeServerFailure is false", classOfReply, token.EQL, IsConstInt(tn), false))
			}
		}
	}

	// `if out := failedChase(msg, reply, err); out != nil { return out }`: an unexported
	// helper that builds the failure reply and returns nil otherwise.  On the nil edge
	// of its result the test was made when every return of the helper that can be
	// reached without crossing the barriers above hands out a value that is never nil
	// (a fresh allocation, or the result of a function all of whose returns are one).
	base := append([]Barrier{}, bars...)
	bars = append(bars, Barrier{Name: "failure-reply helper returned nil", Edge: func(cond *Expr) (bool, int) {
		a, pol := Truthy(cond)
		a = strip(a)
		if a == nil || a.K != ECall {
			return false, 0
		}
		call, ok := a.V.(*ssa.Call)
		if !ok {
			return false, 0
		}
		h := localHelper(call.Parent(), &call.Call)
		if h == nil || h.Signature.Results().Len() != 1 || !fC019IsDNSMsgPtr(h.Signature.Results().At(0).Type()) {
			return false, 0
		}
		hc := &helperCtx{always: map[helperKey]int{}, implies: map[helperKey]int{}, act: map[*ssa.Function][]*Expr{}}
		args := hc.callArgsIn(&call.Call, call.Parent())
		passesReply := false
		for _, x := range args {
			if x != nil && Contains(isReply)(x) {
				passesReply = true
			}
		}
		if !passesReply {
			return false, 0
		}
		hc.act[h] = args
		r := reachH(entryPoint(h), base, nil, hc)
		nret := 0
		for _, in := range r.order {
			ret, isRet := in.(*ssa.Return)
			if !isRet || in.Parent() != h || len(ret.Results) != 1 {
				continue
			}
			nret++
			if !fC019NeverNil(ret.Results[0], 0) {
				return false, 0
			}
		}
		if nret == 0 {
			return false, 0 // the helper never hands out a reply without the test: not this shape
		}
		// helper result falsy (nil): the condition has value !pol
		if !pol {
			return true, 0
		}
		return true, 1
	}})

	// the functions that issue the sub-query
	seen := map[*ssa.Function]bool{}
	var fns []*ssa.Function
	for _, f := range c.P.FuncsInPkg(cp) {
		for _, in := range instrsWhere(f, isCallTo(ie)) {
			if in.Parent() != f {
				continue
			}
			top := TopLevel(f)
			if !seen[top] {
				seen[top] = true
				fns = append(fns, top)
			}
		}
	}
	n := 0
	for _, fn := range fns {
		// the outer message: *dns.Msg parameters of fn
		var params []ssa.Value
		for _, p := range fn.Params {
			if fC019IsDNSMsgPtr(p.Type()) {
				params = append(params, p)
			}
		}
		if len(params) == 0 {
			continue // no outer message is handed in (a pure exchange wrapper)
		}
		fromParam := func(v ssa.Value) bool {
			for _, o := range Origins(Desc(v), nil) {
				o = strip(o)
				if o == nil || o.K != EParam {
					continue
				}
				for _, p := range params {
					if o.V == p {
						return true
					}
				}
			}
			return false
		}
		targets := map[ssa.Instruction]bool{}
		for _, f := range WithAnons(fn) {
			if f != fn {
				continue // a closure's return is not fn's
			}
			for _, b := range f.Blocks {
				for _, in := range b.Instrs {
					ret, ok := in.(*ssa.Return)
					if !ok {
						continue
					}
					for _, res := range ret.Results {
						if !fC019IsDNSMsgPtr(res.Type()) {
							continue
						}
						if ph, ok := res.(*ssa.Phi); ok && ph.Block() == b {
							// single exit: the edges that carry the parameter
							for k, e := range ph.Edges {
								if k < len(b.Preds) && fromParam(e) {
									pb := b.Preds[k]
									if len(pb.Instrs) > 0 {
										targets[pb.Instrs[len(pb.Instrs)-1]] = true
									}
								}
							}
							continue
						}
						if fromParam(res) {
							targets[in] = true
						}
					}
				}
			}
		}
		if len(targets) == 0 {
			c.undecided(R, R+"|"+fnKey(fn)+"|"+what, fn.Pos(), "the function issues a chase sub-query and takes a message, but no return of that message was found: cannot tell where the outer reply leaves")
			n++
			continue
		}
		n += c.MustCrossFrom(R, fn, what, func(in ssa.Instruction) bool {
			return in.Parent() == fn && isCallTo(ie)(in)
		}, func(in ssa.Instruction) bool { return targets[in] }, bars...)
	}
	if n == 0 {
		c.unresolved(R, "internalExchange|callers", "no function of middleware/cache issues a sub-query with a message parameter (rule would pass vacuously)")
	}
	c.Floor(R, 1)
}

func fC019IsDNSMsgPtr(t types.Type) bool {
	p, ok := t.(*types.Pointer)
	if !ok {
		return false
	}
	nm, ok := p.Elem().(*types.Named)
	if !ok || nm.Obj() == nil || nm.Obj().Pkg() == nil {
		return false
	}
	return nm.Obj().Name() == "Msg" && nm.Obj().Pkg().Path() == "github.com/miekg/dns"
}

// fC019NeverNil: v is a fresh allocation, or the result of a static call to a function all of
// whose returns are (depth-limited; phis need every operand).
func fC019NeverNil(v ssa.Value, d int) bool {
	if d > 3 {
		return false
	}
	switch x := v.(type) {
	case *ssa.Alloc:
		return true
	case *ssa.Phi:
		for _, e := range x.Edges {
			if !fC019NeverNil(e, d+1) {
				return false
			}
		}
		return len(x.Edges) > 0
	case *ssa.Call:
		f := x.Call.StaticCallee()
		if x.Call.IsInvoke() || f == nil || len(f.Blocks) == 0 || f.Signature.Results().Len() != 1 {
			return false
		}
		n := 0
		for _, b := range f.Blocks {
			for _, in := range b.Instrs {
				if ret, ok := in.(*ssa.Return); ok {
					n++
					if len(ret.Results) != 1 || !fC019NeverNil(ret.Results[0], d+1) {
						return false
					}
				}
			}
		}
		return n > 0
	}
	return false
}
