package main

// C08-R10 (finding F-C08-1) — the 12 h hold ceiling is part of the lease
// itself, not of one of its consumers.
//
// minCut is the single gateway through which cut deadlines are produced
// (C08-R2/R3/R4: the delegation cache, the request tree's bound — and through
// it every answer-cache entry, sub-query entry, NXDOMAIN cut, denial proof —
// and every deeper delegation of the descent receive minCut results only).
// authority.Cache.SetUntil clamps what IT stores to now+maximumTTL, but the
// other consumers take the deadline as it is.  So a deadline that is derived
// from a TTL — <instant>.Add(d) with a non-constant d — must already carry
// the ceiling when it is handed to minCut: the minimum it is folded into has
// a term <instant>.Add(K) with K a constant, 0 < K <= authority.maximumTTL.
// Decided with the shape-independent min-fold analysis the C08 rules already
// use (phi / compare-and-assign, helper that lowers a parameter, builtin min);
// X.Add(min(a, b)) is read as min(X.Add(a), X.Add(b)), minNonZero(a, b) as the
// pair a, b.

import (
	"fmt"
	"go/constant"
	"go/types"
)

func init() {
	wrap := func(id string, extra func(c *Ctx), explain string) {
		pd := props[id]
		if pd == nil {
			return
		}
		orig := pd.Run
		pd.Run = func(c *Ctx) { orig(c); extra(c) }
		pd.Explanation += " " + explain
	}
	wrap("C08", c08R10, "R10 (F-C08-1): every deadline handed to minCut that is derived from a TTL (<instant>.Add(non-constant)) is folded, as a minimum, with <instant>.Add(K), K a constant <= authority.maximumTTL — the 12 h ceiling bounds the cut the answer cache and deeper delegations inherit, not only what the delegation cache stores.")
}

// c08SplitMinTerms refines the candidates of a minimum:
//   - X.Add(min(a, b, …)) is the candidates X.Add(a), X.Add(b), … (Add is
//     monotone in its duration);
//   - minNonZero(a, b) is the candidates a, b — minNonZero is the pairwise
//     minimum in the algebra the cut deadlines live in (zero = unbounded;
//     C08-R3 decides that it returns the not-later non-zero argument), the
//     same algebra minCut applies to the result.
//
// Other expressions are returned unchanged.
func c08SplitMinTerms(es []*Expr, timeAdd, minNonZero *types.Func) []*Expr {
	var out []*Expr
	for _, e := range es {
		s := strip(e)
		if s != nil && CallTo(timeAdd)(s) && len(s.Args) == 2 {
			if d := strip(s.Args[1]); x5IsBuiltinCall(d, "min") && len(d.Args) >= 2 {
				for _, a := range d.Args {
					cp := *s
					cp.Args = []*Expr{s.Args[0], a}
					out = append(out, c08SplitMinTerms([]*Expr{&cp}, timeAdd, minNonZero)...)
				}
				continue
			}
		}
		if s != nil && s.K == ECall && minNonZero != nil && CallTo(minNonZero)(s) && len(s.Args) == 2 {
			out = append(out, c08SplitMinTerms(s.Args, timeAdd, minNonZero)...)
			continue
		}
		out = append(out, e)
	}
	return out
}

func c08R10(c *Ctx) {
	const R = "C08-R10"
	const rp = "middleware/resolver"
	c.Doc(R, "for every call of minCut in middleware/resolver and each of its two deadline arguments: if the minimum that argument is folded from has a candidate <instant>.Add(d) with a non-constant d (a deadline derived from a record's TTL), it also has a candidate <instant>.Add(K) with K constant, 0 < K <= authority.maximumTTL. SetUntil clamps only what the delegation cache stores; the same minCut result bounds the request tree (answer cache, sub-query entries, NXDOMAIN cuts, denial proofs) and rs.cutDeadline (deeper delegations), which would otherwise keep what was learned through a delegation for the raw referral TTL (172800 s for a TLD) after the delegation itself is gone at 12 h")
	minCut := c.fobj(R, rp+".minCut")
	timeAdd := c.fobj(R, "time.Time.Add")
	minNonZero := c.fobj(R, rp+".minNonZero")
	maxV := c.P.ConstVal("internal/authority.maximumTTL")
	if minCut == nil || timeAdd == nil {
		return
	}
	if maxV == nil {
		c.unresolved(R, "internal/authority.maximumTTL", "constant not found")
		return
	}
	maxTTL, ok := constant.Int64Val(constant.ToInt(maxV))
	if !ok || maxTTL <= 0 {
		c.unresolved(R, "internal/authority.maximumTTL", "not a positive integer constant")
		return
	}
	n := 0
	for _, fn := range c.P.FuncsInPkg(rp) {
		for _, b := range fn.Blocks {
			for _, in := range b.Instrs {
				if !isPlainCallTo(minCut)(in) {
					continue
				}
				for _, idx := range []int{0, 2} {
					v := callArg(in, idx)
					if v == nil || !c08IsTime(v.Type()) {
						continue
					}
					terms, probs, _ := c.c08FoldCore([]c08Alt{{Val: v, At: in}}, c08FoldOpt{Producers: true})
					leaves := c08SplitMinTerms(c08TermExprs(terms), timeAdd, minNonZero)
					var derived, ceilings []*Expr
					for _, l := range leaves {
						s := strip(l)
						if s == nil || !CallTo(timeAdd)(s) || len(s.Args) != 2 {
							continue
						}
						if k, isK := constInt(s.Args[1]); isK {
							if k > 0 && k <= maxTTL {
								ceilings = append(ceilings, l)
							}
							continue
						}
						derived = append(derived, l)
					}
					if len(derived) == 0 {
						continue
					}
					n++
					key := fmt.Sprintf("%s|%s|TTL-derived deadline carries the hold ceiling into minCut", R, fnKey(TopLevel(fn)))
					switch {
					case len(probs) > 0:
						c.undecided(R, key, instrPos(in), "the deadline handed to minCut is not a decided minimum: "+probs[0].Msg)
					case len(ceilings) > 0:
						c.ok(R, key, instrPos(in), fmt.Sprintf("minimum of {%s} includes the ceiling %s", trunc(c08ExprList(leaves), 300), trunc(c08ExprList(ceilings), 120)))
					default:
						c.violation(R, key, instrPos(in), fmt.Sprintf("the deadline handed to minCut is the minimum of {%s}: derived from a TTL, with no candidate <instant>.Add(K), 0 < K <= authority.maximumTTL (%d ns). authority.Cache.SetUntil clamps only its own copy; this minCut result also becomes the request tree's cut (noteCut → answer cache, sub-query entries, NXDOMAIN cuts, denial proofs) and rs.cutDeadline (deeper delegations), so what is learned through the delegation stays servable for the raw referral TTL after the delegation expired at the ceiling", trunc(c08ExprList(leaves), 300), maxTTL))
					}
				}
			}
		}
	}
	if n == 0 {
		c.unresolved(R, "minCut|TTL-derived argument", "no minCut call receives a deadline derived from a TTL any more: the lease computation has moved, re-anchor the rule")
	}
}
