package main

// F-C01-5 / C01-R14 — a DS RRset that was looked up is a link of the chain only
// when the lookup came back authenticated.
//
// verifyDNSSEC takes the DS set it is handed as the trust root: the DNSKEY the
// set names verifies the DNSKEY RRset, and that RRset verifies the data.  The
// set is therefore either inherited (the caller's own, already validated
// parentDS / the root anchors) or FETCHED: dnsutil.ExtractRRSet(m.Answer, …,
// TypeDS) of a message m that Resolver.lookupDS returned.  A validating
// sub-resolution may end "insecure" (it crossed a proven insecure delegation)
// and then hands back whatever the unsigned zone publishes, with AD clear.
//
//   In every function of package resolver, a fetched DS set reaches an exit of
//   the function (any return operand, or the DS argument of verifyDNSSEC) only
//   across one of
//     (a) the true edge of m.AuthenticatedData of the SAME response,
//     (b) the ok edge of verifyDNSSEC(…, m, …) over the same response (the
//         function validates the response itself — authenticatedDelegationDS),
//     (c) an edge on which the set is empty (len == 0: nothing to trust),
//     (d) the true edge of the function's own checking-disabled parameter that
//         was forwarded to lookupDS (the request opted out of validation),
//     (e) the true edge of `p == ""` for a string parameter p of the function:
//         the chain-probing mode of findDS, whose result only decides
//         signed-versus-unsigned (isZoneSecure) or is carried for a CD=1 walk.
//   The flow is followed backwards from the exit through phis, local cells and
//   same-package unexported helpers (their parameters read as the call's
//   arguments), judging every merge edge separately, so `set = nil` on the
//   unauthenticated edge, an early return, an inverted condition or a guard
//   moved into a helper are all the same thing to the rule.
//
//   The two modes (d) and (e) are closed at the call sites of such a function:
//     (d') a checking-disabled argument is the constant false, lies behind the
//          true edge of <msg>.CheckingDisabled, or is the caller's own forwarded
//          parameter (then its callers are judged);
//     (e') an argument for p that is the constant "" yields a result that is no
//          origin of a verifyDNSSEC DS argument in the caller; any other
//          argument lies behind the nil edge of dnssec.ValidateSigner(arg, …);
//     (e'') dnssec.ValidateSigner returns nil only across signer != "".
//
// Known limit: the function that fetches is the one judged.  A helper that only
// does "lookup + ExtractRRSet" and returns the raw set, with the AuthenticatedData
// test left in its caller, is reported (at the helper).  Guard in a helper, or
// guard and fetch together in a helper, are followed.
//
// Nothing is executed; no names or records are looked at.

import (
	"fmt"
	"go/constant"
	"go/token"
	"go/types"
	"sort"

	"golang.org/x/tools/go/ssa"
)

func init() {
	wrap := func(id string, extra func(c *Ctx), explain string) {
		pd := props[id]
		if pd == nil {
			return
		}
		orig := pd.Run
		pd.Run = func(c *Ctx) { orig(c); extra(c) }
		pd.Explanation += " " + explain
	}
	wrap("C01", c01R14, "R14 (added): a DS RRset extracted from a lookupDS response leaves the function that fetched it (return / verifyDNSSEC trust root) only across that response's AuthenticatedData=true, an in-place verifyDNSSEC of the response, an empty set, the caller's CD opt-out, or the chain-probing mode — an unauthenticated DS published below an insecure delegation never becomes the root of a validation that ends in AD=1.")
}

func c01R14(c *Ctx) {
	const R = "C01-R14"
	const res = "middleware/resolver"
	c.Doc(R, "package resolver: a DS RRset taken from the Answer of a lookupDS response reaches a return / the DS (trust-root) argument of verifyDNSSEC only across (a) that response's AuthenticatedData = true, (b) verifyDNSSEC over that response = ok, (c) an empty set, (d) the function's forwarded checking-disabled parameter = true, (e) the probing mode `p == \"\"`; (d) is entered only for CD=1 requests, (e) never feeds verifyDNSSEC and a non-constant p is behind ValidateSigner, which refuses \"\". RFC 4035 §5.2: only an authenticated DS RRset links a child zone to the chain")
	lookup := c.fobj(R, res+".(*Resolver).lookupDS")
	verify := c.fobj(R, res+".(*Resolver).verifyDNSSEC")
	extract := c.fobj(R, "internal/dnsutil.ExtractRRSet")
	validate := c.fobj(R, res+"/dnssec.ValidateSigner")
	validateFn := c.fn(R, res+"/dnssec.ValidateSigner")
	answerF := c.field(R, "github.com/miekg/dns.Msg.Answer")
	adF := c.field(R, "github.com/miekg/dns.MsgHdr.AuthenticatedData")
	cdF := c.field(R, "github.com/miekg/dns.MsgHdr.CheckingDisabled")
	dsType := c.P.ConstVal("github.com/miekg/dns.TypeDS")
	if lookup == nil || verify == nil || extract == nil || validate == nil || validateFn == nil || answerF == nil || adF == nil || cdF == nil || dsType == nil {
		if dsType == nil {
			c.unresolved(R, "dns.TypeDS", "constant not found")
		}
		return
	}
	dsNum, _ := constant.Int64Val(dsType)

	mentions := func(e *Expr, v ssa.Value) bool {
		return Contains(func(x *Expr) bool { return x != nil && x.V == v })(e)
	}
	isEmptyStr := func(e *Expr) bool {
		e = strip(e)
		return e != nil && e.K == EConst && e.Val != nil && e.Val.Kind() == constant.String && constant.StringVal(e.Val) == ""
	}
	isString := func(t types.Type) bool {
		b, ok := t.Underlying().(*types.Basic)
		return ok && b.Info()&types.IsString != 0
	}
	isBool := func(t types.Type) bool {
		b, ok := t.Underlying().(*types.Basic)
		return ok && b.Info()&types.IsBoolean != 0
	}
	// the position of verifyDNSSEC's DS parameter (receiver = argument 0)
	dsArg := -1
	{
		sig := verify.Type().(*types.Signature)
		for i := 0; i < sig.Params().Len(); i++ {
			if _, ok := sig.Params().At(i).Type().Underlying().(*types.Slice); ok {
				dsArg = i + 1
			}
		}
	}
	if dsArg < 0 {
		c.unresolved(R, "verifyDNSSEC|DS parameter", "no slice parameter found")
		return
	}

	// ---- sources: ExtractRRSet(<lookupDS result>.Answer, _, TypeDS) --------------------
	type source struct {
		ext    *ssa.Call // the extraction
		lookup *ssa.Call // the lookupDS call whose response is read
		fn     *ssa.Function
	}
	var sources []source
	for _, f := range c.P.FuncsInPkg(res) {
		for _, in := range instrsWhere(f, isPlainCallTo(extract)) {
			if in.Parent() != f {
				continue
			}
			cl, ok := in.(*ssa.Call)
			if !ok || len(cl.Call.Args) < 3 {
				continue
			}
			if !Contains(IsConstInt(dsNum))(Desc(cl.Call.Args[2])) {
				continue
			}
			var lk *ssa.Call
			Contains(func(x *Expr) bool {
				x = strip(x)
				if x == nil || x.K != EField || x.Var != answerF {
					return false
				}
				return Contains(func(y *Expr) bool {
					if y != nil && y.K == ECall && sameFunc(y.Fn, lookup) {
						if v, ok := y.V.(*ssa.Call); ok && lk == nil {
							lk = v
						}
						return true
					}
					return false
				})(x.X)
			})(Desc(cl.Call.Args[0]))
			if lk == nil {
				continue
			}
			sources = append(sources, source{ext: cl, lookup: lk, fn: f})
		}
	}
	if len(sources) == 0 {
		c.unresolved(R, "resolver|fetched DS sets", "no ExtractRRSet(<lookupDS response>.Answer, …, TypeDS) found (rule would pass vacuously)")
		return
	}

	// activation of a helper: its parameters read as the call's arguments
	type actx struct {
		fn     *ssa.Function
		args   []*Expr     // in the fetcher's terms; nil at the top
		vals   []ssa.Value // the call's argument values
		parent *actx
	}

	type modeUse struct {
		cdParam     *ssa.Parameter
		probeParams map[*ssa.Parameter]bool
	}
	modes := map[*ssa.Function]*modeUse{}

	barsFor := func(s source, top *ssa.Function, x *actx) []Barrier {
		sub := func(e *Expr) *Expr {
			if x != nil && x.args != nil {
				return inActivation(e, x.args)
			}
			return e
		}
		var bars []Barrier
		bars = append(bars, OnTrue("response.AuthenticatedData", func(e *Expr) bool {
			e = strip(sub(e))
			return e != nil && e.K == EField && e.Var == adF && mentions(e.X, s.lookup)
		}))
		bars = append(bars, OnTrue("verifyDNSSEC(response)", func(e *Expr) bool {
			e = strip(sub(e))
			if e == nil || e.K != EExtract || e.Idx != 0 {
				return false
			}
			call := strip(e.X)
			if call == nil || call.K != ECall || !sameFunc(call.Fn, verify) {
				return false
			}
			for _, a := range call.Args {
				if mentions(a, s.lookup) {
					return true
				}
			}
			return false
		}))
		lenOf := func(e *Expr) bool {
			e = strip(sub(e))
			return e != nil && e.K == ECall && e.Method == "builtin.len" && len(e.Args) == 1 && mentions(e.Args[0], s.ext)
		}
		bars = append(bars,
			OnCmp("len(DS) > 0 fails", lenOf, token.GTR, IsConstInt(0), false),
			OnCmp("len(DS) == 0", lenOf, token.EQL, IsConstInt(0), true))
		mu := modes[top]
		if mu == nil {
			mu = &modeUse{probeParams: map[*ssa.Parameter]bool{}}
			modes[top] = mu
		}
		// (d) the function's own boolean parameter that was forwarded to lookupDS as cd
		if len(s.lookup.Call.Args) >= 4 {
			if p, ok := s.lookup.Call.Args[3].(*ssa.Parameter); ok && p.Parent() == top && isBool(p.Type()) {
				bars = append(bars, OnTrue("checking disabled by the caller ("+p.Name()+")", func(e *Expr) bool {
					e = strip(sub(e))
					return e != nil && e.K == EParam && e.V == ssa.Value(p)
				}))
				mu.cdParam = p
			}
		}
		// (e) probing mode
		for _, p := range top.Params {
			if !isString(p.Type()) {
				continue
			}
			p := p
			b := OnCmp(p.Name()+` == ""`, func(e *Expr) bool {
				e = strip(sub(e))
				return e != nil && e.K == EParam && e.V == ssa.Value(p)
			}, token.EQL, isEmptyStr, true)
			if len(edgePoints(top, b)) > 0 {
				mu.probeParams[p] = true
				bars = append(bars, b)
			}
		}
		return bars
	}

	// flowsUnguarded: can the source value arrive at v without having crossed a barrier?
	type seenKey struct {
		v  ssa.Value
		fn *ssa.Function
	}
	var flows func(s source, top *ssa.Function, v ssa.Value, guarded bool, x *actx, depth int, seen map[seenKey]bool) (bool, string)
	flows = func(s source, top *ssa.Function, v ssa.Value, guarded bool, x *actx, depth int, seen map[seenKey]bool) (bool, string) {
		if guarded || v == nil || depth > 40 {
			return false, ""
		}
		cur := top
		if x != nil {
			cur = x.fn
		}
		k := seenKey{v, cur}
		if seen[k] {
			return false, ""
		}
		seen[k] = true
		bars := barsFor(s, top, x)
		descend := func(call *ssa.Call, idx int) (bool, string) {
			h := localHelper(cur, &call.Call)
			if h == nil || depth > 30 {
				return false, ""
			}
			n := 0
			for a := x; a != nil; a = a.parent {
				n++
				if a.fn == h {
					return false, ""
				}
			}
			if n >= 3 {
				return false, ""
			}
			hx := &actx{fn: h, parent: x, vals: call.Call.Args}
			for _, a := range call.Call.Args {
				e := Desc(a)
				if x != nil && x.args != nil {
					e = inActivation(e, x.args)
				}
				hx.args = append(hx.args, e)
			}
			hb := barsFor(s, top, hx)
			for _, b := range h.Blocks {
				for _, in := range b.Instrs {
					ret, ok := in.(*ssa.Return)
					if !ok || idx >= len(ret.Results) {
						continue
					}
					ug, _ := c.unguarded(ret, hb, h)
					if bad, tr := flows(s, top, ret.Results[idx], !ug, hx, depth+1, seen); bad {
						return true, tr + " → returned by " + h.Name()
					}
				}
			}
			return false, ""
		}
		switch t := v.(type) {
		case *ssa.Phi:
			for i, e := range t.Edges {
				g := c01EdgeGuarded(c, t.Block().Preds[i], t.Block(), bars, cur, 0)
				if bad, tr := flows(s, top, e, g, x, depth+1, seen); bad {
					return true, tr
				}
			}
		case *ssa.Call:
			if t == s.ext {
				if ug, tr := c.unguarded(t, bars, cur); ug {
					return true, tr
				}
				return false, ""
			}
			return descend(t, 0)
		case *ssa.Extract:
			if call, ok := t.Tuple.(*ssa.Call); ok {
				return descend(call, t.Index)
			}
		case *ssa.Parameter:
			if x != nil {
				for i, p := range x.fn.Params {
					if p == t && i < len(x.vals) {
						return flows(s, top, x.vals[i], false, x.parent, depth+1, seen)
					}
				}
			}
		case *ssa.Slice:
			return flows(s, top, t.X, false, x, depth+1, seen)
		case *ssa.ChangeType:
			return flows(s, top, t.X, false, x, depth+1, seen)
		case *ssa.Convert:
			return flows(s, top, t.X, false, x, depth+1, seen)
		case *ssa.MakeInterface:
			return flows(s, top, t.X, false, x, depth+1, seen)
		case *ssa.UnOp:
			if t.Op != token.MUL {
				return false, ""
			}
			if a, ok := t.X.(*ssa.Alloc); ok && a.Referrers() != nil {
				for _, r := range *a.Referrers() {
					st, ok := r.(*ssa.Store)
					if !ok || st.Addr != ssa.Value(a) {
						continue
					}
					ug, _ := c.unguarded(st, bars, cur)
					if bad, tr := flows(s, top, st.Val, !ug, x, depth+1, seen); bad {
						return true, tr
					}
				}
			}
		}
		return false, ""
	}

	// ---- (A) per fetching function -----------------------------------------------------
	byFn := map[*ssa.Function][]source{}
	var fns []*ssa.Function
	for _, s := range sources {
		if byFn[s.fn] == nil {
			fns = append(fns, s.fn)
		}
		byFn[s.fn] = append(byFn[s.fn], s)
	}
	sort.Slice(fns, func(i, j int) bool { return fnKey(fns[i]) < fnKey(fns[j]) })
	for _, f := range fns {
		key := fmt.Sprintf("%s|%s|a fetched DS set leaves the function only authenticated", R, fnKey(f))
		if f.Parent() != nil {
			c.undecided(R, key, f.Pos(), "the DS set is fetched inside a closure: the flow to the enclosing function's exits is not followed")
			continue
		}
		bad := ""
		var badAt ssa.Instruction
		nsink := 0
		for _, s := range byFn[f] {
			bars := barsFor(s, f, nil)
			for _, b := range f.Blocks {
				for _, in := range b.Instrs {
					var vals []ssa.Value
					what := ""
					switch t := in.(type) {
					case *ssa.Return:
						vals, what = t.Results, "returned"
					case *ssa.Call:
						if callIs(&t.Call, verify) && dsArg < len(t.Call.Args) {
							vals, what = []ssa.Value{t.Call.Args[dsArg]}, "handed to verifyDNSSEC as the trust root"
						}
					}
					if len(vals) == 0 {
						continue
					}
					ug, _ := c.unguarded(in, bars, f)
					for _, v := range vals {
						if _, isSlice := v.Type().Underlying().(*types.Slice); !isSlice {
							continue
						}
						nsink++
						if isBad, tr := flows(s, f, v, !ug, nil, 0, map[seenKey]bool{}); isBad && badAt == nil {
							badAt = in
							bad = fmt.Sprintf("the DS set extracted at %s from the response of lookupDS(%s) is %s at %s without the response's AuthenticatedData bit (or an in-place validation) having been consulted; path to the extraction: %s", c.P.pos(s.ext.Pos()), trunc(Desc(s.lookup.Call.Args[2]).String(), 60), what, c.P.pos(instrPos(in)), tr)
						}
					}
				}
			}
		}
		if nsink == 0 {
			c.ok(R, key, f.Pos(), "the fetched DS set does not leave the function")
			continue
		}
		if badAt != nil {
			c.violation(R, key, instrPos(badAt), bad+". A validating DS lookup may settle as insecure (it crossed a proven insecure delegation) and then returns what the unsigned zone publishes; used as trust root, the keys that DS names earn AD=1 for data no anchor vouches for")
		} else {
			c.ok(R, key, f.Pos(), fmt.Sprintf("%d fetched DS set(s): every exit is behind AuthenticatedData / in-place validation / empty set / CD opt-out / probing mode", len(byFn[f])))
		}
	}

	// ---- (B) the two modes are closed at the call sites --------------------------------
	verifyArgsFedBy := func(caller *ssa.Function, call ssa.Value) bool {
		for _, g := range WithAnons(TopLevel(caller)) {
			for _, in := range instrsWhere(g, isPlainCallTo(verify)) {
				if in.Parent() != g {
					continue
				}
				a := callArg(in, dsArg)
				if a == nil {
					continue
				}
				for _, l := range append(Origins(Desc(a), nil), Desc(a)) {
					if mentions(l, call) {
						return true
					}
				}
			}
		}
		return false
	}
	var cdSite func(f *ssa.Function, p *ssa.Parameter, depth int)
	cdSeen := map[*ssa.Function]bool{}
	cdSite = func(f *ssa.Function, p *ssa.Parameter, depth int) {
		if cdSeen[f] || depth > 3 {
			return
		}
		cdSeen[f] = true
		idx := -1
		for i, q := range f.Params {
			if q == p {
				idx = i
			}
		}
		fo := funcObjOf(f)
		if idx < 0 || fo == nil {
			return
		}
		for _, site := range c.CallSites(fo) {
			top := TopLevel(site.Fn)
			key := fmt.Sprintf("%s|%s|validation-free DS lookup through %s only for a CD=1 request", R, fnKey(top), f.Name())
			cc := callCommon(site.Instr)
			if cc == nil || site.Kind == "ref" || idx >= len(cc.Args) {
				c.undecided(R, key, instrPos(site.Instr), f.Name()+" is taken as a value: the checking-disabled argument cannot be read off")
				continue
			}
			a := cc.Args[idx]
			e := Desc(a)
			if IsConstBool(false)(e) {
				c.ok(R, key, instrPos(site.Instr), "validation stays on")
				continue
			}
			if ug, _ := c.unguarded(site.Instr, []Barrier{OnTrue("CheckingDisabled", FieldIs(cdF))}, top); !ug {
				c.ok(R, key, instrPos(site.Instr), "behind <msg>.CheckingDisabled = true")
				continue
			}
			if q, ok := a.(*ssa.Parameter); ok && isBool(q.Type()) && q.Parent() == site.Fn && site.Fn.Parent() == nil {
				c.ok(R, key, instrPos(site.Instr), "the caller's own checking-disabled parameter is forwarded; its callers are judged")
				cdSite(site.Fn, q, depth+1)
				continue
			}
			c.violation(R, key, instrPos(site.Instr), "the DS walk is asked to skip validation ("+trunc(e.String(), 80)+") on a path that did not establish the request carries CD=1: an unauthenticated DS set is returned to a validating caller")
		}
	}
	var modeFns []*ssa.Function
	for f := range modes {
		modeFns = append(modeFns, f)
	}
	sort.Slice(modeFns, func(i, j int) bool { return fnKey(modeFns[i]) < fnKey(modeFns[j]) })
	needValidateSummary := false
	for _, f := range modeFns {
		mu := modes[f]
		if byFn[f] == nil {
			continue
		}
		if mu.cdParam != nil {
			cdSite(f, mu.cdParam, 0)
		}
		fo := funcObjOf(f)
		if fo == nil {
			continue
		}
		for i, p := range f.Params {
			if !mu.probeParams[p] {
				continue
			}
			for _, site := range c.CallSites(fo) {
				top := TopLevel(site.Fn)
				key := fmt.Sprintf("%s|%s|probing mode of %s (%s == \"\") never yields a trust root", R, fnKey(top), f.Name(), p.Name())
				cc := callCommon(site.Instr)
				cv, isCall := site.Instr.(*ssa.Call)
				if cc == nil || !isCall || site.Kind == "ref" || i >= len(cc.Args) {
					c.undecided(R, key, instrPos(site.Instr), f.Name()+" is not called directly: the mode argument cannot be read off")
					continue
				}
				a := cc.Args[i]
				fed := verifyArgsFedBy(site.Fn, cv)
				switch {
				case !fed:
					c.ok(R, key, instrPos(site.Instr), "the result is no origin of a verifyDNSSEC DS argument here")
				case isEmptyStr(Desc(a)):
					c.violation(R, key, instrPos(site.Instr), "the probing walk (no signer named) feeds verifyDNSSEC's DS argument: its DS sets are taken from unvalidated lookups")
				default:
					needValidateSummary = true
					nonEmpty := OnFalse("ValidateSigner(arg)=nil", func(e *Expr) bool {
						e = strip(e)
						if e == nil || e.K != ECall || !sameFunc(e.Fn, validate) || len(e.Args) == 0 {
							return false
						}
						return e.Args[0] != nil && (e.Args[0].V == a || Desc(a).String() == e.Args[0].String())
					})
					if ug, tr := c.unguarded(site.Instr, []Barrier{nonEmpty}, top); ug {
						c.violation(R, key, instrPos(site.Instr), "the name handed to "+f.Name()+" as "+p.Name()+" may be empty here (not behind ValidateSigner's nil edge), which selects the probing mode, and the result roots a verifyDNSSEC call; path "+tr)
					} else {
						c.ok(R, key, instrPos(site.Instr), "the name is behind ValidateSigner = nil, which refuses the empty name")
					}
				}
			}
		}
	}
	if needValidateSummary {
		key := R + "|dnssec.ValidateSigner|nil only for a non-empty signer"
		p0 := validateFn.Params[0]
		nonEmpty := OnCmp(`signer == "" fails`, func(e *Expr) bool {
			e = strip(e)
			return e != nil && e.K == EParam && e.V == ssa.Value(p0)
		}, token.EQL, isEmptyStr, false)
		bad := ""
		n := 0
		for _, in := range instrsWhere(validateFn, isReturnWith(0, IsNilConst)) {
			if in.Parent() != validateFn {
				continue
			}
			n++
			if ug, tr := c.unguarded(in, []Barrier{nonEmpty}, validateFn); ug {
				bad = tr
			}
		}
		switch {
		case n == 0:
			c.unresolved(R, "ValidateSigner|nil return", "no constant nil return found")
		case bad != "":
			c.violation(R, key, validateFn.Pos(), "ValidateSigner can accept the empty signer name, which selects the DS walk's probing mode at call sites that root a validation in the result; path "+bad)
		default:
			c.ok(R, key, validateFn.Pos(), "every nil return is behind signer != \"\"")
		}
	}
}

// c01EdgeGuarded: c.edgeGuarded, plus the two per-path cases reach() decides
// while walking but an edge query cannot read off its result: the branch tests
// the verdict of an unexported predicate helper (the edge taken for verdict v is
// guarded when every return that may yield v is), or it tests a boolean phi of
// its own block (x := a || b; if x) — then every incoming edge is judged with
// the operand that flows in on it: infeasible for a constant that sends the
// branch the other way, guarded when the operand is a barrier atom with the
// right polarity, otherwise as guarded as the incoming edge itself.
func c01EdgeGuarded(c *Ctx, pred, succ *ssa.BasicBlock, bars []Barrier, top *ssa.Function, depth int) bool {
	if c.edgeGuarded(pred, succ, bars, top) {
		return true
	}
	if len(pred.Instrs) == 0 || depth > 4 {
		return false
	}
	iff, ok := pred.Instrs[len(pred.Instrs)-1].(*ssa.If)
	if !ok || len(pred.Succs) != 2 || pred.Succs[0] == pred.Succs[1] {
		return false
	}
	k := 1
	if pred.Succs[0] == succ {
		k = 0
	}
	viaHelper := func(cond *Expr) bool {
		hc := &helperCtx{always: map[helperKey]int{}, implies: map[helperKey]int{}, act: map[*ssa.Function][]*Expr{}}
		if h, idx, truthySucc, hcl, ok := helperResultEdge(pred.Parent(), cond); ok {
			return hc.resultImplies(h, idx, k == truthySucc, bars, hc.callArgsIn(&hcl.Call, pred.Parent()))
		}
		return false
	}
	if viaHelper(condOf(iff)) {
		return true
	}
	ph := condPhi(iff)
	if ph == nil {
		return false
	}
	for i, pp := range pred.Preds {
		if i >= len(ph.Edges) {
			return false
		}
		if v, ok := phiCondValue(iff, i); ok {
			if (v && k != 0) || (!v && k != 1) {
				continue // this incoming edge sends the branch the other way
			}
			if !c01EdgeGuarded(c, pp, pred, bars, top, depth+1) {
				return false
			}
			continue
		}
		cond := Desc(ph.Edges[i])
		for v := iff.Cond; ; {
			u, ok := v.(*ssa.UnOp)
			if !ok || u.Op != token.NOT {
				break
			}
			cond = &Expr{K: EUn, Op: token.NOT, X: cond}
			v = u.X
		}
		blocked := false
		for _, b := range bars {
			if b.Edge == nil {
				continue
			}
			if m, which := b.Edge(cond); m && which == k {
				blocked = true
				break
			}
		}
		if blocked || viaHelper(cond) {
			continue
		}
		if !c01EdgeGuarded(c, pp, pred, bars, top, depth+1) {
			return false
		}
	}
	return true
}
