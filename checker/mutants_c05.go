package main

func init() {
	addMutants("C05", []Mutant{
		// R1
		{ID: "c05-chase-build-failure-keeps-lease", File: "middleware/cache/entry_wire_chase.go", Expect: "C05-R1",
			Old: "\t\tleaser.AbortWire()\n\t\twireSkipBuild.Inc()", New: "\t\twireSkipBuild.Inc()", Why: "a lease consumer path without Abort: the Msg fallback writes while the lease is outstanding"},
		{ID: "c05-fallback-reports-served", File: "middleware/cache/cache.go", Expect: "C05-R1",
			Old: "\t\twireFastFallback.Inc()\n\t\treturn false\n\tdefault:\n\t\t// Transport-level failure after commit: the bytes left the", New: "\t\twireFastFallback.Inc()\n\t\treturn true\n\tdefault:\n\t\t// Transport-level failure after commit: the bytes left the", Why: "a declined wire write is reported served: the client gets no reply"},
		{ID: "c05-transport-error-retried", File: "middleware/cache/nxdomain_cut_wire.go", Expect: "C05-R1",
			Old: "\tdefault:\n\t\tc.metrics.Hit()\n\t\tch.Cancel()\n\t\treturn true", New: "\tdefault:\n\t\tc.metrics.Hit()\n\t\treturn false", Why: "after bytes left, the Msg path answers a second time"},
		{ID: "c05-edns-commit-bypasses-opt", File: "middleware/edns/wire.go", Expect: "C05-R1",
			Old: "func (w *ResponseWriter) CommitWire(body []byte, info middleware.WireInfo) error {\n\treturn w.WriteWire(body, info)\n}",
			New: "func (w *ResponseWriter) CommitWire(body []byte, info middleware.WireInfo) error {\n\tif leaser, ok := w.ResponseWriter.(middleware.WireBodyLeaser); ok {\n\t\treturn leaser.CommitWire(body, info)\n\t}\n\treturn w.WriteWire(body, info)\n}", Why: "leased replies lose the per-client OPT (the 'wrong OPT for cookie clients' class)"},
		// R2
		{ID: "c05-reflex-fallback-after-write", File: "middleware/reflex/reflex.go", Expect: "C05-R2",
			Old: "\terr := next.WriteWire(body, info)\n\tif !errors.Is(err, middleware.ErrWireFallback) {\n\t\trw.tracker.RecordResponse",
			New: "\terr := next.WriteWire(body, info)\n\tif err != nil {\n\t\treturn middleware.ErrWireFallback\n\t}\n\tif !errors.Is(err, middleware.ErrWireFallback) {\n\t\trw.tracker.RecordResponse", Why: "ErrWireFallback after a transport write: double reply"},
		{ID: "c05-dnstap-taps-declined-write", File: "middleware/dnstap/dnstap.go", Expect: "C05-R2",
			Old: "\tif !errors.Is(err, middleware.ErrWireFallback) {\n\t\trw.dnstap.enqueue(tap)\n\t}", New: "\t_ = errors.Is(err, middleware.ErrWireFallback)\n\trw.dnstap.enqueue(tap)", Why: "the same response tapped twice"},
		// R3
		{ID: "c05-second-limiter-charge", File: "middleware/cache/cache.go", Expect: "C05-R3",
			Old: "limiter != nil && limiter != spent && !limiter.Allow()", New: "limiter != nil && !limiter.Allow()", Why: "a wire decline after the charge costs the question a second token"},
		{ID: "c05-ratelimit-ignores-replay", File: "middleware/ratelimit/ratelimit.go", Expect: "C05-R3",
			Old: "\tif ch.Replay() {\n\t\tch.Next(ctx)\n\t\treturn\n\t}\n", New: "", Why: "handed-off queries pay twice"},
		{ID: "c05-chase-commit-uncharged", File: "middleware/cache/entry_wire_chase.go", Expect: "C05-R3",
			Old: "\tif !c.chargeEntryLimiter(ch, alias, spent) {", New: "\tif capability.DO && !c.chargeEntryLimiter(ch, alias, spent) {", Why: "DO=0 chase serves skip the per-entry limiter the Msg path enforces"},
		{ID: "c05-cache-ladder-on-replay", File: "middleware/cache/cache.go", Expect: "C05-R3",
			Old: "if ch.Request.Undecoded() && !ch.Replay() && c.serveWire(ctx, ch, &spent) {", New: "if ch.Request.Undecoded() && c.serveWire(ctx, ch, &spent) {", Why: "the replay walks the ladder again and charges again"},
		{ID: "c05-decline-after-charge", File: "middleware/cache/entry_wire_chase.go", Expect: "C05-R3",
			Old: "\t\tleaser.AbortWire()\n\t\treturn true\n\t}\n\n\tswitch err := leaser.CommitWire(body, info); {", New: "\t\tleaser.AbortWire()\n\t\treturn true\n\t}\n\tif len(body) > 4096 {\n\t\tleaser.AbortWire()\n\t\treturn false\n\t}\n\n\tswitch err := leaser.CommitWire(body, info); {", Why: "a deterministic decline placed after the charge"},
		// R4
		{ID: "c05-failure-rung-without-witness", File: "middleware/cache/cache.go", Expect: "C05-R4",
			Old: "if cd || ((hit.Kind == FailureKindQuestion || c.store.sharedDenialImpossible()) &&\n\t\t\tc.store.DenialMissHoldsWire(req.WireName(), req.Qclass(), hit)) {", New: "if cd || hit.Kind == FailureKindQuestion || c.store.sharedDenialImpossible() {", Why: "wire path serves SERVFAIL where the Msg ladder would synthesise a denial"},
		// R5
		{ID: "c05-nsec3-missing-in-wire-verdict", File: "middleware/cache/entry_wire.go", Expect: "C05-R5",
			Old: "\t\t\tcase dns.TypeRRSIG, dns.TypeNSEC, dns.TypeNSEC3:\n\t\t\t\tflags |= wireHasDNSSEC", New: "\t\t\tcase dns.TypeRRSIG, dns.TypeNSEC:\n\t\t\t\tflags |= wireHasDNSSEC", Why: "NSEC3-only bodies are byte-served to DO=0 clients unstripped"},
		{ID: "c05-recompose-ns-verbatim", File: "middleware/cache/wire_recompose.go", Expect: "C05-R5",
			Old: "dns.TypeA, dns.TypeAAAA, dns.TypeTXT,", New: "dns.TypeA, dns.TypeAAAA, dns.TypeTXT, dns.TypeNS,", Why: "compressed NS target copied with source-body offsets"},
		{ID: "c05-servewire-doh-not-lifted", File: "middleware/edns/edns.go", Expect: "C05-R5",
			Old: "\tcase \"tcp\", \"doq\", \"doh\":\n\t\tsize = dns.MaxMsgSize\n\t}\n\tif noedns {\n\t\tsize = dns.MinMsgSize\n\t}\n\n\tvar rw",
			New: "\tcase \"tcp\", \"doq\":\n\t\tsize = dns.MaxMsgSize\n\t}\n\tif noedns {\n\t\tsize = dns.MinMsgSize\n\t}\n\n\tvar rw", Why: "the two branches disagree on which transports are stream transports"},
		{ID: "c05-parser-admits-unmodelled-option", File: "middleware/request.go", Expect: "C05-R5",
			Old: "\t\tcase dns.EDNS0PADDING:\n", New: "\t\tcase dns.EDNS0PADDING, dns.EDNS0EXPIRE:\n", Why: "strict path answers packets whose option the decoded path would validate / FORMERR"},
		// R6
		{ID: "c05-materialize-rewrites-do", File: "middleware/request.go", Expect: "C05-R6",
			Old: "\tr.msg = m\n\treturn m\n}", New: "\tr.do = true\n\tr.msg = m\n\treturn m\n}", Why: "materialisation rewrites a parsed client fact (DO forced on)"},
		{ID: "c05-materialize-skips-normalisation", File: "middleware/request.go", Expect: "C05-R6",
			Old: "\tif r.ednsRan {\n", New: "\tif r.ednsRan && r.hasECS {\n", Why: "decoded request of a wire-born query keeps the client's options / DO"},
		// R7
		{ID: "c05-reflex-scores-replay", File: "middleware/reflex/reflex.go", Expect: "C05-R7",
			Old: "\tif ch.Replay() {\n\t\tif qtype, reqLen, ok := requestFacts(ch.Request); ok && getAmpFactor(qtype) > 1.0 {\n\t\t\tdefer r.wrapAmpTracking(ch, w.RemoteIP().String(), reqLen)()\n\t\t}\n\t\tch.Next(ctx)\n\t\treturn\n\t}\n", New: "", Why: "a handed-off query is scored twice"},
		{ID: "c05-dnstap-taps-replay", File: "middleware/dnstap/dnstap.go", Expect: "C05-R7",
			Old: "if d.logQueries && !ch.Replay() {", New: "if d.logQueries {", Why: "second query frame for one client question"},
		// R8
		{ID: "c05-nsid-fact-decoded-only", File: "middleware/edns/edns.go", Expect: "C05-R8",
			Old: "\trw.nsid = req.HasNSID()\n", New: "", Why: "a client fact assigned in ServeDNS only"},
		{ID: "c05-respudpsize-wire-only-missing", File: "middleware/edns/edns.go", Expect: "C05-R8",
			Old: "\trw.respUDPSize = opt.UDPSize()\n", New: "", Why: "decoded branch leaves the advertised size zero"},
		{ID: "c05-reserve-misses-keepalive", File: "middleware/edns/wire.go", Expect: "C05-R8",
			Old: "\tif w.keepalive {\n\t\tlength += wire.OPTOptionHdrLen + 2\n\t}\n", New: "", Why: "appended keepalive outgrows the lease reserve"},
		// R10 / R11 (round 2)
		{ID: "c05-servewire-size-floor-lost", File: "middleware/edns/edns.go", Expect: "C05-R10",
			Old: "size := min(max(int(req.UDPSize()), dns.MinMsgSize), dnsutil.DefaultMsgSize)", New: "size := min(int(req.UDPSize()), dnsutil.DefaultMsgSize)", Why: "wire branch no longer floors the advertised size at 512 while SetEdns0 still does: sub-512 OPT sizes truncate on one path only"},
		{ID: "c05-setedns0-ceiling-differs", File: "internal/dnsutil/helpers.go", Expect: "C05-R10",
			Old: "\t\tif size > DefaultMsgSize {\n\t\t\tsize = DefaultMsgSize\n\t\t}", New: "\t\tif size > 4096 {\n\t\t\tsize = 4096\n\t\t}", Why: "decoded branch honours up to 4096 where the wire branch stops at 1232"},
		{ID: "c05-ecs-scope-unvalidated", File: "middleware/request.go", Expect: "C05-R11",
			Old: "if netmask > 32 || scope > 32 {", New: "if netmask > 32 {", Why: "strict admission takes an ECS option whose scope the library's unpack rejects: silent drop instead of FORMERR"},
		{ID: "c05-ecs-family0-any-netmask", File: "middleware/request.go", Expect: "C05-R11",
			Old: "\t\t\t\tif netmask != 0 {\n\t\t\t\t\treturn false\n\t\t\t\t}\n", New: "", Why: "family 0 with a non-zero netmask admitted; the library refuses it"},
	})
}
