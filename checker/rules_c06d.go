package main

import (
	"fmt"
	"go/token"
	"go/types"

	"golang.org/x/tools/go/ssa"
)

// ---------------------------------------------------------------------------
// R7 replies that re-attach the request's additional section are written only
// below the edns layer (which strips the request OPT and shapes the reply)

func c06R7(c *Ctx) {
	const R = "C06-R7"
	c.Doc(R, "functions that copy the request's Extra (its raw OPT, options included) into a reply — discovered as stores Msg.Extra ← <other message>.Extra — are not called from handlers that sit ahead of edns in defaults.chain: ahead of edns the request OPT still holds every client option (ECS, padding, unknown codes) and the writer is not yet the shaping wrapper, so the reply would reflect them")
	fExtra := c.field(R, x5DnsPkg+".Msg.Extra")
	if fExtra == nil {
		return
	}
	// reflectors
	reflectors := map[*types.Func]string{}
	for _, s := range c.StoreSites(fExtra) {
		st := s.Instr.(*ssa.Store)
		v := strip(Desc(st.Val))
		if v == nil || v.K != EField || v.Var != fExtra {
			continue
		}
		base := Desc(st.Addr.(*ssa.FieldAddr).X)
		if base.String() == v.X.String() {
			continue // same message (save / restore)
		}
		// only copies out of a request-like source: a parameter or a request accessor result
		src := Origins(v.X, nil)
		fromReq := false
		for _, l := range src {
			if l.K == EParam || MethodNamed("Msg", "materialize")(l) {
				fromReq = true
			}
		}
		if !fromReq {
			continue
		}
		if fo := funcObjOf(TopLevel(s.Fn)); fo != nil {
			reflectors[fo] = fnKey(TopLevel(s.Fn))
		}
	}
	// one level of wrappers around a reflector that pass their request through (SetRcodeWithEDE → SetRcode)
	for round := 0; round < 2; round++ {
		for fo := range reflectors {
			for _, s := range c.CallSites(fo) {
				top := TopLevel(s.Fn)
				tfo := funcObjOf(top)
				if tfo == nil || reflectors[tfo] != "" || !x5InPkgTree(top, "internal/dnsutil") {
					continue
				}
				reflectors[tfo] = fnKey(top)
			}
		}
	}
	key0 := "C06-R7|reflecting constructors"
	if len(reflectors) < 2 {
		c.unresolved(R, key0, fmt.Sprintf("expected dnsutil.SetRcode and its wrapper among the functions copying req.Extra, found %d", len(reflectors)))
		return
	}
	var names []string
	for _, n := range reflectors {
		names = append(names, n)
	}
	c.ok(R, key0, token.NoPos, fmt.Sprintf("%d functions re-attach the request's Extra: %v", len(names), names))

	// chain order
	v, pk := c.P.pkgVarValue("middleware/defaults", "chain")
	if v == nil {
		c.unresolved(R, "middleware/defaults.chain", "variable not found")
		return
	}
	chain, _, ok := stringList(v, pk.TypesInfo)
	ei := indexOf(chain, "edns")
	if !ok || ei < 0 {
		c.undecided(R, "C06-R7|defaults.chain", v.Pos(), "chain literal has an unexpected shape or no edns entry")
		return
	}
	exempt := map[string]string{
		"recovery": "writes only from its deferred recover arm, after the handlers below it (edns's SetEdns0 included) have run on the request",
	}
	var refl []*types.Func
	for fo := range reflectors {
		refl = append(refl, fo)
	}
	for _, h := range chain[:ei] {
		n := 0
		for _, fn := range c.P.FuncsInPkg("middleware/" + h) {
			for _, b := range fn.Blocks {
				for _, in := range b.Instrs {
					if !isCallTo(refl...)(in) {
						continue
					}
					n++
					key := "C06-R7|" + h + "|" + fnKey(TopLevel(fn)) + "|" + calleeName(in)
					if why, ok := exempt[h]; ok {
						c.ok(R, key, instrPos(in), h+" is ahead of edns but exempt: "+why)
						continue
					}
					c.violation(R, key, instrPos(in), fmt.Sprintf("%s runs ahead of edns and answers through %s, which re-attaches the client's raw OPT: every client option (ECS, padding, unknown codes) is reflected in the reply, unshaped", h, calleeName(in)))
				}
			}
		}
		if n == 0 {
			c.ok(R, "C06-R7|"+h+"|no reflecting reply", token.NoPos, h+" (ahead of edns) builds no reply from the request's Extra")
		}
	}
	for h := range exempt {
		if indexOf(chain[:ei], h) < 0 {
			c.unresolved(R, "exempt|"+h, "exempted handler is no longer ahead of edns (stale table row)")
		}
	}
	c.Floor(R, 7)
}
