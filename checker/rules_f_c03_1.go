package main

// C03-R9 (finding F-C03-1) — a scoped answer is filed only under a scope the
// asking client is inside.
//
// The scope a scoped insert carries is built from the ADDRESS the upstream put
// into its response option (ecs.ReadResponseScope) and ClampScope only adjusts
// its bit length.  The answer, however, was obtained for the client's own
// source prefix.  RFC 7871 §7.3: FAMILY and ADDRESS of the response option must
// match the query's.  Structurally: at every call of the scoped insert
// Store.SetFromResponseScoped (sites are discovered through the callee), the
// scope argument S
//   (a) is built from the client's own prefix (clientScope itself, or
//       clientScope.Addr().Prefix(n)), or
//   (b) the call is reachable only across the true edge of
//       S.Contains(<client scope>.Addr())  (or S.Overlaps(<client scope>) in
//       either order) for that very S,
// where <client scope> is ResponseWriter.clientScope or the result of
// Cache.requestScope.  A site inside an unexported helper that receives S as a
// parameter is decided at every call site of the helper with the argument put
// in S's place.  Nothing is executed; (b) is a must-cross on the SSA CFG.

import (
	"fmt"
	"go/types"

	"golang.org/x/tools/go/ssa"
)

func init() {
	wrap := func(id string, extra func(c *Ctx), explain string) {
		pd := props[id]
		if pd == nil {
			return
		}
		orig := pd.Run
		pd.Run = func(c *Ctx) { orig(c); extra(c) }
		pd.Explanation += " " + explain
	}
	wrap("C03", c03R9, "R9 (added, F-C03-1): every scoped insert (Store.SetFromResponseScoped) is handed a scope that is built from the client's own prefix or sits behind the true edge of scope.Contains(clientScope.Addr()) for that very scope — the address in an upstream's ECS option is never trusted to echo the query's.")
}

func c03R9(c *Ctx) {
	const R = "C03-R9"
	c.Doc(R, "every call of the scoped insert Store.SetFromResponseScoped passes a scope S that is derived from the client's own prefix (ResponseWriter.clientScope / Cache.requestScope: the prefix itself or its Addr().Prefix(n)) or is reachable only across the true edge of S.Contains(clientScope.Addr()) (or S.Overlaps(clientScope)) for that same S — an upstream's ECS option whose address or family does not echo the query's (RFC 7871 §7.3) must not choose the audience an answer is filed for")
	setScoped := c.fobj(R, c03Pkg+".(*Store).SetFromResponseScoped")
	containsF := c.fobj(R, "net/netip.Prefix.Contains")
	overlapsF := c.fobj(R, "net/netip.Prefix.Overlaps")
	prefAddr := c.fobj(R, "net/netip.Prefix.Addr")
	addrPrefix := c.fobj(R, "net/netip.Addr.Prefix")
	clientScopeF := c.field(R, c03Pkg+".ResponseWriter.clientScope")
	requestScope := c.fobj(R, c03Pkg+".(*Cache).requestScope")
	if setScoped == nil || containsF == nil || overlapsF == nil || prefAddr == nil || addrPrefix == nil || clientScopeF == nil || requestScope == nil {
		return
	}
	// index of the scope parameter (the one netip.Prefix parameter), receiver = 0
	scopeIdx := -1
	if sig, ok := setScoped.Type().(*types.Signature); ok {
		for i := 0; i < sig.Params().Len(); i++ {
			if n, ok := sig.Params().At(i).Type().(*types.Named); ok && n.Obj().Name() == "Prefix" && n.Obj().Pkg() != nil && n.Obj().Pkg().Path() == "net/netip" {
				if scopeIdx >= 0 {
					scopeIdx = -2
					break
				}
				scopeIdx = i + 1
			}
		}
	}
	if scopeIdx < 0 {
		c.unresolved(R, "SetFromResponseScoped", "expected exactly one netip.Prefix parameter (the scope)")
		return
	}

	isClient := AnyOf(FieldIs(clientScopeF), CallTo(requestScope))
	isClientAddr := func(e *Expr) bool {
		e = strip(e)
		return e != nil && e.K == ECall && CallTo(prefAddr)(e) && len(e.Args) == 1 && isClient(e.Args[0])
	}
	// (a) S is the client's own prefix or a prefix of the client's own address
	fromClient := func(sd *Expr) bool {
		leaves := Origins(sd, nil)
		if len(leaves) == 0 {
			return false
		}
		for _, l := range leaves {
			l = strip(l)
			if isClient(l) {
				continue
			}
			if ResultOf(0, addrPrefix)(l) {
				call := l
				if call.K == EExtract {
					call = strip(call.X)
				}
				if len(call.Args) >= 1 && isClientAddr(call.Args[0]) {
					continue
				}
			}
			return false
		}
		return true
	}

	var check func(site ssa.Instruction, S ssa.Value, depth int, seen map[*ssa.Function]bool) (bool, string)
	check = func(site ssa.Instruction, S ssa.Value, depth int, seen map[*ssa.Function]bool) (bool, string) {
		fn := TopLevel(site.Parent())
		if S == nil {
			return false, "no scope argument"
		}
		sd := Desc(S)
		if fromClient(sd) {
			return true, "the scope is built from the client's own prefix"
		}
		want := sd.String()
		same := func(e *Expr) bool { return e != nil && e.String() == want }
		guard := OnTrue("scope.Contains(clientScope.Addr())", func(e *Expr) bool {
			e = strip(e)
			if e == nil || e.K != ECall || len(e.Args) != 2 {
				return false
			}
			switch {
			case CallTo(containsF)(e):
				return same(e.Args[0]) && isClientAddr(e.Args[1])
			case CallTo(overlapsF)(e):
				return (same(e.Args[0]) && isClient(e.Args[1])) || (isClient(e.Args[0]) && same(e.Args[1]))
			}
			return false
		})
		ug, trail := c.unguarded(site, []Barrier{guard}, fn)
		if !ug {
			return true, "behind the true edge of scope.Contains(clientScope.Addr()) for the stored scope"
		}
		// the scope is a parameter of an unexported helper that is only called:
		// decide at every call site with the argument in its place
		p := strip(sd)
		fo := funcObjOf(fn)
		if p != nil && p.K == EParam && p.Idx >= 0 && fo != nil && !fo.Exported() && depth < 3 && !seen[fn] {
			seen[fn] = true
			sites := c.CallSites(fo)
			if len(sites) > 0 {
				for _, s := range sites {
					if s.Kind != "call" {
						return false, fmt.Sprintf("%s is used as a value (%s site in %s)", fnKey(fn), s.Kind, fnKey(s.Fn))
					}
					if ok, why := check(s.Instr, callArg(s.Instr, p.Idx), depth+1, seen); !ok {
						return false, fmt.Sprintf("via %s: %s", fnKey(TopLevel(s.Fn)), why)
					}
				}
				return true, "every caller of the helper passes a scope that contains the client"
			}
		}
		return false, "reachable with a scope " + trunc(want, 160) + " never compared with the client's own prefix; path " + trail
	}

	n := 0
	for _, s := range c.CallSites(setScoped) {
		n++
		top := TopLevel(s.Fn)
		key := fmt.Sprintf("%s|%s|scoped insert: scope contains the client", R, fnKey(top))
		if s.Kind != "call" {
			c.violation(R, key, instrPos(s.Instr), "the scoped insert is used as a "+s.Kind+" (its scope argument cannot be decided)")
			continue
		}
		if ok, why := check(s.Instr, callArg(s.Instr, scopeIdx), 0, map[*ssa.Function]bool{}); ok {
			c.ok(R, key, instrPos(s.Instr), "SetFromResponseScoped: "+why)
		} else {
			c.violation(R, key, instrPos(s.Instr), "SetFromResponseScoped files the answer under a scope that was never related to the prefix it was obtained for (the address/family in the upstream's ECS option need not echo the query's): "+why)
		}
	}
	if n == 0 {
		c.unresolved(R, "SetFromResponseScoped", "no call site of the scoped insert found")
	}
	c.Floor(R, 1)
}
