package main

// Regression mutants for F-C20-4 (an SOA MINIMUM of 0 was read as "field absent" and the SOA header TTL kept).
func init() {
	addMutants("C20", []Mutant{
		{ID: "c20-negttl-minimum-zero-skipped", File: "middleware/dns64/dns64.go", Expect: fC20_4Rule + "|negativeAAAATTL",
			Old: "\t\t\tif soa.Minttl < ttl {",
			New: "\t\t\tif soa.Minttl > 0 && soa.Minttl < ttl {",
			Why: "F-C20-4 (the original defect): MINIMUM 0 is routed to the header-TTL arm, the synthesised AAAA carries min(A TTL, SOA TTL) although the zone's negative TTL is 0"},
		{ID: "c20-negttl-minimum-zero-early-return", File: "middleware/dns64/dns64.go", Expect: fC20_4Rule + "|negativeAAAATTL",
			Old: "\t\t\tttl := soa.Hdr.Ttl\n",
			New: "\t\t\tttl := soa.Hdr.Ttl\n\t\t\tif soa.Minttl == 0 {\n\t\t\t\treturn ttl, true\n\t\t\t}\n",
			Why: "F-C20-4 (early-return variant): the same zero-test spelled as a separate return of the header TTL ahead of the fold"},
	})
}
