package main

// Regression mutants for finding F-C08-1 (rule C08-R10): each hands minCut a
// TTL-derived lease deadline that does not carry the 12 h hold ceiling.

func init() {
	addMutants("C08", []Mutant{
		{ID: "f-c08-1-ceiling-left-to-setuntil", File: "middleware/resolver/resolver.go", Expect: "C08-R10|(*middleware/resolver.Resolver).processDelegation|TTL-derived deadline carries the hold ceiling into minCut",
			Old: "\tif ceiling := observedAt.Add(authority.MaxLease); leaseDeadline.After(ceiling) {\n\t\tleaseDeadline = ceiling\n\t}\n",
			New: "",
			Why: "the raw referral lease (172800 s for a TLD) bounds the request tree and deeper delegations again; only the delegation cache's own copy is clamped: www.big. stays servable 23h59m59s while big. is leased for 12h"},
		{ID: "f-c08-1-ceiling-four-times-too-high", File: "middleware/resolver/resolver.go", Expect: "C08-R10",
			Old: "\tif ceiling := observedAt.Add(authority.MaxLease); leaseDeadline.After(ceiling) {\n",
			New: "\tif ceiling := observedAt.Add(4 * authority.MaxLease); leaseDeadline.After(ceiling) {\n",
			Why: "a 48 h 'ceiling' is the raw TLD referral TTL: the clamp never bites and the answer cache still outlives the 12 h delegation lease"},
	})
}
