package main

// C10-R9: bounded staging into a fixed per-connection buffer.
//
// Every write into tcpStream.drain at the running offset `held` (the frame
// prefix and the payload copy) must be dominated by guards that imply
//     held + <bytes written from here> <= len(drain)
// Otherwise copy() silently truncates: the frame announces N bytes, fewer are
// staged, and the client reads the next reply's bytes as the tail of this one.
//
// Decided by a small path-sensitive linear-inequality check over the SSA of
// the (loop-free) staging function: branch conditions over int values become
// facts, `held` is tracked symbolically through its stores, and a callee that
// provably leaves held == 0 whenever it returns a nil error (flush) re-bases
// it.  Nothing is executed.

import (
	"fmt"
	"go/constant"
	"go/token"
	"go/types"
	"sort"
	"strings"

	"golang.org/x/tools/go/ssa"
)

// c10lin is c + Σ coeff·symbol.
type c10lin struct {
	c int64
	t map[string]int64
}

func c10linConst(n int64) c10lin { return c10lin{c: n, t: map[string]int64{}} }
func c10linSym(s string) c10lin  { return c10lin{t: map[string]int64{s: 1}} }

func (a c10lin) add(b c10lin, k int64) c10lin {
	out := c10lin{c: a.c + k*b.c, t: map[string]int64{}}
	for s, v := range a.t {
		out.t[s] = v
	}
	for s, v := range b.t {
		out.t[s] += k * v
		if out.t[s] == 0 {
			delete(out.t, s)
		}
	}
	return out
}

func (a c10lin) String() string {
	var ks []string
	for s := range a.t {
		ks = append(ks, s)
	}
	sort.Strings(ks)
	var parts []string
	for _, s := range ks {
		parts = append(parts, fmt.Sprintf("%+d·%s", a.t[s], s))
	}
	parts = append(parts, fmt.Sprintf("%+d", a.c))
	return strings.Join(parts, " ")
}

type c10frameState struct {
	held    c10lin
	loads   map[ssa.Value]c10lin // value of each load of held at the point it executed
	facts   []c10lin             // each: expr <= 0
	heldSym map[string]ssa.Value // fresh symbol introduced by a call -> that call
	nonneg  map[string]bool
	phi     map[ssa.Value]ssa.Value // phi -> the edge value selected by the path walked
	nilness map[ssa.Value]bool      // value -> known nil (true) / non-nil (false) on this path
	dead    bool                    // the path contradicts an earlier branch decision
}

// resolve follows phis along the walked path.
func (s *c10frameState) resolve(v ssa.Value) ssa.Value {
	for i := 0; i < 16; i++ {
		n, ok := s.phi[v]
		if !ok {
			return v
		}
		v = n
	}
	return v
}

func (s *c10frameState) clone() *c10frameState {
	o := &c10frameState{held: s.held.add(c10linConst(0), 0), loads: map[ssa.Value]c10lin{}, heldSym: map[string]ssa.Value{}, nonneg: map[string]bool{}, phi: map[ssa.Value]ssa.Value{}, nilness: map[ssa.Value]bool{}, dead: s.dead}
	for k, v := range s.phi {
		o.phi[k] = v
	}
	for k, v := range s.nilness {
		o.nilness[k] = v
	}
	for k, v := range s.loads {
		o.loads[k] = v
	}
	o.facts = append(o.facts, s.facts...)
	for k, v := range s.heldSym {
		o.heldSym[k] = v
	}
	for k, v := range s.nonneg {
		o.nonneg[k] = v
	}
	return o
}

type c10frame struct {
	c       *Ctx
	heldF   *types.Var
	bufF    *types.Var
	bufLen  int64
	zeroing map[*ssa.Function]bool // callee: nil-error return ⇒ held == 0
	mayMod  map[*ssa.Function]bool
	nest    int
}

func (f *c10frame) isHeldAddr(v ssa.Value) bool {
	fa, ok := v.(*ssa.FieldAddr)
	if !ok {
		return false
	}
	st, ok := deref(fa.X.Type()).Underlying().(*types.Struct)
	return ok && st.Field(fa.Field).Origin() == f.heldF
}

// bufSlice: v is buf[low:] (a slice of the staging array field); returns low.
func (f *c10frame) bufSlice(v ssa.Value) (ssa.Value, bool) {
	sl, ok := v.(*ssa.Slice)
	if !ok || sl.High != nil || sl.Max != nil {
		return nil, false
	}
	fa, ok := sl.X.(*ssa.FieldAddr)
	if !ok {
		return nil, false
	}
	st, ok := deref(fa.X.Type()).Underlying().(*types.Struct)
	if !ok || st.Field(fa.Field).Origin() != f.bufF {
		return nil, false
	}
	return sl.Low, true
}

func (f *c10frame) eval(v ssa.Value, s *c10frameState) c10lin {
	if v != nil {
		v = s.resolve(v)
		if l, ok := s.loads[v]; ok {
			return l
		}
	}
	switch x := v.(type) {
	case nil:
		return c10linConst(0)
	case *ssa.Const:
		if x.Value != nil && x.Value.Kind() == constant.Int {
			if n, ok := constant.Int64Val(x.Value); ok {
				return c10linConst(n)
			}
		}
	case *ssa.BinOp:
		switch x.Op {
		case token.ADD:
			return f.eval(x.X, s).add(f.eval(x.Y, s), 1)
		case token.SUB:
			return f.eval(x.X, s).add(f.eval(x.Y, s), -1)
		}
	case *ssa.Convert:
		if b, ok := x.Type().Underlying().(*types.Basic); ok && b.Info()&types.IsInteger != 0 {
			if b2, ok := x.X.Type().Underlying().(*types.Basic); ok && b2.Info()&types.IsInteger != 0 && b.Kind() == types.Int {
				return f.eval(x.X, s)
			}
		}
	case *ssa.UnOp:
		if x.Op == token.MUL && f.isHeldAddr(x.X) {
			if l, ok := s.loads[x]; ok {
				return l
			}
		}
	case *ssa.Call:
		if b, ok := x.Call.Value.(*ssa.Builtin); ok && b.Name() == "len" && len(x.Call.Args) == 1 {
			a := x.Call.Args[0]
			if p, ok := a.(*ssa.Parameter); ok {
				sym := "len(" + p.Name() + ")"
				s.nonneg[sym] = true
				return c10linSym(sym)
			}
			if low, ok := f.bufSlice(a); ok {
				return c10linConst(f.bufLen).add(f.eval(low, s), -1)
			}
			if arr, ok := deref(a.Type()).Underlying().(*types.Array); ok {
				return c10linConst(arr.Len())
			}
		}
	}
	return c10linSym("?" + v.Name())
}

// proves g <= 0 from the facts: g = F + r with r <= 0 for every assignment
// of the non-negative symbols (F a fact or zero).
func (s *c10frameState) proves(g c10lin) bool {
	le0 := func(r c10lin) bool {
		if r.c > 0 {
			return false
		}
		for sym, k := range r.t {
			if k > 0 || !s.nonneg[sym] {
				return false
			}
		}
		return true
	}
	if le0(g) {
		return true
	}
	for _, fct := range s.facts {
		if le0(g.add(fct, -1)) {
			return true
		}
	}
	return false
}

// fact derives "expr <= 0" (possibly two) from taking the given edge of cond.
func (f *c10frame) addEdgeFacts(cond ssa.Value, taken bool, s *c10frameState) {
	cond = s.resolve(cond)
	if k, ok := cond.(*ssa.Const); ok && k.Value != nil && k.Value.Kind() == constant.Bool {
		if constant.BoolVal(k.Value) != taken {
			s.dead = true
		}
		return
	}
	if u, ok := cond.(*ssa.UnOp); ok && u.Op == token.NOT {
		f.addEdgeFacts(u.X, !taken, s)
		return
	}
	b, ok := cond.(*ssa.BinOp)
	if !ok {
		return
	}
	// error results of a zeroing callee: err == nil edge re-bases held to 0
	if b.Op == token.EQL || b.Op == token.NEQ {
		var other ssa.Value
		if k, ok := b.Y.(*ssa.Const); ok && k.Value == nil {
			other = b.X
		} else if k, ok := b.X.(*ssa.Const); ok && k.Value == nil {
			other = b.Y
		}
		if other != nil {
			other = s.resolve(other)
			isNil := (b.Op == token.EQL) == taken
			if known, ok := s.nilness[other]; ok && known != isNil {
				s.dead = true
				return
			}
			s.nilness[other] = isNil
			if isNil {
				var call ssa.Value = other
				if ex, ok := other.(*ssa.Extract); ok {
					call = ex.Tuple
				}
				if cl, ok := call.(*ssa.Call); ok {
					if sf := cl.Call.StaticCallee(); sf != nil && f.zeroing[sf] {
						// only if held is still the value that call left behind
						if len(s.held.t) == 1 && s.held.c == 0 {
							for sym := range s.held.t {
								if s.heldSym[sym] == ssa.Value(cl) {
									s.held = c10linConst(0)
								}
							}
						}
					}
				}
			}
			return
		}
	}
	if bt, ok := b.X.Type().Underlying().(*types.Basic); !ok || bt.Info()&types.IsInteger == 0 {
		return
	}
	d := f.eval(b.X, s).add(f.eval(b.Y, s), -1) // X - Y
	neg := c10linConst(0).add(d, -1)            // Y - X
	op := b.Op
	if !taken {
		op = negOp[op]
	}
	switch op {
	case token.LEQ: // X <= Y
		s.facts = append(s.facts, d)
	case token.LSS: // X < Y  ⇒ X - Y + 1 <= 0
		s.facts = append(s.facts, d.add(c10linConst(1), 1))
	case token.GEQ:
		s.facts = append(s.facts, neg)
	case token.GTR:
		s.facts = append(s.facts, neg.add(c10linConst(1), 1))
	case token.EQL:
		s.facts = append(s.facts, d, neg)
	}
}

// zeroOnNil: every return of fn that may carry a nil error has held == 0.
func (f *c10frame) zeroOnNil(fn *ssa.Function) bool {
	res := fn.Signature.Results()
	if res.Len() == 0 || !types.Identical(res.At(res.Len()-1).Type(), types.Universe.Lookup("error").Type()) {
		return false
	}
	if f.nest >= 3 { // stage → helper → helper-of-helper; deeper chains are not summarised
		return false
	}
	f.nest++
	defer func() { f.nest-- }()
	idx := res.Len() - 1
	okAll := true
	for _, b := range fn.Blocks {
		for _, in := range b.Instrs {
			rt, ok := in.(*ssa.Return)
			if !ok {
				continue
			}
			if !f.errImpliesZero(fn, rt.Results[idx], in, 0) {
				okAll = false
			}
		}
	}
	return okAll
}

// modifiesHeld: the instruction stores held or calls something that may.
func (f *c10frame) modifiesHeld(in ssa.Instruction) bool {
	if isFieldStore(in, f.heldF, nil) {
		return true
	}
	if cc := callCommon(in); cc != nil {
		if sf := cc.StaticCallee(); sf != nil && len(sf.Blocks) > 0 && f.mayModify(sf) {
			return true
		}
	}
	return false
}

// errImpliesZero: whenever the error value v, as it is when control reaches
// `at`, is nil, held == 0 holds there.
//   - v is the result of a same-package callee with that very summary and
//     nothing touches held between the call and `at`;
//   - v is a phi: every incoming value qualifies at the end of its predecessor;
//   - otherwise every path to `at` crosses a store held = 0, the held == 0
//     edge, or the edge on which v itself is non-nil.
func (f *c10frame) errImpliesZero(fn *ssa.Function, v ssa.Value, at ssa.Instruction, depth int) bool {
	if depth > 6 {
		return false
	}
	switch x := v.(type) {
	case *ssa.Phi:
		blk := x.Block()
		for i, e := range x.Edges {
			if i >= len(blk.Preds) || len(blk.Preds[i].Instrs) == 0 {
				return false
			}
			pred := blk.Preds[i]
			if !f.errImpliesZero(fn, e, pred.Instrs[len(pred.Instrs)-1], depth+1) {
				return false
			}
		}
		return len(x.Edges) > 0
	case *ssa.Extract:
		if cl, ok := x.Tuple.(*ssa.Call); ok && x.Index == cl.Call.Signature().Results().Len()-1 {
			if f.calleeZeroes(cl, at) {
				return true
			}
		}
	case *ssa.Call:
		if f.calleeZeroes(x, at) {
			return true
		}
	}
	bars := []Barrier{
		StoreBarrier("held = 0", f.heldF, IsConstInt(0)),
		OnCmp("held == 0", FieldIs(f.heldF), token.EQL, IsConstInt(0), true),
	}
	rv := Desc(v)
	if !IsNilConst(rv) {
		want := rv.String()
		bars = append(bars, OnTrue("returned error is non-nil", func(e *Expr) bool { return e.String() == want }))
	}
	ug, _ := f.c.unguarded(at, bars, fn)
	return !ug
}

// calleeZeroes: cl calls an unexported-or-not same-package function whose
// nil-error returns have held == 0, and held is untouched from the call to `at`.
func (f *c10frame) calleeZeroes(cl *ssa.Call, at ssa.Instruction) bool {
	sf := cl.Call.StaticCallee()
	if sf == nil || len(sf.Blocks) == 0 || fnPkg(sf) == nil || fnPkg(cl.Parent()) == nil || fnPkg(sf) != fnPkg(cl.Parent()) {
		return false
	}
	if !f.mayModify(sf) {
		return false
	}
	if o := sf.Origin(); o != nil {
		sf = o
	}
	if !f.zeroing[sf] {
		return false
	}
	r := reach([]Point{pointAfter(cl)}, nil, func(in ssa.Instruction) bool { return in == at })
	if !r.visited[at] {
		return false
	}
	for _, in := range r.order {
		if in != at && f.modifiesHeld(in) {
			return false
		}
	}
	return true
}

func (f *c10frame) storesHeld(fn *ssa.Function, depth int, seen map[*ssa.Function]bool) bool {
	if fn == nil || seen[fn] || depth > 4 {
		return false
	}
	seen[fn] = true
	for _, g := range WithAnons(fn) {
		for _, b := range g.Blocks {
			for _, in := range b.Instrs {
				if isFieldStore(in, f.heldF, nil) {
					return true
				}
				if cc := callCommon(in); cc != nil {
					if sf := cc.StaticCallee(); sf != nil && len(sf.Blocks) > 0 && f.storesHeld(sf, depth+1, seen) {
						return true
					}
				}
			}
		}
	}
	return false
}

type c10frameSite struct {
	in    ssa.Instruction
	what  string
	paths int
	bad   []string
}

// run analyses one function containing writes into the staging buffer.
func (f *c10frame) run(rule string, fn *ssa.Function) {
	c := f.c
	putU16 := c.P.FuncObj("encoding/binary.bigEndian.PutUint16")
	sites := map[ssa.Instruction]*c10frameSite{}
	// the goal at a site, given the state right before it
	goalAt := func(in ssa.Instruction, s *c10frameState) (c10lin, string, bool) {
		cl, ok := in.(*ssa.Call)
		if !ok {
			return c10lin{}, "", false
		}
		if b, ok := cl.Call.Value.(*ssa.Builtin); ok && b.Name() == "copy" && len(cl.Call.Args) == 2 {
			if low, ok := f.bufSlice(cl.Call.Args[0]); ok {
				src := cl.Call.Args[1]
				var n c10lin
				if p, ok := src.(*ssa.Parameter); ok {
					sym := "len(" + p.Name() + ")"
					s.nonneg[sym] = true
					n = c10linSym(sym)
				} else {
					n = c10linSym("?len(" + src.Name() + ")")
				}
				// low + n - len(buf) <= 0
				return f.eval(low, s).add(n, 1).add(c10linConst(f.bufLen), -1), "copy into " + f.bufF.Name() + "[" + f.heldF.Name() + ":]", true
			}
		}
		if putU16 != nil && callIs(&cl.Call, putU16) && len(cl.Call.Args) >= 2 {
			if low, ok := f.bufSlice(cl.Call.Args[1]); ok {
				return f.eval(low, s).add(c10linConst(2-f.bufLen), 1), "2-byte frame prefix into " + f.bufF.Name() + "[" + f.heldF.Name() + ":]", true
			}
		}
		return c10lin{}, "", false
	}
	undecided := ""
	steps := 0
	var walk func(b, pred *ssa.BasicBlock, s *c10frameState, onPath map[*ssa.BasicBlock]bool, trail []string)
	walk = func(b, pred *ssa.BasicBlock, s *c10frameState, onPath map[*ssa.BasicBlock]bool, trail []string) {
		if undecided != "" || s.dead {
			return
		}
		if pred != nil {
			pi := -1
			for i, p := range b.Preds {
				if p == pred {
					pi = i
				}
			}
			for _, in := range b.Instrs {
				ph, ok := in.(*ssa.Phi)
				if !ok {
					break
				}
				if pi >= 0 && pi < len(ph.Edges) {
					s.phi[ph] = s.resolve(ph.Edges[pi])
				}
			}
		}
		steps++
		if steps > 20000 {
			undecided = "too many paths"
			return
		}
		if onPath[b] {
			undecided = "the staging function contains a loop"
			return
		}
		onPath[b] = true
		defer delete(onPath, b)
		for _, in := range b.Instrs {
			switch x := in.(type) {
			case *ssa.UnOp:
				if x.Op == token.MUL && f.isHeldAddr(x.X) {
					s.loads[x] = s.held
				}
			case *ssa.Store:
				if f.isHeldAddr(x.Addr) {
					s.held = f.eval(x.Val, s)
				}
			case *ssa.Call:
				if g, what, ok := goalAt(in, s); ok {
					st := sites[in]
					if st == nil {
						st = &c10frameSite{in: in, what: what}
						sites[in] = st
					}
					st.paths++
					if !s.proves(g) {
						var fs []string
						for _, fc := range s.facts {
							fs = append(fs, fc.String()+" <= 0")
						}
						st.bad = append(st.bad, fmt.Sprintf("path %s: cannot show %s <= 0 from {%s}", strings.Join(trail, "→"), g.String(), strings.Join(fs, " ; ")))
					}
					// a proven copy moves exactly len(src) bytes: model its result
					if bi, ok := x.Call.Value.(*ssa.Builtin); ok && bi.Name() == "copy" {
						if p, ok := x.Call.Args[1].(*ssa.Parameter); ok {
							s.loads[x] = c10linSym("len(" + p.Name() + ")") // reuse loads as a value table
						}
					}
					continue
				}
				if sf := x.Call.StaticCallee(); sf != nil && f.mayModify(sf) {
					sym := "held@" + x.Name()
					s.held = c10linSym(sym)
					s.heldSym[sym] = x
					s.nonneg[sym] = true
				}
			}
		}
		if len(b.Instrs) == 0 {
			return
		}
		switch t := b.Instrs[len(b.Instrs)-1].(type) {
		case *ssa.If:
			for k, succ := range b.Succs {
				ns := s.clone()
				f.addEdgeFacts(t.Cond, k == 0, ns)
				mark := "F"
				if k == 0 {
					mark = "T"
				}
				walk(succ, b, ns, onPath, append(append([]string{}, trail...), c.lineOf(t)+"["+mark+"]"))
			}
		case *ssa.Jump:
			walk(b.Succs[0], b, s, onPath, trail)
		}
	}
	if len(fn.Blocks) == 0 {
		return
	}
	init := &c10frameState{held: c10linSym("held0"), loads: map[ssa.Value]c10lin{}, heldSym: map[string]ssa.Value{}, nonneg: map[string]bool{"held0": true}, phi: map[ssa.Value]ssa.Value{}, nilness: map[ssa.Value]bool{}}
	walk(fn.Blocks[0], nil, init, map[*ssa.BasicBlock]bool{}, nil)
	keyBase := fmt.Sprintf("%s|%s|", rule, fnKey(fn))
	if undecided != "" {
		c.undecided(rule, keyBase+"bounded staging", fn.Pos(), "cannot decide the staging bound: "+undecided)
		return
	}
	var ins []ssa.Instruction
	for in := range sites {
		ins = append(ins, in)
	}
	sort.Slice(ins, func(i, j int) bool { return instrPos(ins[i]) < instrPos(ins[j]) })
	for _, in := range ins {
		st := sites[in]
		key := keyBase + st.what
		if len(st.bad) > 0 {
			c.violation(rule, key, instrPos(in), fmt.Sprintf("%s is not bounded on %d of %d paths: the guards do not imply %s + bytes written <= len(%s) = %d, so copy() can truncate a frame whose prefix already announced the full length (the client then reads the next reply's bytes as this one's tail); %s",
				st.what, len(st.bad), st.paths, f.heldF.Name(), f.bufF.Name(), f.bufLen, trunc(st.bad[0], 500)))
		} else {
			c.ok(rule, key, instrPos(in), fmt.Sprintf("%s: on all %d paths the guards imply %s + bytes written <= %d", st.what, st.paths, f.heldF.Name(), f.bufLen))
		}
	}
}

func (f *c10frame) mayModify(sf *ssa.Function) bool {
	if o := sf.Origin(); o != nil {
		sf = o
	}
	if v, ok := f.mayMod[sf]; ok {
		return v
	}
	v := f.storesHeld(sf, 0, map[*ssa.Function]bool{})
	f.mayMod[sf] = v
	if v {
		f.zeroing[sf] = f.zeroOnNil(sf)
	}
	return v
}

func c10R9(c *Ctx) {
	const rule = "C10-R9"
	c.Doc(rule, "every write into tcpStream.drain at the running offset held (frame prefix via PutUint16, payload via copy) is dominated, on every path of its function, by integer guards that imply held + bytes-written-from-here <= len(drain); held is tracked through its stores, and a same-package callee re-bases it to 0 only if every nil-error return of that callee has held == 0 — directly (flush) or because it returns the error of such a callee with held untouched in between (helpers, nesting ≤ 3)")
	const pkg = "server"
	heldF := c.field(rule, pkg+".tcpStream.held")
	bufF := c.field(rule, pkg+".tcpStream.drain")
	if heldF == nil || bufF == nil {
		return
	}
	arr, ok := bufF.Type().Underlying().(*types.Array)
	if !ok {
		c.unresolved(rule, pkg+".tcpStream.drain", "staging buffer is no longer a fixed array; the bound has to be re-stated")
		return
	}
	f := &c10frame{c: c, heldF: heldF, bufF: bufF, bufLen: arr.Len(), zeroing: map[*ssa.Function]bool{}, mayMod: map[*ssa.Function]bool{}}
	n := 0
	for _, fn := range c.P.FuncsInPkg(pkg) {
		has := false
		for _, b := range fn.Blocks {
			for _, in := range b.Instrs {
				cl, ok := in.(*ssa.Call)
				if !ok {
					continue
				}
				for _, a := range cl.Call.Args {
					if _, ok := f.bufSlice(a); ok {
						has = true
					}
				}
			}
		}
		if has {
			n++
			f.run(rule, fn)
		}
	}
	if n == 0 {
		c.unresolved(rule, "tcpStream.drain writes", "no function writes into the staging buffer (rule would pass vacuously)")
	}
	// flush hands exactly drain[:held] to the connection
	if fl := c.fn(rule, pkg+".(*tcpStream).flush"); fl != nil {
		k := 0
		for _, in := range instrsWhere(fl, isMethodCallNamed("Write", nil)) {
			k++
			e := strip(Desc(callArg(in, 1)))
			key := rule + "|flush|conn.Write argument"
			if e != nil && e.K == ESlice && len(e.Args) == 3 && e.Args[0] == nil && e.Args[1] != nil && FieldIs(heldF)(e.Args[1]) && e.X != nil && strip(e.X).K == EField && strip(e.X).Var == bufF {
				c.ok(rule, key, instrPos(in), "flush writes drain[:held]")
			} else {
				c.violation(rule, key, instrPos(in), "flush does not write exactly drain[:held]: "+trunc(e.String(), 100))
			}
		}
		if k == 0 {
			c.unresolved(rule, "flush|conn.Write", "no Write found")
		}
	}
	c.Floor(rule, 3)
}
