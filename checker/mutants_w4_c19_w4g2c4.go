package main

// Regression mutants for C19-R11 (seeded change C19-w4g2c4: the resolver drops the authority's ECS
// option when it does not echo the query octet for octet, and re-attaches the request's SCOPE-0 option).
func init() {
	const resgo = "middleware/resolver/resolver.go"
	const expect = "C19-R11|(*middleware/resolver.Resolver).clearAdditional"
	addMutants("C19", []Mutant{
		{ID: "c19-w4-ecs-echo-must-match", File: resgo, Expect: expect,
			Old: "\tif find(req) == nil {\n\t\treturn nil\n\t}\n\treturn find(resp)\n",
			New: "\tasked := find(req)\n\tif asked == nil {\n\t\treturn nil\n\t}\n\tscope := find(resp)\n\t// The option has to echo the query's family, source prefix and address\n\t// (§7.3); one that does not is ignored like an unsolicited one.\n\tif scope == nil || scope.Family != asked.Family ||\n\t\tscope.SourceNetmask != asked.SourceNetmask || !scope.Address.Equal(asked.Address) {\n\t\treturn nil\n\t}\n\treturn scope\n",
			Why: "C19-w4g2c4 as seeded: an echo that is not octet-exact (address cut to the scope, source prefix rewritten) is 'ignored', i.e. the request's SCOPE-0 option is re-attached and the cache files the tailored answer under the shared key"},
		{ID: "c19-w4-ecs-kept-only-when-scope-fits", File: resgo, Expect: expect,
			Old: "\t\t\tif scope != nil {\n\t\t\t\topt = optWithClientSubnet(opt, scope)\n",
			New: "\t\t\tif scope != nil && scope.SourceScope <= scope.SourceNetmask {\n\t\t\t\topt = optWithClientSubnet(opt, scope)\n",
			Why: "variant at the other site: clearAdditional keeps the authority's option only when its SCOPE is not longer than the SOURCE it echoes; a longer scope (legal, RFC 7871 §7.2.1) falls back to the request's SCOPE-0 option"},
		{ID: "c19-w4-ecs-finder-filters-family", File: resgo, Expect: expect,
			Old: "\t\t\tif sub, ok := o.(*dns.EDNS0_SUBNET); ok {\n\t\t\t\treturn sub\n\t\t\t}\n\t\t}\n\t\treturn nil\n\t}\n\tif find(req) == nil {",
			New: "\t\t\tif sub, ok := o.(*dns.EDNS0_SUBNET); ok && sub.Family == 1 {\n\t\t\t\treturn sub\n\t\t\t}\n\t\t}\n\t\treturn nil\n\t}\n\tif find(req) == nil {",
			Why: "variant inside the lookup: the scan skips IPv6 options, so an IPv6-scoped answer is handed up with the request's SCOPE-0 option"},
	})
}
