package main

import (
	"fmt"
	"go/constant"
	"go/types"

	"golang.org/x/tools/go/ssa"
)

func init() {
	register(&PropDef{
		ID:    "C19",
		Title: "Client subnet data is neither leaked upstream nor across audiences",
		Run:   runC19,
		Explanation: "Decided (structure only): R1 SetEdns0 clears every client option before the only re-attachment, which is behind Allows ∧ subnet present ∧ non-nil Clamp result and whose element is Clamp's result; Policy.Clamp is the only constructor of dns.EDNS0_SUBNET, with SourceNetmask = min(in, ceiling), SourceScope = 0 and Address from addr.Prefix(source); " +
			"R2 fail closed: ecs.Build returns a nil policy with every error and (nil,nil) when disabled, both builders return nil on error, Allows is true only for a non-nil enabled policy; " +
			"R3 no ECS toward clients: the edns writer reaches its delegate only through stripECS (or ClearOPT), nothing un-stripped is stored into the OPT afterwards, stripECS drops exactly the EDNS0_SUBNET arm, and no wire option appender is ever called with the ECS option code; " +
			"R4 scoped answers: SetFromResponseScoped has one caller, behind clientScope valid ∧ ReadResponseScope ok, with the scope from ClampScope; PrefetchEligible = !scoped and both prefetch enqueue sites are behind it; the scoped TTL cap feeds every entry constructor; the wire fast path declines on HasECS; " +
			"R5 shared-denial bypass: the ECS marker is set before SetEdns0 can strip (both edns branches), re-pinned where contexts are detached, and every shared-denial consumer/producer in the cache is behind the ECS/scope/bypass atoms.",
		NotDecided: []string{
			"clamp/mask arithmetic at bit boundaries (netip.Addr.Prefix, min) — value-level",
			"longest-prefix scoped probe correctness (scopedLookup)",
			"sequences of clients from different subnets (history)",
			"resolver-side egress shapes beyond SetEdns0 (e.g. options added by other code to upstream queries are covered only through the single-constructor rule)",
		},
	})
}

func runC19(c *Ctx) {
	// ---------------------------------------------------------------- R1
	c.Doc("C19-R1", "SetEdns0: opt.Option=nil precedes every other store to opt.Option; the re-attachment is behind Allows=true, clientSubnet!=nil, Clamp!=nil and appends Clamp's result; Policy.Clamp is the only constructor of dns.EDNS0_SUBNET; in Clamp SourceNetmask=min(in.SourceNetmask,max), SourceScope=0, Address from addr.Prefix(source)")
	optOption := c.field("C19-R1", "github.com/miekg/dns.OPT.Option")
	allows := c.fobj("C19-R1", "internal/ecs.(*Policy).Allows")
	clamp := c.fobj("C19-R1", "internal/ecs.(*Policy).Clamp")
	isEdns0 := c.fobj("C19-R1", "github.com/miekg/dns.(*Msg).IsEdns0")
	setE := c.fn("C19-R1", "internal/dnsutil.SetEdns0")
	if optOption != nil && allows != nil && clamp != nil && setE != nil && isEdns0 != nil {
		nonNilStore := func(in ssa.Instruction) bool { return isFieldStore(in, optOption, NotNilConst) }
		nilStore := StoreBarrier("opt.Option=nil", optOption, IsNilConst)
		c.MustCross("C19-R1", setE, "re-attach option", nonNilStore, nilStore)
		c.MustCross("C19-R1", setE, "re-attach option", nonNilStore, OnTrue("policy.Allows(client)", CallTo(allows)))
		c.MustCross("C19-R1", setE, "re-attach option", nonNilStore, OnTrue("Clamp()!=nil", CallTo(clamp)))
		for _, in := range instrsWhere(setE, nonNilStore) {
			e := Desc(in.(*ssa.Store).Val)
			key := "C19-R1|SetEdns0|appended element"
			okEl := e.K == ECall && e.Method == "builtin.append" && len(e.Args) == 2 && e.Args[1].K == EMake && len(e.Args[1].Args) == 1 && CallTo(clamp)(e.Args[1].Args[0])
			if okEl {
				c.ok("C19-R1", key, instrPos(in), "opt.Option = append(opt.Option, policy.Clamp(clientSubnet))")
			} else {
				c.violation("C19-R1", key, instrPos(in), "value stored to opt.Option is not append(…, Clamp(…)): "+trunc(e.String(), 200))
			}
		}
		// every return on the EDNS arm is after the strip
		c.AfterEdge("C19-R1", setE, "EDNS arm returns with client options still attached", OnTrue("req.IsEdns0()!=nil", CallTo(isEdns0)), isReturn, nilStore)
	}
	// single constructor of EDNS0_SUBNET
	if tn := c.P.TypeName("github.com/miekg/dns.EDNS0_SUBNET"); tn == nil {
		c.unresolved("C19-R1", "dns.EDNS0_SUBNET", "type not found")
	} else {
		n := 0
		for _, fn := range c.P.RepoFuncs() {
			for _, b := range fn.Blocks {
				for _, in := range b.Instrs {
					al, ok := in.(*ssa.Alloc)
					if !ok {
						continue
					}
					if nt, ok := deref(al.Type()).(*types.Named); !ok || nt.Obj() != tn {
						continue
					}
					n++
					key := "C19-R1|constructor of EDNS0_SUBNET|" + fnKey(TopLevel(fn))
					if fnKey(TopLevel(fn)) == "(*internal/ecs.Policy).Clamp" {
						c.ok("C19-R1", key, instrPos(in), "the clamped constructor")
					} else {
						c.violation("C19-R1", key, instrPos(in), "EDNS0_SUBNET constructed outside Policy.Clamp: an un-clamped subnet option can be attached to a query")
					}
				}
			}
		}
		if n == 0 {
			c.unresolved("C19-R1", "constructor of EDNS0_SUBNET", "no constructor found")
		}
	}
	if cf := c.fn("C19-R1", "internal/ecs.(*Policy).Clamp"); cf != nil {
		srcMask := c.field("C19-R1", "github.com/miekg/dns.EDNS0_SUBNET.SourceNetmask")
		srcScope := c.field("C19-R1", "github.com/miekg/dns.EDNS0_SUBNET.SourceScope")
		address := c.field("C19-R1", "github.com/miekg/dns.EDNS0_SUBNET.Address")
		fwd4 := c.field("C19-R1", "internal/ecs.Policy.ForwardV4Max")
		fwd6 := c.field("C19-R1", "internal/ecs.Policy.ForwardV6Max")
		prefixF := c.fobj("C19-R1", "net/netip.Addr.Prefix")
		for _, in := range instrsWhere(cf, func(in ssa.Instruction) bool { return isFieldStore(in, srcMask, nil) }) {
			e := strip(Desc(in.(*ssa.Store).Val))
			key := "C19-R1|Clamp|SourceNetmask"
			good := e.K == ECall && e.Method == "builtin.min" && len(e.Args) == 2
			if good {
				// one operand the client's netmask, the other drawn only from the ceilings
				var cl, ceil *Expr
				for _, a := range e.Args {
					if FieldIs(srcMask)(a) {
						cl = a
					} else {
						ceil = a
					}
				}
				good = cl != nil && ceil != nil
				if good {
					for _, l := range Origins(ceil, nil) {
						if !(FieldIs(fwd4, fwd6)(l) || IsConstInt(0)(l)) {
							good = false
						}
					}
				}
			}
			if good {
				c.ok("C19-R1", key, instrPos(in), "SourceNetmask = min(in.SourceNetmask, ForwardV4Max|ForwardV6Max)")
			} else {
				c.violation("C19-R1", key, instrPos(in), "forwarded SourceNetmask is not min(client netmask, configured ceiling): "+trunc(e.String(), 200))
			}
		}
		for _, in := range instrsWhere(cf, func(in ssa.Instruction) bool { return isFieldStore(in, srcScope, nil) }) {
			if IsConstInt(0)(Desc(in.(*ssa.Store).Val)) {
				c.ok("C19-R1", "C19-R1|Clamp|SourceScope", instrPos(in), "SourceScope = 0")
			} else {
				c.violation("C19-R1", "C19-R1|Clamp|SourceScope", instrPos(in), "query SourceScope is not the constant 0")
			}
		}
		for _, in := range instrsWhere(cf, func(in ssa.Instruction) bool { return isFieldStore(in, address, nil) }) {
			e := Desc(in.(*ssa.Store).Val)
			key := "C19-R1|Clamp|Address"
			if Contains(func(x *Expr) bool {
				return CallTo(prefixF)(x) && x.K != EExtract
			})(e) && !Contains(func(x *Expr) bool { return FieldIs(address)(x) })(stripArgsOf(e, prefixF)) {
				c.ok("C19-R1", key, instrPos(in), "Address = addr.Prefix(source).Addr().AsSlice() (host bits zeroed)")
			} else {
				c.violation("C19-R1", key, instrPos(in), "forwarded Address does not come from addr.Prefix(source): "+trunc(e.String(), 200))
			}
		}
		// the prefix length handed to Prefix() is the clamped source
		for _, in := range instrsWhere(cf, isPlainCallTo(prefixF)) {
			e := Desc(callArg(in, 1))
			if Contains(func(x *Expr) bool { return x.K == ECall && x.Method == "builtin.min" })(e) {
				c.ok("C19-R1", "C19-R1|Clamp|Prefix bits", instrPos(in), "addr.Prefix(bits): bits derive from the clamped source")
			} else {
				c.violation("C19-R1", "C19-R1|Clamp|Prefix bits", instrPos(in), "addr.Prefix called with bits that do not derive from min(client, ceiling): "+trunc(e.String(), 160))
			}
		}
	}
	c.Floor("C19-R1", 10)

	// ---------------------------------------------------------------- R2
	c.Doc("C19-R2", "ecs.Build: every return with a non-nil error has a nil policy, the !enabled edge returns (nil,nil); buildECSPolicy/buildCacheECSPolicy return nil on Build's error edge; Allows returns true only behind p!=nil and p.Enabled")
	build := c.fobj("C19-R2", "internal/ecs.Build")
	if bf := c.fn("C19-R2", "internal/ecs.Build"); bf != nil {
		n := 0
		for _, in := range returnsWhere(bf, 1, nil) {
			r := in.(*ssa.Return)
			n++
			key := "C19-R2|Build|error⇒nil policy"
			if !IsNilConst(Desc(r.Results[1])) && !IsNilConst(Desc(r.Results[0])) {
				c.violation("C19-R2", key, instrPos(in), "Build returns a policy together with an error (not fail-closed)")
			} else {
				c.ok("C19-R2", key, instrPos(in), "return is (nil, err) or (policy, nil)")
			}
		}
		if n < 6 {
			c.unresolved("C19-R2", "Build returns", fmt.Sprintf("expected ≥6 returns, found %d", n))
		}
		c.AfterEdge("C19-R2", bf, "disabled config yields a policy", OnFalse("enabled", func(e *Expr) bool { return e.K == EParam && e.Name == "enabled" }), isReturnWith(0, NotNilConst))
	}
	for _, b := range []string{"middleware/edns.buildECSPolicy", "middleware/cache.buildCacheECSPolicy"} {
		if fn := c.fn("C19-R2", b); fn != nil && build != nil {
			c.AfterEdge("C19-R2", fn, "invalid config still yields a policy", OnTrue("Build err", ResultOf(1, build)), isReturnWith(0, NotNilConst))
			// the policy handed out is Build's
			for _, in := range returnsWhere(fn, 0, NotNilConst) {
				c.OriginCheck("C19-R2", "C19-R2|"+b+"|policy origin", in, "returned policy", in.(*ssa.Return).Results[0], nil, CallTo(build))
			}
		}
	}
	if af := c.fn("C19-R2", "internal/ecs.(*Policy).Allows"); af != nil {
		enabled := c.field("C19-R2", "internal/ecs.Policy.Enabled")
		c.MustCross("C19-R2", af, "return true", isReturnWith(0, IsConstBool(true)), OnTrue("p.Enabled", FieldIs(enabled)))
		c.MustCross("C19-R2", af, "return true", isReturnWith(0, IsConstBool(true)), OnTrue("p!=nil", func(e *Expr) bool { return e.K == EParam && e.Idx == 0 }))
	}

	// ---------------------------------------------------------------- R3
	c.Doc("C19-R3", "edns.(*ResponseWriter).WriteMsg reaches the delegate write only through stripECS or ClearOPT; after stripECS every store to opt.Option derives from its result; stripECS appends only on the not-EDNS0_SUBNET edge; wire.AppendOption/AppendOptionString are never called with the ECS option code")
	stripECS := c.fobj("C19-R3", "middleware/edns.stripECS")
	clearOPT := c.fobj("C19-R3", "internal/dnsutil.ClearOPT")
	if wf := c.fn("C19-R3", "middleware/edns.(*ResponseWriter).WriteMsg"); wf != nil && stripECS != nil && clearOPT != nil && optOption != nil {
		delegate := func(in ssa.Instruction) bool {
			cc := callCommon(in)
			return cc != nil && cc.IsInvoke() && cc.Method.Name() == "WriteMsg"
		}
		c.MustCross("C19-R3", wf, "delegate WriteMsg", delegate, CallBarrier("stripECS", stripECS), CallBarrier("ClearOPT", clearOPT))
		// the strip (and what follows it) may have been extracted into an unexported helper of WriteMsg
		stripScope := []*ssa.Function{wf}
		if len(instrsWhere(wf, isPlainCallTo(stripECS))) == 0 {
			stripScope = nil
			for _, g := range scopeFuncs(wf) {
				if TopLevel(g) != wf && g.Parent() == nil && len(instrsWhere(g, isPlainCallTo(stripECS))) > 0 {
					stripScope = append(stripScope, g)
				}
			}
			if len(stripScope) == 0 {
				stripScope = []*ssa.Function{wf}
			}
		}
		for _, sfn := range stripScope {
			c.MustCrossFrom("C19-R3", sfn, "options of another OPT merged after stripECS", isPlainCallTo(stripECS), func(in ssa.Instruction) bool {
				if !isFieldStore(in, optOption, nil) {
					return false
				}
				st := in.(*ssa.Store)
				if Contains(CallTo(stripECS))(Desc(st.Val)) {
					return false
				}
				// allowed: re-reading the already stripped list of the SAME opt
				base := Desc(st.Addr.(*ssa.FieldAddr).X).String()
				foreign := false
				Contains(func(x *Expr) bool {
					if x.K == EField && x.Var == optOption && x.X.String() != base {
						foreign = true
					}
					return false
				})(Desc(st.Val))
				return foreign
			})
		}
		// the result of stripECS is what gets stored
		n := 0
		for _, sfn := range stripScope {
			for _, in := range instrsWhere(sfn, func(in ssa.Instruction) bool { return isFieldStore(in, optOption, CallTo(stripECS)) }) {
				n++
				c.ok("C19-R3", "C19-R3|WriteMsg|opt.Option = stripECS(...)", instrPos(in), "strip result stored back")
			}
		}
		if n == 0 {
			c.violation("C19-R3", "C19-R3|WriteMsg|opt.Option = stripECS(...)", wf.Pos(), "the result of stripECS is never stored into opt.Option")
		}
	}
	if sf := c.fn("C19-R3", "middleware/edns.stripECS"); sf != nil {
		tn := c.P.TypeName("github.com/miekg/dns.EDNS0_SUBNET")
		isECSAssert := func(e *Expr) bool {
			if e.K != EExtract || e.Idx != 1 || e.X == nil || e.X.K != ETypeAssert {
				return false
			}
			ta, ok := e.X.V.(*ssa.TypeAssert)
			if !ok {
				return false
			}
			nt, ok := deref(ta.AssertedType).(*types.Named)
			return ok && nt.Obj() == tn
		}
		c.MustCross("C19-R3", sf, "keep = append(keep, o)", func(in ssa.Instruction) bool {
			cl, ok := in.(*ssa.Call)
			if !ok {
				return false
			}
			b, ok := cl.Call.Value.(*ssa.Builtin)
			return ok && b.Name() == "append"
		}, OnFalse("o.(*EDNS0_SUBNET)", isECSAssert))
	}
	ecsCode := c.P.ConstVal("github.com/miekg/dns.EDNS0SUBNET")
	n := 0
	for _, name := range []string{"internal/wire.AppendOption", "internal/wire.AppendOptionString"} {
		f := c.fobj("C19-R3", name)
		for _, s := range c.CallSites(f) {
			n++
			key := "C19-R3|" + name + "|code|" + fnKey(TopLevel(s.Fn))
			e := strip(Desc(callArg(s.Instr, 1)))
			if e == nil || e.K != EConst || e.Val == nil {
				c.violation("C19-R3", key, instrPos(s.Instr), "option code is not a constant: "+e.String())
				continue
			}
			if ecsCode != nil && constant.Compare(constant.ToInt(e.Val), 39 /* token.EQL */, constant.ToInt(ecsCode)) {
				c.violation("C19-R3", key, instrPos(s.Instr), "wire path emits the EDNS Client Subnet option toward a client")
				continue
			}
			c.ok("C19-R3", key, instrPos(s.Instr), "option code "+e.Val.ExactString()+" ≠ ECS")
		}
	}
	if n < 3 {
		c.unresolved("C19-R3", "wire option appenders", fmt.Sprintf("expected ≥3 call sites, found %d", n))
	}

	// ---------------------------------------------------------------- R4
	c.Doc("C19-R4", "SetFromResponseScoped: single caller (cache.ResponseWriter.WriteMsg) behind clientScope.IsValid ∧ ReadResponseScope ok, scope argument from ClampScope; PrefetchEligible = !scoped(); prefetch enqueue only behind PrefetchEligible; every entry TTL on the scoped-capable store path passes the ECS cap; wire fast path declines on HasECS")
	sfrs := c.fobj("C19-R4", "middleware/cache.(*Store).SetFromResponseScoped")
	readScope := c.fobj("C19-R4", "internal/ecs.ReadResponseScope")
	clampScope := c.fobj("C19-R4", "internal/ecs.(*Policy).ClampScope")
	clientScopeF := c.field("C19-R4", "middleware/cache.ResponseWriter.clientScope")
	isValid := c.fobj("C19-R4", "net/netip.Prefix.IsValid")
	if sfrs != nil {
		c.WhoMay("C19-R4", "SetFromResponseScoped", c.CallSites(sfrs), map[string]string{"(*middleware/cache.ResponseWriter).WriteMsg": "the only scoped admission site"})
	}
	if wf := c.fn("C19-R4", "middleware/cache.(*ResponseWriter).WriteMsg"); wf != nil && sfrs != nil && readScope != nil && clampScope != nil && clientScopeF != nil && isValid != nil {
		scopeValid := func(e *Expr) bool {
			return CallTo(isValid)(e) && e.K == ECall && len(e.Args) == 1 && FieldIs(clientScopeF)(e.Args[0])
		}
		c.MustCross("C19-R4", wf, "SetFromResponseScoped", isPlainCallTo(sfrs), OnTrue("clientScope.IsValid()", scopeValid))
		c.MustCross("C19-R4", wf, "SetFromResponseScoped", isPlainCallTo(sfrs), OnTrue("ReadResponseScope ok", ResultOf(1, readScope)))
		// the scoped store and its clamp may sit in WriteMsg or in an unexported helper
		// split off from it (the who-may table above already ties every site to WriteMsg)
		stores, clamps := instrsInScope(wf, isPlainCallTo(sfrs)), instrsInScope(wf, isPlainCallTo(clampScope))
		if len(stores) == 0 {
			c.unresolved("C19-R4", "WriteMsg|scope argument", "no SetFromResponseScoped call found in WriteMsg or its helpers")
		}
		if len(clamps) == 0 {
			c.unresolved("C19-R4", "WriteMsg|ClampScope(respScope, clientScope)", "no ClampScope call found in WriteMsg or its helpers")
		}
		for _, in := range stores {
			c.OriginCheck("C19-R4", "C19-R4|WriteMsg|scope argument", in, "scope", callArg(in, 3), nil, CallTo(clampScope))
		}
		for _, in := range clamps {
			a1, a2 := Desc(callArg(in, 1)), Desc(callArg(in, 2))
			key := "C19-R4|WriteMsg|ClampScope(respScope, clientScope)"
			if ResultOf(0, readScope)(a1) && FieldIs(clientScopeF)(a2) {
				c.ok("C19-R4", key, instrPos(in), "scope clamped against what was forwarded")
			} else {
				c.violation("C19-R4", key, instrPos(in), "ClampScope arguments are not (ReadResponseScope result, w.clientScope)")
			}
		}
	}
	scoped := c.fobj("C19-R4", "middleware/cache.(*CacheEntry).scoped")
	pe := c.fobj("C19-R4", "middleware/cache.(*CacheEntry).PrefetchEligible")
	if pf := c.fn("C19-R4", "middleware/cache.(*CacheEntry).PrefetchEligible"); pf != nil && scoped != nil {
		for _, in := range returnsWhere(pf, 0, nil) {
			e := Desc(in.(*ssa.Return).Results[0])
			a, pol := Truthy(e)
			if a != nil && CallTo(scoped)(a) && !pol {
				c.ok("C19-R4", "C19-R4|PrefetchEligible", instrPos(in), "returns !e.scoped()")
			} else {
				c.violation("C19-R4", "C19-R4|PrefetchEligible", instrPos(in), "PrefetchEligible is not !scoped(): "+e.String())
			}
		}
	}
	if add := c.fobj("C19-R4", "middleware/cache.(*PrefetchQueue).Add"); add != nil && pe != nil {
		for _, s := range c.CallSites(add) {
			top := TopLevel(s.Fn)
			ug, tr := c.unguarded(s.Instr, []Barrier{OnTrue("PrefetchEligible", CallTo(pe))}, top)
			key := "C19-R4|prefetch enqueue|" + fnKey(top)
			if ug {
				c.violation("C19-R4", key, instrPos(s.Instr), "prefetch enqueued without PrefetchEligible()=true: a scoped entry would be refreshed without its audience; path "+tr)
			} else {
				c.ok("C19-R4", key, instrPos(s.Instr), "enqueue behind PrefetchEligible()")
			}
		}
	}
	// scoped TTL cap: every ttl passed to the entry constructors in setFromResponseWithKey goes through the capping closure
	if sf := c.fn("C19-R4", "middleware/cache.(*Store).setFromResponseWithKey"); sf != nil {
		ecsMax := c.c19FieldNamed("C19-R4", "middleware/cache", "ECSMaxTTL")
		var capFn, newEntryFn *ssa.Function
		for _, a := range sf.AnonFuncs {
			reads := false
			constructs := false
			for _, b := range a.Blocks {
				for _, in := range b.Instrs {
					if ld, ok := in.(*ssa.UnOp); ok {
						if FieldIs(ecsMax)(Desc(ld)) {
							reads = true
						}
					}
					if n := calleeName(in); n == "NewScopedCacheEntry" || n == "NewCacheEntryWithKey" {
						constructs = true
					}
				}
			}
			if reads && !constructs {
				capFn = a
			}
			if constructs {
				newEntryFn = a
			}
		}
		if capFn == nil || newEntryFn == nil || ecsMax == nil {
			c.unresolved("C19-R4", "setFromResponseWithKey closures", "cap / constructor closures not found")
		} else {
			// the cap closure returns the cap on the scoped ∧ ttl>cap edge
			nsite := 0
			for _, b := range sf.Blocks {
				for _, in := range b.Instrs {
					cl, ok := in.(*ssa.Call)
					if !ok {
						continue
					}
					if e := Desc(cl.Call.Value); e.K != EClosure || e.SFn != newEntryFn {
						continue
					}
					nsite++
					ttl := Desc(cl.Call.Args[1])
					key := "C19-R4|setFromResponseWithKey|entry ttl capped"
					okCap := ttl.K == ECall && ttl.SFn == capFn
					if !okCap {
						// negative entries may use a constant/derived TTL smaller than the cap only if they also pass the cap
						okCap = Contains(func(x *Expr) bool { return x.K == ECall && x.SFn == capFn })(ttl)
					}
					if okCap {
						c.ok("C19-R4", key, instrPos(in), "entry TTL = capTTL(…)")
					} else {
						c.violation("C19-R4", key, instrPos(in), "entry TTL bypasses the scoped (ECS) TTL cap: "+trunc(ttl.String(), 160))
					}
				}
			}
			if nsite == 0 {
				c.unresolved("C19-R4", "setFromResponseWithKey newEntry calls", "no constructor call found")
			}
			c.MustCross("C19-R4", capFn, "return ttl uncapped", func(in ssa.Instruction) bool {
				r, ok := in.(*ssa.Return)
				return ok && len(r.Results) == 1 && Desc(r.Results[0]).K == EParam
			}, OnFalse("scoped ∧ cap>0 ∧ ttl>cap", func(e *Expr) bool { return true }))
		}
	}
	hasECS := c.fobj("C19-R4", "middleware.(*Request).HasECS")
	if sw := c.fn("C19-R4", "middleware/cache.(*Cache).serveWire"); sw != nil && hasECS != nil {
		c.MustCross("C19-R4", sw, "wire ladder", func(in ssa.Instruction) bool {
			n := calleeName(in)
			return n == "checkCache" || n == "serveHitFromWire" || n == "serveCompositeFromWire"
		}, OnFalse("req.HasECS()", CallTo(hasECS)))
	}
	c.Floor("C19-R4", 12)

	// ---------------------------------------------------------------- R5
	c.Doc("C19-R5", "the client-ECS marker is pinned before policy stripping in both edns branches, re-pinned wherever a context is detached (Chain.detachStrictContext, the resolver's detached job, the prefetch worker), and every shared-denial producer/consumer in the cache is behind the ECS/scope/bypass atoms")
	mark := c.fobj("C19-R5", "middleware.MarkClientECS")
	has := c.fobj("C19-R5", "middleware.HasClientECS")
	setEdns0 := c.fobj("C19-R5", "internal/dnsutil.SetEdns0")
	hasClientECSmsg := c.fobj("C19-R5", "middleware/edns.hasClientECS")
	next := c.fobj("C19-R5", "middleware.(*Chain).Next")
	if ef := c.fn("C19-R5", "middleware/edns.(*EDNS).ServeDNS"); ef != nil && mark != nil && setEdns0 != nil && hasClientECSmsg != nil {
		c.AfterEdge("C19-R5", ef, "ECS query reaches SetEdns0 unmarked", OnTrue("hasClientECS(req)", CallTo(hasClientECSmsg)), isPlainCallTo(setEdns0), CallBarrier("MarkClientECS", mark))
		// and the test itself precedes SetEdns0 on every path
		c.MustCross("C19-R5", ef, "SetEdns0", isPlainCallTo(setEdns0), CallBarrier("hasClientECS", hasClientECSmsg))
	}
	if ef := c.fn("C19-R5", "middleware/edns.(*EDNS).serveWire"); ef != nil && mark != nil && hasECS != nil && next != nil {
		c.AfterEdge("C19-R5", ef, "wire ECS query continues unmarked", OnTrue("req.HasECS()", CallTo(hasECS)), isCallTo(next), CallBarrier("MarkClientECS", mark))
		c.MustCross("C19-R5", ef, "ch.Next", isCallTo(next), CallBarrier("HasECS", hasECS))
	}
	if has != nil && mark != nil {
		if fn := c.fn("C19-R5", "middleware.(*Chain).detachStrictContext"); fn != nil {
			c.c19Repin(fn, has, mark)
		}
		// the prefetch worker re-pins from the fact captured at enqueue time
		hadECS := c.field("C19-R5", "middleware/cache.PrefetchRequest.RequestHadECS")
		if fn := c.fn("C19-R5", "middleware/cache.(*PrefetchQueue).processPrefetch"); fn != nil && hadECS != nil {
			c.MustCross("C19-R5", fn, "prefetch exchange of an ECS-triggered entry runs unmarked", func(in ssa.Instruction) bool {
				n := calleeName(in)
				return n == "prefetchExchange" || n == "Query"
			}, CallBarrier("MarkClientECS", mark), OnFalse("req.RequestHadECS", FieldIs(hadECS)))
			for _, s := range c.StoreSites(hadECS) {
				e := Desc(s.Val)
				key := "C19-R5|PrefetchRequest.RequestHadECS origin|" + fnKey(TopLevel(s.Fn))
				if Contains(CallTo(has))(e) || (e.K == EPhi && Contains(CallTo(c.P.FuncObj("middleware/cache.hasEDNSClientSubnet")))(e)) {
					c.ok("C19-R5", key, instrPos(s.Instr), "captured from HasClientECS(ctx) || hasEDNSClientSubnet(req)")
				} else {
					c.violation("C19-R5", key, instrPos(s.Instr), "RequestHadECS is not captured from the request's ECS facts: "+trunc(e.String(), 160))
				}
			}
		}
		// the resolver's detached job: discovered as "calls HasClientECS and MarkClientECS" in package resolver
		found := 0
		for _, fn := range c.P.FuncsInPkg("middleware/resolver") {
			if fn.Parent() != nil {
				continue
			}
			if len(instrsWhere(fn, isPlainCallTo(has))) > 0 {
				found++
				c.c19Repin(fn, has, mark)
			}
		}
		if found == 0 {
			c.unresolved("C19-R5", "resolver detached job", "no HasClientECS re-pin site found in package resolver")
		}
	}
	// cache producers / consumers
	reqHasECS := c.field("C19-R5", "middleware/cache.ResponseWriter.requestHasECS")
	bypassF := c.field("C19-R5", "middleware/cache.ResponseWriter.requestTreeBypassesSharedDenial")
	recProof := c.fobj("C19-R5", "middleware/cache.(*Store).RecordDenialProof")
	recCut := c.fobj("C19-R5", "middleware/cache.(*Store).RecordNXDomainCut")
	if wf := c.fn("C19-R5", "middleware/cache.(*ResponseWriter).WriteMsg"); wf != nil && reqHasECS != nil && bypassF != nil && recProof != nil && recCut != nil && clientScopeF != nil && isValid != nil {
		scopeValid := func(e *Expr) bool {
			return CallTo(isValid)(e) && e.K == ECall && len(e.Args) == 1 && FieldIs(clientScopeF)(e.Args[0])
		}
		for _, b := range []Barrier{OnFalse("w.requestHasECS", FieldIs(reqHasECS)), OnFalse("w.requestTreeBypassesSharedDenial", FieldIs(bypassF)), OnFalse("w.clientScope.IsValid()", scopeValid)} {
			c.MustCross("C19-R5", wf, "publish shared denial state", isPlainCallTo(recProof, recCut), b)
		}
	}
	sdb := c.fobj("C19-R5", "middleware/cache.sharedDenialBypass")
	hasSubnet := c.fobj("C19-R5", "middleware/cache.hasEDNSClientSubnet")
	lookCut := c.fobj("C19-R5", "middleware/cache.(*Store).LookupNXDomainCut")
	lookProof := c.fobj("C19-R5", "middleware/cache.(*Store).lookupDenialProofWithExpiry")
	scopeParamValid := func(e *Expr) bool {
		return CallTo(isValid)(e) && e.K == ECall && len(e.Args) == 1 && e.Args[0].K == EParam && e.Args[0].Name == "clientScope"
	}
	if fn := c.fn("C19-R5", "middleware/cache.(*Cache).lookupNXDomainCut"); fn != nil && sdb != nil && lookCut != nil {
		c.MustCross("C19-R5", fn, "shared cut lookup", isPlainCallTo(lookCut), OnFalse("sharedDenialBypass(ctx)", CallTo(sdb)))
		c.MustCross("C19-R5", fn, "shared cut lookup", isPlainCallTo(lookCut), OnFalse("clientScope.IsValid()", scopeParamValid))
	}
	if fn := c.fn("C19-R5", "middleware/cache.(*Cache).lookupDenialProof"); fn != nil && sdb != nil && lookProof != nil && hasSubnet != nil {
		c.MustCross("C19-R5", fn, "shared proof lookup", isPlainCallTo(lookProof), OnFalse("sharedDenialBypass(ctx)", CallTo(sdb)))
		c.MustCross("C19-R5", fn, "shared proof lookup", isPlainCallTo(lookProof), OnFalse("clientScope.IsValid()", scopeParamValid))
		c.MustCross("C19-R5", fn, "shared proof lookup", isPlainCallTo(lookProof), OnFalse("hasEDNSClientSubnet(req)", CallTo(hasSubnet)))
	}
	if fn := c.fn("C19-R5", "middleware/cache.(*Store).GetWithContext"); fn != nil && sdb != nil && has != nil && hasSubnet != nil && lookCut != nil && lookProof != nil {
		for _, b := range []Barrier{OnFalse("HasClientECS(ctx)", CallTo(has)), OnFalse("hasEDNSClientSubnet(req)", CallTo(hasSubnet)), OnFalse("sharedDenialBypass(ctx)", CallTo(sdb))} {
			c.MustCross("C19-R5", fn, "resolver-internal shared denial lookup", isPlainCallTo(lookCut, lookProof), b)
		}
	}
	// Cache.ServeDNS: an ECS-bearing or CD request pins the bypass before any lookup
	wsdb := c.fobj("C19-R5", "middleware/cache.withSharedDenialBypass")
	if fn := c.fn("C19-R5", "middleware/cache.(*Cache).ServeDNS"); fn != nil && has != nil && hasSubnet != nil && wsdb != nil {
		lookups := func(in ssa.Instruction) bool {
			n := calleeName(in)
			return n == "lookupNXDomainCut" || n == "lookupDenialProof"
		}
		// every path to the shared lookups either pinned the bypass or saw "no ECS" from both sources
		c.MustCross("C19-R5", fn, "shared denial lookups", lookups, CallBarrier("withSharedDenialBypass", wsdb),
			OnFalse("HasClientECS(ctx)||hasEDNSClientSubnet(req)", AnyOf(CallTo(has), CallTo(hasSubnet))))
		// and the request-level flag handed to the writer is that same disjunction
		if reqHasECS != nil {
			for _, s := range c.StoreSites(reqHasECS) {
				e := Desc(s.Val)
				key := "C19-R5|ResponseWriter.requestHasECS origin|" + fnKey(TopLevel(s.Fn))
				if IsConstBool(false)(e) {
					continue // reset of the pooled writer
				}
				if e.K == EPhi && Contains(CallTo(hasSubnet))(e) {
					c.ok("C19-R5", key, instrPos(s.Instr), "requestHasECS = HasClientECS(ctx) || hasEDNSClientSubnet(req)")
				} else {
					c.violation("C19-R5", key, instrPos(s.Instr), "requestHasECS does not derive from the request's ECS facts: "+trunc(e.String(), 160))
				}
			}
		}
	}
	c.Floor("C19-R5", 18)
}

// c19Repin: in fn, the HasClientECS=true edge reaches no return/goroutine/next
// use without crossing MarkClientECS.
func (c *Ctx) c19Repin(fn *ssa.Function, has, mark *types.Func) {
	c.AfterEdge("C19-R5", fn, "ECS marker lost on detach", OnTrue("HasClientECS(ctx)", CallTo(has)), func(in ssa.Instruction) bool {
		switch in.(type) {
		case *ssa.Return, *ssa.Go:
			return true
		}
		return false
	}, CallBarrier("MarkClientECS", mark))
}

// stripArgsOf returns e with the argument lists of calls to f removed (used to
// ask "does the raw value appear outside f(…)").
func stripArgsOf(e *Expr, f *types.Func) *Expr {
	if e == nil {
		return nil
	}
	cp := *e
	if e.K == ECall && e.Fn != nil && sameFunc(e.Fn, f) {
		cp.Args = nil
		return &cp
	}
	cp.X = stripArgsOf(e.X, f)
	cp.Y = stripArgsOf(e.Y, f)
	cp.Args = nil
	for _, a := range e.Args {
		cp.Args = append(cp.Args, stripArgsOf(a, f))
	}
	return &cp
}

// c19FieldNamed finds a struct field by name among the named struct types of a package.
func (c *Ctx) c19FieldNamed(rule, pkgRel, field string) *types.Var {
	pk := c.P.ByPath[c.P.expand(pkgRel)]
	if pk == nil || pk.Types == nil {
		c.unresolved(rule, pkgRel, "package not found")
		return nil
	}
	var found *types.Var
	for _, n := range pk.Types.Scope().Names() {
		tn, ok := pk.Types.Scope().Lookup(n).(*types.TypeName)
		if !ok {
			continue
		}
		st, ok := tn.Type().Underlying().(*types.Struct)
		if !ok {
			continue
		}
		for i := 0; i < st.NumFields(); i++ {
			if st.Field(i).Name() == field {
				if found != nil && found != st.Field(i) {
					c.unresolved(rule, pkgRel+"."+field, "field name is ambiguous")
					return nil
				}
				found = st.Field(i)
			}
		}
	}
	if found == nil {
		c.unresolved(rule, pkgRel+"."+field, "field not found")
	}
	return found
}
