package main

// C09-R16 (finding F-C09-5) — an accepted revocation outlives the refresh that
// accepted it.
//
// AutoTA rebuilds everything it knows from the two files and the configuration
// at the start of every run; the tombstone set it works on is a local.  A
// revocation accepted from the network therefore exists, when the run ends,
// only in what the run left behind: the tombstone file (writeTombstones
// returned nil), the StateRevoked marker in the state file (writeToTAFile
// returned nil) — or, when neither write landed, state of the Resolver that
// the next run starts from.  The fail-closed clear of rootKeys on that last
// path is not such a record: it says "trust nothing now", not "never trust K
// again", and the next run whose write succeeds publishes what the disk still
// says — K as a Valid anchor.
//
// Decided from the SSA alone:
//
//   (a) from every point where AutoTA records a revocation downstream of the
//       fetch (store of StateRevoked into TrustAnchor.State, insertion into a
//       Tombstones map — the same sites C09-R4/R7 reason about), every path to
//       a return of AutoTA crosses the nil-error edge of writeTombstones, the
//       nil-error edge of writeToTAFile, or a store of a non-nil tombstone set
//       into a field of the Resolver (a "retention field", discovered by its
//       type, never by name).  The one exempt edge is the false edge of the
//       sticky flag that is provably true from the site on (as in C09-R7), so
//       "retain only when this run accepted a new revocation" is accepted too.
//       Unexported helpers are seen through by summary (engine), so the
//       retention may live in `r.noteTombstoneWrite(tombstones, tombErr)`.
//
//   (b) every retention field is read back: in AutoTA every possibly non-empty
//       store to rootKeys and every writeTombstones call (which, on success,
//       is what licenses clearing the field) is preceded on every path by a
//       load of the field.  A field that is written and never consulted is the
//       same defect one refresh later.
//
// Not decided here: that the value read back is merged correctly (precedence
// of the merged set over state, configuration and fetched keys is C09-R5's
// business once the entries are in the Tombstones map).

import (
	"go/token"
	"go/types"

	"golang.org/x/tools/go/ssa"
)

func init() {
	wrap := func(id string, extra func(c *Ctx), explain string) {
		pd := props[id]
		if pd == nil {
			return
		}
		orig := pd.Run
		pd.Run = func(c *Ctx) { orig(c); extra(c) }
		pd.Explanation += " " + explain
	}
	wrap("C09", c09R16, "R16 (F-C09-5): a revocation accepted from the network is never left in the locals of the refresh that accepted it — every path from the acceptance to AutoTA's return crosses a successful tombstone write, a successful state write, or a store of the in-memory tombstone set into the Resolver, and that retained set is read back before the next publication or tombstone write; clearing rootKeys alone only postpones the republication of the revoked key to the next refresh whose write succeeds.")
}

func c09R16(c *Ctx) {
	const R = "C09-R16"
	c.Doc(R, "an accepted revocation outlives the refresh: from every StateRevoked store / Tombstones insertion downstream of the fetch, every path to AutoTA's return crosses writeTombstones err==nil, writeToTAFile err==nil, or a store of a non-nil tombstone set into a Resolver field (exempt: the false edge of a flag provably true by then); every such retention field is loaded in AutoTA before any non-nil rootKeys store and before writeTombstones")
	a := c09Anchors(c)
	if a == nil {
		return
	}
	fn := a.autoTA
	if fn.Signature.Recv() == nil {
		c.unresolved(R, fnKey(fn)+"|receiver", "AutoTA is not a method")
		return
	}
	recvT := deref(fn.Signature.Recv().Type())
	tombUnder := a.tombMapT.Type().Underlying()

	// retention fields: fields of the receiver's struct that hold a tombstone set
	// and are stored with a possibly non-nil value in AutoTA's scope
	retField := func(in ssa.Instruction) *types.Var {
		st, ok := in.(*ssa.Store)
		if !ok {
			return nil
		}
		fa, ok := st.Addr.(*ssa.FieldAddr)
		if !ok || !types.Identical(deref(fa.X.Type()), recvT) {
			return nil
		}
		s, ok := recvT.Underlying().(*types.Struct)
		if !ok {
			return nil
		}
		fv := s.Field(fa.Field).Origin()
		if !types.Identical(fv.Type().Underlying(), tombUnder) {
			return nil
		}
		return fv
	}
	retains := func(in ssa.Instruction) bool {
		if retField(in) == nil {
			return false
		}
		ls := Origins(Desc(in.(*ssa.Store).Val), nil)
		if len(ls) == 0 {
			return false
		}
		for _, l := range ls {
			if IsNilConst(l) {
				return false // may store nil: does not retain on this path
			}
		}
		return true
	}
	fields := map[*types.Var]bool{}
	for _, in := range instrsInScope(fn, retains) {
		fields[retField(in)] = true
	}

	// (a)
	tombOK := OnFalse("tombErr", ResultOf(0, a.writeTomb))
	stateOK := OnFalse("stateErr", ResultOf(0, a.writeTA))
	retainBar := Barrier{Name: "Resolver.<Tombstones field> = <non-nil tombstone set>", Instr: retains}
	fetch := instrsWhere(fn, isPlainCallTo(a.resolve))
	all := reach(pointsAfter(fetch), nil, nil)
	revs := instrsWhere(fn, func(in ssa.Instruction) bool {
		return all.visited[in] && (a.stateStoreOf(in, "StateRevoked") || a.tombUpdate(in))
	})
	keyA := R + "|" + fnKey(fn) + "|accepted revocation is durable or retained in the Resolver before return"
	for _, s := range revs {
		s := s
		sticky := Barrier{Name: "flag=false (infeasible: set on every path from here)", Edge: func(cond *Expr) (bool, int) {
			p := c09PhiOf(cond)
			if p == nil || !c09StickyTrue(p, s) {
				return false, 0
			}
			_, pol := Truthy(cond)
			if pol {
				return true, 1
			}
			return true, 0
		}}
		r := reach([]Point{pointAfter(s)}, []Barrier{tombOK, stateOK, retainBar, sticky}, nil)
		bad := false
		for _, t := range r.order {
			if isReturn(t) && TopLevel(t.Parent()) == fn && t.Parent() == fn {
				bad = true
				c.violation(R, keyA, instrPos(t), "a revocation accepted in this refresh is forgotten when it ends: AutoTA returns with neither the tombstone file nor the state file written and the in-memory tombstone set kept nowhere (clearing rootKeys does not record WHICH key is revoked) — the next refresh rebuilds from disk/configuration, where the key is still a Valid anchor, and publishes it again once a write succeeds; path "+trunc(c.trail(r, t), 400))
				break
			}
		}
		if !bad {
			c.ok(R, keyA, instrPos(s), "every path to return crosses writeTombstones err==nil, writeToTAFile err==nil or a store of the tombstone set into the Resolver")
		}
	}
	if len(revs) == 0 {
		c.unresolved(R, fnKey(fn)+"|revocation sites", "no StateRevoked store / Tombstones insertion downstream of the fetch")
	}

	// (b)
	n := 0
	for fv := range fields {
		fv := fv
		loadBar := Barrier{Name: "load " + fv.Name(), Instr: func(in ssa.Instruction) bool {
			u, ok := in.(*ssa.UnOp)
			if !ok || u.Op != token.MUL {
				return false
			}
			fa, ok := u.X.(*ssa.FieldAddr)
			if !ok {
				return false
			}
			s, ok := deref(fa.X.Type()).Underlying().(*types.Struct)
			return ok && s.Field(fa.Field).Origin() == fv
		}}
		keyB := R + "|" + fnKey(fn) + "|retained revocations are read back before publish and before writeTombstones"
		for _, t := range instrsWhere(fn, func(in ssa.Instruction) bool {
			return a.rootKeysStore(in, true) || isPlainCallTo(a.writeTomb)(in)
		}) {
			n++
			if ug, tr := c.unguarded(t, []Barrier{loadBar}, fn); ug {
				c.violation(R, keyB, instrPos(t), "the tombstone set retained in Resolver."+fv.Name()+" is not consulted on a path to this publication / tombstone write: the revocation it holds is not applied (and a successful write then licenses dropping it); path "+trunc(tr, 300))
			} else {
				c.ok(R, keyB, instrPos(t), "Resolver."+fv.Name()+" is loaded on every path to here")
			}
		}
	}
	_ = n
	c.Floor(R, 1)
}
