package main

// C09-R16 (finding F-C09-5) — an accepted revocation outlives the refresh that
// accepted it.
//
// AutoTA rebuilds everything it knows from the two files and the configuration
// at the start of every run; the tombstone set it works on is a local.  A
// revocation accepted from the network therefore exists, when the run ends,
// only in what the run left behind: the tombstone file (writeTombstones
// returned nil), the StateRevoked marker in the state file (writeToTAFile
// returned nil) — or, when neither write landed, state of the Resolver that
// the next run starts from.  The fail-closed clear of rootKeys on that last
// path is not such a record: it says "trust nothing now", not "never trust K
// again", and the next run whose write succeeds publishes what the disk still
// says — K as a Valid anchor.
//
// Decided from the SSA alone:
//
//   (a) from every point where AutoTA records a revocation downstream of the
//       fetch (store of StateRevoked into TrustAnchor.State, insertion into a
//       Tombstones map — the same sites C09-R4/R7 reason about), every path to
//       a return of AutoTA crosses the nil-error edge of writeTombstones, the
//       nil-error edge of writeToTAFile, or a store of a non-nil tombstone set
//       into a field of the Resolver (a "retention field", discovered by its
//       type, never by name).  The one exempt edge is the false edge of the
//       sticky flag that is provably true from the site on (as in C09-R7), so
//       "retain only when this run accepted a new revocation" is accepted too.
//       Unexported helpers are seen through by summary (engine), so the
//       retention may live in `r.noteTombstoneWrite(tombstones, tombErr)`.
//
//   (b) every retention field is read back: in AutoTA every possibly non-empty
//       store to rootKeys and every writeTombstones call (which, on success,
//       is what licenses clearing the field) is preceded on every path by a
//       load of the field.  A field that is written and never consulted is the
//       same defect one refresh later.
//
//   (c) (seeded change C09-w5g4c1) the revocations a retention field holds are
//       accepted revocations too, and for them no flag of the current run is
//       set: the field is overwritten with nil (or a fresh empty map) only
//       behind the nil-error edge of writeTombstones — the one event that puts
//       every retained entry on disk.  The nil-error edge of writeToTAFile is
//       NOT enough here: the StateRevoked marker exists only for a retained key
//       that still has a state entry, and a key retained from a run that started
//       without a state file has none.  "Retain only when this run accepted a
//       new revocation" (accepted by (a) for the revocation of this run) drops
//       the set on the second consecutive failed round.
//
//   (d) (seeded change C09-w5g4c2) reading the field back is not enough: the
//       loaded set is ranged over (or maps.Copy'd), and from the top of the loop
//       body every path to the next iteration, out of the loop towards
//       writeTombstones, or out of the helper holding the loop crosses the
//       insertion `<run's Tombstones map>[range key] = …` or the edge on which
//       that map already holds the key — so the insertion cannot hang on a
//       lookup in the state map; the map is the one handed to writeTombstones,
//       and every writeTombstones call is preceded by such a complete merge.
//
// Not decided here: precedence of the merged set over state, configuration and
// fetched keys (C09-R5's business once the entries are in the Tombstones map).

import (
	"go/token"
	"go/types"

	"golang.org/x/tools/go/ssa"
)

func init() {
	wrap := func(id string, extra func(c *Ctx), explain string) {
		pd := props[id]
		if pd == nil {
			return
		}
		orig := pd.Run
		pd.Run = func(c *Ctx) { orig(c); extra(c) }
		pd.Explanation += " " + explain
	}
	wrap("C09", c09R16, "R16 (F-C09-5): a revocation accepted from the network is never left in the locals of the refresh that accepted it — every path from the acceptance to AutoTA's return crosses a successful tombstone write, a successful state write, or a store of the in-memory tombstone set into the Resolver, and that retained set is read back before the next publication or tombstone write; clearing rootKeys alone only postpones the republication of the revoked key to the next refresh whose write succeeds. The retained set itself (W5): the field is emptied only behind writeTombstones err==nil (not on a flag of the current run, not when it is read), and every element read back is inserted into the map handed to writeTombstones — on every path through the merge loop, independent of the state map — before that call.")
}

func c09R16(c *Ctx) {
	const R = "C09-R16"
	c.Doc(R, "an accepted revocation outlives the refresh: from every StateRevoked store / Tombstones insertion downstream of the fetch, every path to AutoTA's return crosses writeTombstones err==nil, writeToTAFile err==nil, or a store of a non-nil tombstone set into a Resolver field (exempt: the false edge of a flag provably true by then); every such retention field is loaded in AutoTA before any non-nil rootKeys store and before writeTombstones, is overwritten with nil/an empty map only behind writeTombstones err==nil, and the loaded set is ranged over with every element inserted into (or already present in) the map handed to writeTombstones on every path through the loop body, before writeTombstones")
	a := c09Anchors(c)
	if a == nil {
		return
	}
	fn := a.autoTA
	if fn.Signature.Recv() == nil {
		c.unresolved(R, fnKey(fn)+"|receiver", "AutoTA is not a method")
		return
	}
	recvT := deref(fn.Signature.Recv().Type())
	tombUnder := a.tombMapT.Type().Underlying()

	// retention fields: fields of the receiver's struct that hold a tombstone set
	// and are stored with a possibly non-nil value in AutoTA's scope
	retField := func(in ssa.Instruction) *types.Var {
		st, ok := in.(*ssa.Store)
		if !ok {
			return nil
		}
		fa, ok := st.Addr.(*ssa.FieldAddr)
		if !ok || !types.Identical(deref(fa.X.Type()), recvT) {
			return nil
		}
		s, ok := recvT.Underlying().(*types.Struct)
		if !ok {
			return nil
		}
		fv := s.Field(fa.Field).Origin()
		if !types.Identical(fv.Type().Underlying(), tombUnder) {
			return nil
		}
		return fv
	}
	tombOK := OnFalse("tombErr", ResultOf(0, a.writeTomb))
	// mayDrop: the value may be nil or a fresh map nothing is put into
	mayDrop := func(v ssa.Value) bool {
		ls := Origins(Desc(v), nil)
		if len(ls) == 0 {
			return true
		}
		for _, l := range ls {
			if IsNilConst(l) {
				return true
			}
			if mm, ok := l.V.(*ssa.MakeMap); ok && mm.Parent() != nil && len(c09MapUpdatesOf(mm.Parent(), mm)) == 0 {
				return true
			}
		}
		return false
	}
	// dropEdges: for a store whose value is selected by a phi (`keep := nil; if
	// tombErr != nil { keep = tombstones }; r.f = keep`), the incoming edges that
	// carry a possibly-empty value; ok=false when the value is not such a phi
	type cfgEdge struct{ pred, succ *ssa.BasicBlock }
	dropEdges := func(st *ssa.Store) (es []cfgEdge, ok bool) {
		ph, isPhi := st.Val.(*ssa.Phi)
		if !isPhi || ph.Block() == nil || len(ph.Edges) != len(ph.Block().Preds) {
			return nil, false
		}
		for i, ed := range ph.Edges {
			if mayDrop(ed) {
				es = append(es, cfgEdge{ph.Block().Preds[i], ph.Block()})
			}
		}
		return es, true
	}
	retains := func(in ssa.Instruction) bool {
		if retField(in) == nil {
			return false
		}
		st := in.(*ssa.Store)
		if !mayDrop(st.Val) {
			return true
		}
		// may store nil — but only over edges behind a successful tombstone write:
		// on every path (a) walks (none crosses that edge) the store retains
		if es, ok := dropEdges(st); ok && len(es) > 0 {
			for _, e := range es {
				if !c.edgeGuarded(e.pred, e.succ, []Barrier{tombOK}, fn) {
					return false
				}
			}
			for _, ed := range st.Val.(*ssa.Phi).Edges {
				if !mayDrop(ed) {
					return true // some edge carries the set
				}
			}
		}
		return false
	}
	// a field counts as a retention field as soon as some store can put a
	// tombstone set into it (even when the same store may also carry nil)
	fields := map[*types.Var]bool{}
	for _, in := range instrsInScope(fn, func(in ssa.Instruction) bool {
		if retField(in) == nil {
			return false
		}
		for _, l := range Origins(Desc(in.(*ssa.Store).Val), nil) {
			if !IsNilConst(l) {
				return true
			}
		}
		return false
	}) {
		fields[retField(in)] = true
	}

	// (a)
	stateOK := OnFalse("stateErr", ResultOf(0, a.writeTA))
	retainBar := Barrier{Name: "Resolver.<Tombstones field> = <non-nil tombstone set>", Instr: retains}
	fetch := instrsWhere(fn, isPlainCallTo(a.resolve))
	all := reach(pointsAfter(fetch), nil, nil)
	revs := instrsWhere(fn, func(in ssa.Instruction) bool {
		return all.visited[in] && (a.stateStoreOf(in, "StateRevoked") || a.tombUpdate(in))
	})
	keyA := R + "|" + fnKey(fn) + "|accepted revocation is durable or retained in the Resolver before return"
	for _, s := range revs {
		s := s
		sticky := Barrier{Name: "flag=false (infeasible: set on every path from here)", Edge: func(cond *Expr) (bool, int) {
			p := c09PhiOf(cond)
			if p == nil || !c09StickyTrue(p, s) {
				return false, 0
			}
			_, pol := Truthy(cond)
			if pol {
				return true, 1
			}
			return true, 0
		}}
		r := reach([]Point{pointAfter(s)}, []Barrier{tombOK, stateOK, retainBar, sticky}, nil)
		bad := false
		for _, t := range r.order {
			if isReturn(t) && TopLevel(t.Parent()) == fn && t.Parent() == fn {
				bad = true
				c.violation(R, keyA, instrPos(t), "a revocation accepted in this refresh is forgotten when it ends: AutoTA returns with neither the tombstone file nor the state file written and the in-memory tombstone set kept nowhere (clearing rootKeys does not record WHICH key is revoked) — the next refresh rebuilds from disk/configuration, where the key is still a Valid anchor, and publishes it again once a write succeeds; path "+trunc(c.trail(r, t), 400))
				break
			}
		}
		if !bad {
			c.ok(R, keyA, instrPos(s), "every path to return crosses writeTombstones err==nil, writeToTAFile err==nil or a store of the tombstone set into the Resolver")
		}
	}
	if len(revs) == 0 {
		c.unresolved(R, fnKey(fn)+"|revocation sites", "no StateRevoked store / Tombstones insertion downstream of the fetch")
	}

	// (b)
	n := 0
	for fv := range fields {
		fv := fv
		loadBar := Barrier{Name: "load " + fv.Name(), Instr: func(in ssa.Instruction) bool {
			u, ok := in.(*ssa.UnOp)
			if !ok || u.Op != token.MUL {
				return false
			}
			fa, ok := u.X.(*ssa.FieldAddr)
			if !ok {
				return false
			}
			s, ok := deref(fa.X.Type()).Underlying().(*types.Struct)
			return ok && s.Field(fa.Field).Origin() == fv
		}}
		keyB := R + "|" + fnKey(fn) + "|retained revocations are read back before publish and before writeTombstones"
		for _, t := range instrsWhere(fn, func(in ssa.Instruction) bool {
			return a.rootKeysStore(in, true) || isPlainCallTo(a.writeTomb)(in)
		}) {
			n++
			if ug, tr := c.unguarded(t, []Barrier{loadBar}, fn); ug {
				c.violation(R, keyB, instrPos(t), "the tombstone set retained in Resolver."+fv.Name()+" is not consulted on a path to this publication / tombstone write: the revocation it holds is not applied (and a successful write then licenses dropping it); path "+trunc(tr, 300))
			} else {
				c.ok(R, keyB, instrPos(t), "Resolver."+fv.Name()+" is loaded on every path to here")
			}
		}
	}
	_ = n

	c09R16Drop(c, a, R, fn, fields, retField, mayDrop, tombOK, func(st *ssa.Store) ([][2]*ssa.BasicBlock, bool) {
		es, ok := dropEdges(st)
		var out [][2]*ssa.BasicBlock
		for _, e := range es {
			out = append(out, [2]*ssa.BasicBlock{e.pred, e.succ})
		}
		return out, ok
	})
	c09R16Merge(c, a, R, fn, fields)
	c.Floor(R, 1)
}

// (c) a retention field is emptied only behind writeTombstones err==nil.
func c09R16Drop(c *Ctx, a *c09A, R string, fn *ssa.Function, fields map[*types.Var]bool, retField func(ssa.Instruction) *types.Var,
	mayDrop func(ssa.Value) bool, tombOK Barrier, dropEdges func(*ssa.Store) ([][2]*ssa.BasicBlock, bool)) {
	keyC := R + "|" + fnKey(fn) + "|retained revocations are dropped only behind a successful tombstone write"
	bars := []Barrier{tombOK}
	for _, in := range instrsInScope(fn, func(in ssa.Instruction) bool {
		fv := retField(in)
		return fv != nil && fields[fv] && mayDrop(in.(*ssa.Store).Val)
	}) {
		st := in.(*ssa.Store)
		fv := retField(in)
		why := "Resolver." + fv.Name() + " holds revocations an earlier refresh accepted and could not write; they are accepted revocations of THIS refresh too (merged back at its start) but no flag of this run is set for them. Emptying the field on a path that has not crossed writeTombstones err==nil forgets them: the state-file marker covers only a retained key that still has a state entry, and the next refresh rebuilds from disk/configuration, where the key is a Valid anchor"
		if es, ok := dropEdges(st); ok {
			bad := false
			for _, e := range es {
				if !c.edgeGuarded(e[0], e[1], bars, fn) {
					bad = true
					c.violation(R, keyC, instrPos(in), "the value stored into Resolver."+fv.Name()+" can be nil/empty without a successful tombstone write (unguarded incoming edge of the selecting phi): "+why)
					break
				}
			}
			if !bad {
				c.ok(R, keyC, instrPos(in), "every nil/empty alternative of the stored value arrives over writeTombstones err==nil")
			}
			continue
		}
		if ug, tr := c.unguarded(in, bars, fn); ug {
			c.violation(R, keyC, instrPos(in), "Resolver."+fv.Name()+" is emptied on a path that has not crossed writeTombstones err==nil: "+why+"; path "+trunc(tr, 400))
		} else {
			c.ok(R, keyC, instrPos(in), "Resolver."+fv.Name()+" is emptied only behind writeTombstones err==nil")
		}
	}
}

// (d) every element of the set read back from a retention field goes into the
// run's tombstone set, before writeTombstones.
func c09R16Merge(c *Ctx, a *c09A, R string, fn *ssa.Function, fields map[*types.Var]bool) {
	keyD := R + "|" + fnKey(fn) + "|every retained revocation is put back into the run's tombstone set before writeTombstones"
	// the run's tombstone set: what writeTombstones is handed
	runLeaves := map[string]bool{}
	writes := instrsWhere(fn, isPlainCallTo(a.writeTomb))
	for _, w := range writes {
		cc := callCommon(w)
		if cc == nil {
			continue
		}
		for _, arg := range cc.Args {
			if c09NamedIs(arg.Type(), a.tombMapT) {
				for _, l := range Origins(Desc(arg), nil) {
					runLeaves[l.String()] = true
				}
			}
		}
	}
	if len(runLeaves) == 0 {
		c.unresolved(R, fnKey(fn)+"|tombstone set handed to writeTombstones", "no writeTombstones call with a Tombstones argument in AutoTA")
		return
	}
	// leaves of v, a helper's parameters replaced by the arguments of its call sites
	leavesIn := func(v ssa.Value, f *ssa.Function) []*Expr {
		var out []*Expr
		for _, l := range Origins(Desc(v), nil) {
			if l.K == EParam && TopLevel(f) != fn && l.Idx >= 0 {
				for _, args := range helperActivations(fn, TopLevel(f)) {
					if l.Idx < len(args) && args[l.Idx] != nil {
						out = append(out, Origins(args[l.Idx], nil)...)
					}
				}
				continue
			}
			out = append(out, l)
		}
		return out
	}
	isRunMap := func(v ssa.Value, f *ssa.Function) bool {
		if v == nil || !c09NamedIs(v.Type(), a.tombMapT) {
			return false
		}
		ls := leavesIn(v, f)
		if len(ls) == 0 {
			return false
		}
		for _, l := range ls {
			if !runLeaves[l.String()] {
				return false
			}
		}
		return true
	}
	sameVal := func(x, y ssa.Value) bool {
		un := func(v ssa.Value) ssa.Value {
			for {
				switch t := v.(type) {
				case *ssa.ChangeType:
					v = t.X
					continue
				case *ssa.MakeInterface:
					v = t.X
					continue
				}
				return v
			}
		}
		return x != nil && y != nil && un(x) == un(y)
	}
	for fv := range fields {
		fv := fv
		fromField := func(v ssa.Value, f *ssa.Function) bool {
			ls := leavesIn(v, f)
			if len(ls) == 0 {
				return false
			}
			for _, l := range ls {
				l = strip(l)
				if l == nil || l.K != EField || l.Var != fv || l.Op != 0 {
					return false
				}
			}
			return true
		}
		var complete []ssa.Instruction // merge constructs that cover every element
		nMerge := 0
		for _, f := range scopeFuncs(fn) {
			for _, b := range f.Blocks {
				for _, in := range b.Instrs {
					// maps.Copy(run's set, retained set)
					if cl, ok := in.(*ssa.Call); ok {
						if fo, _, _ := calleeObj(&cl.Call); fo != nil && fo.Pkg() != nil && fo.Pkg().Path() == "maps" && fo.Name() == "Copy" && len(cl.Call.Args) == 2 &&
							isRunMap(cl.Call.Args[0], f) && fromField(cl.Call.Args[1], f) {
							nMerge++
							complete = append(complete, in)
							c.ok(R, keyD, instrPos(in), "maps.Copy of Resolver."+fv.Name()+" into the set handed to writeTombstones")
						}
						continue
					}
					rg, ok := in.(*ssa.Range)
					if !ok || !fromField(rg.X, f) || rg.Referrers() == nil {
						continue
					}
					for _, ref := range *rg.Referrers() {
						nx, ok := ref.(*ssa.Next)
						if !ok || nx.Referrers() == nil {
							continue
						}
						nMerge++
						var okV, keyV ssa.Value
						for _, r2 := range *nx.Referrers() {
							if ex, ok := r2.(*ssa.Extract); ok {
								switch ex.Index {
								case 0:
									okV = ex
								case 1:
									keyV = ex
								}
							}
						}
						blk := nx.Block()
						iff, _ := blk.Instrs[len(blk.Instrs)-1].(*ssa.If)
						if okV == nil || iff == nil || iff.Cond != okV || len(blk.Succs) != 2 {
							c.undecided(R, keyD, instrPos(nx), "loop over Resolver."+fv.Name()+": the loop header is not the plain `next; if ok` shape")
							continue
						}
						if keyV == nil {
							c.violation(R, keyD, instrPos(nx), "the loop over the set read back from Resolver."+fv.Name()+" does not use the element's key (the key-material fingerprint): nothing can be inserted into the run's tombstone set under it, so a retained revocation whose key has no state entry is applied nowhere and the configured-anchor merge re-adds the key as Valid")
							continue
						}
						insert := Barrier{Name: "<run's Tombstones>[range key] = …", Instr: func(i ssa.Instruction) bool {
							mu, ok := i.(*ssa.MapUpdate)
							return ok && sameVal(mu.Key, keyV) && isRunMap(mu.Map, i.Parent())
						}}
						present := OnTrue("run's Tombstones already holds the key", func(e *Expr) bool {
							e = strip(e)
							if e == nil {
								return false
							}
							l := e
							if e.K == EExtract && e.Idx == 1 && e.X != nil && e.X.K == ELookup && e.X.CommaOk {
								l = e.X
							} else if e.K != ELookup || e.CommaOk {
								return false
							}
							if l.X == nil || l.X.V == nil || l.Y == nil || !sameVal(strip(l.Y).V, keyV) {
								return false
							}
							return isRunMap(l.X.V, f)
						})
						r := reach([]Point{{blk.Succs[0], 0}}, []Barrier{insert, present}, func(i ssa.Instruction) bool { return i == ssa.Instruction(nx) })
						var esc ssa.Instruction
						how := ""
						for _, t := range r.order {
							switch {
							case t == ssa.Instruction(nx):
								esc, how = t, "the next iteration"
							case TopLevel(f) == fn && isPlainCallTo(a.writeTomb)(t):
								esc, how = t, "writeTombstones (leaving the loop early)"
							case TopLevel(f) != fn && isReturn(t) && t.Parent() == f:
								esc, how = t, "the return of the helper holding the loop"
							}
							if esc != nil {
								break
							}
						}
						if esc != nil {
							c.violation(R, keyD, instrPos(nx), "an element of the set read back from Resolver."+fv.Name()+" can reach "+how+" without being inserted into the tombstone set handed to writeTombstones (and without that set already holding its key): a retained revocation whose key has no entry in the state map — state file missing or unreadable after the fail-closed clear — is then recorded nowhere in this run, the configured-anchor merge re-adds the key as Valid and the successful tombstone write licenses dropping the only record; path "+trunc(c.trail(r, esc), 400))
							continue
						}
						complete = append(complete, rg)
						c.ok(R, keyD, instrPos(nx), "every element of Resolver."+fv.Name()+" is inserted into (or already in) the set handed to writeTombstones")
					}
				}
			}
		}
		if nMerge == 0 {
			c.violation(R, keyD, token.NoPos, "the set read back from Resolver."+fv.Name()+" is never ranged over / copied into the run's tombstone set: the retained revocations are applied nowhere")
			continue
		}
		if len(complete) == 0 {
			continue // already reported
		}
		mergeBar := c09InstrBarrier("complete merge of Resolver."+fv.Name(), complete...)
		for _, w := range writes {
			if ug, tr := c.unguarded(w, []Barrier{mergeBar}, fn); ug {
				c.violation(R, keyD, instrPos(w), "writeTombstones is reachable without the merge of Resolver."+fv.Name()+" into the set it writes: a successful write then licenses dropping revocations that are not in the file; path "+trunc(tr, 300))
			} else {
				c.ok(R, keyD, instrPos(w), "the merge of Resolver."+fv.Name()+" precedes this writeTombstones call on every path")
			}
		}
	}
}
