package main

// A small boolean interpreter over one function's SSA control-flow graph
// (round 2).  Branch conditions are reduced to canonical atoms; an assignment
// of truth values to the atoms (or a concrete resolver supplied by the rule)
// selects one path.  Boolean locals (phis of short-circuit expressions, named
// guards), De Morgan forms, inverted conditions, switch vs if chains and
// early-return vs nested-if styles all walk to the same outcomes, so rules built
// on it decide the guard *function*, not its spelling.  Nothing is executed.

import (
	"fmt"
	"go/constant"
	"go/token"
	"go/types"
	"sort"
	"strings"

	"golang.org/x/tools/go/ssa"
)

// x5Inline replaces calls of single-block, single-result accessors by the
// description of what they return (h.QR() → h.Flags&0x8000 != 0).
func x5Inline(e *Expr, depth int) *Expr {
	e = strip(e)
	if e == nil || depth > 6 {
		return e
	}
	if e.K == ECall && e.SFn != nil && len(e.SFn.Blocks) == 1 {
		ins := e.SFn.Blocks[0].Instrs
		if ret, ok := ins[len(ins)-1].(*ssa.Return); ok && len(ret.Results) == 1 {
			return x5Inline(Desc(ret.Results[0]), depth+1)
		}
	}
	return e
}

var x5CanonOp = map[token.Token]struct {
	op   token.Token
	flip bool
}{
	token.EQL: {token.EQL, false}, token.NEQ: {token.EQL, true},
	token.LSS: {token.LSS, false}, token.GEQ: {token.LSS, true},
	token.LEQ: {token.LEQ, false}, token.GTR: {token.LEQ, true},
}

// x5AtomKey reduces a boolean expression to (canonical atom, polarity): the
// expression is true exactly when the atom has value pol.  Negations,
// comparisons with true/false/nil, != / > / >= and constant-on-the-left forms
// are normalised; accessor calls are expanded.  Expressions the canonical
// renderer cannot express keep their (position-free) description as key.
func x5AtomKey(e *Expr) (string, bool) {
	pol := true
	for i := 0; i < 8; i++ {
		a, p := Truthy(e)
		if !p {
			pol = !pol
		}
		b := x5Inline(a, 0)
		if b == a || b == nil {
			e = a
			break
		}
		e = b
	}
	if e == nil {
		return "?", pol
	}
	if e.K == EBin {
		if n, ok := x5CanonOp[e.Op]; ok {
			x, y, op := e.X, e.Y, e.Op
			if IsAnyConst(x) && !IsAnyConst(y) {
				x, y = y, x
				op = swapOp[op]
				n = x5CanonOp[op]
			}
			if n.flip {
				pol = !pol
			}
			s := "(" + x5CanonExpr(x, 0) + " " + n.op.String() + " " + x5CanonExpr(y, 0) + ")"
			if !strings.Contains(s, "?") {
				return s, pol
			}
			return "raw:(" + strip(x).String() + " " + n.op.String() + " " + strip(y).String() + ")", pol
		}
	}
	s := x5CanonExpr(e, 0)
	if strings.Contains(s, "?") {
		s = "raw:" + e.String()
	}
	return s, pol
}

// x5Interp walks one function.
type x5Interp struct {
	fn *ssa.Function
	// resolve may decide a leaf boolean concretely (ok=false: not its business).
	resolve func(v ssa.Value, e *Expr) (val bool, ok bool)
	assign  map[string]bool
	env     map[*ssa.Phi]ssa.Value
	bad     string // set when a value cannot be interpreted
	lazy    bool   // unassigned atoms abort the walk and report themselves in need
	need    string
}

func isBoolType(t types.Type) bool {
	b, ok := t.Underlying().(*types.Basic)
	return ok && b.Kind() == types.Bool
}

// leaves collects the leaf boolean values (non-constant, non-phi, non-negation)
// a boolean SSA value is built from.
func x5BoolLeaves(v ssa.Value, seen map[ssa.Value]bool, out *[]ssa.Value) {
	if v == nil || seen[v] {
		return
	}
	seen[v] = true
	switch x := v.(type) {
	case *ssa.Const:
		return
	case *ssa.UnOp:
		if x.Op == token.NOT {
			x5BoolLeaves(x.X, seen, out)
			return
		}
	case *ssa.Phi:
		for _, e := range x.Edges {
			x5BoolLeaves(e, seen, out)
		}
		return
	}
	*out = append(*out, v)
}

// x5Atoms lists the atom keys the function branches on (leaves the resolver
// claims for a probe assignment are left out).
func (it *x5Interp) atoms() []string {
	set := map[string]bool{}
	seen := map[ssa.Value]bool{}
	var ls []ssa.Value
	for _, b := range it.fn.Blocks {
		if len(b.Instrs) == 0 {
			continue
		}
		switch t := b.Instrs[len(b.Instrs)-1].(type) {
		case *ssa.If:
			x5BoolLeaves(t.Cond, seen, &ls)
		case *ssa.Return:
			for _, r := range t.Results {
				if isBoolType(r.Type()) {
					x5BoolLeaves(r, seen, &ls)
				}
			}
		}
	}
	for _, v := range ls {
		e := x5DescCached(v)
		if it.resolve != nil {
			if _, ok := it.resolve(v, e); ok {
				continue
			}
		}
		k, _ := x5AtomKeyCached(v, e)
		set[k] = true
	}
	var out []string
	for k := range set {
		out = append(out, k)
	}
	sort.Strings(out)
	return out
}

func (it *x5Interp) evalBool(v ssa.Value, depth int) bool {
	if depth > 30 {
		it.bad = "boolean value too deep"
		return false
	}
	switch x := v.(type) {
	case *ssa.Const:
		if x.Value != nil && x.Value.Kind() == constant.Bool {
			return constant.BoolVal(x.Value)
		}
	case *ssa.UnOp:
		if x.Op == token.NOT {
			return !it.evalBool(x.X, depth+1)
		}
	case *ssa.Phi:
		if ch, ok := it.env[x]; ok {
			return it.evalBool(ch, depth+1)
		}
		it.bad = "phi read before its block was entered"
		return false
	}
	e := x5DescCached(v)
	if it.resolve != nil {
		if val, ok := it.resolve(v, e); ok {
			return val
		}
	}
	k, pol := x5AtomKeyCached(v, e)
	val, known := it.assign[k]
	if !known && it.lazy {
		it.need, it.bad = k, "need"
		return false
	}
	return val == pol
}

// x5Paths explores the distinct paths of fn: atoms are assigned lazily, the walk
// forks only on atoms it actually meets.  mkVisit builds the per-walk visitor,
// body receives every completed walk (end == nil: step budget exhausted).
func x5Paths(start Point, resolve func(ssa.Value, *Expr) (bool, bool), init map[string]bool, maxPaths int,
	mkVisit func(it *x5Interp) func(ssa.Instruction) bool, body func(it *x5Interp, end ssa.Instruction) bool) string {
	first := map[string]bool{}
	for k, v := range init {
		first[k] = v
	}
	stack := []map[string]bool{first}
	n := 0
	for len(stack) > 0 {
		as := stack[len(stack)-1]
		stack = stack[:len(stack)-1]
		it := &x5Interp{fn: start.B.Parent(), resolve: resolve, assign: as, lazy: true}
		var visit func(ssa.Instruction) bool
		if mkVisit != nil {
			visit = mkVisit(it)
		}
		end := it.walk(start, visit)
		if it.need != "" {
			for _, val := range []bool{false, true} {
				cp := make(map[string]bool, len(as)+1)
				for k, v := range as {
					cp[k] = v
				}
				cp[it.need] = val
				stack = append(stack, cp)
			}
			continue
		}
		if it.bad != "" {
			return it.bad
		}
		n++
		if n > maxPaths {
			return "too many paths"
		}
		if !body(it, end) {
			return ""
		}
	}
	return ""
}

var x5DescMemo = map[ssa.Value]*Expr{}

func x5DescCached(v ssa.Value) *Expr {
	if e, ok := x5DescMemo[v]; ok {
		return e
	}
	e := Desc(v)
	x5DescMemo[v] = e
	return e
}

type x5KeyPol struct {
	k   string
	pol bool
}

var x5KeyMemo = map[ssa.Value]x5KeyPol{}

func x5AtomKeyCached(v ssa.Value, e *Expr) (string, bool) {
	if kp, ok := x5KeyMemo[v]; ok {
		return kp.k, kp.pol
	}
	k, pol := x5AtomKey(e)
	x5KeyMemo[v] = x5KeyPol{k, pol}
	return k, pol
}

// value resolves a (non-boolean) SSA value through the phis chosen on this path.
func (it *x5Interp) value(v ssa.Value) ssa.Value {
	for i := 0; i < 30; i++ {
		ph, ok := v.(*ssa.Phi)
		if !ok {
			return v
		}
		ch, ok := it.env[ph]
		if !ok {
			return v
		}
		v = ch
	}
	return v
}

// walk follows the path selected by the assignment from start; visit is called
// for every executed instruction and may stop the walk.  Returns the
// instruction the walk ended at (a Return/Panic, or where visit stopped), or
// nil when the step budget ran out (a loop the assignment never leaves).
func (it *x5Interp) walk(start Point, visit func(ssa.Instruction) bool) ssa.Instruction {
	if it.env == nil {
		it.env = map[*ssa.Phi]ssa.Value{}
	}
	p := start
	var prev *ssa.BasicBlock
	enter := func(b, from *ssa.BasicBlock) {
		if from == nil {
			return
		}
		idx := -1
		for i, pr := range b.Preds {
			if pr == from {
				idx = i
				break
			}
		}
		if idx < 0 {
			return
		}
		// phis read the values of the incoming edge simultaneously
		var phis []*ssa.Phi
		var vals []ssa.Value
		for _, in := range b.Instrs {
			ph, ok := in.(*ssa.Phi)
			if !ok {
				break
			}
			v := ph.Edges[idx]
			if q, ok := v.(*ssa.Phi); ok {
				if ch, ok := it.env[q]; ok {
					v = ch
				}
			}
			phis, vals = append(phis, ph), append(vals, v)
		}
		for i := range phis {
			it.env[phis[i]] = vals[i]
		}
	}
	for steps := 0; steps < 4000; steps++ {
		if p.B == nil || p.I >= len(p.B.Instrs) {
			return nil
		}
		in := p.B.Instrs[p.I]
		if _, isPhi := in.(*ssa.Phi); !isPhi && visit != nil && visit(in) {
			return in
		}
		if p.I < len(p.B.Instrs)-1 {
			p.I++
			continue
		}
		switch t := in.(type) {
		case *ssa.If:
			k := 1
			if it.evalBool(t.Cond, 0) {
				k = 0
			}
			prev = p.B
			p = Point{p.B.Succs[k], 0}
			enter(p.B, prev)
		case *ssa.Jump:
			prev = p.B
			p = Point{p.B.Succs[0], 0}
			enter(p.B, prev)
		default:
			return in
		}
		if it.bad != "" {
			return nil
		}
	}
	return nil
}

// x5Rows enumerates all assignments of the atoms (capped).
func x5Rows(atoms []string, f func(assign map[string]bool) bool) bool {
	if len(atoms) > 16 {
		return false
	}
	for row := 0; row < 1<<len(atoms); row++ {
		as := map[string]bool{}
		for i, a := range atoms {
			as[a] = row&(1<<i) != 0
		}
		if !f(as) {
			break
		}
	}
	return true
}

func x5Union(a, b []string) []string {
	m := map[string]bool{}
	for _, x := range a {
		m[x] = true
	}
	for _, x := range b {
		m[x] = true
	}
	var out []string
	for k := range m {
		out = append(out, k)
	}
	sort.Strings(out)
	return out
}

func x5FmtAssign(as map[string]bool) string {
	var ks []string
	for k := range as {
		ks = append(ks, k)
	}
	sort.Strings(ks)
	var out []string
	for _, k := range ks {
		out = append(out, fmt.Sprintf("%s=%v", k, as[k]))
	}
	return strings.Join(out, ",")
}

// x5ResultOf renders the single result of a Return reached by the walk:
// constants by value, booleans by evaluation, anything else "".
func (it *x5Interp) resultOf(ret *ssa.Return, idx int) (string, bool) {
	if ret == nil || idx >= len(ret.Results) {
		return "", false
	}
	v := it.value(ret.Results[idx])
	if k, ok := v.(*ssa.Const); ok && k.Value != nil {
		return k.Value.ExactString(), true
	}
	if isBoolType(v.Type()) {
		b := it.evalBool(v, 0)
		if it.bad != "" {
			return "", false
		}
		return fmt.Sprint(b), true
	}
	return "", false
}

// x5DecisionTable: atoms of fn and an evaluator of its single result.
func x5DecisionTable(fn *ssa.Function) (atoms []string, eval func(assign map[string]bool) (string, bool), ok bool) {
	probe := &x5Interp{fn: fn}
	atoms = probe.atoms()
	for _, a := range atoms {
		if strings.HasPrefix(a, "raw:") {
			return nil, nil, false
		}
	}
	eval = func(assign map[string]bool) (string, bool) {
		it := &x5Interp{fn: fn, assign: assign}
		end := it.walk(Point{fn.Blocks[0], 0}, nil)
		ret, isRet := end.(*ssa.Return)
		if !isRet || it.bad != "" {
			return "", false
		}
		return it.resultOf(ret, 0)
	}
	return atoms, eval, true
}

// x5FalseImplying: same-package boolean helpers that answer false whenever
// base answered false for something they looked at (after every base=false
// edge inside the helper only `return false` is reachable) — a call to such a
// helper establishes on its false edge what base's false edge establishes.
func x5FalseImplying(c *Ctx, pkgRel string, base *types.Func) []*types.Func {
	out := []*types.Func{base}
	if base == nil {
		return out
	}
	for _, fn := range c.P.FuncsInPkg(pkgRel) {
		if fn.Parent() != nil || len(fn.Blocks) == 0 {
			continue
		}
		fo := funcObjOf(fn)
		if fo == nil || fo == base {
			continue
		}
		res := fn.Signature.Results()
		if res.Len() != 1 || !isBoolType(res.At(0).Type()) {
			continue
		}
		pts := edgePoints(fn, OnFalse("base", CallTo(base)))
		if len(pts) == 0 {
			continue
		}
		good := true
		for _, pt := range pts {
			r := reach([]Point{pt}, nil, nil)
			for _, in := range r.order {
				if ret, ok := in.(*ssa.Return); ok && !IsConstBool(false)(Desc(ret.Results[0])) {
					good = false
				}
			}
		}
		if good {
			out = append(out, fo)
		}
	}
	return out
}

// x5VerdictSig: what a header-accept caller does for one concrete verdict.
type x5VerdictSig struct {
	reached     bool // the verdict was computed on at least one path
	serve       bool // a ServeRaw* call may follow
	reject      bool // rejectInPlace may follow
	write       bool // some write (rejectInPlace / Write / WriteMsg / stage) may follow
	rejectEvery bool // rejectInPlace follows on every path that computed the verdict
	bad         string
}

func x5CmpInt(a int64, op token.Token, b int64) (bool, bool) {
	switch op {
	case token.EQL:
		return a == b, true
	case token.NEQ:
		return a != b, true
	case token.LSS:
		return a < b, true
	case token.LEQ:
		return a <= b, true
	case token.GTR:
		return a > b, true
	case token.GEQ:
		return a >= b, true
	}
	return false, false
}

// x5ConcreteCmp evaluates a comparison of the value matched by isVar (taken to
// be k) with an integer constant; ok=false when e is not such a comparison.
func x5ConcreteCmp(e *Expr, isVar Pat, k int64) (bool, bool) {
	a, pol := Truthy(e)
	if a == nil || a.K != EBin {
		return false, false
	}
	var r, ok bool
	if isVar(a.X) {
		if cv, isC := constInt(a.Y); isC {
			r, ok = x5CmpInt(k, a.Op, cv)
		}
	} else if isVar(a.Y) {
		if cv, isC := constInt(a.X); isC {
			r, ok = x5CmpInt(cv, a.Op, k)
		}
	}
	if !ok {
		return false, false
	}
	return r == pol, true
}

// x5VerdictBehaviour interprets fn with the accept verdict fixed to k and every
// other branch atom enumerated.
func x5VerdictBehaviour(fn *ssa.Function, verdictCall func(ssa.Instruction) bool, verdictPat Pat, k int64) x5VerdictSig {
	sig := x5VerdictSig{rejectEvery: true}
	resolve := func(v ssa.Value, e *Expr) (bool, bool) { return x5ConcreteCmp(e, verdictPat, k) }
	isServe := isCallNamed("ServeRaw", "ServeRawInline", "ServeRawReplay")
	isReject := isCallNamed("rejectInPlace")
	isWrite := isCallNamed("rejectInPlace", "Write", "WriteMsg", "stage")
	type st struct{ reached, rej bool }
	states := map[*x5Interp]*st{}
	// screening helper: the header accept was extracted into an unexported function that
	// reports whether the job goes on to the handler (its callers serve behind the true edge);
	// "goes on" then stands for "served"
	helperMode := false
	if res := fn.Signature.Results(); res.Len() == 1 && len(instrsWhere(fn, isServe)) == 0 && !token.IsExported(fn.Name()) {
		if b, ok := res.At(0).Type().Underlying().(*types.Basic); ok && b.Kind() == types.Bool {
			helperMode = true
		}
	}
	bad := x5Paths(Point{fn.Blocks[0], 0}, resolve, nil, 4096, func(it *x5Interp) func(ssa.Instruction) bool {
		s := &st{}
		states[it] = s
		return func(in ssa.Instruction) bool {
			if _, isCall := in.(*ssa.Call); !isCall {
				return false
			}
			if verdictCall(in) {
				s.reached = true
				return false
			}
			if !s.reached {
				return false
			}
			if isServe(in) {
				sig.serve = true
			}
			if isReject(in) {
				sig.reject, s.rej = true, true
			}
			if isWrite(in) {
				sig.write = true
			}
			return false
		}
	}, func(it *x5Interp, end ssa.Instruction) bool {
		s := states[it]
		if end == nil || !s.reached {
			return true
		}
		sig.reached = true
		if !s.rej {
			sig.rejectEvery = false
		}
		if helperMode {
			if r, ok := end.(*ssa.Return); ok && len(r.Results) == 1 && !IsConstBool(false)(Desc(r.Results[0])) {
				sig.serve = true
			}
		}
		return true
	})
	if bad != "" {
		sig.bad = bad
	}
	return sig
}
