package main

// C14-R7 (finding F-C14-1) — the binding preflight compares names the way the
// library does: octet for octet, folding ASCII A–Z only, against a rooted key
// owner.
//
// signatureBinding is the last authority on "this RRSIG belongs to this key
// and this RRset" before any mathematics; its acceptance set has to be a
// subset of dns.RRSIG.Verify's preflight (equal(CanonicalName(signer),
// k.Hdr.Name), equal(h0.Name, rr.Hdr.Name); equal = same length, A–Z folded).
// Two ways of being wider are structural:
//
//   - Unicode case folding (strings.EqualFold, ToLower/ToUpper, unicode.*):
//     U+212A KELVIN SIGN folds to "k", U+017F to "s" — two names the library
//     tells apart compare equal.  DNS case-insensitivity is ASCII only
//     (RFC 4343), so such a call on a DNS name is wrong by construction;
//   - comparing two unrooted spellings: the library roots the signer before it
//     compares, so it refuses an unrooted key owner.
//
// Decided from the SSA alone:
//
//   (1) nothing reachable from signatureBinding through module functions
//       calls a Unicode-aware folding routine of strings / bytes / unicode /
//       x/text/cases;
//   (2) each predicate applied to the pairs (sig.SignerName, k.Hdr.Name) and
//       (rrset[0].Header().Name, sig.Hdr.Name) that is a module function folds
//       exactly 'A'..'Z' by 32 (the C03-R6 fold facts: one lower bound 65, one
//       upper bound 90, offset +32 / |32 / +97-65);
//   (3) every nil return lies behind IsFqdn(k.Hdr.Name), or behind a
//       signer↔key-owner predicate whose signer operand was rooted first
//       (CanonicalName / Fqdn).

import (
	"fmt"
	"go/types"
	"sort"
	"strings"

	"golang.org/x/tools/go/ssa"
)

func init() {
	wrap := func(id string, extra func(c *Ctx), explain string) {
		pd := props[id]
		if pd == nil {
			return
		}
		orig := pd.Run
		pd.Run = func(c *Ctx) { orig(c); extra(c) }
		pd.Explanation += " " + explain
	}
	wrap("C14", c14R7, "R7 (F-C14-1): the binding preflight is never wider than the library's on names — no Unicode case folding (strings.EqualFold and kin) anywhere under signatureBinding, the name predicates it uses fold exactly ASCII A–Z, and the key owner is rooted (IsFqdn, or the signer is rooted before the comparison) on every accepting path.")
}

func c14R7(c *Ctx) {
	const R = "C14-R7"
	const pkg = "middleware/resolver/dnssec"
	const lib = "github.com/miekg/dns"
	c.Doc(R, "signatureBinding's name tests are a subset of dns.RRSIG.Verify's: (1) no call to a Unicode-aware folding routine (strings/bytes EqualFold, ToLower, ToUpper, ToTitle, unicode.*, x/text/cases) is reachable from it through module functions — DNS case folding is ASCII only (RFC 4343), the Kelvin sign must not equal 'k'; (2) the module predicates applied to (SignerName, key owner) and (RRset owner, RRSIG owner) fold exactly 'A'..'Z' by 32; (3) every nil return is behind IsFqdn(key owner) or a comparison against the rooted signer")
	fn := c.fn(R, pkg+".signatureBinding")
	if fn == nil {
		return
	}
	short := fnKey(fn)

	// ---- (1) ban ------------------------------------------------------------
	banned := func(fo *types.Func) bool {
		if fo == nil || fo.Pkg() == nil {
			return false
		}
		switch fo.Pkg().Path() {
		case "strings", "bytes":
			switch fo.Name() {
			case "EqualFold", "ToLower", "ToUpper", "ToTitle", "ToLowerSpecial", "ToUpperSpecial", "ToTitleSpecial", "Title":
				return true
			}
		case "unicode":
			switch fo.Name() {
			case "ToLower", "ToUpper", "ToTitle", "SimpleFold", "To", "IsUpper", "IsLower":
				return true
			}
		case "golang.org/x/text/cases":
			return true
		}
		return false
	}
	inModule := map[*ssa.Function]bool{}
	for _, f := range c.P.RepoFuncs() {
		inModule[f] = true
	}
	seen := map[*ssa.Function]bool{}
	var scope []*ssa.Function
	var walk func(f *ssa.Function, d int)
	walk = func(f *ssa.Function, d int) {
		if f == nil || seen[f] || len(f.Blocks) == 0 || d > 4 {
			return
		}
		for _, g := range WithAnons(f) {
			if seen[g] {
				continue
			}
			seen[g] = true
			scope = append(scope, g)
			for _, b := range g.Blocks {
				for _, in := range b.Instrs {
					cc := callCommon(in)
					if cc == nil || cc.IsInvoke() {
						continue
					}
					if sf := cc.StaticCallee(); sf != nil && (inModule[sf] || (sf.Origin() != nil && inModule[sf.Origin()])) {
						walk(sf, d+1)
					}
				}
			}
		}
	}
	walk(fn, 0)
	nBad := 0
	for _, g := range scope {
		for _, b := range g.Blocks {
			for _, in := range b.Instrs {
				cc := callCommon(in)
				if cc == nil {
					continue
				}
				fo, _, _ := calleeObj(cc)
				if !banned(fo) {
					continue
				}
				nBad++
				where := ""
				if g != fn {
					where = " (in " + fnKey(g) + ")"
				}
				c.violation(R, fmt.Sprintf("%s|%s|Unicode case folding in the binding preflight: %s.%s", R, short, fo.Pkg().Name(), fo.Name()), instrPos(in),
					fmt.Sprintf("%s.%s%s folds beyond ASCII (U+212A KELVIN SIGN = 'k', U+017F = 's') and equates unrooted spellings; dns.RRSIG.Verify compares octets with A–Z folded only, so a signature is accepted under a key / for an RRset owned by a name the library tells apart", fo.Pkg().Name(), fo.Name(), where))
			}
		}
	}
	if nBad == 0 {
		var ns []string
		for _, g := range scope {
			ns = append(ns, g.Name())
		}
		sort.Strings(ns)
		c.ok(R, R+"|"+short+"|no Unicode case folding in the binding preflight", fn.Pos(), "functions examined: "+strings.Join(ns, ", "))
	}

	// ---- patterns for the two name pairs (same anchors as C14-R2) -------------
	fld := func(p string) *types.Var { return c.field(R, p) }
	signerName := fld(lib + ".RRSIG.SignerName")
	sigHdr, keyHdr := fld(lib+".RRSIG.Hdr"), fld(lib+".DNSKEY.Hdr")
	nameF := fld(lib + ".RR_Header.Name")
	canon := c.fobj(R, lib+".CanonicalName")
	fqdn := c.fobj(R, lib+".Fqdn")
	isFqdn := c.fobj(R, lib+".IsFqdn")
	if signerName == nil || sigHdr == nil || keyHdr == nil || nameF == nil || canon == nil || fqdn == nil || isFqdn == nil {
		return
	}
	hdrName := func(base *types.Var) Pat {
		return func(e *Expr) bool {
			e = strip(e)
			return e != nil && e.K == EField && e.Var == nameF && e.X != nil && e.X.K == EField && e.X.Var == base
		}
	}
	h0Name := func(e *Expr) bool {
		e = strip(e)
		return e != nil && e.K == EField && e.Var == nameF && e.X != nil && MethodNamed("Header")(e.X)
	}
	rootedOf := func(p Pat) Pat {
		return func(e *Expr) bool {
			s := strip(e)
			return s != nil && s.K == ECall && CallTo(canon, fqdn)(s) && len(s.Args) == 1 && p(s.Args[0])
		}
	}
	maybeRooted := func(p Pat) Pat { return AnyOf(p, rootedOf(p)) }
	boolCall2 := func(e *Expr) *Expr {
		e = strip(e)
		if e == nil || e.K != ECall || len(e.Args) != 2 || e.V == nil {
			return nil
		}
		if bt, ok := e.V.Type().Underlying().(*types.Basic); !ok || bt.Kind() != types.Bool {
			return nil
		}
		return e
	}
	pairIs := func(a, b Pat) Pat {
		return func(e *Expr) bool {
			x := boolCall2(e)
			return x != nil && ((a(x.Args[0]) && b(x.Args[1])) || (a(x.Args[1]) && b(x.Args[0])))
		}
	}
	signerKey := pairIs(maybeRooted(FieldIs(signerName)), maybeRooted(hdrName(keyHdr)))
	ownerOwner := pairIs(maybeRooted(h0Name), maybeRooted(hdrName(sigHdr)))
	rootedSignerKey := pairIs(rootedOf(FieldIs(signerName)), hdrName(keyHdr))

	// ---- (2) the predicates -----------------------------------------------------
	// The comparisons are looked for in signatureBinding and in the unexported helpers its
	// body was split into (scopeFuncs); inside a helper the operands are read with the
	// helper's parameters replaced by each call's arguments, so a helper that is handed the
	// two names as plain strings is recognised as well.
	preds := map[*ssa.Function]string{}
	pairSeen := map[string]bool{}
	for _, g := range scopeFuncs(fn) {
		acts := [][]*Expr{nil}
		if top := TopLevel(g); top != fn {
			acts = append(acts, helperActivations(fn, top)...)
		}
		for _, b := range g.Blocks {
			for _, in := range b.Instrs {
				cl, ok := in.(*ssa.Call)
				if !ok {
					continue
				}
				what := ""
				for _, args := range acts {
					e := inActivation(Desc(cl), args)
					switch {
					case signerKey(e):
						what = "signer ↔ key owner"
					case ownerOwner(e):
						what = "RRset owner ↔ RRSIG owner"
					}
					if what != "" {
						break
					}
				}
				if what == "" {
					continue
				}
				pairSeen[what] = true
				if sf := cl.Call.StaticCallee(); sf != nil && inModule[sf] {
					preds[sf] = what
				} else if fo, _, _ := calleeObj(&cl.Call); fo != nil && !banned(fo) {
					c.undecided(R, fmt.Sprintf("%s|%s|name predicate %s", R, short, fo.FullName()), instrPos(in), "the "+what+" comparison is made by a function outside the module whose folding cannot be read here")
				}
			}
		}
	}
	for _, what := range []string{"signer ↔ key owner", "RRset owner ↔ RRSIG owner"} {
		if !pairSeen[what] {
			c.unresolved(R, short+"|name predicate "+what, "no two-name predicate applied to this pair was found in signatureBinding or its helpers (the folding of the comparison cannot be judged)")
		}
	}
	var pfs []*ssa.Function
	for f := range preds {
		pfs = append(pfs, f)
	}
	sort.Slice(pfs, func(i, j int) bool { return fnKey(pfs[i]) < fnKey(pfs[j]) })
	for _, pf := range pfs {
		lo, up, adds := c03FoldFacts(pf)
		key := fmt.Sprintf("%s|%s|name predicate folds exactly A-Z", R, fnKey(pf))
		okLo := len(lo) == 1 && lo[65]
		okUp := len(up) == 1 && up[90]
		okAdd := (len(adds) == 1 && (adds[32] || adds[1032])) || (len(adds) == 2 && adds[97] && adds[-65])
		if okLo && okUp && okAdd {
			c.ok(R, key, pf.Pos(), pf.Name()+" ("+preds[pf]+") tests exactly 'A' <= c <= 'Z' and moves by 32 — the library's equal()")
		} else {
			c.violation(R, key, pf.Pos(), fmt.Sprintf("%s (%s) does not fold exactly 'A'..'Z' by 32 (lower bounds %v, upper bounds %v, offsets %v): names the library tells apart compare equal", pf.Name(), preds[pf], c03Keys(lo), c03Keys(up), c03Keys(adds)))
		}
	}

	// ---- (3) rooted key owner -----------------------------------------------------
	c.c14MustCrossAccept(R, fn, "signatureBinding returns nil", 0, IsNilConst, nil,
		OnTrue("IsFqdn(k.Hdr.Name)", func(e *Expr) bool {
			s := strip(e)
			return s != nil && s.K == ECall && CallTo(isFqdn)(s) && len(s.Args) == 1 && hdrName(keyHdr)(s.Args[0])
		}),
		OnTrue("sameName(rooted signer, k.Hdr.Name)", rootedSignerKey))
	c.Floor(R, 2)
}
