package main

// Regression mutants for finding F-C09-4 (rule C09-R14): the constructor makes
// the configured keys live without looking at the revocation record.

func init() {
	addMutants("C09", []Mutant{
		{ID: "f-c09-4-constructor-unfiltered", File: "middleware/resolver/resolver.go",
			Old:    "r.rootKeys = startupTrustAnchors(cfg.Directory, r.rootKeys)",
			New:    "_ = startupTrustAnchors",
			Expect: "C09-R14|middleware/resolver.NewResolver|live trust set stored after the revocation record was read",
			Why:    "NewResolver publishes cfg.RootKeys verbatim again: after a restart the tombstoned anchor validates client queries and the priming answer until the first AutoTA run reaches its pre-fetch publish"},
		{ID: "f-c09-4-filter-wrong-field", File: "middleware/resolver/resolver.go",
			Old:    "r.rootKeys = startupTrustAnchors(cfg.Directory, r.rootKeys)",
			New:    "r.configuredRootKeys = startupTrustAnchors(cfg.Directory, r.rootKeys)",
			Expect: "C09-R14|middleware/resolver.NewResolver|live trust set stored after the revocation record was read",
			Why:    "the filtered set lands in the configuration snapshot instead of the live set: rootKeys still holds the revoked key until AutoTA runs (and AutoTA's merge loop now misses the filtered-out key, which is harmless) — the window is back"},
	})
}
