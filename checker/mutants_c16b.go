package main

func init() {
	addMutants("C16", []Mutant{
		{ID: "c16-has-zero-key-probed", File: "internal/cache/uint64_unsafe_map.go", Expect: "C16-R9",
			Old: "\t// Special case for zero key\n\tif key == 0 {\n\t\treturn m.hasZeroKey\n\t}\n", New: "",
			Why: "Has(0) is answered from the slot array: an empty slot (Key == 0) matches, so key 0 aliases every vacancy"},
		{ID: "c16-put-triangular-probe", File: "internal/cache/uint64_unsafe_map.go", Expect: "C16-R10",
			Old: "\t\tidx = (idx + 1) & m.mask\n\n\t\tif m.data[idx].Key == 0 {\n\t\t\tm.data[idx].Key = key\n\t\t\tm.data[idx].Value = val\n\t\t\tm.size++\n\t\t\treturn\n\t\t}",
			New: "\t\tidx = (idx + i) & m.mask\n\n\t\tif m.data[idx].Key == 0 {\n\t\t\tm.data[idx].Key = key\n\t\t\tm.data[idx].Value = val\n\t\t\tm.size++\n\t\t\treturn\n\t\t}",
			Why: "Put walks a triangular probe sequence while Get/Del/backwardShiftDelete walk +1: colliding keys stored by Put are not found"},
		{ID: "c16-del-cheap-hash", File: "internal/cache/uint64_unsafe_map.go", Expect: "C16-R10",
			Old: "\tidx := m.primaryIndex(key)\n\n\t// Check if key exists at primary position", New: "\tidx := int(key) & m.mask\n\n\t// Check if key exists at primary position",
			Why: "Del starts its probe at a different slot than Put stored at: removal silently fails for most keys"},
		{ID: "c16-get-skip-step", File: "internal/cache/uint64_unsafe_map.go", Expect: "C16-R10",
			Old: "\t\tidx = (idx + 1) & m.mask\n\n\t\tif m.data[idx].Key == key {\n\t\t\treturn m.data[idx].Value, true\n\t\t}",
			New: "\t\tidx = (idx + 2) & m.mask\n\n\t\tif m.data[idx].Key == key {\n\t\t\treturn m.data[idx].Value, true\n\t\t}",
			Why: "Get skips every other slot of the chain Put filled"},
		{ID: "c16-pine-probe-no-size", File: "internal/cache/uint64_unsafe_map.go", Expect: "C16-R11",
			Old: "\t\t\tm.data[idx].Value = val\n\t\t\tm.size++\n\t\t\treturn val, true\n\t\t}\n\t\tif m.data[idx].Key == key {",
			New: "\t\t\tm.data[idx].Value = val\n\t\t\treturn val, true\n\t\t}\n\t\tif m.data[idx].Key == key {",
			Why: "PutIfNotExists claims a slot on the collision path without counting it: Len() under-reports and growth is delayed"},
		{ID: "c16-put-zero-no-size", File: "internal/cache/uint64_unsafe_map.go", Expect: "C16-R11",
			Old: "\t\tif !m.hasZeroKey {\n\t\t\tm.size++\n\t\t}\n\t\tm.zeroVal = val", New: "\t\tm.zeroVal = val",
			Why: "the zero key is stored but never counted"},
		{ID: "c16-grow-zero-no-size", File: "internal/cache/uint64_unsafe_map.go", Expect: "C16-R11",
			Old: "\t\tm.hasZeroKey = true\n\t\tm.zeroVal = zeroVal\n\t\tm.size++\n", New: "\t\tm.hasZeroKey = true\n\t\tm.zeroVal = zeroVal\n",
			Why: "growth forgets to re-count the zero key after resetting size"},
	})
}
