package main

// Regression mutants for red wave 5 change C01-w5g1c1 (C01-R20, strengthened): the
// test that selects the RFC 4034 §3.1.3 discount of a leading "*" label must compare
// the WHOLE leading label with "*", not its first octet / a bare "*" prefix.
func init() {
	addMutants("C01", []Mutant{
		{ID: "c01-w5g1c1-star-first-octet-only", File: "middleware/resolver/dnssec/wildcard.go",
			Expect: "C01-R20|middleware/resolver/dnssec.VerifyWildcardAnswerForZoneWithWork|the * test selecting the discount compares the whole leading label",
			Old:    "\t\tif ownerLabels > 0 && len(owner.labels[0]) == 1 && owner.labels[0][0] == '*' {\n",
			New:    "\t\tif ownerLabels > 0 && owner.labels[0][0] == '*' {\n",
			Why:    "C01-w5g1c1 (seeded): the length test is dropped, so every owner whose first label merely BEGINS with '*' (*foo.wild.test.) has a label discounted; the zone's *.wild.test. RRset + RRSIG (Labels=2) replayed over *foo.wild.test. is no longer seen as a wildcard expansion, no next-closer denial is demanded, and the client gets NOERROR AD=1 for data the zone does not publish at that name"},
		{ID: "c01-w5g1c1-star-bare-prefix", File: "middleware/resolver/dnssec/verify.go",
			Expect: "C01-R20|middleware/resolver/dnssec.wildcardExpanded|the * test selecting the discount compares the whole leading label",
			Old:    "\tlabels := dns.CountLabel(owner)\n\tif strings.HasPrefix(owner, \"*.\") {\n",
			New:    "\tlabels := dns.CountLabel(owner)\n\tif strings.HasPrefix(owner, \"*\") {\n",
			Why:    "variant in the sibling predicate: the prefix constant loses its dot, so \"*foo.zone.\" counts as a wildcard owner; a wildcard's NSEC/NSEC3 + RRSIG (Labels = labels-1 of *foo.zone.) re-owned to such a name is no longer recognised as wildcard-reconstructed and is accepted as a denial record for a name the zone never signed it for"},
	})
}
