package main

import (
	"fmt"
	"go/ast"
	"go/constant"
	"go/token"
	"go/types"
	"sort"
	"strings"

	"golang.org/x/tools/go/packages"
	"golang.org/x/tools/go/ssa"
)

func init() {
	register(&PropDef{
		ID:    "C20",
		Title: "DNS64 synthesises only RFC 6052 addresses, only when allowed, never with AD",
		Run:   runC20,
		Explanation: "Decided (structure only): R1 the writer wrap in DNS64.ServeDNS is reachable only across class IN, !Internal, RD, !CD, clientEligible, qtype AAAA, !zoneExcluded; " +
			"R2 in the dns64 writer, synthesise is unreachable without the miss edges of truncated/empty, NXDOMAIN, isDNSSECFailure, isCachedFailureResponse, request-local failure and the work-limit edge, each hit edge writes without synthesising; isDNSSECFailure/hasExtendedError examine every OPT option (loop over opt.Option, no early first-option helper); " +
			"R3 every message built by synthesise / buildAResponseAsBasis stores AuthenticatedData=false after SetReply, and the filtered-AAAA arm clears AD when records were stripped; " +
			"R4 the synthesised TTL is a min-fold (initialised from the ceiling / negative TTL, only decreased, chain copies capped); R5 every synthesizeAAAA call and the PTR path are behind shouldExcludeAOnPrefix=false, validatePrefix rejects lengths outside validPrefixBits and a /96 with non-zero octet 8; " +
			"R6 the RFC 6052 §2.2 byte layout, read from the constant indices of embedIPv4/extractIPv4: embed's map equals the RFC table for all six lengths, extract's map is exactly its inverse, octet 8 is never written below /96, the prefix copy stops at bits/8 into a fresh zeroed 16-byte slice, extract tests octet 8 and the whole suffix for zero; both switches cover exactly validPrefixBits.",
		NotDecided: []string{
			"parseIP6ArpaName / inAddrArpa nibble and octet arithmetic (value-level loops)",
			"the numeric TTL and owner-name correctness after alias chains for every response shape",
			"behaviour for every upstream response shape beyond the gates above",
		},
	})
}

var rfc6052 = map[int][4]int{32: {4, 5, 6, 7}, 40: {5, 6, 7, 9}, 48: {6, 7, 9, 10}, 56: {7, 9, 10, 11}, 64: {9, 10, 11, 12}, 96: {12, 13, 14, 15}}

func runC20(c *Ctx) {
	const pkg = "middleware/dns64"
	next := c.fobj("C20-R1", "middleware.(*Chain).Next")

	// ------------------------------------------------------------------ R1
	c.Doc("C20-R1", "DNS64.ServeDNS: the writer wrap (store to ch.Writer of the dns64 responseWriter) is behind Qclass==IN, Internal()=false, RD()=true, CD()=false, clientEligible=true, qtype==AAAA (PTR branch returns), zoneExcluded=false")
	chWriter := c.field("C20-R1", "middleware.Chain.Writer")
	sfn := c.fn("C20-R1", pkg+".(*DNS64).ServeDNS")
	if sfn != nil && chWriter != nil {
		rwType := c.P.TypeName(pkg + ".responseWriter")
		wrap := func(in ssa.Instruction) bool {
			if !isFieldStore(in, chWriter, nil) {
				return false
			}
			v := in.(*ssa.Store).Val
			if mi, ok := v.(*ssa.MakeInterface); ok {
				if nt, ok := deref(mi.X.Type()).(*types.Named); ok && rwType != nil && nt.Obj() == rwType {
					return true
				}
			}
			return false
		}
		qclass := MethodNamed("Qclass")
		qtype := MethodNamed("Qtype")
		bars := []Barrier{
			OnCmp("Qclass()==IN", qclass, token.EQL, IsConstInt(1), true),
			OnFalse("Internal()", MethodNamed("Internal")),
			OnTrue("RD()", MethodNamed("RD")),
			OnFalse("CD()", MethodNamed("CD")),
			OnTrue("clientEligible", MethodNamed("clientEligible")),
			OnFalse("zoneExcluded", MethodNamed("zoneExcluded")),
			OnCmp("qtype==PTR is false", qtype, token.EQL, IsConstInt(12), false),
		}
		for _, b := range bars {
			c.MustCross("C20-R1", sfn, "install dns64 writer", wrap, b)
		}
		// qtype ∈ {AAAA, PTR} on every path (either equality edge), and PTR never reaches the wrap (above) ⇒ AAAA
		c.MustCross("C20-R1", sfn, "install dns64 writer", wrap,
			OnCmp("qtype==AAAA", qtype, token.EQL, IsConstInt(28), true), OnCmp("qtype==PTR", qtype, token.EQL, IsConstInt(12), true))
		_ = next
	}
	c.Floor("C20-R1", 8)

	// ------------------------------------------------------------------ R2
	c.Doc("C20-R2", "dns64 responseWriter.WriteMsg: the synthesise call is behind Truncated=false, Rcode!=NXDOMAIN, isDNSSECFailure=false, isCachedFailureResponse=false, RequestLocalFailureForResponse=nil and not(SERVFAIL ∧ work-limit error); after each hit edge synthesise is unreachable; isDNSSECFailure and hasExtendedError range over every opt.Option")
	wfn := c.fn("C20-R2", pkg+".(*responseWriter).WriteMsg")
	synth := c.fobj("C20-R2", pkg+".(*responseWriter).synthesise")
	isFail := c.fobj("C20-R2", pkg+".isDNSSECFailure")
	isCached := c.fobj("C20-R2", pkg+".isCachedFailureResponse")
	reqLocal := c.fobj("C20-R2", "middleware.RequestLocalFailureForResponse")
	workErr := c.fobj("C20-R2", "middleware.RecursionWorkEnforcementError")
	truncated := c.field("C20-R2", "github.com/miekg/dns.MsgHdr.Truncated")
	rcode := c.field("C20-R2", "github.com/miekg/dns.MsgHdr.Rcode")
	if wfn != nil && synth != nil && isFail != nil && isCached != nil && reqLocal != nil && workErr != nil && truncated != nil && rcode != nil {
		isSynth := isPlainCallTo(synth)
		gates := []Barrier{
			OnFalse("m.Truncated", FieldIs(truncated)),
			OnCmp("Rcode==NXDOMAIN is false", FieldIs(rcode), token.EQL, IsConstInt(3), false),
			OnFalse("isDNSSECFailure", CallTo(isFail)),
			OnFalse("isCachedFailureResponse", CallTo(isCached)),
			OnFalse("RequestLocalFailureForResponse", CallTo(reqLocal)),
		}
		for _, g := range gates {
			c.MustCross("C20-R2", wfn, "synthesise", isSynth, g)
		}
		// the work-limit arm: SERVFAIL with an enforcement error never synthesises
		c.AfterEdge("C20-R2", wfn, "synthesis after a work-limit failure", OnTrue("RecursionWorkEnforcementError", CallTo(workErr)), isSynth)
		for _, hit := range []Barrier{
			OnTrue("m.Truncated", FieldIs(truncated)),
			OnCmp("Rcode==NXDOMAIN", FieldIs(rcode), token.EQL, IsConstInt(3), true),
			OnTrue("isDNSSECFailure", CallTo(isFail)),
			OnTrue("isCachedFailureResponse", CallTo(isCached)),
			OnTrue("RequestLocalFailureForResponse", CallTo(reqLocal)),
		} {
			c.AfterEdge("C20-R2", wfn, "pass-through condition still synthesises", hit, isSynth)
		}
	}
	// the EDE scanners look at every option
	optOption := c.field("C20-R2", "github.com/miekg/dns.OPT.Option")
	for _, name := range []string{pkg + ".isDNSSECFailure", pkg + ".hasExtendedError"} {
		fn := c.fn("C20-R2", name)
		if fn == nil || optOption == nil {
			continue
		}
		key := "C20-R2|" + name + "|scans every option"
		// a Range/index loop over the loaded opt.Option, whose element feeds the EDE type assertion
		okLoop := false
		for _, b := range fn.Blocks {
			for _, in := range b.Instrs {
				ta, ok := in.(*ssa.TypeAssert)
				if !ok {
					continue
				}
				e := Desc(ta.X)
				if e.K == EIndex && FieldIs(optOption)(e.X) && !IsAnyConst(e.Y) {
					okLoop = true
				}
			}
		}
		calls := instrsWhere(fn, func(in ssa.Instruction) bool {
			n := calleeName(in)
			return n == "GetEDE"
		})
		if okLoop && len(calls) == 0 {
			c.ok("C20-R2", key, fn.Pos(), "type-asserts each element of opt.Option inside a loop with a variable index")
		} else {
			c.violation("C20-R2", key, fn.Pos(), "the EDE scan does not iterate over every element of opt.Option (a DNSSEC EDE that is not the first option would be missed)")
		}
	}
	c.Floor("C20-R2", 13)

	// ------------------------------------------------------------------ R3
	c.Doc("C20-R3", "synthesise and buildAResponseAsBasis: every returned message that the function built (SetReply on a fresh Msg) crosses a store AuthenticatedData=false after SetReply; WriteMsg's filtered arm clears AD on stripped>0")
	adF := c.field("C20-R3", "github.com/miekg/dns.MsgHdr.AuthenticatedData")
	setReply := c.fobj("C20-R3", "github.com/miekg/dns.(*Msg).SetReply")
	for _, name := range []string{pkg + ".(*responseWriter).synthesise", pkg + ".(*responseWriter).buildAResponseAsBasis"} {
		fn := c.fn("C20-R3", name)
		if fn == nil || adF == nil || setReply == nil {
			continue
		}
		c.MustCrossFrom("C20-R3", fn, "built reply returned with AD untouched", isPlainCallTo(setReply), isReturn, StoreBarrier("AuthenticatedData=false", adF, IsConstBool(false)))
		// and nothing sets it true
		for _, s := range instrsWhere(fn, func(in ssa.Instruction) bool { return isFieldStore(in, adF, nil) }) {
			if !IsConstBool(false)(Desc(s.(*ssa.Store).Val)) {
				c.violation("C20-R3", "C20-R3|"+name+"|AD store", instrPos(s), "AD is assigned a non-false value in a synthesis builder")
			}
		}
	}
	if wfn != nil && adF != nil {
		filt := c.fobj("C20-R3", pkg+".(*responseWriter).filterUpstreamAAAA")
		// on the stripped>0 edge the write crosses AD=false
		bars := []Barrier{StoreBarrier("AuthenticatedData=false", adF, IsConstBool(false))}
		if len(instrsWhere(wfn, isPlainCallTo(filt))) == 1 {
			// `stripped` is one SSA value (a single filter call): a path that left through
			// stripped>0=true cannot take the false edge of a later test of the same
			// comparison (F-C20-2: the count is compared once for the flags and once in the
			// kept>0 arm) — that edge ends the walk instead of counting as an escape; so does
			// an edge on which the upstream's AD bit is known not to be set (nothing to keep).
			bars = append(bars, nothingStrippedEdge("stripped>0 tested again (false edge infeasible) / AD not set", filt, adF))
		}
		// the writes in question are those of the filter's own result; replies built by
		// synthesise / buildAResponseAsBasis are covered by the builder clause above
		fromFilter := filterResultItself(filt)
		c.AfterEdge("C20-R3", wfn, "AAAA-filtered reply keeps AD", OnCmp("stripped>0", ResultOf(3, filt), token.GTR, IsConstInt(0), true),
			func(in ssa.Instruction) bool {
				cc := callCommon(in)
				return cc != nil && cc.IsInvoke() && cc.Method.Name() == "WriteMsg" && len(cc.Args) == 1 && fromFilter(Desc(cc.Args[0]))
			}, bars...)
	}
	c.Floor("C20-R3", 3)

	// ------------------------------------------------------------------ R4
	c.Doc("C20-R4", "synthesise: the TTL handed to synthesizeAAAA is a phi/cell drawn only from {noSOATTLCeiling, negativeAAAATTL(orig), a.Hdr.Ttl}; the A-TTL candidate is taken only behind a.Hdr.Ttl < ttl; chain copies are lowered only behind Ttl > ttl")
	if fn := c.fn("C20-R4", pkg+".(*responseWriter).synthesise"); fn != nil {
		synA := c.fobj("C20-R4", pkg+".synthesizeAAAA")
		negTTL := c.fobj("C20-R4", pkg+".negativeAAAATTL")
		hdrTTL := c.field("C20-R4", "github.com/miekg/dns.RR_Header.Ttl")
		ceil := c.P.Object(pkg + ".noSOATTLCeiling")
		if synA != nil && negTTL != nil && hdrTTL != nil && ceil != nil {
			// builtin min only selects one of its operands and never exceeds any of them: the
			// origins of the result are the origins of the operands.  (max is NOT seen through:
			// max(ttl, k) raises the TTL above the fold, and stays a foreign origin.)
			isMinMax := func(e *Expr, names ...string) bool {
				e = strip(e)
				if e == nil || e.K != ECall {
					return false
				}
				for _, n := range names {
					if e.Method == "builtin."+n {
						return true
					}
				}
				return false
			}
			selects := func(e *Expr) []int {
				if !isMinMax(e, "min") {
					return nil
				}
				idx := make([]int, len(strip(e).Args))
				for i := range idx {
					idx[i] = i
				}
				return idx
			}
			for _, in := range instrsWhere(fn, isPlainCallTo(synA)) {
				c.OriginCheck("C20-R4", "C20-R4|synthesise|ttl argument", in, "ttl", callArg(in, 3), selects,
					CallTo(negTTL), FieldIs(hdrTTL), func(e *Expr) bool {
						if e.K == EConst && e.Val != nil {
							if k, ok := ceil.(*types.Const); ok {
								return constant.Compare(constant.ToInt(e.Val), token.EQL, constant.ToInt(k.Val()))
							}
						}
						return e.K == EGlobal && e.Obj == ceil
					})
			}
			// the fold only decreases: a.Hdr.Ttl flows into ttl only behind (a.Hdr.Ttl < ttl)
			// — spelled as a compare-and-assign, or as ttl = min(ttl, a.Hdr.Ttl): the builtin
			// keeps the smaller operand by definition; max over the same pair keeps the larger
			running := func(e *Expr) bool { return e.K == EPhi || e.K == EAlloc || CallTo(negTTL)(e) || IsAnyConst(e) }
			lt := OnCmp("a.Hdr.Ttl<ttl", FieldIs(hdrTTL), token.LSS, running, true)
			var pts []Point
			nMin, nMax := 0, 0
			var maxAt token.Pos
			for _, f := range scopeFuncs(fn) { // the fold may live in an extracted helper
				pts = append(pts, edgePoints(f, lt)...)
				for _, b := range f.Blocks {
					for _, in := range b.Instrs {
						cl, ok := in.(*ssa.Call)
						if !ok || len(cl.Call.Args) != 2 {
							continue
						}
						e := strip(Desc(cl))
						if !isMinMax(e, "min", "max") || len(e.Args) != 2 {
							continue
						}
						x, y := strip(e.Args[0]), strip(e.Args[1])
						if !((FieldIs(hdrTTL)(x) && running(y)) || (FieldIs(hdrTTL)(y) && running(x))) {
							continue
						}
						if isMinMax(e, "min") {
							nMin++
						} else {
							nMax++
							maxAt = in.Pos()
						}
					}
				}
			}
			// an A TTL that reaches the argument as it is (not as an operand of min) is a
			// plain assignment: that one needs the comparison edge
			direct := false
			for _, in := range instrsWhere(fn, isPlainCallTo(synA)) {
				for _, l := range expandHelperLeaves(Origins(Desc(callArg(in, 3)), nil), nil, []Pat{CallTo(negTTL)}, 0) {
					if FieldIs(hdrTTL)(l) {
						direct = true
					}
				}
			}
			switch {
			case direct && len(pts) == 0:
				c.violation("C20-R4", "C20-R4|synthesise|min-fold guard", fn.Pos(), "an A TTL is assigned to ttl without an 'a.Hdr.Ttl < ttl' guard and not through min: the synthesised TTL is no longer the minimum of the A TTLs and the negative TTL")
			case nMax > 0:
				c.violation("C20-R4", "C20-R4|synthesise|min-fold guard", maxAt, "the A TTL and the running ttl are merged by builtin max: the synthesised TTL is the largest, not the minimum, of the A TTLs and the negative TTL")
			case len(pts) == 0 && nMin == 0:
				c.violation("C20-R4", "C20-R4|synthesise|min-fold guard", fn.Pos(), "no 'a.Hdr.Ttl < ttl' guard: the synthesised TTL is no longer the minimum of the A TTLs and the negative TTL")
			case len(pts) == 0:
				c.ok("C20-R4", "C20-R4|synthesise|min-fold guard", fn.Pos(), "A TTL lowers ttl only through builtin min(ttl, a.Hdr.Ttl)")
			default:
				c.ok("C20-R4", "C20-R4|synthesise|min-fold guard", fn.Pos(), "A TTL lowers ttl only behind a.Hdr.Ttl < ttl")
			}
			// chain copies: store to Ttl only behind Ttl > ttl
			dnsCopy := c.fobj("C20-R4", "github.com/miekg/dns.Copy")
			c.MustCross("C20-R4", fn, "chain copy TTL store", func(in ssa.Instruction) bool {
				if !isFieldStore(in, hdrTTL, nil) {
					return false
				}
				// the header of a record copied from the A response's chain (cp := dns.Copy(c); cp.Header().Ttl = …)
				return Contains(CallTo(dnsCopy))(Desc(in.(*ssa.Store).Addr.(*ssa.FieldAddr).X))
			},
				OnCmp("cp.Ttl>ttl", FieldIs(hdrTTL), token.GTR, func(e *Expr) bool { return true }, true))
		}
	}
	c.Floor("C20-R4", 3)

	// ------------------------------------------------------------------ R5
	c.Doc("C20-R5", "every synthesizeAAAA call and the PTR translation are behind shouldExcludeAOnPrefix=false; validatePrefix returns nil only behind validPrefixBits[bits]=true and not(/96 with non-zero octet 8)")
	excl := MethodNamed("shouldExcludeAOnPrefix")
	if fn := c.fn("C20-R5", pkg+".(*responseWriter).synthesise"); fn != nil {
		synA := c.fobj("C20-R5", pkg+".synthesizeAAAA")
		c.MustCross("C20-R5", fn, "synthesizeAAAA", isPlainCallTo(synA), OnFalse("shouldExcludeAOnPrefix", excl))
	}
	if fn := c.fn("C20-R5", pkg+".(*DNS64).handlePTR"); fn != nil {
		inaddr := c.fobj("C20-R5", pkg+".inAddrArpa")
		ext := c.fobj("C20-R5", pkg+".extractIPv4")
		// the translated address is chosen by a phi: every block that feeds an
		// extractIPv4 result into it must be behind both guards
		for _, in := range instrsWhere(fn, isPlainCallTo(inaddr)) {
			c.OriginCheck("C20-R5", "C20-R5|handlePTR|translated address origin", in, "inAddrArpa argument", callArg(in, 0), nil, ResultOf(0, ext), IsNilConst)
		}
		nfeed := 0
		checkSel := func(term ssa.Instruction, f *ssa.Function) {
			nfeed++
			for _, bar := range []Barrier{OnFalse("shouldExcludeAOnPrefix", excl), OnTrue("extractIPv4 ok", ResultOf(1, ext))} {
				key := "C20-R5|handlePTR|v4 = ext|" + bar.Name
				if ug, tr := c.unguarded(term, []Barrier{bar}, f); ug {
					c.violation("C20-R5", key, instrPos(term), "an extracted IPv4 is selected for PTR translation without crossing "+bar.Name+"; path "+tr)
				} else {
					c.ok("C20-R5", key, instrPos(term), "selection of the extracted address is behind "+bar.Name)
				}
			}
		}
		// selection points: phi edges carrying an extractIPv4 result, and — when the search
		// loop was extracted into a helper — the helper's returns of such a result
		for _, f := range scopeFuncs(fn) {
			for _, b := range f.Blocks {
				for _, in := range b.Instrs {
					switch x := in.(type) {
					case *ssa.Phi:
						for i, ev := range x.Edges {
							if !ResultOf(0, ext)(Desc(ev)) {
								continue
							}
							pred := b.Preds[i]
							checkSel(pred.Instrs[len(pred.Instrs)-1], TopLevel(f))
						}
					case *ssa.Return:
						if TopLevel(f) == fn {
							continue
						}
						for _, rv := range x.Results {
							if ResultOf(0, ext)(Desc(rv)) {
								checkSel(in, TopLevel(f))
							}
						}
					}
				}
			}
		}
		if nfeed == 0 {
			c.unresolved("C20-R5", "handlePTR v4 selection", "no phi edge carries an extractIPv4 result")
		}
	}
	if fn := c.fn("C20-R5", pkg+".validatePrefix"); fn != nil {
		vpb := c.P.Object(pkg + ".validPrefixBits")
		c.MustCross("C20-R5", fn, "return nil", isReturnWith(0, IsNilConst), OnTrue("validPrefixBits[bits]", func(e *Expr) bool {
			return e.K == ELookup && e.X != nil && e.X.K == EGlobal && e.X.Obj == vpb
		}))
	}
	c.Floor("C20-R5", 4)

	// ------------------------------------------------------------------ R6
	c.Doc("C20-R6", "RFC 6052 §2.2 layout from constant indices: per prefix length the v4-octet → address-octet map of embedIPv4 equals {32:4-7, 40:5-7,9, 48:6-7,9-10, 56:7,9-11, 64:9-12, 96:12-15}; extractIPv4's map is its exact inverse; octet 8 never written below /96; prefix copy length = bits/8 into make(net.IP, 16); extract tests a[8]==0 and the whole suffix; case sets = validPrefixBits")
	c.c20Layout(pkg)
}

// ---------------------------------------------------------------------------
// R6: layout extraction from the syntax tree

type c20Move struct{ dst, src int }

func (c *Ctx) c20Layout(pkg string) {
	efd, epk := c.P.FuncDecl(pkg + ".embedIPv4")
	xfd, xpk := c.P.FuncDecl(pkg + ".extractIPv4")
	if efd == nil || xfd == nil {
		c.unresolved("C20-R6", pkg+".embedIPv4/extractIPv4", "function not found")
		return
	}
	vpb, vpk := c.P.pkgVarValue(pkg, "validPrefixBits")
	var validKeys map[string]bool
	if vpb != nil {
		validKeys, _ = mapLitKeys(vpb, vpk.TypesInfo)
	}
	if validKeys == nil {
		c.undecided("C20-R6", "C20-R6|validPrefixBits", token.NoPos, "validPrefixBits is not a constant-keyed map literal")
		return
	}
	want := map[string]bool{}
	for k := range rfc6052 {
		want[fmt.Sprint(k)] = true
	}
	if sameSet(validKeys, want) {
		c.ok("C20-R6", "C20-R6|validPrefixBits keys", vpb.Pos(), "validPrefixBits = "+setString(validKeys))
	} else {
		c.violation("C20-R6", "C20-R6|validPrefixBits keys", vpb.Pos(), "validPrefixBits = "+setString(validKeys)+", RFC 6052 §2.2 allows "+setString(want))
	}

	// ---- embed
	eBig, _, _, eBits, ePB := c20Locals(efd, epk.TypesInfo)
	eSmall := ""
	if ps := efd.Type.Params.List; len(ps) > 0 && len(ps[len(ps)-1].Names) > 0 {
		eSmall = ps[len(ps)-1].Names[len(ps[len(ps)-1].Names)-1].Name
	}
	emb := c.c20Cases(efd, epk, eBig, eSmall, eBits, "embedIPv4")
	if emb == nil {
		return
	}
	for bits, wantMap := range rfc6052 {
		key := fmt.Sprintf("C20-R6|embedIPv4|/%d", bits)
		cs, ok := emb[bits]
		if !ok {
			c.violation("C20-R6", key, efd.Pos(), fmt.Sprintf("embedIPv4 has no case for /%d", bits))
			continue
		}
		got := [4]int{-1, -1, -1, -1}
		bad := ""
		for _, m := range cs.moves {
			if m.src < 0 || m.src > 3 || got[m.src] != -1 {
				bad = fmt.Sprintf("v4[%d] moved twice or out of range", m.src)
				break
			}
			got[m.src] = m.dst
		}
		if bad == "" && got != wantMap {
			bad = fmt.Sprintf("v4 octets land at %v, RFC 6052 says %v", got, wantMap)
		}
		if bad == "" && bits < 96 {
			for _, m := range cs.moves {
				if m.dst == 8 {
					bad = "writes the reserved octet 8"
				}
			}
		}
		if bad != "" {
			c.violation("C20-R6", key, cs.pos, "embedIPv4 /"+fmt.Sprint(bits)+": "+bad)
		} else {
			c.ok("C20-R6", key, cs.pos, fmt.Sprintf("v4[0..3] → out%v (octet 8 untouched)", got))
		}
	}
	for bits := range emb {
		if _, ok := rfc6052[bits]; !ok {
			c.violation("C20-R6", fmt.Sprintf("C20-R6|embedIPv4|/%d", bits), efd.Pos(), fmt.Sprintf("embedIPv4 handles /%d which RFC 6052 does not define", bits))
		}
	}
	c.c20EmbedPrologue(efd, epk, eBig, eBits, ePB)

	// ---- extract
	_, xSmall, xBig, xBits, _ := c20Locals(xfd, xpk.TypesInfo)
	ext := c.c20Cases(xfd, xpk, xBig, xSmall, xBits, "extractIPv4")
	if ext == nil {
		return
	}
	for bits, wantMap := range rfc6052 {
		key := fmt.Sprintf("C20-R6|extractIPv4|/%d", bits)
		cs, ok := ext[bits]
		if !ok {
			c.violation("C20-R6", key, xfd.Pos(), fmt.Sprintf("extractIPv4 has no case for /%d", bits))
			continue
		}
		// in extract the big array is the source: moves are {dst: v4 index, src: address index}
		got := [4]int{-1, -1, -1, -1}
		bad := ""
		for _, m := range cs.moves {
			if m.dst < 0 || m.dst > 3 || got[m.dst] != -1 {
				bad = fmt.Sprintf("out[%d] written twice or out of range", m.dst)
				break
			}
			got[m.dst] = m.src
		}
		if bad == "" && got != wantMap {
			bad = fmt.Sprintf("reads address octets %v, the inverse of the embedding is %v", got, wantMap)
		}
		// zero tests
		if bad == "" && bits < 96 {
			last := wantMap[3]
			if !(cs.zeroIdx[8] || (cs.zeroFrom >= 0 && cs.zeroFrom <= 8)) {
				bad = "does not test the reserved octet 8 for zero"
			} else if last < 15 && (cs.zeroFrom < 0 || cs.zeroFrom > last+1) {
				bad = fmt.Sprintf("suffix test starts at %d, must cover every octet after %d", cs.zeroFrom, last)
			}
		}
		if bad != "" {
			c.violation("C20-R6", key, cs.pos, "extractIPv4 /"+fmt.Sprint(bits)+": "+bad)
		} else {
			c.ok("C20-R6", key, cs.pos, fmt.Sprintf("out[0..3] ← a%v; octet 8 and suffix tested", got))
		}
	}
}

type c20Case struct {
	moves    []c20Move
	zeroIdx  map[int]bool // a[i] != 0 → reject
	zeroFrom int          // bytesAllZero(a[k:]) → reject ; -1 none
	pos      token.Pos
}

// c20Cases reads `switch bits { case N: … }` of fd: per case the byte moves
// between the 16-byte array `big` and the 4-byte array `small` (either
// direction), expressed with constant indices only.
func (c *Ctx) c20Cases(fd *ast.FuncDecl, pk *packages.Package, big, small, bitsName string, fname string) map[int]*c20Case {
	if big == "" || small == "" || bitsName == "" {
		c.undecided("C20-R6", "C20-R6|"+fname+"|locals", fd.Pos(), "could not identify the 16-byte array, the 4-byte array and the prefix-length variable by their definitions")
		return nil
	}
	var sw *ast.SwitchStmt
	ast.Inspect(fd.Body, func(n ast.Node) bool {
		if s, ok := n.(*ast.SwitchStmt); ok && sw == nil {
			if id, ok := s.Tag.(*ast.Ident); ok && id.Name == bitsName {
				sw = s
			}
		}
		return true
	})
	if sw == nil {
		c.undecided("C20-R6", "C20-R6|"+fname+"|switch", fd.Pos(), "no switch over the prefix length found")
		return nil
	}
	info := pk.TypesInfo
	cint := func(e ast.Expr, def int) (int, bool) {
		if e == nil {
			return def, true
		}
		tv, ok := info.Types[e]
		if !ok || tv.Value == nil {
			return 0, false
		}
		v, ok := constant.Int64Val(constant.ToInt(tv.Value))
		return int(v), ok
	}
	lenOf := func(name string) int {
		if name == big {
			return 16
		}
		return 4
	}
	// operand: name, lo, hi (exclusive)
	operand := func(e ast.Expr) (string, int, int, bool) {
		switch x := e.(type) {
		case *ast.Ident:
			return x.Name, 0, lenOf(x.Name), true
		case *ast.SliceExpr:
			id, ok := x.X.(*ast.Ident)
			if !ok || x.Slice3 {
				return "", 0, 0, false
			}
			lo, ok1 := cint(x.Low, 0)
			hi, ok2 := cint(x.High, lenOf(id.Name))
			return id.Name, lo, hi, ok1 && ok2
		case *ast.IndexExpr:
			id, ok := x.X.(*ast.Ident)
			if !ok {
				return "", 0, 0, false
			}
			i, ok := cint(x.Index, 0)
			return id.Name, i, i + 1, ok
		}
		return "", 0, 0, false
	}
	names := map[string]bool{big: true, small: true}
	out := map[int]*c20Case{}
	for _, st := range sw.Body.List {
		cc := st.(*ast.CaseClause)
		if cc.List == nil {
			c.undecided("C20-R6", "C20-R6|"+fname+"|default", cc.Pos(), "default case in the layout switch")
			return nil
		}
		cs := &c20Case{zeroIdx: map[int]bool{}, zeroFrom: -1, pos: cc.Pos()}
		var walk func(stmts []ast.Stmt) bool
		walk = func(stmts []ast.Stmt) bool {
			for _, s := range stmts {
				switch x := s.(type) {
				case *ast.ExprStmt:
					call, ok := x.X.(*ast.CallExpr)
					if !ok {
						return false
					}
					if id, ok := call.Fun.(*ast.Ident); !ok || id.Name != "copy" || len(call.Args) != 2 {
						return false
					}
					dn, dlo, dhi, ok1 := operand(call.Args[0])
					sn, slo, shi, ok2 := operand(call.Args[1])
					if !ok1 || !ok2 || !names[dn] || !names[sn] {
						return false
					}
					n := dhi - dlo
					if shi-slo < n {
						n = shi - slo
					}
					for i := 0; i < n; i++ {
						cs.moves = append(cs.moves, c20Move{dst: dlo + i, src: slo + i})
					}
				case *ast.AssignStmt:
					if len(x.Lhs) != 1 || len(x.Rhs) != 1 || x.Tok != token.ASSIGN {
						return false
					}
					dn, dlo, dhi, ok1 := operand(x.Lhs[0])
					sn, slo, shi, ok2 := operand(x.Rhs[0])
					if !ok1 || !ok2 || dhi-dlo != 1 || shi-slo != 1 || !names[dn] || !names[sn] {
						return false
					}
					cs.moves = append(cs.moves, c20Move{dst: dlo, src: slo})
				case *ast.IfStmt:
					// zero tests: if a[8] != 0 { return nil,false } / if !bytesAllZero(a[k:]) { return nil,false }
					if x.Init != nil || x.Else != nil || len(x.Body.List) != 1 {
						return false
					}
					if _, ok := x.Body.List[0].(*ast.ReturnStmt); !ok {
						return false
					}
					switch cnd := x.Cond.(type) {
					case *ast.BinaryExpr:
						if cnd.Op != token.NEQ {
							return false
						}
						nm, lo, hi, ok := operand(cnd.X)
						z, okz := cint(cnd.Y, -1)
						if !ok || !okz || z != 0 || hi-lo != 1 || nm != big {
							return false
						}
						cs.zeroIdx[lo] = true
					case *ast.UnaryExpr:
						call, ok := cnd.X.(*ast.CallExpr)
						if cnd.Op != token.NOT || !ok || len(call.Args) != 1 {
							return false
						}
						if id, ok := call.Fun.(*ast.Ident); !ok || !c20IsAllZeroHelper(id, info) {
							return false
						}
						nm, lo, hi, ok := operand(call.Args[0])
						if !ok || nm != big || hi != 16 {
							return false
						}
						if cs.zeroFrom < 0 || lo < cs.zeroFrom {
							cs.zeroFrom = lo
						}
					default:
						return false
					}
				default:
					return false
				}
			}
			return true
		}
		if !walk(cc.Body) {
			c.undecided("C20-R6", "C20-R6|"+fname+"|case shape", cc.Pos(), "a case of the layout switch contains something other than constant-index copy/assign/zero-test statements")
			return nil
		}
		for _, e := range cc.List {
			b, ok := cint(e, 0)
			if !ok {
				c.undecided("C20-R6", "C20-R6|"+fname+"|case const", e.Pos(), "non-constant case")
				return nil
			}
			out[b] = cs
		}
	}
	// direction: embed moves small→big, extract moves big→small; normalise so
	// that in both maps `dst`/`src` keep their meaning for the caller
	for _, cs := range out {
		_ = cs
	}
	var ks []int
	for k := range out {
		ks = append(ks, k)
	}
	sort.Ints(ks)
	c.ok("C20-R6", "C20-R6|"+fname+"|cases", sw.Pos(), fmt.Sprintf("%s switch cases %v, all constant-index", fname, ks))
	return out
}

// c20EmbedPrologue: out is a fresh 16-byte slice, the only other write is
// copy(out[:prefixBytes], prefix.IP[:prefixBytes]) with prefixBytes = bits/8.
func (c *Ctx) c20EmbedPrologue(fd *ast.FuncDecl, pk *packages.Package, outName, bitsName, pbName string) {
	info := pk.TypesInfo
	freshOK, copyOK, divOK := false, false, false
	other := ""
	for _, st := range fd.Body.List {
		switch x := st.(type) {
		case *ast.AssignStmt:
			if len(x.Lhs) >= 1 {
				if id, ok := x.Lhs[0].(*ast.Ident); ok {
					switch id.Name {
					case outName:
						if call, ok := x.Rhs[0].(*ast.CallExpr); ok {
							if f, ok := call.Fun.(*ast.Ident); ok && f.Name == "make" && len(call.Args) == 2 {
								if tv, ok := info.Types[call.Args[1]]; ok && tv.Value != nil {
									if v, _ := constant.Int64Val(constant.ToInt(tv.Value)); v == 16 {
										freshOK = true
									}
								}
							}
						}
					case pbName:
						if be, ok := x.Rhs[0].(*ast.BinaryExpr); ok && be.Op == token.QUO {
							if l, ok := be.X.(*ast.Ident); ok && l.Name == bitsName {
								if tv, ok := info.Types[be.Y]; ok && tv.Value != nil {
									if v, _ := constant.Int64Val(constant.ToInt(tv.Value)); v == 8 {
										divOK = true
									}
								}
							}
						}
					}
				}
			}
		case *ast.ExprStmt:
			call, ok := x.X.(*ast.CallExpr)
			if !ok {
				other = types.ExprString(x.X)
				continue
			}
			if f, ok := call.Fun.(*ast.Ident); ok && f.Name == "copy" && len(call.Args) == 2 {
				d, ok1 := call.Args[0].(*ast.SliceExpr)
				s, ok2 := call.Args[1].(*ast.SliceExpr)
				if ok1 && ok2 && d.Low == nil && s.Low == nil {
					dh, _ := d.High.(*ast.Ident)
					sh, _ := s.High.(*ast.Ident)
					di, _ := d.X.(*ast.Ident)
					if dh != nil && sh != nil && di != nil && dh.Name == pbName && sh.Name == pbName && di.Name == outName {
						copyOK = true
						continue
					}
				}
			}
			other = types.ExprString(x.X)
		}
	}
	key := "C20-R6|embedIPv4|prologue"
	switch {
	case !freshOK:
		c.violation("C20-R6", key, fd.Pos(), "out is not a fresh make(net.IP, 16): reserved octet and suffix are not guaranteed zero")
	case !divOK || !copyOK:
		c.violation("C20-R6", key, fd.Pos(), "the prefix copy is not copy(out[:bits/8], prefix.IP[:bits/8])")
	case other != "":
		c.violation("C20-R6", key, fd.Pos(), "unexpected extra statement writing the result: "+strings.TrimSpace(other))
	default:
		c.ok("C20-R6", key, fd.Pos(), "out = make(16); copy(out[:bits/8], prefix.IP[:bits/8]); then the per-length moves only")
	}
}

// c20Locals discovers, by how they are defined (never by their spelling), the
// local names the layout functions use: the result/array variables created by
// make(net.IP, N) or x.To16(), and the prefix-length variable assigned from
// Mask.Size().
func c20Locals(fd *ast.FuncDecl, info *types.Info) (make16, make4, to16, bits, prefixBytes string) {
	ast.Inspect(fd.Body, func(n ast.Node) bool {
		as, ok := n.(*ast.AssignStmt)
		if !ok || len(as.Rhs) != 1 || len(as.Lhs) == 0 {
			return true
		}
		lhs, ok := as.Lhs[0].(*ast.Ident)
		if !ok {
			return true
		}
		switch rhs := as.Rhs[0].(type) {
		case *ast.CallExpr:
			if f, ok := rhs.Fun.(*ast.Ident); ok && f.Name == "make" && len(rhs.Args) == 2 {
				if tv, ok := info.Types[rhs.Args[1]]; ok && tv.Value != nil {
					switch v, _ := constant.Int64Val(constant.ToInt(tv.Value)); v {
					case 16:
						make16 = lhs.Name
					case 4:
						make4 = lhs.Name
					}
				}
			}
			if sel, ok := rhs.Fun.(*ast.SelectorExpr); ok {
				switch sel.Sel.Name {
				case "To16":
					to16 = lhs.Name
				case "Size":
					bits = lhs.Name
				}
			}
		case *ast.BinaryExpr:
			if rhs.Op == token.QUO {
				if l, ok := rhs.X.(*ast.Ident); ok && bits != "" && l.Name == bits {
					prefixBytes = lhs.Name
				}
			}
		}
		return true
	})
	return
}

// c20IsAllZeroHelper: the called function is a package-level func([]byte) bool
// whose body returns false on the first non-zero element (resolved through
// types, shape-checked by name-independent signature only).
func c20IsAllZeroHelper(id *ast.Ident, info *types.Info) bool {
	f, ok := info.Uses[id].(*types.Func)
	if !ok {
		return false
	}
	sig := f.Type().(*types.Signature)
	if sig.Params().Len() != 1 || sig.Results().Len() != 1 {
		return false
	}
	if b, ok := sig.Results().At(0).Type().Underlying().(*types.Basic); !ok || b.Kind() != types.Bool {
		return false
	}
	_, isSlice := sig.Params().At(0).Type().Underlying().(*types.Slice)
	return isSlice
}
