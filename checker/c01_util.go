package main

// Helpers private to property C01 (rules_c01.go).  Nothing here changes the
// shared engines; c01Reach is a one-step path-sensitive refinement of reach().

import (
	"fmt"
	"go/ast"
	"go/constant"
	"go/token"
	"go/types"
	"sort"
	"strings"

	"golang.org/x/tools/go/packages"
	"golang.org/x/tools/go/ssa"
)

// c01Start is a start point of c01Reach: Pred is the index (in P.B.Preds) of
// the block the path came from, or -1 when unknown.
type c01Start struct {
	P    Point
	Pred int
}

// c01CondPhi strips negations from a branch condition and returns the Phi it
// tests, if any.
func c01CondPhi(v ssa.Value) (*ssa.Phi, bool) {
	neg := false
	for {
		if u, ok := v.(*ssa.UnOp); ok && u.Op == token.NOT {
			neg = !neg
			v = u.X
			continue
		}
		break
	}
	ph, ok := v.(*ssa.Phi)
	return ph, neg && ok
}

func c01PredIndex(from, to *ssa.BasicBlock) int {
	idx := -1
	for j, p := range to.Preds {
		if p == from {
			if idx >= 0 {
				return -1 // both successors of `from` lead here: ambiguous
			}
			idx = j
		}
	}
	return idx
}

// c01Known is the set of boolean Phi values whose current value is known on
// the path being explored.
type c01Known map[*ssa.Phi]bool

func (k c01Known) key() string {
	if len(k) == 0 {
		return ""
	}
	var parts []string
	for ph, v := range k {
		parts = append(parts, fmt.Sprintf("%s=%v", ph.Name(), v))
	}
	sort.Strings(parts)
	return strings.Join(parts, ",")
}

// c01Enter computes the knowledge after entering block `to` from block `from`:
// each boolean Phi of `to` takes the incoming value of that edge — known when
// it is a constant (or another Phi whose value is known), unknown otherwise.
// Phi values are immutable until their block is entered again, so a later
// branch on such a Phi can only follow the matching edge.
func c01Enter(k c01Known, from, to *ssa.BasicBlock) c01Known {
	idx := -1
	if from != nil {
		idx = c01PredIndex(from, to)
	}
	var out c01Known
	cow := func() {
		if out == nil {
			out = c01Known{}
			for a, b := range k {
				out[a] = b
			}
		}
	}
	for _, in := range to.Instrs {
		ph, ok := in.(*ssa.Phi)
		if !ok {
			break
		}
		if b, ok := ph.Type().Underlying().(*types.Basic); !ok || b.Kind() != types.Bool {
			continue
		}
		known, val := false, false
		if idx >= 0 && idx < len(ph.Edges) {
			switch e := ph.Edges[idx].(type) {
			case *ssa.Const:
				if e.Value != nil && e.Value.Kind() == constant.Bool {
					known, val = true, constant.BoolVal(e.Value)
				}
			case *ssa.Phi:
				if v, ok := k[e]; ok && e.Block() != to {
					known, val = true, v
				}
			}
		}
		if known {
			if cur, ok := k[ph]; !ok || cur != val {
				cow()
				out[ph] = val
			}
		} else if _, ok := k[ph]; ok {
			cow()
			delete(out, ph)
		}
	}
	if out == nil {
		return k
	}
	return out
}

// c01Reach explores the CFG like reach(), with one refinement: it remembers,
// along each explored path, the value of every boolean Phi whose incoming edge
// carried a constant, and when a branch tests such a Phi only the successor
// selected by that value is followed.  This is what tells "loop exhausted,
// settled==false" from "candidate accepted, settled==true" in the per-signer
// retry loops, and "insecure candidate, verified==false" from a verified one.
// Everything else stays path-insensitive.
func c01Reach(starts []c01Start, bars []Barrier) *reachResult {
	r := &reachResult{prev: map[ssa.Instruction]ssa.Instruction{}, visited: map[ssa.Instruction]bool{}}
	type item struct {
		p     Point
		known c01Known
		from  ssa.Instruction
	}
	var q []item
	for _, s := range starts {
		k := c01Known{}
		if s.P.B != nil && s.P.I == 0 && s.Pred >= 0 && s.Pred < len(s.P.B.Preds) {
			k = c01Enter(k, s.P.B.Preds[s.Pred], s.P.B)
		}
		q = append(q, item{s.P, k, nil})
	}
	seen := map[string]bool{}
	for len(q) > 0 {
		it := q[0]
		q = q[1:]
		p, from, known := it.p, it.from, it.known
		if p.B == nil {
			continue
		}
		kk := known.key()
		for {
			if p.I >= len(p.B.Instrs) {
				break
			}
			sk := fmt.Sprintf("%d/%d/%s", p.B.Index, p.I, kk)
			if seen[sk] {
				break
			}
			seen[sk] = true
			in := p.B.Instrs[p.I]
			if !r.visited[in] {
				r.visited[in] = true
				r.prev[in] = from
				r.order = append(r.order, in)
			}
			crossed := false
			for _, b := range bars {
				if b.Instr != nil && b.Instr(in) {
					crossed = true
					break
				}
			}
			if crossed {
				break
			}
			from = in
			if p.I == len(p.B.Instrs)-1 {
				switch t := in.(type) {
				case *ssa.If:
					only := -1
					if ph, neg := c01CondPhi(t.Cond); ph != nil {
						if v, ok := known[ph]; ok {
							if neg {
								v = !v
							}
							if v {
								only = 0
							} else {
								only = 1
							}
						}
					}
					cond := condOf(t)
					for k, s := range p.B.Succs {
						if only >= 0 && k != only {
							continue
						}
						blocked := false
						for _, b := range bars {
							if b.Edge != nil {
								if m, which := b.Edge(cond); m && which == k {
									blocked = true
									break
								}
							}
						}
						if !blocked {
							q = append(q, item{Point{s, 0}, c01Enter(known, p.B, s), in})
						}
					}
				case *ssa.Jump:
					s := p.B.Succs[0]
					q = append(q, item{Point{s, 0}, c01Enter(known, p.B, s), in})
				}
				break
			}
			p.I++
		}
	}
	return r
}

// c01EdgeStarts: start points (with predecessor) of the successor reached
// through every branch edge of fn (top level only) matched by e.
func c01EdgeStarts(fn *ssa.Function, e Barrier) []c01Start {
	var out []c01Start
	if e.Edge == nil || fn == nil {
		return nil
	}
	for _, b := range fn.Blocks {
		if len(b.Instrs) == 0 {
			continue
		}
		iff, ok := b.Instrs[len(b.Instrs)-1].(*ssa.If)
		if !ok {
			continue
		}
		if m, which := e.Edge(condOf(iff)); m {
			s := b.Succs[which]
			out = append(out, c01Start{Point{s, 0}, c01PredIndex(b, s)})
		}
	}
	return out
}

// c01ValueIs matches the expression describing exactly this SSA value.
func c01ValueIs(v ssa.Value) Pat {
	var is func(e *Expr, d int) bool
	is = func(e *Expr, d int) bool {
		e = strip(e)
		if e == nil || d > 3 {
			return false
		}
		if e.V == v {
			return true
		}
		// the value merged with the same result of a sibling call (err from either of
		// two alternative validators, tested once after the merge)
		if e.K == EPhi || e.K == EAlloc {
			for _, a := range e.Args {
				if is(a, d+1) {
					return true
				}
			}
		}
		return false
	}
	return func(e *Expr) bool { return is(e, 0) }
}

// c01ErrResult returns the error result of a call instruction: the call value
// itself (single error result), or the Extract of the last result when that
// has type error.  found=false: the callee has no error result.  val==nil with
// found=true: the error result is never extracted (assigned to _ / dropped).
func c01ErrResult(cl *ssa.Call) (val ssa.Value, found bool) {
	sig := cl.Call.Signature()
	res := sig.Results()
	if res.Len() == 0 {
		return nil, false
	}
	last := res.At(res.Len() - 1).Type()
	if !c01IsErrorType(last) {
		return nil, false
	}
	if res.Len() == 1 {
		return cl, true
	}
	if cl.Referrers() != nil {
		for _, r := range *cl.Referrers() {
			if ex, ok := r.(*ssa.Extract); ok && ex.Index == res.Len()-1 {
				return ex, true
			}
		}
	}
	return nil, true
}

func c01IsErrorType(t types.Type) bool {
	n, ok := t.(*types.Named)
	return ok && n.Obj().Pkg() == nil && n.Obj().Name() == "error"
}

// c01LeavesOnly: every leaf origin of e matches one of ps and at least one
// leaf matches `need` (nil = no such requirement).
func c01Leaves(e *Expr) []*Expr { return Origins(e, nil) }

func c01AllLeaves(e *Expr, allowed ...Pat) (bool, []string) {
	var bad []string
	ls := c01Leaves(e)
	for _, l := range ls {
		m := false
		for _, p := range allowed {
			if p(l) {
				m = true
				break
			}
		}
		if !m {
			bad = append(bad, l.String())
		}
	}
	return len(bad) == 0 && len(ls) > 0, bad
}

func c01SomeLeaf(e *Expr, p Pat) bool {
	for _, l := range c01Leaves(e) {
		if p(l) {
			return true
		}
	}
	return false
}

// c01VerdictPhi matches a boolean value all of whose leaves are the constant
// false or match src, with at least one src leaf: the value can be true only
// because src was.
func c01VerdictPhi(src Pat) Pat {
	return func(e *Expr) bool {
		ok, _ := c01AllLeaves(e, IsConstBool(false), src)
		return ok && c01SomeLeaf(e, src)
	}
}

func c01LeafStrings(e *Expr) string {
	var ls []string
	for _, l := range c01Leaves(e) {
		ls = append(ls, l.String())
	}
	sort.Strings(ls)
	return trunc(strings.Join(ls, " ; "), 300)
}

// c01FieldAssigns finds, in the syntax of package pk, every assignment whose
// left-hand side is a selector resolving to the struct field fv; returns the
// right-hand sides with their enclosing function declaration.
type c01Assign struct {
	Fn  *ast.FuncDecl
	RHS ast.Expr
}

func c01FieldAssigns(pk *packages.Package, fv *types.Var) []c01Assign {
	var out []c01Assign
	for _, f := range pk.Syntax {
		for _, d := range f.Decls {
			fd, ok := d.(*ast.FuncDecl)
			if !ok || fd.Body == nil {
				continue
			}
			ast.Inspect(fd.Body, func(n ast.Node) bool {
				as, ok := n.(*ast.AssignStmt)
				if !ok || len(as.Lhs) != len(as.Rhs) {
					return true
				}
				for i, l := range as.Lhs {
					sel, ok := ast.Unparen(l).(*ast.SelectorExpr)
					if !ok {
						continue
					}
					if s := pk.TypesInfo.Selections[sel]; s != nil && s.Obj() == fv {
						out = append(out, c01Assign{fd, as.Rhs[i]})
					}
				}
				return true
			})
		}
	}
	return out
}

// c01LocalFromCallResult: ident id (a use) denotes a local variable defined by
// `a, b, id := f(...)` where f resolves to callee and id is result #idx.
func c01LocalFromCallResult(fd *ast.FuncDecl, info *types.Info, id *ast.Ident, callee *types.Func, idx int) bool {
	obj := info.Uses[id]
	if obj == nil || fd == nil {
		return false
	}
	found := false
	nAssign := 0
	ast.Inspect(fd.Body, func(n ast.Node) bool {
		as, ok := n.(*ast.AssignStmt)
		if !ok {
			return true
		}
		for i, l := range as.Lhs {
			lid, ok := l.(*ast.Ident)
			if !ok {
				continue
			}
			if info.Defs[lid] != obj && info.Uses[lid] != obj {
				continue
			}
			nAssign++
			if len(as.Rhs) == 1 && i == idx {
				if call, ok := ast.Unparen(as.Rhs[0]).(*ast.CallExpr); ok {
					var fo types.Object
					switch fx := ast.Unparen(call.Fun).(type) {
					case *ast.SelectorExpr:
						fo = info.Uses[fx.Sel]
					case *ast.Ident:
						fo = info.Uses[fx]
					}
					if fo == callee {
						found = true
					}
				}
			}
		}
		return true
	})
	return found && nAssign == 1
}

// c01Unreachable runs c01Reach from the given starts and reports every target
// instruction that is reached; used for "after a failure edge no success
// return" obligations.
func (c *Ctx) c01After(rule, key string, starts []c01Start, at token.Pos, what string, target func(ssa.Instruction) bool, bars ...Barrier) bool {
	var bn []string
	for _, b := range bars {
		bn = append(bn, b.Name)
	}
	r := c01Reach(starts, bars)
	for _, t := range r.order {
		if target(t) {
			c.violation(rule, key, instrPos(t), fmt.Sprintf("%s: reaches %s without crossing {%s}; path %s", what, c.P.pos(instrPos(t)), strings.Join(bn, " | "), c.trail(r, t)))
			return false
		}
	}
	c.ok(rule, key, at, fmt.Sprintf("%s: nothing forbidden reachable without {%s}", what, strings.Join(bn, " | ")))
	return true
}

func c01IsZeroConst(cst *ssa.Const) bool {
	if cst.Value == nil {
		return true
	}
	switch cst.Value.Kind() {
	case constant.Bool:
		return !constant.BoolVal(cst.Value)
	case constant.Int:
		v, ok := constant.Int64Val(cst.Value)
		return ok && v == 0
	case constant.String:
		return constant.StringVal(cst.Value) == ""
	}
	return false
}

// c01MustCross is MustCross for one top-level function body using the
// phi-sensitive c01Reach (no closure inheritance: targets inside closures are
// not considered).
func (c *Ctx) c01MustCross(rule string, fn *ssa.Function, what string, target func(ssa.Instruction) bool, bars ...Barrier) int {
	if fn == nil {
		c.unresolved(rule, what, "function not found")
		return 0
	}
	var bn []string
	for _, b := range bars {
		bn = append(bn, b.Name)
	}
	var starts []c01Start
	for _, p := range entryPoint(fn) {
		starts = append(starts, c01Start{p, -1})
	}
	r := c01Reach(starts, bars)
	n := 0
	for _, b := range fn.Blocks {
		for _, in := range b.Instrs {
			if !target(in) {
				continue
			}
			n++
			key := fmt.Sprintf("%s|%s|%s|%s", rule, fnKey(fn), what, strings.Join(bn, ","))
			if r.visited[in] {
				c.violation(rule, key, instrPos(in), fmt.Sprintf("%s in %s reachable without crossing {%s}; path %s", what, fnKey(fn), strings.Join(bn, " | "), c.trail(r, in)))
			} else {
				c.ok(rule, key, instrPos(in), fmt.Sprintf("%s in %s is behind {%s}", what, fnKey(fn), strings.Join(bn, " | ")))
			}
		}
	}
	if n == 0 {
		c.unresolved(rule, fmt.Sprintf("%s|%s", fnKey(fn), what), "no target site found (rule would pass vacuously)")
	}
	return n
}

// c01GuardedPhi matches a Phi of fn every non-zero incoming value of
// which arrives from a block that is unreachable from fn's entry without
// crossing one of bars (and which has at least one such edge): a flag that can
// only be true because the guarded success arm ran.
func c01GuardedPhi(c *Ctx, fn *ssa.Function, bars ...Barrier) Pat {
	return func(e *Expr) bool {
		e = strip(e)
		if e == nil {
			return false
		}
		ph, ok := e.V.(*ssa.Phi)
		if !ok || ph.Parent() != fn {
			return false
		}
		n := 0
		for i, ed := range ph.Edges {
			if cst, ok := ed.(*ssa.Const); ok && c01IsZeroConst(cst) {
				continue
			}
			pred := ph.Block().Preds[i]
			if len(pred.Instrs) == 0 {
				return false
			}
			if ug, _ := c.unguarded(pred.Instrs[len(pred.Instrs)-1], bars, fn); ug {
				return false
			}
			n++
		}
		return n > 0
	}
}
