package main

// C19-R13 (finding F-C19-5) — a message the resolver BUILDS in place of an
// upstream reply says what that reply said about its audience.
//
// C19-R9 (= C03-R10) looks at the places where the resolver rebuilds the
// additional section of the upstream reply itself (M not freshly allocated).
// The third hand-up route is a message built from scratch: after the exchange
// (*Resolver).resolve throws a NOERROR reply with empty answer and authority
// away and returns `new(dns.Msg)` dressed with the REQUEST's additional
// section.  The request's own EDNS Client Subnet option says SCOPE 0 by
// construction (RFC 7871 §6); the cache reads SCOPE 0 (or no option at all) as
// "valid for everybody", so a NODATA the authority scoped to one subnet is
// filed under the shared key and served to every other subnet.
//
// Necessary condition decided here.  Let U be an upstream reply: result 0 of a
// call to the resolver's exchange function groupLookup (found by callee
// identity; same-package functions that return their own parameter — setTags —
// are transparent), or the parameter of a same-package function to which such a
// value is passed by a call whose result is returned (depth ≤ 3).  For every
// *dns.Msg allocated in that function and returned by it on a path after U was
// obtained (M):
//   (a) every path from the allocation to a return of M crosses a store into
//       M.Extra whose value depends on a read of U's EDNS Client Subnet option
//       (a *dns.EDNS0_SUBNET type assertion over U.IsEdns0().Option / U.Extra —
//       directly or via a same-package helper or closure handed U), or the
//       nil/false edge of a value derived from such a read ("the reply carried
//       no option, or none was asked for");
//   (b) every other store into M.Extra either sits behind that edge or is
//       followed, on every path to a return of M, by such a store or that edge.
// Nothing is executed; sites are found through the callee groupLookup, the
// field Msg.Extra, the allocation's type and the asserted option type.

import (
	"fmt"
	"go/types"

	"golang.org/x/tools/go/ssa"
)

func init() {
	wrap := func(id string, extra func(c *Ctx), explain string) {
		pd := props[id]
		if pd == nil {
			return
		}
		orig := pd.Run
		pd.Run = func(c *Ctx) { orig(c); extra(c) }
		pd.Explanation += " " + explain
	}
	wrap("C19", c19R13, "R13 (added, F-C19-5): a message the resolver allocates and hands up in place of an upstream reply (the 'clean empty response' for a NOERROR without answer and authority) carries that reply's own EDNS Client Subnet option whenever the reply had one — the request's option says SCOPE 0, so dressing the stand-in with the request's additional section alone files a denial the authority scoped to one subnet under the shared cache key.")
}

func c19R13trail(t string) string {
	if t == "" {
		return ""
	}
	return "; path " + t
}

func c19R13(c *Ctx) {
	const R = "C19-R13"
	const pkg = "middleware/resolver"
	const what = "message built in place of the upstream reply carries the reply's ECS option"
	c.Doc(R, "in package middleware/resolver, for every upstream reply U (result 0 of groupLookup, through same-package functions returning their own parameter; or the parameter a returned same-package call receives it in, depth ≤ 3) and every *dns.Msg M the function allocates and returns after U was obtained: every path from the allocation to a return of M crosses a store into M.Extra whose value depends on a read of U's EDNS Client Subnet option (a *dns.EDNS0_SUBNET type assertion over U.IsEdns0().Option / U.Extra, directly or through a same-package helper or closure handed U) or the nil/false edge of such a read, and no other store into M.Extra reaches a return of M without one of the two: the request's own option says SCOPE 0, so a stand-in dressed with the request's additional section turns an answer the authority scoped to one subnet into one the cache files under the shared key")
	extraF := c.field(R, "github.com/miekg/dns.Msg.Extra")
	isEdns0 := c.fobj(R, "github.com/miekg/dns.(*Msg).IsEdns0")
	exchange := c.fobj(R, pkg+".(*Resolver).groupLookup")
	subnetT := c.P.TypeName("github.com/miekg/dns.EDNS0_SUBNET")
	msgT := c.P.TypeName("github.com/miekg/dns.Msg")
	if subnetT == nil {
		c.unresolved(R, "github.com/miekg/dns.EDNS0_SUBNET", "type not found")
	}
	if msgT == nil {
		c.unresolved(R, "github.com/miekg/dns.Msg", "type not found")
	}
	if extraF == nil || isEdns0 == nil || exchange == nil || subnetT == nil || msgT == nil {
		return
	}
	ptrTo := func(t types.Type, tn *types.TypeName) bool {
		p, ok := t.(*types.Pointer)
		if !ok {
			return false
		}
		n, ok := p.Elem().(*types.Named)
		return ok && n.Obj() == tn
	}
	anyNode := func(e *Expr, pred func(*Expr) bool) bool {
		seen := map[*Expr]bool{}
		var rec func(e *Expr, d int) bool
		rec = func(e *Expr, d int) bool {
			if e == nil || d > 40 || seen[e] {
				return false
			}
			seen[e] = true
			if pred(e) {
				return true
			}
			if rec(e.X, d+1) || rec(e.Y, d+1) {
				return true
			}
			for _, a := range e.Args {
				if rec(a, d+1) {
					return true
				}
			}
			return false
		}
		return rec(e, 0)
	}
	// the function returns its own parameter k as result 0 on every return (setTags)
	returnsParam := func(h *ssa.Function) int {
		if h == nil || len(h.Blocks) == 0 {
			return -1
		}
		k := -1
		for _, b := range h.Blocks {
			for _, in := range b.Instrs {
				ret, ok := in.(*ssa.Return)
				if !ok {
					continue
				}
				if len(ret.Results) == 0 {
					return -1
				}
				p, ok := ret.Results[0].(*ssa.Parameter)
				if !ok {
					return -1
				}
				idx := -1
				for i, q := range h.Params {
					if q == p {
						idx = i
					}
				}
				if idx < 0 || (k >= 0 && k != idx) {
					return -1
				}
				k = idx
			}
		}
		return k
	}
	samePkgBody := func(h *ssa.Function, from *ssa.Function) bool {
		return h != nil && len(h.Blocks) > 0 && fnPkg(h) != nil && fnPkg(h) == fnPkg(from)
	}
	// through: e seen through same-package functions that hand their parameter back
	through := func(e *Expr, from *ssa.Function) *Expr {
		for i := 0; i < 6; i++ {
			e = strip(e)
			if e == nil || e.K != ECall || !samePkgBody(e.SFn, from) {
				return e
			}
			k := returnsParam(e.SFn)
			if k < 0 || k >= len(e.Args) {
				return e
			}
			e = e.Args[k]
		}
		return e
	}
	isParam := func(fn *ssa.Function, idx int) func(*Expr) bool {
		return func(e *Expr) bool {
			e = through(e, fn)
			if e == nil || e.K != EParam || e.Idx != idx {
				return false
			}
			p, ok := e.V.(*ssa.Parameter)
			return ok && p.Parent() == fn
		}
	}
	// an OPT / option list / additional section of the message matched by isM
	ofMsg := func(isM func(*Expr) bool) func(*Expr) bool {
		return func(e *Expr) bool {
			if e == nil {
				return false
			}
			if e.K == ECall && e.Fn != nil && sameFunc(e.Fn, isEdns0) && len(e.Args) >= 1 && isM(e.Args[0]) {
				return true
			}
			return e.K == EField && e.Var == extraF && isM(e.X)
		}
	}
	localCallee := func(in ssa.Instruction) (*ssa.Function, *ssa.CallCommon) {
		cl, ok := in.(*ssa.Call)
		if !ok || cl.Call.IsInvoke() {
			return nil, nil
		}
		d := Desc(cl)
		if d == nil || !samePkgBody(d.SFn, in.Parent()) {
			return nil, nil
		}
		return d.SFn, &cl.Call
	}
	var readsECSOf func(fn *ssa.Function, idx int, depth int) bool
	// isRead: instruction in reads the ECS option of the message matched by isM
	isRead := func(in ssa.Instruction, isM func(*Expr) bool, depth int) bool {
		if ta, ok := in.(*ssa.TypeAssert); ok && ptrTo(ta.AssertedType, subnetT) {
			return anyNode(Desc(ta.X), ofMsg(isM))
		}
		if h, cc := localCallee(in); h != nil && depth < 4 {
			for k, a := range cc.Args {
				if k < len(h.Params) && isM(Desc(a)) && readsECSOf(h, k, depth+1) {
					return true
				}
			}
		}
		return false
	}
	memo := map[string]bool{}
	readsECSOf = func(fn *ssa.Function, idx int, depth int) bool {
		mk := fmt.Sprintf("%p/%d", fn, idx)
		if v, ok := memo[mk]; ok {
			return v
		}
		memo[mk] = false
		for _, f := range WithAnons(fn) {
			for _, b := range f.Blocks {
				for _, in := range b.Instrs {
					if isRead(in, isParam(fn, idx), depth) {
						memo[mk] = true
						return true
					}
				}
			}
		}
		return false
	}
	dependsOnRead := func(e *Expr, isU func(*Expr) bool) bool {
		return anyNode(e, func(x *Expr) bool {
			xi, ok := x.V.(ssa.Instruction)
			return ok && (x.K == ECall || x.K == ETypeAssert) && isRead(xi, isU, 0)
		})
	}

	nChecked := 0
	done := map[string]bool{}
	// check: fn holds the upstream reply matched by isU from the points `starts` on
	var check func(fn *ssa.Function, isU func(*Expr) bool, starts []Point, depth int)
	check = func(fn *ssa.Function, isU func(*Expr) bool, starts []Point, depth int) {
		top := TopLevel(fn)
		after := reach(starts, nil, nil)
		type retOf struct {
			ret *ssa.Return
			e   *Expr
		}
		var rets []retOf
		for _, b := range fn.Blocks {
			for _, in := range b.Instrs {
				ret, ok := in.(*ssa.Return)
				if !ok || !after.visited[in] {
					continue
				}
				for _, rv := range ret.Results {
					if ptrTo(rv.Type(), msgT) {
						rets = append(rets, retOf{ret, Desc(rv)})
					}
				}
			}
		}
		// (1) the result of a same-package function handed U: the same question inside it
		for _, r := range rets {
			for _, leaf := range Origins(r.e, nil) {
				l := strip(leaf)
				if l != nil && l.K == EExtract {
					l = strip(l.X)
				}
				if l == nil || l.K != ECall || !samePkgBody(l.SFn, fn) || depth >= 3 {
					continue
				}
				h := l.SFn
				for k, a := range l.Args {
					if k >= len(h.Params) || !isU(a) {
						continue
					}
					dk := fmt.Sprintf("%p/%d", h, k)
					if done[dk] {
						continue
					}
					done[dk] = true
					check(h, isParam(h, k), entryPoint(h), depth+1)
				}
			}
		}
		// (2) messages allocated here and returned
		for _, b := range fn.Blocks {
			for _, in := range b.Instrs {
				al, ok := in.(*ssa.Alloc)
				if !ok || !ptrTo(al.Type(), msgT) {
					continue
				}
				isM := func(e *Expr) bool { e = strip(e); return e != nil && e.K == EAlloc && e.V == ssa.Value(al) }
				returnsM := func(t ssa.Instruction) bool {
					for _, r := range rets {
						if r.ret != t {
							continue
						}
						for _, leaf := range Origins(r.e, nil) {
							if isM(leaf) {
								return true
							}
						}
					}
					return false
				}
				handedUp := false
				for _, r := range rets {
					if returnsM(r.ret) {
						handedUp = true
					}
				}
				if !handedUp {
					continue // a query built for a sub-lookup, a scratch message: not a reply handed up
				}
				nChecked++
				key := fmt.Sprintf("%s|%s|%s", R, fnKey(top), what)
				storeToM := func(t ssa.Instruction) (*ssa.Store, bool) {
					if !isFieldStore(t, extraF, nil) {
						return nil, false
					}
					st := t.(*ssa.Store)
					fa, ok := st.Addr.(*ssa.FieldAddr)
					if !ok || !isM(Desc(fa.X)) {
						return nil, false
					}
					return st, true
				}
				carries := Barrier{Name: "store into M.Extra of a value built from the upstream reply's ECS option", Instr: func(t ssa.Instruction) bool {
					st, ok := storeToM(t)
					return ok && dependsOnRead(Desc(st.Val), isU)
				}}
				noOption := OnFalse("upstream reply carries no ECS option", func(e *Expr) bool { return dependsOnRead(e, isU) })
				bars := []Barrier{carries, noOption}
				bad := ssa.Instruction(nil)
				why := ""
				r1 := reach([]Point{pointAfter(al)}, bars, nil)
				for _, t := range r1.order {
					if isReturn(t) && returnsM(t) {
						bad, why = t, "the message allocated at "+c.P.pos(instrPos(al))+" is returned without anything of the upstream reply's EDNS Client Subnet option in its additional section"+c19R13trail(c.trail(r1, t))
						break
					}
				}
				if bad == nil {
					for _, f := range WithAnons(fn) {
						for _, b2 := range f.Blocks {
							for _, t := range b2.Instrs {
								st, ok := storeToM(t)
								if !ok || dependsOnRead(Desc(st.Val), isU) {
									continue
								}
								if ug, _ := c.unguarded(t, []Barrier{noOption}, top); !ug {
									continue // stored only when the reply carried no option
								}
								r2 := reach([]Point{pointAfter(t)}, bars, nil)
								for _, t2 := range r2.order {
									if isReturn(t2) && returnsM(t2) {
										bad, why = t2, "the additional section stored at "+c.P.pos(instrPos(t))+" ("+trunc(Desc(st.Val).String(), 60)+") reaches the return without being replaced by one that carries the upstream reply's EDNS Client Subnet option"+c19R13trail(c.trail(r2, t2))
										break
									}
								}
							}
						}
					}
				}
				if bad != nil {
					c.violation(R, key, instrPos(bad), why+": the request's own option says SCOPE 0 (and no option reads as 'global'), so what the authority scoped to one subnet reaches the cache as valid for everybody")
					continue
				}
				c.ok(R, key, instrPos(al), "every path on which the message allocated here is handed up stores the upstream reply's ECS option into its additional section, or the reply carried none")
			}
		}
	}

	sites := c.CallSites(exchange)
	nSeeds := 0
	for _, s := range sites {
		cl, ok := s.Instr.(*ssa.Call)
		if !ok || s.Kind != "call" {
			continue
		}
		nSeeds++
		fn := s.Fn
		isU := func(e *Expr) bool {
			e = through(e, fn)
			if e == nil || e.K != EExtract || e.Idx != 0 {
				return false
			}
			x := strip(e.X)
			return x != nil && x.K == ECall && x.V == ssa.Value(cl)
		}
		before := nChecked
		check(fn, isU, []Point{pointAfter(cl)}, 0)
		if nChecked == before {
			c.ok(R, fmt.Sprintf("%s|%s|no message is built in place of the upstream reply", R, fnKey(TopLevel(fn))), instrPos(cl), "after the exchange the function (and the same-package functions whose result it returns) hand up no message of their own making")
		}
	}
	if nSeeds == 0 {
		c.unresolved(R, "sites", "no call to "+pkg+".(*Resolver).groupLookup found (the rule would pass vacuously)")
	}
	c.Floor(R, 1)
}
