package main

// F-C02-3 / C02-R13 — a verdict about the MINIMISED name is never the answer
// to the client's question.
//
// Resolver.minimize hands back (request, minimized): when minimized is true the
// request asks about a shorter name than the client did.  authority() / answer()
// validate a reply against the request they are given — a NODATA / NXDOMAIN
// proof that is perfectly valid for the shorter name passes.  Returning that
// message as the result of the resolution presents "no TXT at www.par.test."
// as the authenticated answer to "_dmarc.www.par.test. TXT".
//
// Necessary condition, decided on the SSA CFG (nothing is executed):
//   every call of a validator (Resolver.authority / Resolver.answer) whose
//   request argument originates from result 0 of Resolver.minimize — directly or
//   through a parameter bound to it at the call sites — is discovered through
//   the callee; a return of the same function that hands the validator's
//   message on is reachable only on paths that
//     (a) carry the fact "minimized is false" (result 1 of minimize, or the
//         parameter bound to it): then the request IS the client's, or
//     (b) store the client's own Question (a value read from resolveState.req)
//         into the message being returned — the RFC 8020 early stop, whose
//         further conditions C02-R5 decides.
//   Paths are enumerated with their branch facts; a path that takes the two
//   edges of one and the same test (same registers, same loads with no effect
//   in between) is infeasible and dropped, so `if min && c {walk}; if c {…}`
//   and `if c { if min {walk}; … }` are read alike.
//
// Not decided: that "keep walking" is what happens instead (liveness), and
// value-level facts that make a branch dead (an SOA seen by an earlier loop).

import (
	"fmt"
	"go/token"
	"strings"

	"golang.org/x/tools/go/ssa"
)

func init() {
	wrap := func(id string, extra func(c *Ctx), explain string) {
		pd := props[id]
		if pd == nil {
			return
		}
		orig := pd.Run
		pd.Run = func(c *Ctx) { orig(c); extra(c) }
		pd.Explanation += " " + explain
	}
	wrap("C02", c02R13, "R13 (added): a message validated by Resolver.authority/answer against the possibly-minimised request (result 0 of Resolver.minimize) is returned only on paths where minimized is false or after the client's own Question was stored into it (RFC 8020 arm) — a denial proven for the minimised name is never the answer to the full question.")
}

// c02CanonVal: a structural name for an SSA value used to recognise "the same
// test evaluated twice" (go/ssa has no CSE).  Registers are named by identity;
// pure operators over them structurally; loads and len() are marked so that
// two evaluations only count as the same when nothing with an effect ran
// in between.
func c02CanonVal(v ssa.Value, depth int) (string, bool) {
	if v == nil || depth > 10 {
		return fmt.Sprintf("%p", v), false
	}
	switch x := v.(type) {
	case *ssa.Const:
		return "c:" + x.String(), false
	case *ssa.BinOp:
		a, la := c02CanonVal(x.X, depth+1)
		b, lb := c02CanonVal(x.Y, depth+1)
		return "(" + a + " " + x.Op.String() + " " + b + ")", la || lb
	case *ssa.UnOp:
		a, la := c02CanonVal(x.X, depth+1)
		if x.Op == token.MUL {
			return "load(" + a + ")", true
		}
		return x.Op.String() + a, la
	case *ssa.FieldAddr:
		a, la := c02CanonVal(x.X, depth+1)
		return fmt.Sprintf("fa(%s.%d)", a, x.Field), la
	case *ssa.Field:
		a, la := c02CanonVal(x.X, depth+1)
		return fmt.Sprintf("f(%s.%d)", a, x.Field), la
	case *ssa.Extract:
		a, la := c02CanonVal(x.Tuple, depth+1)
		return fmt.Sprintf("ex(%s#%d)", a, x.Index), la
	case *ssa.Convert:
		return c02CanonVal(x.X, depth+1)
	case *ssa.ChangeType:
		return c02CanonVal(x.X, depth+1)
	case *ssa.Call:
		if b, ok := x.Call.Value.(*ssa.Builtin); ok && (b.Name() == "len" || b.Name() == "cap") && len(x.Call.Args) == 1 {
			a, _ := c02CanonVal(x.Call.Args[0], depth+1)
			return b.Name() + "(" + a + ")", true
		}
	}
	return fmt.Sprintf("%p", v), false
}

type c02PFact struct {
	Val   ssa.Value // the tested value, phis and negations resolved on the path
	Key   string
	Truth bool
	load  bool
	eff   int
}

type c02FPath struct {
	Facts  []c02PFact
	Instrs []ssa.Instruction
	Trail  []ssa.Instruction
}

// c02FeasiblePathsTo enumerates the loop-free paths from fn's entry to target,
// dropping those that follow both edges of one test.
func c02FeasiblePathsTo(fn *ssa.Function, target ssa.Instruction, budget int) (paths []c02FPath, complete bool) {
	if fn == nil || len(fn.Blocks) == 0 {
		return nil, true
	}
	hasEffect := func(in ssa.Instruction) bool {
		switch x := in.(type) {
		case *ssa.Store, *ssa.MapUpdate, *ssa.Send, *ssa.Go, *ssa.Defer:
			return true
		case *ssa.Call:
			if _, ok := x.Call.Value.(*ssa.Builtin); ok {
				b := x.Call.Value.(*ssa.Builtin).Name()
				return !(b == "len" || b == "cap")
			}
			return true
		}
		return false
	}
	type state struct {
		b      *ssa.BasicBlock
		predOf map[*ssa.BasicBlock]*ssa.BasicBlock
		facts  []c02PFact
		instrs []ssa.Instruction
		trail  []ssa.Instruction
		eff    int
	}
	// only blocks from which the target is reachable matter
	canReach := map[*ssa.BasicBlock]bool{}
	var mark func(b *ssa.BasicBlock)
	mark = func(b *ssa.BasicBlock) {
		if canReach[b] {
			return
		}
		canReach[b] = true
		for _, p := range b.Preds {
			mark(p)
		}
	}
	mark(target.Block())
	var rec func(st state)
	rec = func(st state) {
		if budget <= 0 {
			return
		}
		b := st.b
		for _, in := range b.Instrs {
			budget--
			if in == target {
				paths = append(paths, c02FPath{Facts: st.facts, Instrs: st.instrs, Trail: st.trail})
				return
			}
			if hasEffect(in) {
				st.eff++
			}
			switch in.(type) {
			case *ssa.Store, *ssa.Call:
				st.instrs = append(st.instrs[:len(st.instrs):len(st.instrs)], in)
			}
		}
		if len(b.Instrs) == 0 {
			return
		}
		next := func(s *ssa.BasicBlock, f *c02PFact, via ssa.Instruction) {
			if _, seen := st.predOf[s]; seen || s == fn.Blocks[0] || !canReach[s] {
				return
			}
			m := make(map[*ssa.BasicBlock]*ssa.BasicBlock, len(st.predOf)+1)
			for k, v := range st.predOf {
				m[k] = v
			}
			m[s] = b
			ns := state{b: s, predOf: m, facts: st.facts, instrs: st.instrs, trail: st.trail, eff: st.eff}
			if f != nil {
				for _, old := range st.facts {
					if old.Key == f.Key && old.Truth != f.Truth && (!old.load || old.eff == f.eff) {
						return // both edges of one test: infeasible
					}
				}
				ns.facts = append(st.facts[:len(st.facts):len(st.facts)], *f)
				ns.trail = append(st.trail[:len(st.trail):len(st.trail)], via)
			}
			rec(ns)
		}
		switch t := b.Instrs[len(b.Instrs)-1].(type) {
		case *ssa.Jump:
			next(b.Succs[0], nil, nil)
		case *ssa.If:
			v, neg := c14ResolveBool(t.Cond, st.predOf)
			if k, ok := v.(*ssa.Const); ok && k.Value != nil {
				if (k.Value.ExactString() == "true") != neg {
					next(b.Succs[0], nil, nil)
				} else {
					next(b.Succs[1], nil, nil)
				}
				return
			}
			key, ld := c02CanonVal(v, 0)
			next(b.Succs[0], &c02PFact{Val: v, Key: key, Truth: !neg, load: ld, eff: st.eff}, t)
			next(b.Succs[1], &c02PFact{Val: v, Key: key, Truth: neg, load: ld, eff: st.eff}, t)
		}
	}
	rec(state{b: fn.Blocks[0], predOf: map[*ssa.BasicBlock]*ssa.BasicBlock{}})
	return paths, budget > 0
}

func c02R13(c *Ctx) {
	const (
		R    = "C02-R13"
		rpkg = "middleware/resolver"
		lib  = "github.com/miekg/dns"
	)
	c.Doc(R, "a message validated by Resolver.authority/answer against the possibly-minimised request (Resolver.minimize result 0) is returned only where minimized (result 1) is false, or after the client's Question (from resolveState.req) was stored into it — a verdict about the minimised name is never the answer to the full question")
	minimize := c.fobj(R, rpkg+".(*Resolver).minimize")
	validators := c.fobjs(R, rpkg+".(*Resolver).authority", rpkg+".(*Resolver).answer")
	reqF := c.field(R, rpkg+".resolveState.req")
	questionF := c.field(R, lib+".Msg.Question")
	if minimize == nil || len(validators) != 2 || reqF == nil || questionF == nil {
		return
	}
	const reqArg = 2 // receiver, ctx, req

	// fromMin: v is result #idx of minimize, or a parameter bound to it at every… at some call site
	var fromMin func(v ssa.Value, idx, depth int) bool
	fromMin = func(v ssa.Value, idx, depth int) bool {
		if v == nil || depth > 3 {
			return false
		}
		for _, l := range Origins(Desc(v), nil) {
			if ResultOf(idx, minimize)(l) {
				return true
			}
			s := strip(l)
			if s == nil || s.K != EParam {
				continue
			}
			p, ok := s.V.(*ssa.Parameter)
			if !ok || p.Parent() == nil {
				continue
			}
			fo := funcObjOf(p.Parent())
			if fo == nil {
				continue
			}
			for _, site := range c.CallSites(fo) {
				if site.Kind == "ref" || site.Kind == "invoke" {
					continue
				}
				if av := callArg(site.Instr, s.Idx); av != nil && fromMin(av, idx, depth+1) {
					return true
				}
			}
		}
		return false
	}

	n := 0
	for _, vf := range validators {
		for _, site := range c.CallSites(vf) {
			cl, ok := site.Instr.(*ssa.Call)
			if !ok {
				continue
			}
			rv := callArg(site.Instr, reqArg)
			if rv == nil || !fromMin(rv, 0, 0) {
				continue
			}
			fn := site.Fn
			// returns of fn that hand the validator's message on
			var rets []*ssa.Return
			for _, b := range fn.Blocks {
				for _, in := range b.Instrs {
					r, ok := in.(*ssa.Return)
					if !ok || len(r.Results) == 0 {
						continue
					}
					for _, l := range Origins(Desc(r.Results[0]), nil) {
						s := strip(l)
						if s != nil && s.K == EExtract {
							s = strip(s.X)
						}
						if s != nil && s.V == ssa.Value(cl) {
							rets = append(rets, r)
							break
						}
					}
				}
			}
			for _, ret := range rets {
				n++
				key := fmt.Sprintf("%s|%s|%s verdict on the possibly-minimised request returned", R, fnKey(fn), vf.Name())
				paths, complete := c02FeasiblePathsTo(fn, ret, 400000)
				if !complete {
					c.undecided(R, key, instrPos(ret), "too many paths to enumerate in "+fnKey(fn))
					continue
				}
				bad := 0
				through := 0
				for _, p := range paths {
					// the path must execute this validator call
					ran := false
					for _, in := range p.Instrs {
						if in == ssa.Instruction(cl) {
							ran = true
						}
					}
					if !ran {
						continue
					}
					through++
					okPath := false
					for _, f := range p.Facts {
						if !f.Truth && fromMin(f.Val, 1, 0) {
							okPath = true // minimized is false: the request is the client's own
						}
					}
					if !okPath {
						for _, in := range p.Instrs {
							st, isSt := in.(*ssa.Store)
							if !isSt || !isFieldStore(in, questionF, nil) {
								continue
							}
							fa := st.Addr.(*ssa.FieldAddr)
							if Desc(fa.X).String() == Desc(ret.Results[0]).String() && Contains(FieldIs(reqF))(Desc(st.Val)) {
								okPath = true // Question rebound to the client's
							}
						}
					}
					if okPath {
						continue
					}
					bad++
					if bad > 1 {
						continue
					}
					var steps []string
					for i, in := range p.Trail {
						w := "F"
						if p.Facts[i].Truth {
							w = "T"
						}
						steps = append(steps, fmt.Sprintf("%s[%s]", c.lineOf(in), w))
					}
					if len(steps) > 16 {
						steps = append(steps[:6], append([]string{"…"}, steps[len(steps)-9:]...)...)
					}
					c.violation(R, key, instrPos(ret), fmt.Sprintf("%s validates the reply against the request produced by minimize (%s) and the message is returned (%s) on a path that neither establishes minimized=false nor rebinds the Question to the client's: the proof speaks about the shorter name, yet it becomes the authenticated answer to the full question; path %s", vf.Name(), c.lineOf(cl), c.lineOf(ret), strings.Join(steps, "→")))
				}
				if bad == 0 {
					c.ok(R, key, instrPos(ret), fmt.Sprintf("all %d feasible paths through %s to this return hold minimized=false or rebind the Question", through, c.lineOf(cl)))
				}
			}
		}
	}
	if n == 0 {
		c.unresolved(R, "validator calls on the minimised request", "no call of authority/answer receives the request produced by minimize (rule would pass vacuously)")
	}
}
