package main

// Regression mutants for F-C02-5 (the cache's alias chase lends the alias's AD to a bare
// NXDOMAIN / empty NOERROR of the target leg).
func init() {
	const cache = "middleware/cache/cache.go"
	const key = "C02-R15|(*middleware/cache.Cache).additionalAnswer|target reply's AD folded into the outer reply"
	addMutants("C02", []Mutant{
		{ID: "c02-chase-ad-fold-only-with-records", File: cache, Expect: key,
			Old: "if err == nil && respCname != nil && !respCname.AuthenticatedData {",
			New: "if err == nil && respCname != nil && (len(respCname.Answer) > 0 || len(respCname.Ns) > 0) && !respCname.AuthenticatedData {",
			Why: "F-C02-5: the AD fold is tied to 'the target reply carries records' again; a bare NXDOMAIN or empty NOERROR out of an insecure zone leaves under the alias's AD=1"},
		{ID: "c02-chase-ad-fold-skips-nxdomain", File: cache, Expect: key,
			Old: "if err == nil && respCname != nil && !respCname.AuthenticatedData {",
			New: "if err == nil && respCname != nil && respCname.Rcode != dns.RcodeNameError && !respCname.AuthenticatedData {",
			Why: "F-C02-5: the fold is skipped for a target NXDOMAIN ('its proof is propagated below'): PropagateValidatedDenialResponse only moves provenance and never lowers AD, so an unauthenticated NXDOMAIN whose rcode the outer reply adopts goes out with AD=1"},
	})
}
