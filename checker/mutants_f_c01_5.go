package main

// Regression mutants for F-C01-5 (a DS set fetched through a validating lookup that came back
// unauthenticated was used as the trust root of verifyDNSSEC).
func init() {
	addMutants("C01", []Mutant{
		{ID: "c01-fetched-ds-unauthenticated-only-logged", File: "middleware/resolver/resolver.go", Expect: "C01-R14|(*middleware/resolver.Resolver).findDS",
			Old: "\t\t\t\t// bogus from the DS set it did authenticate.\n\t\t\t\tparentDS = nil\n",
			New: "\t\t\t\t// bogus from the DS set it did authenticate.\n\t\t\t\tzlog.Debug(\"DS lookup not authenticated\", \"signer\", signer)\n",
			Why: "F-C01-5: the unauthenticated DS RRset of the signer is noted but still returned; below an insecure delegation the unsigned zone's DS names the forger's key, and the answer it signs gets AD=1"},
		{ID: "c01-fetched-ds-judged-by-rcode", File: "middleware/resolver/resolver.go", Expect: "C01-R14|(*middleware/resolver.Resolver).findDS",
			Old: "if !cd && len(parentDS) > 0 && !dsResp.AuthenticatedData {",
			New: "if !cd && len(parentDS) > 0 && dsResp.Rcode != dns.RcodeSuccess {",
			Why: "F-C01-5: a NOERROR DS reply is taken for a validated one; the sub-resolution that settled as insecure answers NOERROR with AD clear"},
	})
}
