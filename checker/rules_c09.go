package main

import (
	"fmt"
	"go/constant"
	"go/token"
	"go/types"
	"strings"

	"golang.org/x/tools/go/ssa"
)

func init() {
	register(&PropDef{
		ID:    "C09",
		Title: "Root trust anchors change only as RFC 5011 permits, across crashes and faults",
		Run:   runC09,
		Explanation: "Decided (guards, origins and write ordering inside Resolver.AutoTA and its helpers): " +
			"R1 Resolver.rootKeys is stored only by NewResolver (object under construction) and AutoTA, in AutoTA always under r.Lock, and the stored value is nil or a slice grown only by append(ta.DNSKey) over the state map behind ta.State==StateValid||StateMissing; " +
			"R2 every state mutation downstream of the DNSKEY fetch is behind verifyFetchedKeysWithWork ok=true and (after staging) stageRevocationSelfSignatures err==nil; verifyFetchedKeysWithWork returns ok only across a VerifyRRSIGWithWork success and its pass-1 key map holds only keys drawn from the caller's trusted set; " +
			"R3 AddPend seeding, insertion into state, promotion, Missing marking and non-marker deletions are reachable only across revocationOnly=false; (true,true) is returned only from the pass whose key map is filled behind sameKeyExceptRevoke; " +
			"R4 the StateRevoked store and the tombstone insertion after the fetch are behind sameKeyExceptRevoke(old.DNSKey, fetched.DNSKey)=true and revocationSelfSigned[tag]=true; sameKeyExceptRevoke compares algorithm, protocol, public key and flags^REVOKE; the self-signature is checked against the revoked key alone; " +
			"R5 every insertion into the state map made once tombstones are loaded is behind a tombstones[dnskeyMaterialFP(inserted key)] miss, insertions made earlier are followed on every path by the tombstone drop loop before anything is published or written, and every index of a Tombstones map is a dnskeyMaterialFP value; " +
			"R6 promotion to StateValid only across (State==StateAddPend ∧ time.Since(FirstSeen) > d≥720h) or State==StateMissing, both only when the key is present in the fetched set; an absent pending key is deleted; a trusted key is deleted only across State==StateMissing ∧ absent ∧ time.Since(FirstSeen) > d≥2160h; " +
			"R7 writeTombstones precedes writeToTAFile; Revoked/Removed markers are deleted only across tombErr==nil; a non-nil rootKeys publish after the writes needs one nil write error; after an accepted revocation AutoTA cannot return without re-publishing rootKeys; the corrupt-tombstone edge stores nil and returns before fetch/writes; the pre-fetch publish is behind hasTrustAnchors()=true; " +
			"R8 atomicGobWrite renames only across Encode, Sync and Close nil-error edges, temp file and directory derive from the target name, the post-rename return is syncDir's result, no constant-nil return, and no other function of the package creates/renames files; syncDir (unix) never returns after a successful open without Sync; " +
			"R9 any readTombstones error must fail closed before fetch/publish/write (reported on the unchanged tree: only the corrupt-decode error does).",
		NotDecided: []string{
			"the RFC 5011 timed state machine over multi-refresh histories (which sequence of states a key goes through over months)",
			"which on-disk states a crash between the two renames leaves and what the next run then publishes — needs a model of the file system and of time",
			"correctness of VerifyRRSIGWithWork and of the gob encoding",
			"that FirstSeen is the right clock origin for each hold-down (value-level)",
		},
	})
}

type c09A struct {
	pkgFull                                                             string
	autoTA, newRes, verifyFn, stageFn, sameKeyFn, selfFn, gobFn, syncFn *ssa.Function
	readTombFn                                                          *ssa.Function
	rootKeys, stateF, firstSeenF, dnskeyF                               *types.Var
	taMapT, tombMapT                                                    *types.TypeName
	resolve, hasTA, readTA, readTomb, writeTomb, writeTA, gobWrite      *types.Func
	syncDir, verify, stage, selfSigned, sameKey, fp, verifyRRSIG, since *types.Func
	errorsIs                                                            *types.Func
	errCorrupt                                                          types.Object
	st                                                                  map[string]constant.Value
	cur                                                                 map[ssa.Value]bool
}

func c09Anchors(c *Ctx) *c09A {
	const pkg = "middleware/resolver"
	const r = "C09-R0"
	a := &c09A{pkgFull: c.P.expand(pkg), st: map[string]constant.Value{}}
	a.autoTA = c.fn(r, pkg+".(*Resolver).AutoTA")
	a.newRes = c.fn(r, pkg+".NewResolver")
	a.verifyFn = c.fn(r, pkg+".verifyFetchedKeysWithWork")
	a.sameKeyFn = c.fn(r, pkg+".sameKeyExceptRevoke")
	a.selfFn = c.fn(r, pkg+".revocationIsSelfSignedWithWork")
	a.gobFn = c.fn(r, pkg+".atomicGobWrite")
	a.syncFn = c.fn(r, pkg+".syncDir")
	a.readTombFn = c.fn(r, pkg+".readTombstones")
	a.rootKeys = c.field(r, pkg+".Resolver.rootKeys")
	a.stateF = c.field(r, pkg+".TrustAnchor.State")
	a.firstSeenF = c.field(r, pkg+".TrustAnchor.FirstSeen")
	a.dnskeyF = c.field(r, pkg+".TrustAnchor.DNSKey")
	a.taMapT = c.P.TypeName(pkg + ".TrustAnchors")
	a.tombMapT = c.P.TypeName(pkg + ".Tombstones")
	if a.taMapT == nil || a.tombMapT == nil {
		c.unresolved(r, pkg+".TrustAnchors/Tombstones", "type not found")
		return nil
	}
	a.resolve = c.fobj(r, pkg+".(*Resolver).Resolve")
	a.hasTA = c.fobj(r, pkg+".(*Resolver).hasTrustAnchors")
	a.readTA = c.fobj(r, pkg+".readFromTAFile")
	a.readTomb = c.fobj(r, pkg+".readTombstones")
	a.writeTomb = c.fobj(r, pkg+".writeTombstones")
	a.writeTA = c.fobj(r, pkg+".writeToTAFile")
	a.gobWrite = c.fobj(r, pkg+".atomicGobWrite")
	a.syncDir = c.fobj(r, pkg+".syncDir")
	a.verify = c.fobj(r, pkg+".verifyFetchedKeysWithWork")
	a.selfSigned = c.fobj(r, pkg+".revocationIsSelfSignedWithWork")
	// the staging function is identified by what it does, not by its name: the
	// function AutoTA calls that runs the self-signature verification (F-C09-6
	// moved the staging logic into a record-keyed function and left the old
	// name as an adapter for a unit test)
	a.stageFn, a.stage = c09StagingFn(c, r, a.autoTA, a.selfSigned)
	a.sameKey = c.fobj(r, pkg+".sameKeyExceptRevoke")
	a.fp = c.fobj(r, pkg+".dnskeyMaterialFP")
	a.verifyRRSIG = c.fobj(r, pkg+"/dnssec.VerifyRRSIGWithWork")
	a.since = c.fobj(r, "time.Since")
	a.errorsIs = c.fobj(r, "errors.Is")
	a.errCorrupt = c.P.Object(pkg + ".errCorruptTombstones")
	if a.errCorrupt == nil {
		c.unresolved(r, pkg+".errCorruptTombstones", "variable not found")
	}
	for _, n := range []string{"StateStart", "StateAddPend", "StateValid", "StateMissing", "StateRevoked", "StateRemoved"} {
		v := c.P.ConstVal(pkg + "." + n)
		if v == nil {
			c.unresolved(r, pkg+"."+n, "constant not found")
			return nil
		}
		a.st[n] = v
	}
	for _, f := range []*ssa.Function{a.autoTA, a.newRes, a.verifyFn, a.stageFn, a.sameKeyFn, a.selfFn, a.gobFn, a.syncFn, a.readTombFn} {
		if f == nil {
			return nil
		}
	}
	for _, v := range []*types.Var{a.rootKeys, a.stateF, a.firstSeenF, a.dnskeyF} {
		if v == nil {
			return nil
		}
	}
	for _, f := range []*types.Func{a.resolve, a.hasTA, a.readTA, a.readTomb, a.writeTomb, a.writeTA, a.gobWrite, a.syncDir, a.verify, a.stage, a.selfSigned, a.sameKey, a.fp, a.verifyRRSIG, a.since, a.errorsIs} {
		if f == nil {
			return nil
		}
	}
	if a.errCorrupt == nil {
		return nil
	}
	return a
}

// ---- site predicates -------------------------------------------------------

// isCurrent: the map value is the trust-anchor state "kskCurrent": the value
// handed to writeToTAFile, every phi input of it, and readFromTAFile's result.
func (a *c09A) isCurrent(v ssa.Value) bool {
	if a.cur == nil {
		a.cur = map[ssa.Value]bool{}
		var add func(v ssa.Value)
		add = func(v ssa.Value) {
			if v == nil || a.cur[v] {
				return
			}
			a.cur[v] = true
			if p, ok := v.(*ssa.Phi); ok {
				for _, e := range p.Edges {
					add(e)
				}
			}
		}
		for _, in := range instrsWhere(a.autoTA, isCallTo(a.writeTA)) {
			add(callArg(in, 1))
		}
		for _, in := range instrsWhere(a.autoTA, isCallTo(a.readTA)) {
			if cl, ok := in.(*ssa.Call); ok && cl.Referrers() != nil {
				for _, r := range *cl.Referrers() {
					if ex, ok := r.(*ssa.Extract); ok && ex.Index == 0 {
						add(ex)
					}
				}
			}
		}
	}
	return v != nil && a.cur[v]
}

func (a *c09A) stateEq(names ...string) []Barrier {
	var vals []constant.Value
	for _, n := range names {
		vals = append(vals, a.st[n])
	}
	return c09StateEq(a.stateF, names, vals)
}

// stateStoreOf: store of one of the named state constants into TrustAnchor.State.
func (a *c09A) stateStoreOf(in ssa.Instruction, names ...string) bool {
	_, val, ok := c09FieldStore(in, a.stateF)
	if !ok {
		return false
	}
	e := Desc(val)
	for _, n := range names {
		if c09ConstIs(a.st[n])(e) {
			return true
		}
	}
	return false
}

func (a *c09A) currentUpdate(in ssa.Instruction) bool {
	m, _, _, k := c09MapMutation(in, a.taMapT)
	return k == "update" && a.isCurrent(m)
}

func (a *c09A) currentDelete(in ssa.Instruction) bool {
	m, _, _, k := c09MapMutation(in, a.taMapT)
	return k == "delete" && a.isCurrent(m)
}

func (a *c09A) tombUpdate(in ssa.Instruction) bool {
	_, _, _, k := c09MapMutation(in, a.tombMapT)
	return k == "update"
}

func (a *c09A) rootKeysStore(in ssa.Instruction, nonNilOnly bool) bool {
	_, val, ok := c09FieldStore(in, a.rootKeys)
	if !ok {
		return false
	}
	if nonNilOnly && IsNilConst(Desc(val)) {
		return false
	}
	return true
}

// mutation: anything that changes trust-anchor state, the tombstone set, the
// live trust set or the files.
func (a *c09A) mutation(in ssa.Instruction) bool {
	if _, _, _, k := c09MapMutation(in, a.taMapT); k != "" {
		return true
	}
	if _, _, _, k := c09MapMutation(in, a.tombMapT); k != "" {
		return true
	}
	for _, f := range []*types.Var{a.stateF, a.firstSeenF, a.dnskeyF, a.rootKeys} {
		if _, _, ok := c09FieldStore(in, f); ok {
			return true
		}
	}
	return isCallTo(a.writeTomb, a.writeTA, a.gobWrite)(in)
}

// tombLookup: `_, hit := <Tombstones>[dnskeyMaterialFP(k)]` (the comma-ok bit).
func (a *c09A) tombHit(keyArg func(*Expr) bool) Pat {
	return func(e *Expr) bool {
		e = strip(e)
		if e == nil || e.K != EExtract || e.Idx != 1 || e.X == nil || e.X.K != ELookup || !e.X.CommaOk {
			return false
		}
		l := e.X
		if l.X == nil || l.X.V == nil || !c09NamedIs(l.X.V.Type(), a.tombMapT) {
			return false
		}
		k := strip(l.Y)
		if k == nil || k.K != ECall || !sameFunc(k.Fn, a.fp) || len(k.Args) != 1 {
			return false
		}
		return keyArg == nil || keyArg(k.Args[0])
	}
}

// present: `<fetched map>[tag]` (a TrustAnchors map that is not the state map),
// or — since the F-C09-3 repair, where presence is decided on the record and
// not on its tag — a membership test keyed by the tracked entry's own DNSKey
// (`_, ok := set[fp(ta.DNSKey)]` / `set[fp(ta.DNSKey)]`) in a map that is
// neither the state map nor the tombstone store.
func (a *c09A) present() Pat {
	return func(e *Expr) bool {
		e = strip(e)
		if e == nil {
			return false
		}
		l := e
		if e.K == EExtract && e.Idx == 1 && e.X != nil && e.X.K == ELookup && e.X.CommaOk {
			l = e.X
		} else if e.K != ELookup || e.CommaOk {
			return false
		}
		if l.X == nil || l.X.V == nil {
			return false
		}
		if l == e && c09NamedIs(l.X.V.Type(), a.taMapT) && !a.isCurrent(l.X.V) {
			return true
		}
		if c09NamedIs(l.X.V.Type(), a.tombMapT) || a.isCurrent(l.X.V) {
			return false
		}
		return Contains(FieldIs(a.dnskeyF))(l.Y)
	}
}

func (a *c09A) sinceAtLeast(name string, hours int64) []Barrier {
	lhs := func(e *Expr) bool {
		e = strip(e)
		return e != nil && e.K == ECall && sameFunc(e.Fn, a.since) && len(e.Args) == 1 && FieldIs(a.firstSeenF)(e.Args[0])
	}
	ns := hours * 3600 * 1_000_000_000
	return []Barrier{c09CmpBarrier(name, true,
		c09Cmp{lhs, token.GTR, c09ConstAtLeast(ns)},
		c09Cmp{lhs, token.GEQ, c09ConstAtLeast(ns)})}
}

func runC09(c *Ctx) {
	a := c09Anchors(c)
	if a == nil {
		return
	}
	c09R1(c, a)
	c09R2R3Verify(c, a)
	c09R2R3AutoTA(c, a)
	c09R4(c, a)
	c09R5(c, a)
	c09R6(c, a)
	c09R7(c, a)
	c09R8(c, a)
	c09R9(c, a)
}

// ---------------------------------------------------------------------------
// R1

func c09R1(c *Ctx, a *c09A) {
	const R = "C09-R1"
	c.Doc(R, "Resolver.rootKeys is stored only in NewResolver (receiver under construction) and AutoTA; every AutoTA store holds r's write lock; the stored value is nil or a slice that starts empty and grows only by append(ta.DNSKey) for ta ranging over the state map behind ta.State==StateValid || ta.State==StateMissing")
	sites := c.StoreSites(a.rootKeys)
	c.WhoMay(R, "store Resolver.rootKeys", sites, map[string]string{
		fnKey(a.newRes): "seeds the configured anchors before the resolver is shared (go r.run() comes last)",
		fnKey(a.autoTA): "the RFC 5011 refresh",
	})
	for _, s := range sites {
		base, val, ok := c09FieldStore(s.Instr, a.rootKeys)
		if !ok {
			continue
		}
		top := TopLevel(s.Fn)
		switch top {
		case a.newRes:
			key := R + "|" + fnKey(top) + "|receiver under construction"
			if isFreshLocal(Desc(base)) {
				c.ok(R, key, instrPos(s.Instr), "store into the composite literal being constructed")
			} else {
				c.violation(R, key, instrPos(s.Instr), "rootKeys stored into a resolver that is not the fresh local: needs the lock")
			}
		case a.autoTA:
			c.LockHeld(R, s.Fn, nil, []Access{{In: s.Instr, Lock: strings.TrimPrefix(Desc(base).String(), "&") + ".RWMutex", Write: true, What: "store rootKeys"}})
			c09TrustSlice(c, a, R, s.Fn, s.Instr, val)
		}
	}
	c.Floor(R, 6+2+4+6) // 6 who-may rows, 2 constructor stores, 4 locked stores, 2 nil + 2 slices + 2 appends
}

// c09TrustSlice checks the value published as the live trust set.
func c09TrustSlice(c *Ctx, a *c09A, R string, fn *ssa.Function, at ssa.Instruction, val ssa.Value) {
	key := R + "|" + fnKey(TopLevel(fn)) + "|published value"
	e := Desc(val)
	if IsNilConst(e) {
		c.ok(R, key, instrPos(at), "rootKeys = nil (fail closed)")
		return
	}
	bad := false
	for _, l := range Origins(e, c09AppendBase) {
		s := strip(l)
		if IsNilConst(s) || (s != nil && s.K == EMake && len(s.Args) == 0) {
			continue
		}
		bad = true
		c.violation(R, key, instrPos(at), "published slice does not start from an empty slice: origin "+trunc(l.String(), 160))
	}
	vals := map[ssa.Value]bool{}
	exprValues(e, vals)
	n := 0
	for v := range vals {
		in, ok := v.(ssa.Instruction)
		if !ok {
			continue
		}
		cl := c09IsBuiltinCall(in, "append")
		if cl == nil || !types.Identical(cl.Type(), val.Type()) {
			continue
		}
		n++
		akey := R + "|" + fnKey(TopLevel(fn)) + "|append into published slice"
		el := Desc(cl.Call.Args[1])
		var elem *Expr
		if el.K == EMake && len(el.Args) == 1 {
			elem = strip(el.Args[0])
		}
		if elem == nil || elem.K != EField || elem.Var != a.dnskeyF || elem.X == nil || elem.X.V == nil {
			c.violation(R, akey, instrPos(cl), "appended element is not <trust anchor>.DNSKey: "+trunc(el.String(), 160))
			bad = true
			continue
		}
		ta := elem.X.V
		if m, _ := c09RangeOf(ta); m == nil || !a.isCurrent(m) {
			c.violation(R, akey, instrPos(cl), "appended key does not come from a range over the trust-anchor state map")
			bad = true
			continue
		}
		sameTA := func(x *Expr) bool {
			x = strip(x)
			return x != nil && x.K == EField && x.Var == a.stateF && x.X != nil && x.X.V == ta
		}
		bars := []Barrier{c09CmpBarrier("ta.State==StateValid|StateMissing", true,
			c09Cmp{sameTA, token.EQL, c09ConstIs(a.st["StateValid"])},
			c09Cmp{sameTA, token.EQL, c09ConstIs(a.st["StateMissing"])})}
		if ug, tr := c.unguarded(cl, bars, TopLevel(fn)); ug {
			c.violation(R, akey, instrPos(cl), "key appended to the published set without ta.State==StateValid||StateMissing; path "+tr)
			bad = true
		} else {
			c.ok(R, akey, instrPos(cl), "append(ta.DNSKey) behind ta.State==StateValid || ta.State==StateMissing, ta ranging over the state map")
		}
	}
	if n == 0 {
		c.violation(R, key, instrPos(at), "published value is neither nil nor built by appends over the state map: "+trunc(e.String(), 160))
		return
	}
	if !bad {
		c.ok(R, key, instrPos(at), "published slice = empty literal + guarded appends")
	}
}

// ---------------------------------------------------------------------------
// R2/R3 inside verifyFetchedKeysWithWork

func c09LeavesExpanded(e *Expr) []*Expr {
	var out []*Expr
	var rec func(e *Expr, d int)
	rec = func(e *Expr, d int) {
		for _, l := range Origins(e, c09AppendTransparent) {
			s := strip(l)
			if s != nil && s.K == EMake && len(s.Args) > 0 && d < 6 {
				for _, x := range s.Args {
					rec(x, d+1)
				}
				continue
			}
			out = append(out, l)
		}
	}
	rec(e, 0)
	return out
}

func c09R2R3Verify(c *Ctx, a *c09A) {
	fn := a.verifyFn
	c.Doc("C09-R2", "nothing acts on an unauthenticated fetch: (AutoTA) every mutation of trust-anchor state, tombstones, rootKeys or the files downstream of r.Resolve is behind verifyFetchedKeysWithWork ok=true, and downstream of staging behind stageRevocationSelfSignatures err==nil; (verifyFetchedKeysWithWork) ok may be true only across a VerifyRRSIGWithWork success, and the key map of the fully-authenticating pass holds only keys taken from the rootKeys parameter")
	c.Doc("C09-R3", "revocation-only authentication does nothing but revoke: (verifyFetchedKeysWithWork) a return with ok possibly true and revocationOnly not the constant true is behind the success of the pass keyed by trusted keys; the other pass's key map is filled only behind sameKeyExceptRevoke(trusted key, inserted key); (AutoTA) StateAddPend/StateValid/StateMissing stores, insertions into the state map and non-marker deletions downstream of the verification are behind revocationOnly=false")
	type pass struct {
		call    *ssa.Call
		class   string
		barrier Barrier
	}
	var passes []pass
	isParam0 := func(e *Expr) bool { return e.K == EParam && e.Idx == 0 }
	var trustedMaps []ssa.Value
	calls := instrsWhere(fn, isPlainCallTo(a.verifyRRSIG))
	// first classify trusted maps, then bootstrap maps (which refer to trusted ones)
	for round := 0; round < 2; round++ {
		for _, in := range calls {
			cl := in.(*ssa.Call)
			keys := cl.Call.Args[1]
			mm, isMake := keys.(*ssa.MakeMap)
			key := "C09-R2|" + fnKey(fn) + "|VerifyRRSIGWithWork key map"
			// the map may be built by an unexported helper (construction loop extracted):
			// then it is the helper's one MakeMap, filled in the helper, whose parameters
			// stand for the call's arguments
			mapFn := fn
			var hargs []ssa.Value
			if !isMake {
				if kc, ok := keys.(*ssa.Call); ok {
					if h := localHelper(fn, &kc.Call); h != nil {
						var hm *ssa.MakeMap
						single := true
						for _, b := range h.Blocks {
							for _, hi := range b.Instrs {
								if r, ok := hi.(*ssa.Return); ok {
									if len(r.Results) != 1 {
										single = false
										continue
									}
									m2, ok := r.Results[0].(*ssa.MakeMap)
									if !ok || (hm != nil && hm != m2) {
										single = false
										continue
									}
									hm = m2
								}
							}
						}
						if single && hm != nil {
							mm, isMake, mapFn, hargs = hm, true, h, kc.Call.Args
						}
					}
				}
			}
			if !isMake {
				if round == 0 {
					c.undecided("C09-R2", key, instrPos(in), "key map is not a locally created map; its contents are not decided: "+trunc(Desc(keys).String(), 120))
				}
				continue
			}
			// viaArg: a pattern on the caller's values, lifted to the helper's parameters
			viaArg := func(p Pat) Pat {
				if hargs == nil {
					return p
				}
				return func(x *Expr) bool {
					return x != nil && x.K == EParam && x.Idx >= 0 && x.Idx < len(hargs) && Contains(p)(Desc(hargs[x.Idx]))
				}
			}
			isTrustedMapVal := func(x *Expr) bool {
				if x == nil {
					return false
				}
				v := x.V
				if hargs != nil {
					if x.K != EParam || x.Idx < 0 || x.Idx >= len(hargs) {
						return false
					}
					v = hargs[x.Idx]
				}
				for _, tm := range trustedMaps {
					if v == tm {
						return true
					}
				}
				return false
			}
			ups := c09MapUpdatesOf(mapFn, mm)
			if round == 0 {
				trusted := len(ups) > 0
				for _, u := range ups {
					for _, l := range c09LeavesExpanded(Desc(u.Value)) {
						s := strip(l)
						if s != nil && s.K == ELookup && s.X != nil && s.X.V == mm {
							continue
						}
						if Contains(viaArg(isParam0))(l) {
							continue
						}
						trusted = false
					}
				}
				if trusted {
					trustedMaps = append(trustedMaps, keys)
					v := cl
					passes = append(passes, pass{cl, "trusted", OnTrue("verified(trusted keys)", func(e *Expr) bool {
						e = strip(e)
						return e != nil && e.K == EExtract && e.Idx == 0 && e.X != nil && e.X.V == v
					})})
					c.ok("C09-R2", key, instrPos(in), "pass keyed by a map holding only keys taken from the rootKeys parameter")
				}
				continue
			}
			already := false
			for _, p := range passes {
				if p.call == cl {
					already = true
				}
			}
			if already {
				continue
			}
			// bootstrap class: every update behind sameKeyExceptRevoke(<from trusted map>, <inserted key>)
			okAll := len(ups) > 0
			for _, u := range ups {
				var inserted []ssa.Value
				for _, l := range c09LeavesExpanded(Desc(u.Value)) {
					s := strip(l)
					if s != nil && s.K == ELookup && s.X != nil && s.X.V == mm {
						continue
					}
					if l.V != nil {
						inserted = append(inserted, l.V)
					} else {
						okAll = false
					}
				}
				guard := OnTrue("sameKeyExceptRevoke(trusted, inserted)", func(e *Expr) bool {
					e = strip(e)
					if e == nil || e.K != ECall || !sameFunc(e.Fn, a.sameKey) || len(e.Args) != 2 {
						return false
					}
					fromTrusted := Contains(func(x *Expr) bool {
						if x.K != ELookup || x.X == nil {
							return false
						}
						return isTrustedMapVal(strip(x.X))
					})(e.Args[0])
					if !fromTrusted {
						return false
					}
					for _, iv := range inserted {
						if e.Args[1].V != iv && strip(e.Args[1]).V != iv {
							return false
						}
					}
					return len(inserted) > 0
				})
				k3 := "C09-R3|" + fnKey(fn) + "|revoked-bootstrap key admitted"
				if ug, tr := c.unguarded(u, []Barrier{guard}, mapFn); ug {
					okAll = false
					c.violation("C09-R3", k3, instrPos(u), "a key enters the second-pass key map without sameKeyExceptRevoke(trusted key, this key)=true (tag match alone lets an unrelated self-signed key authenticate the RRset); path "+tr)
				} else {
					c.ok("C09-R3", k3, instrPos(u), "bootstrap key inserted only behind sameKeyExceptRevoke(trusted key, inserted key)")
				}
			}
			if okAll {
				v := cl
				passes = append(passes, pass{cl, "bootstrap", OnTrue("verified(revoked bootstrap)", func(e *Expr) bool {
					e = strip(e)
					return e != nil && e.K == EExtract && e.Idx == 0 && e.X != nil && e.X.V == v
				})})
			} else {
				c.violation("C09-R2", key, instrPos(in), "VerifyRRSIGWithWork is keyed by a map that holds neither only trusted keys nor only sameKeyExceptRevoke-matched revoked forms of them")
			}
		}
	}
	if len(calls) == 0 {
		c.unresolved("C09-R2", fnKey(fn)+"|VerifyRRSIGWithWork", "no call found")
	}
	var any, trustedOnly []Barrier
	for _, p := range passes {
		any = append(any, p.barrier)
		if p.class == "trusted" {
			trustedOnly = append(trustedOnly, p.barrier)
		}
	}
	for _, in := range returnsWhere(fn, 0, nil) {
		ret := in.(*ssa.Return)
		mayOK := false
		for _, l := range Origins(Desc(ret.Results[0]), nil) {
			if !IsConstBool(false)(l) {
				mayOK = true
			}
		}
		if !mayOK {
			continue
		}
		k2 := "C09-R2|" + fnKey(fn) + "|ok return"
		if ug, tr := c.unguarded(in, any, fn); ug || len(any) == 0 {
			c.violation("C09-R2", k2, instrPos(in), "returns ok without a successful VerifyRRSIGWithWork over a classified key map; path "+tr)
		} else {
			c.ok("C09-R2", k2, instrPos(in), "ok return is behind a VerifyRRSIGWithWork success")
		}
		k3 := "C09-R3|" + fnKey(fn) + "|ok return revocationOnly"
		if len(ret.Results) < 2 {
			c.undecided("C09-R3", k3, instrPos(in), "no revocationOnly result")
			continue
		}
		if IsConstBool(true)(Desc(ret.Results[1])) {
			c.ok("C09-R3", k3, instrPos(in), "revocationOnly=true (the restrictive answer)")
			continue
		}
		if ug, tr := c.unguarded(in, trustedOnly, fn); ug || len(trustedOnly) == 0 {
			c.violation("C09-R3", k3, instrPos(in), "may return (ok, revocationOnly=false) without the trusted-key pass having verified: a revoked key's signature would drive additions; path "+tr)
		} else {
			c.ok("C09-R3", k3, instrPos(in), "full authentication only behind the trusted-key pass")
		}
	}
}

// ---------------------------------------------------------------------------
// R2/R3 inside AutoTA

func c09R2R3AutoTA(c *Ctx, a *c09A) {
	fn := a.autoTA
	fetch := instrsWhere(fn, isPlainCallTo(a.resolve))
	verifyCalls := instrsWhere(fn, isPlainCallTo(a.verify))
	stageCalls := instrsWhere(fn, isPlainCallTo(a.stage))
	muts := instrsWhere(fn, a.mutation)
	c.c09FromNoReach("C09-R2", fn, "mutation downstream of the fetch", fetch, muts, OnTrue("verifyFetchedKeysWithWork ok", ResultOf(0, a.verify)))
	c.c09FromNoReach("C09-R2", fn, "mutation downstream of staging", stageCalls, muts, OnFalse("stageRevocationSelfSignatures err", ResultOf(1, a.stage)))
	c.Floor("C09-R2", 1+2+19+17) // trusted key map, 2 ok returns, 19 mutations after the fetch (F-C09-6: the fetched keys are collected in a slice, the tag-keyed map and its insert are gone), 17 after staging

	revOnlyFalse := OnFalse("revocationOnly", ResultOf(1, a.verify))
	grow := instrsWhere(fn, func(in ssa.Instruction) bool {
		return a.stateStoreOf(in, "StateAddPend", "StateValid", "StateMissing") || a.currentUpdate(in)
	})
	c.c09FromNoReach("C09-R3", fn, "non-revocation transition (AddPend/Valid/Missing store, state-map insertion)", verifyCalls, grow, revOnlyFalse)
	dels := instrsWhere(fn, a.currentDelete)
	bars := append([]Barrier{revOnlyFalse}, a.stateEq("StateRevoked", "StateRemoved")...)
	c.c09FromNoReach("C09-R3", fn, "state-map deletion other than a revocation marker", verifyCalls, dels, bars...)
	c.Floor("C09-R3", 1+2+5+3) // bootstrap insertion, 2 ok returns, 5 growth sites, 3 deletions
}

// ---------------------------------------------------------------------------
// R4

func c09R4(c *Ctx, a *c09A) {
	const R = "C09-R4"
	c.Doc(R, "a revocation needs key-material identity and a self-signature: downstream of the fetch the StateRevoked store on X and the tombstone insertion keyed by dnskeyMaterialFP(K) are behind sameKeyExceptRevoke(X.DNSKey, K)=true and <stage result>[tag]=true; sameKeyExceptRevoke returns true only across equal Algorithm, Protocol, PublicKey and Flags == Flags^REVOKE; revocationIsSelfSignedWithWork verifies against a key map holding the revoked key alone; the staged verdict is false or that function's result")
	fn := a.autoTA
	fetch := instrsWhere(fn, isPlainCallTo(a.resolve))
	selfSignedEdge := OnTrue("revocationSelfSigned[tag]", func(e *Expr) bool {
		e = strip(e)
		return e != nil && e.K == ELookup && ResultOf(0, a.stage)(e.X)
	})
	all := reach(pointsAfter(fetch), nil, nil)
	n := 0
	for _, in := range instrsWhere(fn, func(in ssa.Instruction) bool { return a.stateStoreOf(in, "StateRevoked") || a.tombUpdate(in) }) {
		if !all.visited[in] {
			continue
		}
		n++
		what := "StateRevoked store"
		var sk Barrier
		if base, _, ok := c09FieldStore(in, a.stateF); ok {
			bs := Desc(base).String()
			sk = OnTrue("sameKeyExceptRevoke(X.DNSKey, fetched)", func(e *Expr) bool {
				e = strip(e)
				if e == nil || e.K != ECall || !sameFunc(e.Fn, a.sameKey) || len(e.Args) != 2 {
					return false
				}
				o := strip(e.Args[0])
				return o != nil && o.K == EField && o.Var == a.dnskeyF && o.X.String() == bs
			})
		} else {
			what = "tombstone insertion"
			_, k, _, _ := c09MapMutation(in, a.tombMapT)
			ke := strip(Desc(k))
			ks := ""
			if ke != nil && ke.K == ECall && sameFunc(ke.Fn, a.fp) && len(ke.Args) == 1 {
				ks = ke.Args[0].String()
			}
			sk = OnTrue("sameKeyExceptRevoke(old, K)", func(e *Expr) bool {
				e = strip(e)
				if e == nil || e.K != ECall || !sameFunc(e.Fn, a.sameKey) || len(e.Args) != 2 {
					return false
				}
				return ks != "" && e.Args[1].String() == ks
			})
		}
		c.c09FromNoReach(R, fn, what+" after the fetch: key-material identity", fetch, []ssa.Instruction{in}, sk)
		c.c09FromNoReach(R, fn, what+" after the fetch: staged self-signature", fetch, []ssa.Instruction{in}, selfSignedEdge)
	}
	if n == 0 {
		c.unresolved(R, fnKey(fn)+"|revocation sites", "no StateRevoked store / tombstone insertion downstream of the fetch")
	}

	// sameKeyExceptRevoke body
	sk := a.sameKeyFn
	dk := func(name string) *types.Var { return c.field(R, "github.com/miekg/dns.DNSKEY."+name) }
	algF, protoF, pubF, flagsF := dk("Algorithm"), dk("Protocol"), dk("PublicKey"), dk("Flags")
	onParam := func(fv *types.Var, idx int) Pat {
		return func(e *Expr) bool {
			e = strip(e)
			if e == nil || e.K != EField || e.Var != fv || e.X == nil {
				return false
			}
			b := strip(e.X)
			return b != nil && b.K == EParam && b.Idx == idx
		}
	}
	if algF != nil && protoF != nil && pubF != nil && flagsF != nil {
		revBit := c.P.ConstVal("middleware/resolver.DNSKEYFlagRevoke")
		xorRev := func(idx int) Pat {
			return func(e *Expr) bool {
				e = strip(e)
				if e == nil || e.K != EBin || e.Op != token.XOR || revBit == nil {
					return false
				}
				return (onParam(flagsF, idx)(e.X) && c09ConstIs(revBit)(e.Y)) || (onParam(flagsF, idx)(e.Y) && c09ConstIs(revBit)(e.X))
			}
		}
		flagsAtom := c09Atom{Name: "Flags==Flags^REVOKE", Match: func(e *Expr) (bool, bool) {
			if m, pol := CmpMatch(e, onParam(flagsF, 0), token.EQL, xorRev(1)); m {
				return m, pol
			}
			return CmpMatch(e, xorRev(0), token.EQL, onParam(flagsF, 1))
		}}
		atoms := []c09Atom{
			c09CmpAtom("Algorithm equal", onParam(algF, 0), token.EQL, onParam(algF, 1)),
			c09CmpAtom("Protocol equal", onParam(protoF, 0), token.EQL, onParam(protoF, 1)),
			c09CmpAtom("PublicKey equal", onParam(pubF, 0), token.EQL, onParam(pubF, 1)),
			flagsAtom,
		}
		// decided on the evaluated CFG, one obligation per required comparison,
		// whatever the guard shape (early returns, one && expression, locals, helpers)
		for _, at := range atoms {
			name := at.Name
			c.c09RequireWhen(R, R+"|"+fnKey(sk)+"|return true needs "+name, sk, 0, atoms, true,
				func(v map[string]bool) bool { return v[name] }, name)
		}
	}

	// revocationIsSelfSignedWithWork: keys = {revokedKey} only
	for _, in := range instrsWhere(a.selfFn, isPlainCallTo(a.verifyRRSIG)) {
		cl := in.(*ssa.Call)
		key := R + "|" + fnKey(a.selfFn) + "|key map"
		mm, isMake := cl.Call.Args[1].(*ssa.MakeMap)
		if !isMake {
			c.undecided(R, key, instrPos(in), "key map is not created locally")
			continue
		}
		ups := c09MapUpdatesOf(a.selfFn, mm)
		okOnly := len(ups) > 0
		for _, u := range ups {
			for _, l := range c09LeavesExpanded(Desc(u.Value)) {
				s := strip(l)
				if s == nil || s.K != EParam || s.Name != "revokedKey" {
					okOnly = false
				}
			}
		}
		if okOnly {
			c.ok(R, key, instrPos(in), "self-signature verified against the revoked key alone")
		} else {
			c.violation(R, key, instrPos(in), "the revocation self-signature is verified against keys other than the revoked key itself")
		}
	}
	// staged verdicts
	for _, in := range instrsWhere(a.stageFn, func(in ssa.Instruction) bool {
		mu, ok := in.(*ssa.MapUpdate)
		if !ok {
			return false
		}
		mt, ok := mu.Map.Type().Underlying().(*types.Map)
		return ok && types.Identical(mt.Elem(), types.Typ[types.Bool])
	}) {
		mu := in.(*ssa.MapUpdate)
		c.OriginCheck(R, R+"|"+fnKey(a.stageFn)+"|staged verdict", in, "selfSignedByTag[tag]", mu.Value, nil, IsConstBool(false), ResultOf(0, a.selfSigned))
	}
	c.Floor(R, 4+4+1+1)
}

func pointsAfter(ins []ssa.Instruction) []Point {
	var out []Point
	for _, in := range ins {
		out = append(out, pointAfter(in))
	}
	return out
}

// ---------------------------------------------------------------------------
// R5

func c09R5(c *Ctx, a *c09A) {
	const R = "C09-R5"
	c.Doc(R, "tombstones take precedence: every insertion into the state map executed once tombstones are loaded is behind a tombstones[dnskeyMaterialFP(inserted key)] miss; insertions executed before the load are followed on every path by the drop loop (range over the state map deleting tombstoned non-marker entries) before any non-nil publish or state write; every index of a Tombstones map in the package is a dnskeyMaterialFP value (never a tag)")
	fn := a.autoTA
	load := instrsWhere(fn, isPlainCallTo(a.readTomb))
	if len(load) == 0 {
		c.unresolved(R, fnKey(fn)+"|readTombstones", "no call found")
		return
	}
	after := reach(pointsAfter(load), nil, nil)
	// the drop loop(s)
	var dropRanges []ssa.Instruction
	for _, in := range instrsWhere(fn, a.currentDelete) {
		cl := in.(*ssa.Call)
		if len(cl.Call.Args) < 2 {
			continue
		}
		m, rg := c09RangeOf(cl.Call.Args[1])
		if rg == nil || !a.isCurrent(m) {
			continue
		}
		// behind a tombstone hit on the ranged entry's key material
		hit := OnTrue("tombstoned", a.tombHit(func(k *Expr) bool {
			k = strip(k)
			if k == nil || k.K != EField || k.Var != a.dnskeyF || k.X == nil {
				return false
			}
			_, r2 := c09RangeOf(k.X.V)
			return r2 == rg
		}))
		if ug, _ := c.unguarded(in, []Barrier{hit}, fn); ug {
			continue
		}
		dropRanges = append(dropRanges, rg)
		key := R + "|" + fnKey(fn) + "|drop loop spares markers"
		for _, nm := range []string{"StateRevoked", "StateRemoved"} {
			if ug, tr := c.unguarded(in, []Barrier{c09StateNe(a.stateF, nm, a.st[nm])}, fn); ug {
				c.violation(R, key, instrPos(in), "the tombstone drop loop may delete a "+nm+" marker before the tombstone write is durable; path "+tr)
			} else {
				c.ok(R, key, instrPos(in), "drop loop deletes only behind State!="+nm)
			}
		}
	}
	dropBar := c09InstrBarrier("tombstone drop loop", dropRanges...)
	publish := instrsWhere(fn, func(in ssa.Instruction) bool {
		return a.rootKeysStore(in, true) || isCallTo(a.writeTA)(in)
	})
	for _, in := range instrsWhere(fn, a.currentUpdate) {
		mu := in.(*ssa.MapUpdate)
		if after.visited[in] {
			// tombstones known: guarded by a miss on the inserted key's material
			keyStrs := c09InsertedKeyStrings(a, mu.Value)
			miss := OnFalse("tombstoned(inserted key)", a.tombHit(func(k *Expr) bool { return keyStrs[k.String()] }))
			key := R + "|" + fnKey(fn) + "|insertion behind tombstone miss"
			if ug, tr := c.unguarded(in, []Barrier{miss}, fn); ug {
				c.violation(R, key, instrPos(in), "a key enters the trust-anchor state without a tombstones[dnskeyMaterialFP(that key)] miss: a revoked key (config, colliding tag or re-published) can be trusted again; path "+tr)
			} else {
				c.ok(R, key, instrPos(in), "insertion behind tombstones[dnskeyMaterialFP(inserted key)] miss")
			}
			continue
		}
		key := R + "|" + fnKey(fn) + "|pre-load insertion crosses drop loop"
		if len(dropRanges) == 0 {
			c.violation(R, key, instrPos(in), "state is seeded before tombstones are loaded and no tombstone drop loop exists")
			continue
		}
		r, hit := c09Reached([]Point{pointAfter(in)}, []Barrier{dropBar}, publish)
		if len(hit) > 0 {
			c.violation(R, key, instrPos(in), fmt.Sprintf("state seeded before tombstones are loaded reaches a publish/state write at %s without the tombstone drop loop; path %s", c.P.pos(instrPos(hit[0])), c.trail(r, hit[0])))
		} else {
			c.ok(R, key, instrPos(in), "seeded entries pass the tombstone drop loop before any publish or state write")
		}
	}
	// every index of a Tombstones map is dnskeyMaterialFP(...)
	for _, f := range c.P.FuncsInPkg("middleware/resolver") {
		for _, b := range f.Blocks {
			for _, in := range b.Instrs {
				var k ssa.Value
				what := ""
				if lk, ok := in.(*ssa.Lookup); ok && c09NamedIs(lk.X.Type(), a.tombMapT) {
					k, what = lk.Index, "lookup"
				} else if _, kk, _, kind := c09MapMutation(in, a.tombMapT); kind != "" && kk != nil {
					k, what = kk, kind
				}
				if k == nil {
					continue
				}
				// a key ranged out of a Tombstones map is a dnskeyMaterialFP value by
				// induction (F-C09-5: the set retained from an earlier refresh is
				// merged key by key into the one just read)
				tombKey := func(e *Expr) bool {
					e = strip(e)
					if e == nil || e.K != EExtract || e.Idx != 1 || e.V == nil {
						return false
					}
					m, _ := c09RangeOf(e.V)
					return m != nil && c09NamedIs(m.Type(), a.tombMapT)
				}
				c.OriginCheck(R, R+"|"+fnKey(TopLevel(f))+"|Tombstones index", in, "Tombstones "+what+" key", k, nil, CallTo(a.fp), tombKey)
			}
		}
	}
	c.Floor(R, 2+3+8)
}

// c09InsertedKeyStrings: canonical descriptions of "the DNSKEY of the trust
// anchor being inserted" (v is the *TrustAnchor stored into the state map).
func c09InsertedKeyStrings(a *c09A, v ssa.Value) map[string]bool {
	out := map[string]bool{}
	out[Desc(v).String()+"."+a.dnskeyF.Name()] = true
	if al, ok := v.(*ssa.Alloc); ok && al.Referrers() != nil {
		for _, r := range *al.Referrers() {
			fa, ok := r.(*ssa.FieldAddr)
			if !ok || fa.Referrers() == nil {
				continue
			}
			for _, rr := range *fa.Referrers() {
				if _, val, ok := c09FieldStore(rr, a.dnskeyF); ok {
					out[Desc(val).String()] = true
				}
			}
		}
	}
	return out
}

// ---------------------------------------------------------------------------
// R6

func c09R6(c *Ctx, a *c09A) {
	const R = "C09-R6"
	c.Doc(R, "hold-downs: downstream of the fetch, State=StateValid only across State==StateMissing or (State==StateAddPend and time.Since(FirstSeen) > d, d ≥ 720h), and only when the key is present in the fetched set; a pending key absent from an accepted refresh is deleted; a state-map deletion is a pending abort (State==AddPend/Start), a marker cleanup (State==Revoked/Removed) or the Missing expiry across State==StateMissing, absent, time.Since(FirstSeen) > d' with d' ≥ 2160h")
	fn := a.autoTA
	fetch := instrsWhere(fn, isPlainCallTo(a.resolve))
	all := reach(pointsAfter(fetch), nil, nil)
	down := func(ins []ssa.Instruction) []ssa.Instruction {
		var out []ssa.Instruction
		for _, in := range ins {
			if all.visited[in] {
				out = append(out, in)
			}
		}
		return out
	}
	missing := a.stateEq("StateMissing")
	addPend := a.stateEq("StateAddPend")
	promos := down(instrsWhere(fn, func(in ssa.Instruction) bool { return a.stateStoreOf(in, "StateValid") }))
	c.c09Guarded(R, fn, "promotion to StateValid: prior state", promos, append(append([]Barrier{}, missing...), addPend...)...)
	c.c09Guarded(R, fn, "promotion to StateValid: add hold-down ≥ 720h", promos, append(append([]Barrier{}, missing...), a.sinceAtLeast("time.Since(FirstSeen) > d≥720h", 720)...)...)
	c.c09Guarded(R, fn, "promotion to StateValid: key present in the fetched set", promos, OnTrue("fetched[tag]!=nil", a.present()))

	// deletions
	dels := down(instrsWhere(fn, a.currentDelete))
	pend := a.stateEq("StateAddPend", "StateStart")
	marker := a.stateEq("StateRevoked", "StateRemoved")
	other := append(append([]Barrier{}, pend...), marker...)
	var expiry []ssa.Instruction
	for _, d := range dels {
		if ug, _ := c.unguarded(d, other, fn); ug {
			expiry = append(expiry, d)
		} else {
			c.ok(R, R+"|"+fnKey(fn)+"|deletion class", instrPos(d), "deletion of a pending or marker entry (not a trusted key)")
		}
	}
	if len(expiry) == 0 {
		c.unresolved(R, fnKey(fn)+"|Missing expiry", "no deletion of a trusted key found (rule would pass vacuously)")
	} else {
		c.c09Guarded(R, fn, "trusted key deleted: remove hold-down ≥ 2160h", expiry, a.sinceAtLeast("time.Since(FirstSeen) > d≥2160h", 2160)...)
		c.c09Guarded(R, fn, "trusted key deleted: State==StateMissing", expiry, missing...)
		c.c09Guarded(R, fn, "trusted key deleted: absent from the fetched set", expiry, OnFalse("fetched[tag]!=nil", a.present()))
	}
	// pending + absent ⇒ deleted before the next entry
	absent := OnFalse("fetched[tag]!=nil", a.present())
	delBar := Barrier{Name: "delete(state, tag)", Instr: a.currentDelete}
	n := 0
	for _, pt := range edgePoints(fn, addPend[0]) {
		if len(pt.B.Instrs) == 0 {
			continue
		}
		if ug, _ := c.unguarded(pt.B.Instrs[0], []Barrier{absent}, fn); ug {
			continue // not in the "absent" context
		}
		n++
		key := R + "|" + fnKey(fn) + "|pending key absent ⇒ hold-down aborted"
		r := reach([]Point{pt}, []Barrier{delBar}, nil)
		bad := false
		for _, t := range r.order {
			_, isNext := t.(*ssa.Next)
			if isNext || isReturn(t) || isCallTo(a.writeTA)(t) {
				bad = true
				c.violation(R, key, instrPos(t), "a pending key absent from an accepted refresh survives (its 30-day clock keeps running while it is not published); path "+c.trail(r, t))
				break
			}
		}
		if !bad {
			c.ok(R, key, instrPos(pt.B.Instrs[0]), "State==StateAddPend and absent ⇒ deleted before the next entry is examined")
		}
	}
	if n == 0 {
		c.unresolved(R, fnKey(fn)+"|pending abort", "no State==StateAddPend edge in the absent context")
	}
	c.Floor(R, 6+2+3+1)
}

// ---------------------------------------------------------------------------
// R7

func c09R7(c *Ctx, a *c09A) {
	const R = "C09-R7"
	c.Doc(R, "durable dual record, in order: writeToTAFile only after writeTombstones; writeTombstones/writeToTAFile/atomicGobWrite callers are exactly AutoTA and the two wrappers; marker (State==Revoked/Removed) deletions only across tombErr==nil; a non-nil rootKeys store downstream of the writes needs tombErr==nil or stateErr==nil; after an accepted revocation every path to return crosses a rootKeys store (nil or re-filtered) — the only exempt edge is the flag that is provably true by then; the corrupt-tombstones edge stores nil then returns without fetch, publish or write; the pre-fetch publish is behind hasTrustAnchors()=true; readTombstones reports a decode failure as errCorruptTombstones")
	fn := a.autoTA
	c.MustCross(R, fn, "writeToTAFile after writeTombstones", isCallTo(a.writeTA), CallBarrier("writeTombstones", a.writeTomb))
	c.WhoMay(R, "call writeTombstones", c.CallSites(a.writeTomb), map[string]string{fnKey(a.autoTA): "persistence tail"})
	c.WhoMay(R, "call writeToTAFile", c.CallSites(a.writeTA), map[string]string{fnKey(a.autoTA): "persistence tail"})
	c.WhoMay(R, "call atomicGobWrite", c.CallSites(a.gobWrite), map[string]string{
		fnKey(c.P.Func("middleware/resolver.writeTombstones")): "tombstone file wrapper",
		fnKey(c.P.Func("middleware/resolver.writeToTAFile")):   "state file wrapper",
	})
	tombOK := OnFalse("tombErr", ResultOf(0, a.writeTomb))
	stateOK := OnFalse("stateErr", ResultOf(0, a.writeTA))

	// marker deletions
	fetch := instrsWhere(fn, isPlainCallTo(a.resolve))
	all := reach(pointsAfter(fetch), nil, nil)
	marker := a.stateEq("StateRevoked", "StateRemoved")
	var markerDels []ssa.Instruction
	for _, d := range instrsWhere(fn, a.currentDelete) {
		// a deletion that can remove a marker = not behind State!=Revoked and State!=Removed
		mayMarker := false
		for _, nm := range []string{"StateRevoked", "StateRemoved"} {
			if ug, _ := c.unguarded(d, []Barrier{c09StateNe(a.stateF, nm, a.st[nm])}, fn); ug {
				mayMarker = true
			}
		}
		if ug, _ := c.unguarded(d, marker, fn); !ug {
			mayMarker = true
		} else if all.visited[d] {
			// downstream deletions of non-markers are classified by R6
			mayMarker = false
		}
		if mayMarker {
			markerDels = append(markerDels, d)
		}
	}
	c.c09Guarded(R, fn, "deletion that can drop a Revoked/Removed marker", markerDels, tombOK)

	// publication after the writes
	wr := instrsWhere(fn, isPlainCallTo(a.writeTomb))
	pub := instrsWhere(fn, func(in ssa.Instruction) bool { return a.rootKeysStore(in, true) })
	c.c09FromNoReach(R, fn, "non-nil publish downstream of the writes", wr, pub, tombOK, stateOK)

	// after an accepted revocation: no return without re-publishing
	revs := instrsWhere(fn, func(in ssa.Instruction) bool {
		return all.visited[in] && (a.stateStoreOf(in, "StateRevoked") || a.tombUpdate(in))
	})
	storeBar := Barrier{Name: "store rootKeys", Instr: func(in ssa.Instruction) bool { return a.rootKeysStore(in, false) }}
	for _, s := range revs {
		key := R + "|" + fnKey(fn) + "|accepted revocation ⇒ re-publish before return"
		sticky := Barrier{Name: "newRevocation=false (infeasible: flag is set on every path from here)", Edge: func(cond *Expr) (bool, int) {
			p := c09PhiOf(cond)
			if p == nil || !c09StickyTrue(p, s) {
				return false, 0
			}
			_, pol := Truthy(cond)
			if pol {
				return true, 1
			}
			return true, 0
		}}
		r := c09ReachTracked([]Point{pointAfter(s)}, []Barrier{storeBar, sticky}, AnyOf(ResultOf(0, a.writeTomb), ResultOf(0, a.writeTA)))
		bad := false
		for _, t := range r.order {
			if isReturn(t) {
				bad = true
				c.violation(R, key, instrPos(t), "after a revocation was accepted in memory AutoTA can return without storing rootKeys (the revoked key stays in the live trust set); path "+c.trail(r, t))
				break
			}
		}
		if !bad {
			c.ok(R, key, instrPos(s), "every path from the accepted revocation to return stores rootKeys (nil or the re-filtered set)")
		}
	}
	if len(revs) == 0 {
		c.unresolved(R, fnKey(fn)+"|revocation sites", "none found")
	}

	// unreadable tombstone store (corrupt payload or any other read error of an existing file)
	corrupt := OnTrue("readTombstones err", ResultOf(1, a.readTomb))
	nilStore := Barrier{Name: "rootKeys=nil", Instr: func(in ssa.Instruction) bool {
		return a.rootKeysStore(in, false) && !a.rootKeysStore(in, true)
	}}
	c.AfterEdge(R, fn, "unreadable tombstones: return without rootKeys=nil", corrupt, isReturn, nilStore)
	c.AfterEdge(R, fn, "unreadable tombstones: fetch/publish/write", corrupt, func(in ssa.Instruction) bool {
		return isCallTo(a.resolve, a.writeTomb, a.writeTA)(in) || a.rootKeysStore(in, true)
	})
	// a decode failure is an error result of readTombstones (whatever its wrapping): the edge above covers it
	dec := c.fobj(R, "encoding/gob.(*Decoder).Decode")
	if dec != nil {
		c.AfterEdge(R, a.readTombFn, "decode failure swallowed", OnTrue("Decode err", CallTo(dec)),
			func(in ssa.Instruction) bool {
				r, ok := in.(*ssa.Return)
				return ok && len(r.Results) == 2 && IsNilConst(Desc(r.Results[1]))
			})
	}
	// pre-fetch publish only when the prior trust set was valid
	var pre []ssa.Instruction
	for _, p := range pub {
		if !all.visited[p] {
			pre = append(pre, p)
		}
	}
	c.c09Guarded(R, fn, "pre-fetch publish", pre, OnTrue("hasTrustAnchors()", CallTo(a.hasTA)))
	c.Floor(R, 13)
}

// ---------------------------------------------------------------------------
// R8

func c09R8(c *Ctx, a *c09A) {
	const R = "C09-R8"
	c.Doc(R, "atomic replacement: in atomicGobWrite os.Rename is reached only across the nil-error edges of Encode, Sync and Close on the temp file; the temp file is created in filepath.Dir(filename) and renamed from f.Name() onto filename; after a successful rename the function returns syncDir(dir)'s result; no return yields a constant nil; in package resolver only atomicGobWrite creates or renames files; syncDir (non-windows) never returns after a successful open without calling Sync")
	fn := a.gobFn
	enc := c.fobj(R, "encoding/gob.(*Encoder).Encode")
	newEnc := c.fobj(R, "encoding/gob.NewEncoder")
	fsync := c.fobj(R, "os.(*File).Sync")
	fclose := c.fobj(R, "os.(*File).Close")
	fname := c.fobj(R, "os.(*File).Name")
	rename := c.fobj(R, "os.Rename")
	createTemp := c.fobj(R, "os.CreateTemp")
	fdir := c.fobj(R, "path/filepath.Dir")
	osOpen := c.fobj(R, "os.Open")
	if enc == nil || newEnc == nil || fsync == nil || fclose == nil || fname == nil || rename == nil || createTemp == nil || fdir == nil || osOpen == nil {
		return
	}
	tmpFile := ResultOf(0, createTemp)
	onTmp := func(f *types.Func) Pat {
		return func(e *Expr) bool {
			e = strip(e)
			return e != nil && e.K == ECall && sameFunc(e.Fn, f) && len(e.Args) >= 1 && tmpFile(e.Args[0])
		}
	}
	encOnTmp := func(e *Expr) bool {
		e = strip(e)
		if e == nil || e.K != ECall || !sameFunc(e.Fn, enc) || len(e.Args) < 1 {
			return false
		}
		ne := strip(e.Args[0])
		return ne != nil && ne.K == ECall && sameFunc(ne.Fn, newEnc) && len(ne.Args) == 1 && tmpFile(ne.Args[0])
	}
	ren := instrsWhere(fn, isCallTo(rename))
	c.c09Guarded(R, fn, "rename only after Encode succeeded", ren, OnFalse("Encode(tmp) err", encOnTmp))
	c.c09Guarded(R, fn, "rename only after f.Sync succeeded", ren, OnFalse("tmp.Sync err", onTmp(fsync)))
	c.c09Guarded(R, fn, "rename only after f.Close succeeded", ren, OnFalse("tmp.Close err", onTmp(fclose)))
	isFilename := func(e *Expr) bool { e = strip(e); return e != nil && e.K == EParam && e.Idx == 0 }
	dirOfTarget := func(e *Expr) bool {
		e = strip(e)
		return e != nil && e.K == ECall && sameFunc(e.Fn, fdir) && len(e.Args) == 1 && isFilename(e.Args[0])
	}
	for _, in := range ren {
		key := R + "|" + fnKey(fn) + "|rename operands"
		src, dst := Desc(callArg(in, 0)), Desc(callArg(in, 1))
		if onTmp(fname)(src) && isFilename(dst) {
			c.ok(R, key, instrPos(in), "os.Rename(tmp.Name(), filename)")
		} else {
			c.violation(R, key, instrPos(in), "rename does not move the synced temp file onto the target: "+trunc(src.String()+" → "+dst.String(), 200))
		}
	}
	for _, in := range instrsWhere(fn, isCallTo(createTemp)) {
		key := R + "|" + fnKey(fn) + "|temp file in the target directory"
		if dirOfTarget(Desc(callArg(in, 0))) {
			c.ok(R, key, instrPos(in), "CreateTemp(filepath.Dir(filename), …): same file system, rename is atomic")
		} else {
			c.violation(R, key, instrPos(in), "temp file is not created in the target's directory (rename may cross file systems / not be atomic): "+trunc(Desc(callArg(in, 0)).String(), 160))
		}
	}
	// after a successful rename: return syncDir(dir)
	renOK := OnFalse("Rename err", CallTo(rename))
	c.AfterEdge(R, fn, "return after rename that is not syncDir(dir)'s result", renOK, func(in ssa.Instruction) bool {
		r, ok := in.(*ssa.Return)
		if !ok {
			return false
		}
		if len(r.Results) != 1 {
			return true
		}
		e := strip(Desc(r.Results[0]))
		return !(e != nil && e.K == ECall && sameFunc(e.Fn, a.syncDir) && len(e.Args) == 1 && dirOfTarget(e.Args[0]))
	})
	// no constant-nil return
	nilRet := 0
	for _, in := range returnsWhere(fn, 0, nil) {
		for _, l := range Origins(Desc(in.(*ssa.Return).Results[0]), nil) {
			if IsNilConst(l) {
				nilRet++
				c.violation(R, R+"|"+fnKey(fn)+"|constant nil return", instrPos(in), "atomicGobWrite reports success without passing through rename+syncDir")
			}
		}
	}
	if nilRet == 0 {
		c.ok(R, R+"|"+fnKey(fn)+"|constant nil return", fn.Pos(), "every return value is the error of one of the steps")
	}
	// who may create / rename files in the package
	for _, p := range []string{"os.Create", "os.WriteFile", "os.OpenFile", "os.Rename", "os.CreateTemp", "os.Remove", "os.Truncate"} {
		fo := c.fobj(R, p)
		if fo == nil {
			continue
		}
		var sites []Site
		for _, s := range c.CallSites(fo) {
			if c09InPkg(s.Fn, a.pkgFull) {
				sites = append(sites, s)
			}
		}
		allow := map[string]string{}
		switch p {
		case "os.Rename", "os.CreateTemp", "os.Remove":
			allow[fnKey(fn)] = "the one atomic writer"
		}
		if len(sites) == 0 && len(allow) == 0 {
			c.ok(R, R+"|"+p+" in package resolver", token.NoPos, "no call site")
			continue
		}
		c.WhoMay(R, p+" in package resolver", sites, allow)
	}
	// syncDir
	key := R + "|" + fnKey(a.syncFn) + "|directory fsync"
	if strings.HasPrefix(c.Config, "windows/") {
		c.ok(R, key, a.syncFn.Pos(), "windows: documented no-op (no directory fsync in Win32; NTFS journals metadata) — table row")
	} else {
		c.AfterEdge(R, a.syncFn, "return after opening the directory without Sync", OnFalse("os.Open err", ResultOf(1, osOpen)), isReturn, CallBarrier("(*os.File).Sync", fsync))
		c.AfterEdge(R, a.syncFn, "Sync error swallowed", OnTrue("Sync err", CallTo(fsync)), func(in ssa.Instruction) bool {
			r, ok := in.(*ssa.Return)
			return ok && !(len(r.Results) == 1 && CallTo(fsync)(Desc(r.Results[0])))
		})
	}
	c.Floor(R, 18) // 19 on unix (syncDir contributes 2), 18 on windows
}

// ---------------------------------------------------------------------------
// R9 (property statement: "… or the revocation store is unreadable, validation fails closed")

func c09R9(c *Ctx, a *c09A) {
	const R = "C09-R9"
	c.Doc(R, "an unreadable revocation store fails closed: on the readTombstones error edge AutoTA reaches neither the fetch, nor a non-nil rootKeys store, nor writeTombstones (which would replace the store it could not read with the empty in-memory set)")
	c.AfterEdge(R, a.autoTA, "tombstone store unreadable: proceeds to fetch/publish/overwrite", OnTrue("readTombstones err", ResultOf(1, a.readTomb)), func(in ssa.Instruction) bool {
		return isCallTo(a.resolve, a.writeTomb)(in) || a.rootKeysStore(in, true)
	})
}
