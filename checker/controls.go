package main

// Positive controls: the engines run on tiny known-good / known-bad functions
// (testdata/ctl) on every invocation; an engine that stops reporting the bad
// one, or starts reporting the good one, makes the check fail as broken.

import (
	"fmt"
	"path/filepath"
	"strings"
)

type ControlResult struct {
	Name   string `json:"name"`
	Pass   bool   `json:"pass"`
	Detail string `json:"detail,omitempty"`
}

type controlDef struct {
	Name string
	Run  func(c *Ctx)
	// expectations: rule ids that must produce ≥1 violation and none
	Bad  []string
	Good []string
}

var controlDefs []controlDef

func registerControl(cd controlDef) { controlDefs = append(controlDefs, cd) }

func runControls(verif string) []ControlResult {
	dir := filepath.Join(verif, "checker", "testdata", "ctl")
	p, err := Load(LoadConfig{Dir: dir, ModPath: "ctl"})
	if err != nil {
		return []ControlResult{{Name: "load", Pass: false, Detail: err.Error()}}
	}
	var out []ControlResult
	for _, cd := range controlDefs {
		func() {
			defer func() {
				if r := recover(); r != nil {
					out = append(out, ControlResult{Name: cd.Name, Pass: false, Detail: fmt.Sprint("panic: ", r)})
				}
			}()
			c := NewCtx(p, "CTL", "ctl")
			cd.Run(c)
			viol := map[string]int{}
			okc := map[string]int{}
			other := map[string]int{}
			for _, r := range c.Results {
				switch r.Status {
				case StViolation:
					viol[r.Rule]++
				case StOK:
					okc[r.Rule]++
				default:
					other[r.Rule]++
				}
			}
			var probs []string
			for _, b := range cd.Bad {
				if viol[b] == 0 {
					probs = append(probs, "bad case "+b+" not reported")
				}
			}
			for _, g := range cd.Good {
				if viol[g] > 0 || other[g] > 0 {
					probs = append(probs, "good case "+g+" reported")
				}
				if okc[g] == 0 {
					probs = append(probs, "good case "+g+" produced no obligation")
				}
			}
			out = append(out, ControlResult{Name: cd.Name, Pass: len(probs) == 0, Detail: strings.Join(probs, "; ")})
		}()
	}
	return out
}
