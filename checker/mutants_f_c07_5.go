package main

// Regression mutants for F-C07-5 (a reply without an answer relays the upstream's
// authority and additional sections unfiltered).
func init() {
	addMutants("C07", []Mutant{
		{ID: "c07-negative-reply-not-scrubbed", File: "middleware/resolver/resolver.go", Expect: "C07-R12|(*middleware/resolver.Resolver).authority",
			Old: "\tscrubNegative(resp, zone)\n", New: "",
			Why: "F-C07-5: authority() hands the upstream's message back as it came; a NODATA/NXDOMAIN from the attacker.test. servers carries `www.bank.example. A 6.6.6.6` in its authority and additional sections to the client and into the cache"},
		{ID: "c07-negative-extra-kept", File: "middleware/resolver/resolver.go", Expect: "additional section rebuilt from OPT only",
			Old: "\t\t\tif rr.Header().Rrtype == dns.TypeOPT {\n\t\t\t\textra = append(extra, rr)\n\t\t\t}\n",
			New: "\t\t\tif rr.Header().Rrtype != dns.TypeNS {\n\t\t\t\textra = append(extra, rr)\n\t\t\t}\n",
			Why: "F-C07-5 (partial regression): the additional section is rebuilt, but from every record that is not an NS — foreign A/AAAA records survive on every negative arm and on the bare error-rcode return of resolve()"},
		{ID: "c07-negative-ns-filtered-by-type-only", File: "middleware/resolver/resolver.go", Expect: "authority section filtered to the asked zone",
			Old: "\t\tresp.Ns = dnsutil.FilterRRsToZone(resp.Ns, zone)\n\t}\n\tif len(resp.Extra) > 0 {",
			New: "\t\tresp.Ns = dnsutil.ExtractRRSet(resp.Ns, \"\", dns.TypeSOA, dns.TypeNSEC, dns.TypeNSEC3, dns.TypeRRSIG)\n\t}\n\tif len(resp.Extra) > 0 {",
			Why: "F-C07-5 (partial regression): a filter by record type is not a filter by owner — `bank.example. SOA …` from the attacker.test. servers survives, as it did through filterAuthorityRecords"},
	})
}
