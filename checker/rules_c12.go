package main

import (
	"fmt"
	"go/ast"
	"go/constant"
	"go/token"
	"go/types"
	"os"
	"sort"
	"strings"

	"golang.org/x/tools/go/ssa"
)

func init() {
	register(&PropDef{
		ID:    "C12",
		Title: "Bounded work per request: resolution always terminates within its budgets",
		Run:   runC12,
		Explanation: "Decided (structure only): R1 debit before effect — dial/exchange primitives of the resolution packages are called only from the enumerated egress owners; in Resolver.exchange every dial, pooled-connection use and wire exchange is behind the BeginResolutionAttempt* nil edge and (ledger present) the Debit/DebitBestEffort(OutboundQuery) nil edge; dnsclient.(*Client).Exchange dials only across BeforeAttempt's nil edge (or BeforeAttempt==nil) and every dnsclient.Client literal outside the startup probe installs a BeforeAttempt closure whose result is BeginResolutionAttempt's or DebitRecursionWork(OutboundQuery)'s error; pipelineQueryer.Query and Resolver.subQuery reach ch.Next / resolve only across DebitRecursionWork(InternalQuery)==nil; signature, DS-digest and NSEC3 hash computations are behind their Begin* nil edges. " +
			"R2 the ledger cannot be exceeded or reset — in debit the counter is touched only by Add on the shadow arm and by CompareAndSwap(used, used+1) behind used<limit; ledger counters are otherwise only Loaded; every path of debit/reject/checkLocal that crossed Mode==Shadow returns nil; nothing happens before Enabled(); policy is written only at construction; requestLedgers.work changes only by CompareAndSwap(nil, new); ledgers are constructed only in ensureRecursionWork; Chain.Next establishes one only at pos==0. " +
			"R3 every RecursionWorkKind constant is in exactly one of aggregateDimension / localDimension, and EnforcementError's range check names the largest kind. " +
			"R4 (decision table on the CFG) cacheableResolutionFailure ≡ ctx alive ∧ ¬best-effort ∧ no enforcement error ∧ no request-local failure, and the response writer records a failure only across its true edge; the over-budget reply is built with RcodeServerFailure and the ledger's EDE. " +
			"R5 recursion inventory — the call graph of middleware/... (static calls, function values, interface invokes resolved by types.Implements over module types) minus the three ranked heads (Chain.Next, pipelineQueryer.Query, Resolver.resolve) has exactly the tabled cyclic SCCs; every intra-cycle call of a head is a tabled back-edge; every call of resolve carries a recognised rank (level++, depth>0, nomin one-shot, error-count one-shot) or builds a fresh state in a tabled entry; heads and self-recursions check their own bound; depth constants are bounded.",
		NotDecided: []string{
			"the numeric bound on packets per request for all topologies (value-level; needs the product of the nested bounds)",
			"that the ranks actually bound the product of nested loops; that the DS/DNSKEY ascent reaches a proper ancestor (ValidateSigner) — table row with a semantic reason",
			"fan-out sizes (NS/DS/DNSKEY/RRSIG set sizes) and per-object local limits' call placement",
			"shadow vs. off reply equality beyond 'shadow never returns a rejection'",
			"calls through function-typed fields / reflection are not in the call graph; egress of dnstap, blocklist download and the kubernetes client is outside the request-scope inventory",
			"work == nil (no budget object) arms of the DNSSEC package are exempt edges",
		},
	})
}

const c12mw = "middleware"

func runC12(c *Ctx) {
	if os.Getenv("C12_DUMP") != "" {
		c12Dump(c)
	}
	c12R1(c)
	c12R2(c)
	c12R3(c)
	c12R4(c)
	c12R5(c)
}

func c12Dump(c *Ctx) {
	g := c12BuildGraph(c, "middleware")
	removed := map[*ssa.Function]bool{}
	for _, h := range strings.Split(os.Getenv("C12_HEADS"), ",") {
		if f := c.P.Func(h); h != "" && f != nil {
			removed[g.node(f)] = true
		}
	}
	for i, comp := range g.cyclicSCCs(removed) {
		fmt.Printf("SCC %d size=%d\n", i, len(comp))
		for _, f := range comp {
			fmt.Printf("   %s\n", fnKey(f))
		}
	}
}

// ---------------------------------------------------------------------------
// R1 debit before effect

func c12R1(c *Ctx) {
	const R = "C12-R1"
	c.Doc(R, "egress primitives only in the tabled owners; Resolver.exchange: dial / pooled conn / ExchangeInterruptible behind BeginResolutionAttempt*==nil and Debit*(OutboundQuery)==nil (or rs.work==nil); Client.Exchange dials behind BeforeAttempt()==nil; every dnsclient.Client literal sets BeforeAttempt to a closure returning Begin's/Debit's error; Query/subQuery debit InternalQuery before ch.Next/resolve; crypto behind Begin*")
	begin := c.fobj(R, c12mw+".BeginResolutionAttempt")
	beginCanon := c.fobj(R, c12mw+".BeginResolutionAttemptCanonical")
	debit := c.fobj(R, c12mw+".(*RecursionWorkLedger).Debit")
	debitBE := c.fobj(R, c12mw+".(*RecursionWorkLedger).DebitBestEffort")
	debitCtx := c.fobj(R, c12mw+".DebitRecursionWork")
	workF := c.field(R, c07res+".resolveState.work")
	dialUDP := c.fobj(R, c07res+".(*Resolver).dialUDP")
	dialCtx := c.fobj(R, "net.(*Dialer).DialContext")
	netDialUDP := c.fobj(R, "net.DialUDP")
	tlsDial := c.fobj(R, "crypto/tls.(*Dialer).DialContext")
	httpDo := c.fobj(R, "net/http.(*Client).Do")
	exchInt := c.fobj(R, c07dc+".(*Conn).ExchangeInterruptible")
	poolGet := c.fobj(R, c07res+".(*TCPConnPool).Get")
	clientExch := c.fobj(R, c07dc+".(*Client).Exchange")
	clientDial := c.fobj(R, c07dc+".(*Client).dial")
	doh := c.fobj(R, c07dc+".dohExchange")
	beforeF := c.field(R, c07dc+".Client.BeforeAttempt")
	next := c.fobj(R, c12mw+".(*Chain).Next")
	resolve := c.fobj(R, c07res+".(*Resolver).resolve")
	rexObj := c.fobj(R, c07res+".(*Resolver).exchange")
	if begin == nil || beginCanon == nil || debit == nil || debitBE == nil || debitCtx == nil || workF == nil || dialUDP == nil || dialCtx == nil || netDialUDP == nil || tlsDial == nil || httpDo == nil || exchInt == nil || poolGet == nil || clientExch == nil || clientDial == nil || doh == nil || beforeF == nil || next == nil || resolve == nil || rexObj == nil {
		return
	}
	outbound := c.P.ConstVal(c12mw + ".RecursionWorkOutboundQuery")
	internal := c.P.ConstVal(c12mw + ".RecursionWorkInternalQuery")
	if outbound == nil || internal == nil {
		c.unresolved(R, "RecursionWork kinds", "constants not found")
		return
	}
	isKind := func(k constant.Value) Pat {
		return func(e *Expr) bool {
			e = strip(e)
			return e != nil && e.K == EConst && e.Val != nil && constant.Compare(constant.ToInt(e.Val), token.EQL, constant.ToInt(k))
		}
	}

	// (a) egress inventory in the resolution packages
	scope := map[string]bool{c07res: true, "middleware/forwarder": true, "middleware/failover": true, c07dc: true}
	var egress []Site
	for _, f := range []*types.Func{dialCtx, netDialUDP, tlsDial, httpDo} {
		for _, s := range c.CallSites(f) {
			pk := fnPkg(s.Fn)
			if pk == nil || !scope[strings.TrimPrefix(pk.Path(), c.P.ModPath+"/")] {
				continue
			}
			egress = append(egress, s)
		}
	}
	c.c07WhoMay(R, "network egress primitive", egress, map[string]string{
		"(*" + c07res + ".Resolver).exchange": "debits in its prologue (below)",
		"(*" + c07res + ".Resolver).dialUDP":  "called only by exchange",
		"(*" + c07dc + ".Client).dial":        "called only by Client.Exchange after BeforeAttempt",
		c07dc + ".dohExchange":                "called only by Client.Exchange after BeforeAttempt",
		"middleware/forwarder.newDoHServer":   "DoH transport dial hook, runs under dohExchange's http.Client.Do",
	})
	c.c07WhoMay(R, "call Resolver.dialUDP", c.CallSites(dialUDP), map[string]string{"(*" + c07res + ".Resolver).exchange": "UDP fast path"})
	c.c07WhoMay(R, "call Resolver.exchange", c.CallSites(rexObj), map[string]string{
		"(*" + c07res + ".Resolver).exchange":    "retry / TCP fallback / no-EDNS retry through the same prologue",
		"(*" + c07res + ".Resolver).queryServer": "one attempt per selected server",
	})
	c.c07WhoMay(R, "call Client.dial", c.CallSites(clientDial), map[string]string{"(*" + c07dc + ".Client).Exchange": "after BeforeAttempt"})
	c.c07WhoMay(R, "call dohExchange", c.CallSites(doh), map[string]string{"(*" + c07dc + ".Client).Exchange": "after BeforeAttempt"})
	c.c07WhoMay(R, "call Client.Exchange", c.CallSites(clientExch), map[string]string{
		"(*" + c07dc + ".Client).Exchange":               "UDP→TCP fallback; BeforeAttempt inherited by the copied client",
		"(*middleware/forwarder.Forwarder).ServeDNS":     "client literal with BeforeAttempt (below)",
		"(*middleware/failover.ResponseWriter).WriteMsg": "client literal with BeforeAttempt (below)",
		"config.testIPv6Network":                         "startup IPv6 reachability probe, not in request scope",
	})

	// (b) Resolver.exchange prologue
	if rex := c.fn(R, c07res+".(*Resolver).exchange"); rex != nil {
		effect := isCallTo(dialUDP, dialCtx, exchInt, poolGet)
		// the prologue may be inline or an extracted unexported helper whose nil returns crossed the same edges
		c.MustCross(R, rex, "dial / exchange (attempt guard)", effect,
			c.c07LiftAny("BeginResolutionAttempt err=false", OnFalse("BeginResolutionAttempt err", c07Holds(CallTo(begin, beginCanon)))))
		c.MustCross(R, rex, "dial / exchange (work debit)", effect,
			c.c07LiftAny("Debit err=false,rs.work=false", OnFalse("Debit err", c07Holds(CallTo(debit, debitBE))), OnFalse("rs.work", FieldIs(workF))))
	}
	// every direct ledger debit in package resolver is an OutboundQuery debit
	for _, f := range []*types.Func{debit, debitBE} {
		for _, s := range c.CallSites(f) {
			pk := fnPkg(s.Fn)
			if pk == nil || !strings.HasSuffix(pk.Path(), "/"+c07res) || s.Kind == "ref" {
				continue
			}
			key := R + "|" + fnKey(TopLevel(s.Fn)) + "|debit kind"
			if isKind(outbound)(Desc(callArg(s.Instr, 1))) {
				c.ok(R, key, instrPos(s.Instr), "debits RecursionWorkOutboundQuery")
			} else {
				c.violation(R, key, instrPos(s.Instr), "the resolver's transport path debits a kind other than RecursionWorkOutboundQuery: "+Desc(callArg(s.Instr, 1)).String())
			}
		}
	}

	// (c) Client.Exchange: BeforeAttempt before dialling
	if cex := c.fn(R, c07dc+".(*Client).Exchange"); cex != nil {
		beforeCall := func(e *Expr) bool {
			e = strip(e)
			return e != nil && e.K == ECall && e.X != nil && FieldIs(beforeF)(e.X)
		}
		c.MustCross(R, cex, "dial / DoH exchange", isCallTo(clientDial, doh),
			c.c07LiftAny("BeforeAttempt err=false,BeforeAttempt==nil=false", OnFalse("BeforeAttempt err", beforeCall), OnFalse("BeforeAttempt==nil", FieldIs(beforeF))))
	}

	// (d) every Client literal installs the accounting hook
	exemptLit := map[string]string{"config.testIPv6Network": "startup IPv6 reachability probe, not in request scope"}
	usedExempt := map[string]bool{}
	nLit := 0
	for _, fn := range c.P.RepoFuncs() {
		for _, b := range fn.Blocks {
			for _, in := range b.Instrs {
				al, ok := in.(*ssa.Alloc)
				if !ok || !c07NamedType(al.Type(), c07dc, "Client") {
					continue
				}
				if _, isPtr := deref(al.Type()).(*types.Pointer); isPtr {
					continue
				}
				if al.Referrers() == nil {
					continue
				}
				copied := false
				var hook ssa.Value
				fieldStores := 0
				for _, r := range *al.Referrers() {
					switch x := r.(type) {
					case *ssa.Store:
						if x.Addr == al {
							copied = true
						}
					case *ssa.FieldAddr:
						st, _ := deref(x.X.Type()).Underlying().(*types.Struct)
						for _, rr := range *x.Referrers() {
							if s, ok := rr.(*ssa.Store); ok && s.Addr == x {
								fieldStores++
								if st != nil && st.Field(x.Field).Origin() == beforeF {
									hook = s.Val
								}
							}
						}
					}
				}
				top := fnKey(TopLevel(fn))
				key := fmt.Sprintf("%s|%s|dnsclient.Client literal", R, top)
				if copied && hook == nil {
					c.ok(R, key, instrPos(in), "copy of an existing Client (hook inherited)")
					nLit++
					continue
				}
				if fieldStores == 0 && hook == nil {
					continue // plain variable, not a literal
				}
				nLit++
				if hook == nil {
					if reason, ok := exemptLit[top]; ok {
						usedExempt[top] = true
						c.ok(R, key, instrPos(in), "exempt: "+reason)
					} else {
						c.violation(R, key, instrPos(in), "dnsclient.Client built without BeforeAttempt: its attempts (and the UDP→TCP fallback) are neither attempt-guarded nor debited")
					}
					continue
				}
				hf := c12ClosureOf(hook)
				if hf == nil {
					c.undecided(R, key, instrPos(in), "BeforeAttempt is not a function literal: "+Desc(hook).String())
					continue
				}
				// the hook's result is Begin's error or DebitRecursionWork(OutboundQuery)'s
				okHook := true
				why := ""
				nb, nd := 0, 0
				for _, ci := range instrsWhere(hf, isPlainCallTo(begin, beginCanon)) {
					_ = ci
					nb++
				}
				for _, ci := range instrsWhere(hf, isPlainCallTo(debitCtx)) {
					nd++
					if !isKind(outbound)(Desc(callArg(ci, 1))) {
						okHook, why = false, "debits a kind other than OutboundQuery"
					}
				}
				if nb == 0 || nd == 0 {
					okHook, why = false, "does not call both BeginResolutionAttempt and DebitRecursionWork"
				}
				for _, ri := range instrsWhere(hf, isReturn) {
					ret := ri.(*ssa.Return)
					if ret.Parent() != hf || len(ret.Results) != 1 {
						continue
					}
					for _, l := range Origins(Desc(ret.Results[0]), nil) {
						if !CallTo(begin, beginCanon, debitCtx)(l) {
							okHook, why = false, "may return "+l.String()+" instead of the guard's / ledger's verdict"
						}
					}
				}
				if okHook {
					// the debit is reached only when the attempt guard admitted the attempt
					if ug, tr := c.unguarded(instrsWhere(hf, isPlainCallTo(debitCtx))[0], []Barrier{OnFalse("Begin err", CallTo(begin, beginCanon))}, hf); ug {
						okHook, why = false, "debits before/without the attempt guard's nil edge; path "+tr
					}
				}
				if okHook {
					c.ok(R, key, instrPos(in), "BeforeAttempt = {BeginResolutionAttempt; DebitRecursionWork(OutboundQuery)} and returns their verdict")
				} else {
					c.violation(R, key, instrPos(in), "BeforeAttempt hook "+why)
				}
			}
		}
	}
	for k := range exemptLit {
		if !usedExempt[k] {
			c.unresolved(R, "Client literal exemption|"+k, "exempt literal no longer exists (stale row)")
		}
	}

	// (e) internal sub-queries
	if qf := c.fn(R, c12mw+".(*pipelineQueryer).Query"); qf != nil {
		c.MustCross(R, qf, "ch.Next", isCallTo(next), c.c07LiftAny("DebitRecursionWork err=false", OnFalse("DebitRecursionWork err", CallTo(debitCtx))))
		for _, in := range instrsWhere(qf, isPlainCallTo(debitCtx)) {
			key := R + "|pipelineQueryer.Query|debit kind"
			if isKind(internal)(Desc(callArg(in, 1))) {
				c.ok(R, key, instrPos(in), "debits RecursionWorkInternalQuery")
			} else {
				c.violation(R, key, instrPos(in), "Query debits a kind other than RecursionWorkInternalQuery")
			}
		}
	}
	if sf := c.fn(R, c07res+".(*Resolver).subQuery"); sf != nil {
		c.MustCross(R, sf, "r.resolve", isCallTo(resolve), c.c07LiftAny("DebitRecursionWork err=false", OnFalse("DebitRecursionWork err", CallTo(debitCtx))))
		for _, in := range instrsWhere(sf, isPlainCallTo(debitCtx)) {
			key := R + "|Resolver.subQuery|debit kind"
			if isKind(internal)(Desc(callArg(in, 1))) {
				c.ok(R, key, instrPos(in), "debits RecursionWorkInternalQuery")
			} else {
				c.violation(R, key, instrPos(in), "subQuery debits a kind other than RecursionWorkInternalQuery")
			}
		}
	}

	// (f) crypto gates
	const dp = c07res + "/dnssec"
	type gate struct {
		work  string // crypto primitive
		begin []string
		byM   string // interface method name (when the gate is called through the work interface)
	}
	for _, gt := range []gate{
		{dp + ".cryptoVerify", []string{dp + ".beginSignature"}, ""},
		{dp + ".dsDigestMatches", []string{dp + ".beginDSDigest"}, ""},
		{c07dns + ".(*DNSKEY).ToDS", []string{dp + ".beginDSDigest"}, ""},
		{dp + ".calculateAggressiveNSEC3Hash", nil, "BeginNSEC3Hash"},
	} {
		prim := c.fobj(R, gt.work)
		if prim == nil {
			continue
		}
		gates := c.fobjs(R, gt.begin...)
		n := 0
		for _, s := range c.CallSites(prim) {
			pk := fnPkg(s.Fn)
			if pk == nil || !strings.HasSuffix(pk.Path(), dp) {
				continue
			}
			n++
			key := fmt.Sprintf("%s|%s|%s behind its Begin* gate", R, fnKey(TopLevel(s.Fn)), prim.Name())
			var bars []Barrier
			if gt.byM != "" {
				bars = []Barrier{OnFalse(gt.byM+" err", c12MethodResult(1, gt.byM)), OnFalse("work==nil", func(e *Expr) bool {
					e = strip(e)
					return e != nil && e.K == EField && e.Name == "work"
				})}
			} else {
				bars = []Barrier{OnFalse(gt.begin[0]+" err", ResultOf(1, gates...))}
			}
			if ug, tr := c.unguarded(s.Instr, bars, TopLevel(s.Fn)); ug {
				c.violation(R, key, instrPos(s.Instr), prim.Name()+" reachable without its work gate's nil-error edge; path "+tr)
			} else {
				c.ok(R, key, instrPos(s.Instr), prim.Name()+" only behind "+bars[0].Name)
			}
		}
		if n == 0 {
			c.unresolved(R, gt.work, "no call site of the crypto primitive found in the dnssec package")
		}
	}
	// the gates themselves forward the interface's verdict
	for _, g := range []struct{ fn, m string }{{dp + ".beginSignature", "BeginSignature"}, {dp + ".beginDSDigest", "BeginDSDigest"}} {
		gf := c.fn(R, g.fn)
		if gf == nil {
			continue
		}
		c.MustCross(R, gf, "release returned", isReturnWith(0, c12MethodResult(0, g.m)), OnFalse(g.m+" err", c12MethodResult(1, g.m)))
	}
	// resolver adapter: Begin* debit the matching kind before the limiter
	if bf := c.fn(R, c07res+".(dnssecWorkBudget).begin"); bf != nil {
		acq := c.fobj(R, dp+".(*CryptoLimiter).Acquire")
		if acq != nil {
			c.MustCross(R, bf, "limiter.Acquire / success return", func(in ssa.Instruction) bool {
				return isPlainCallTo(acq)(in) || isReturnWith(1, IsNilConst)(in)
			}, OnFalse("DebitRecursionWork err", CallTo(debitCtx)))
		}
	}
	c.Floor(R, 45)
}

// ---------------------------------------------------------------------------
// R2 the ledger cannot be exceeded or reset

func c12R2(c *Ctx) {
	const R = "C12-R2"
	c.Doc(R, "debit: counter.Add only on the shadow arm, CompareAndSwap(used, used+1) only behind used<limit, nothing else; ledger counters elsewhere only Loaded; shadow arms of debit/reject/checkLocal return nil; Enabled() checked first; policy stored only at construction; requestLedgers.work only CompareAndSwap(nil, x); NewRecursionWorkLedger only in ensureRecursionWork; Chain.Next ensures a ledger only at pos==0")
	modeF := c.field(R, c12mw+".RecursionWorkPolicy.Mode")
	policyF := c.field(R, c12mw+".RecursionWorkLedger.policy")
	aggr := c.fobj(R, c12mw+".(*RecursionWorkLedger).aggregateDimension")
	local := c.fobj(R, c12mw+".(*RecursionWorkLedger).localDimension")
	enabled := c.fobj(R, c12mw+".RecursionWorkPolicy.Enabled")
	shadowV := c.P.ConstVal(c12mw + ".RecursionWorkShadow")
	enforceV := c.P.ConstVal(c12mw + ".RecursionWorkEnforce")
	if modeF == nil || policyF == nil || aggr == nil || local == nil || enabled == nil || shadowV == nil || enforceV == nil {
		c.unresolved(R, "anchors", "ledger anchors not found")
		return
	}
	sv, _ := constant.Int64Val(constant.ToInt(shadowV))
	isShadow := OnCmp("shadow", FieldIs(modeF), token.EQL, IsConstInt(sv), true)
	isShadow.Name = "shadow"

	// shadow never rejects
	for _, name := range []string{"debit", "reject", "checkLocal"} {
		fn := c.fn(R, c12mw+".(*RecursionWorkLedger)."+name)
		if fn == nil {
			continue
		}
		ends, complete := c.c07Walk(fn, c07WalkSpec{Markers: []Barrier{isShadow}, GlobalsNonNil: true})
		if !complete {
			c.undecided(R, R+"|"+name+"|walk", fn.Pos(), "path enumeration exceeded its budget")
		}
		n := 0
		var bad *c07PathEnd
		for i := range ends {
			e := &ends[i]
			if !e.Marks["shadow"] || len(e.Vals) != 1 {
				continue
			}
			n++
			if e.Nil[0] != -1 && bad == nil {
				bad = e
			}
		}
		key := fmt.Sprintf("%s|(*RecursionWorkLedger).%s|shadow arm returns nil", R, name)
		switch {
		case n == 0:
			c.unresolved(R, name+"|shadow arm", "no path crosses Mode == RecursionWorkShadow")
		case bad != nil:
			c.violation(R, key, bad.Ret.Pos(), "a path that crossed Mode == RecursionWorkShadow can return a non-nil error: shadow mode would change replies; path "+bad.Trail)
		default:
			c.ok(R, key, fn.Pos(), fmt.Sprintf("%d shadow path classes, all return nil", n))
		}
		// off: nothing before Enabled()
		c.MustCross(R, fn, "dimension lookup / exhaustion mark", isCallTo(aggr, local, c.P.FuncObj(c12mw+".(*RecursionWorkLedger).markExhausted")), OnTrue("policy.Enabled()", CallTo(enabled)))
	}

	// debit's counter discipline
	if df := c.fn(R, c12mw+".(*RecursionWorkLedger).debit"); df != nil {
		counter := ResultOf(0, aggr)
		limit := ResultOf(1, aggr)
		isLoad := func(e *Expr) bool {
			e = strip(e)
			return e != nil && e.K == ECall && e.Fn != nil && e.Fn.Name() == "Load" && len(e.Args) == 1 && counter(e.Args[0])
		}
		n := 0
		// the counter operations may sit in debit itself or in an unexported helper it
		// calls (the CAS loop extracted); a helper's parameters are read as the arguments
		// of debit's call
		type actOp struct {
			in  ssa.Instruction
			act []*Expr
		}
		var ops []actOp
		for _, g := range scopeFuncs(df) {
			acts := [][]*Expr{nil}
			if TopLevel(g) != df {
				acts = helperActivations(df, TopLevel(g))
			}
			for _, b := range g.Blocks {
				for _, in := range b.Instrs {
					cl, ok := in.(*ssa.Call)
					if !ok || len(cl.Call.Args) == 0 || cl.Call.IsInvoke() {
						continue
					}
					fo, _, _ := calleeObj(&cl.Call)
					if fo == nil || fo.Pkg() == nil || fo.Pkg().Path() != "sync/atomic" {
						continue
					}
					for _, act := range acts {
						if counter(inActivation(Desc(cl.Call.Args[0]), act)) {
							ops = append(ops, actOp{in, act})
						}
					}
				}
			}
		}
		for _, op := range ops {
			in, act := op.in, op.act
			cl := in.(*ssa.Call)
			fo, _, _ := calleeObj(&cl.Call)
			key := fmt.Sprintf("%s|debit|counter.%s", R, fo.Name())
			n++
			switch fo.Name() {
			case "Load":
				c.ok(R, key, instrPos(in), "read")
			case "Add":
				if ug, tr := c.unguarded(in, []Barrier{isShadow}, df); ug {
					c.violation(R, key, instrPos(in), "counter.Add reachable outside the shadow arm: an enforced counter can pass its cap; path "+tr)
				} else if !IsConstInt(1)(Desc(cl.Call.Args[1])) {
					c.violation(R, key, instrPos(in), "shadow Add delta is not 1")
				} else {
					c.ok(R, key, instrPos(in), "Add(1) only on the shadow arm")
				}
			case "CompareAndSwap":
				old, nw := inActivation(Desc(cl.Call.Args[1]), act), strip(inActivation(Desc(cl.Call.Args[2]), act))
				okArgs := isLoad(old) && nw != nil && nw.K == EBin && nw.Op == token.ADD && isLoad(nw.X) && IsConstInt(1)(nw.Y)
				ug, tr := c.unguarded(in, []Barrier{OnCmp("used<limit", isLoad, token.GEQ, limit, false)}, df)
				switch {
				case !okArgs:
					c.violation(R, key, instrPos(in), "CompareAndSwap is not (used, used+1) on the loaded value: "+old.String()+" → "+nw.String())
				case ug:
					c.violation(R, key, instrPos(in), "CompareAndSwap reachable without the used < limit edge; path "+tr)
				default:
					c.ok(R, key, instrPos(in), "CompareAndSwap(used, used+1) behind used < limit")
				}
			default:
				c.violation(R, key, instrPos(in), "counter."+fo.Name()+" overwrites an accepted-work counter (budget reset / lost debit)")
			}
		}
		if n < 3 {
			c.unresolved(R, "debit|counter ops", fmt.Sprintf("expected Load, Add and CompareAndSwap on the aggregate counter, found %d operations", n))
		}
		// the accept (nil) return of the enforce arm follows a successful CAS
		c.MustCross(R, df, "accept return (nil)", isReturnWith(0, IsNilConst),
			OnTrue("CAS ok", func(e *Expr) bool {
				e = strip(e)
				return e != nil && e.K == ECall && e.Fn != nil && e.Fn.Name() == "CompareAndSwap"
			}), isShadow, OnFalse("Enabled", CallTo(enabled)), OnTrue("control ledger", ResultOf(1, c.P.FuncObj(c12mw+".(*RecursionWorkLedger).controlError"))),
			OnFalse("l==nil", c07ParamIdx(0)))
	}

	// counters elsewhere: Load only; their address escapes only in aggregateDimension
	counters := map[*types.Var]bool{}
	for _, f := range []string{"outbound", "internal", "signatures", "dsDigests", "nsec3Hashes"} {
		if fv := c.field(R, c12mw+".RecursionWorkLedger."+f); fv != nil {
			counters[fv] = true
		}
	}
	for _, fn := range c.P.RepoFuncs() {
		for _, b := range fn.Blocks {
			for _, in := range b.Instrs {
				fa, ok := in.(*ssa.FieldAddr)
				if !ok {
					continue
				}
				st, ok := deref(fa.X.Type()).Underlying().(*types.Struct)
				if !ok || !counters[st.Field(fa.Field).Origin()] || fa.Referrers() == nil {
					continue
				}
				name := st.Field(fa.Field).Name()
				for _, r := range *fa.Referrers() {
					key := fmt.Sprintf("%s|%s|ledger.%s use", R, fnKey(TopLevel(fn)), name)
					if cl, ok := r.(*ssa.Call); ok && len(cl.Call.Args) > 0 && cl.Call.Args[0] == fa {
						if fo, _, _ := calleeObj(&cl.Call); fo != nil && fo.Name() == "Load" {
							c.ok(R, key, instrPos(r), "Load")
							continue
						} else if fo != nil {
							c.violation(R, key, instrPos(r), "ledger counter "+name+"."+fo.Name()+" outside debit: accepted work can be reset or skipped")
							continue
						}
					}
					if _, isDbg := r.(*ssa.DebugRef); isDbg {
						continue
					}
					if fnKey(TopLevel(fn)) == "(*middleware.RecursionWorkLedger).aggregateDimension" {
						c.ok(R, key, instrPos(r), "address handed to debit by aggregateDimension")
					} else {
						c.violation(R, key, instrPos(r), "address of ledger counter "+name+" escapes outside aggregateDimension")
					}
				}
			}
		}
	}
	c.c07WhoMay(R, "call aggregateDimension", c.CallSites(aggr), map[string]string{
		"(*middleware.RecursionWorkLedger).debit": "the only mutator",
		"(*middleware.RecursionWorkLedger).limit": "reads the limit only",
	})
	if lf := c.fn(R, c12mw+".(*RecursionWorkLedger).limit"); lf != nil {
		bad := false
		for _, in := range instrsWhere(lf, isPlainCallTo(aggr)) {
			if cl, ok := in.(*ssa.Call); ok && cl.Referrers() != nil {
				for _, r := range *cl.Referrers() {
					if ex, ok := r.(*ssa.Extract); ok && ex.Index == 0 && ex.Referrers() != nil && len(*ex.Referrers()) > 0 {
						bad = true
					}
				}
			}
		}
		if bad {
			c.violation(R, R+"|limit|counter unused", lf.Pos(), "limit() uses the counter returned by aggregateDimension")
		} else {
			c.ok(R, R+"|limit|counter unused", lf.Pos(), "limit() ignores the counter pointer")
		}
	}
	c.c07WhoMay(R, "store RecursionWorkLedger.policy", c.StoreSites(policyF), map[string]string{"middleware.NewRecursionWorkLedger": "immutable after construction"})

	// one ledger per tree
	if nl := c.fobj(R, c12mw+".NewRecursionWorkLedger"); nl != nil {
		c.c07WhoMay(R, "call NewRecursionWorkLedger", c.CallSites(nl), map[string]string{"(*middleware.ResponseMeta).ensureRecursionWork": "first recursive work of the tree"})
	}
	if wf := c.field(R, c12mw+".requestLedgers.work"); wf != nil {
		n := 0
		for _, fn := range c.P.FuncsInPkg(c12mw) {
			for _, b := range fn.Blocks {
				for _, in := range b.Instrs {
					cl, ok := in.(*ssa.Call)
					if !ok || cl.Call.IsInvoke() || len(cl.Call.Args) == 0 || !FieldIs(wf)(Desc(cl.Call.Args[0])) {
						continue
					}
					fo, _, _ := calleeObj(&cl.Call)
					if fo == nil {
						continue
					}
					n++
					key := fmt.Sprintf("%s|%s|requestLedgers.work.%s", R, fnKey(TopLevel(fn)), fo.Name())
					switch fo.Name() {
					case "Load":
						c.ok(R, key, instrPos(in), "read")
					case "CompareAndSwap":
						if IsNilConst(Desc(cl.Call.Args[1])) {
							c.ok(R, key, instrPos(in), "installed only over nil")
						} else {
							c.violation(R, key, instrPos(in), "the tree's ledger is replaced by CAS from a non-nil value: budgets reset mid-tree")
						}
					default:
						c.violation(R, key, instrPos(in), "requestLedgers.work."+fo.Name()+" replaces the tree's ledger: budgets reset mid-tree")
					}
				}
			}
		}
		if n < 3 {
			c.unresolved(R, "requestLedgers.work", fmt.Sprintf("expected ≥3 accesses, found %d", n))
		}
	}
	if nf := c.fn(R, c12mw+".(*Chain).Next"); nf != nil {
		posF := c.field(R, c12mw+".Chain.pos")
		ensure := c.fobj(R, c12mw+".EnsureRecursionWork")
		owner := c.fobj(R, c12mw+".beginLazyRecursionWorkOwner")
		if posF != nil && ensure != nil && owner != nil {
			c.MustCross(R, nf, "ledger owner established", isCallTo(ensure, owner), OnCmp("ch.pos==0", FieldIs(posF), token.EQL, IsConstInt(0), true))
		}
	}
	c.Floor(R, 32)
}

// ---------------------------------------------------------------------------
// R3 kinds are partitioned

func c12R3(c *Ctx) {
	const R = "C12-R3"
	c.Doc(R, "every RecursionWorkKind constant is a case of exactly one of aggregateDimension / localDimension; EnforcementError's range check uses the largest kind")
	tn := c.P.TypeName(c12mw + ".RecursionWorkKind")
	pk := c.P.ByPath[c.P.expand(c12mw)]
	if tn == nil || pk == nil {
		c.unresolved(R, "RecursionWorkKind", "type not found")
		return
	}
	all := map[string]bool{}
	names := map[string]string{}
	var max int64 = -1
	for _, n := range pk.Types.Scope().Names() {
		if k, ok := pk.Types.Scope().Lookup(n).(*types.Const); ok && types.Identical(k.Type(), tn.Type()) {
			all[k.Val().ExactString()] = true
			names[k.Val().ExactString()] = n
			if v, ok := constant.Int64Val(constant.ToInt(k.Val())); ok && v > max {
				max = v
			}
		}
	}
	sets := map[string]map[string]bool{}
	for _, f := range []string{"aggregateDimension", "localDimension"} {
		fd, fpk := c.P.FuncDecl(c12mw + ".(*RecursionWorkLedger)." + f)
		if fd == nil {
			c.unresolved(R, f, "syntax not found")
			return
		}
		s, n := caseConsts(fd, fpk.TypesInfo, func(sw *ast.SwitchStmt) bool {
			if sw.Tag == nil {
				return false
			}
			tv, ok := fpk.TypesInfo.Types[sw.Tag]
			return ok && types.Identical(tv.Type, tn.Type())
		})
		if n != 1 {
			c.undecided(R, R+"|"+f, fd.Pos(), fmt.Sprintf("expected one switch over the kind, found %d", n))
			return
		}
		sets[f] = s
	}
	var ks []string
	for k := range all {
		ks = append(ks, k)
	}
	sort.Strings(ks)
	for _, k := range ks {
		a, l := sets["aggregateDimension"][k], sets["localDimension"][k]
		key := R + "|kind " + names[k]
		switch {
		case a && l:
			c.violation(R, key, tn.Pos(), names[k]+" is both an aggregate and a local dimension")
		case !a && !l:
			c.violation(R, key, tn.Pos(), names[k]+" is classified by neither aggregateDimension nor localDimension: debiting it panics or is never limited")
		case a:
			c.ok(R, key, tn.Pos(), names[k]+" → aggregate counter")
		default:
			c.ok(R, key, tn.Pos(), names[k]+" → local limit")
		}
	}
	for _, f := range []string{"aggregateDimension", "localDimension"} {
		for k := range sets[f] {
			if !all[k] {
				c.violation(R, R+"|"+f+"|stale case", tn.Pos(), "case "+k+" is not a RecursionWorkKind constant")
			}
		}
	}
	if ef := c.fn(R, c12mw+".(*RecursionWorkLedger).EnforcementError"); ef != nil {
		found := false
		for _, b := range ef.Blocks {
			if len(b.Instrs) == 0 {
				continue
			}
			if iff, ok := b.Instrs[len(b.Instrs)-1].(*ssa.If); ok {
				if m, _ := CmpMatch(condOf(iff), func(e *Expr) bool { e = strip(e); return e != nil && e.K == ECall }, token.GTR, IsAnyConst); m {
					a, _ := Truthy(condOf(iff))
					var k *Expr
					if IsAnyConst(a.Y) {
						k = strip(a.Y)
					} else {
						k = strip(a.X)
					}
					found = true
					key := R + "|EnforcementError|range check"
					if v, ok := constInt(k); ok && v == max+1 {
						c.ok(R, key, instrPos(iff), fmt.Sprintf("first > %d (largest kind + 1)", v))
					} else {
						c.violation(R, key, instrPos(iff), fmt.Sprintf("range check constant %s is not largest kind + 1 = %d: a latched rejection of the newest kind is reported as no error", k.String(), max+1))
					}
				}
			}
		}
		if !found {
			c.unresolved(R, "EnforcementError|range check", "comparison not found")
		}
	}
	c.Floor(R, 9)
}

// ---------------------------------------------------------------------------
// R4 budget failures are request-local

func c12R4(c *Ctx) {
	const R = "C12-R4"
	const pkg = "middleware/cache"
	c.Doc(R, "cacheableResolutionFailure ≡ EffectiveError(ctx)==nil ∧ ¬IsBestEffortRecursionWork ∧ RecursionWorkEnforcementError==nil ∧ RequestLocalFailureForResponse==nil; the response writer calls RecordFailure only across its true edge; recursionWorkFailure builds a SERVFAIL with the ledger's EDE")
	cacheable := c.fobj(R, pkg+".cacheableResolutionFailure")
	record := c.fobj(R, pkg+".(*Store).RecordFailure")
	eff := c.fobj(R, "internal/contextutil.EffectiveError")
	be := c.fobj(R, c12mw+".IsBestEffortRecursionWork")
	enf := c.fobj(R, c12mw+".RecursionWorkEnforcementError")
	loc := c.fobj(R, c12mw+".RequestLocalFailureForResponse")
	if cacheable == nil || record == nil || eff == nil || be == nil || enf == nil || loc == nil {
		return
	}
	// the formula is decided on the CFG, so the && chain and the equivalent
	// early-return guards give the same decision table
	{
		ctxP := c07ParamIdx(0)
		call1 := func(f *types.Func) Pat {
			return func(e *Expr) bool {
				e = strip(e)
				return e != nil && e.K == ECall && CallTo(f)(e) && len(e.Args) >= 1 && c07Through(ctxP)(e.Args[0])
			}
		}
		locCall := func(e *Expr) bool {
			e = strip(e)
			return e != nil && e.K == ECall && CallTo(loc)(e) && len(e.Args) == 2 && c07Through(ctxP)(e.Args[0]) && c07Through(c07ParamIdx(1))(e.Args[1])
		}
		c.c07FormulaCheck(R, R+"|cacheableResolutionFailure|formula", c.fn(R, pkg+".cacheableResolutionFailure"), 0, []c07Atom{
			c07AtomTruthy("ctxerr", call1(eff)),
			c07AtomTruthy("besteffort", call1(be)),
			c07AtomTruthy("enforceerr", call1(enf)),
			c07AtomTruthy("localerr", locCall),
		}, func(v map[string]bool) bool {
			return !v["ctxerr"] && !v["besteffort"] && !v["enforceerr"] && !v["localerr"]
		},
			"EffectiveError(ctx)==nil ∧ ¬IsBestEffortRecursionWork(ctx) ∧ RecursionWorkEnforcementError(ctx)==nil ∧ RequestLocalFailureForResponse(ctx,res)==nil")
	}

	seen := map[*ssa.Function]bool{}
	for _, s := range c.CallSites(cacheable) {
		top := TopLevel(s.Fn)
		if seen[top] {
			continue
		}
		seen[top] = true
		c.MustCross(R, top, "RecordFailure", isCallTo(record), OnTrue("cacheableResolutionFailure", CallTo(cacheable)))
	}
	if rf := c.fn(R, pkg+".(*ResponseWriter).recursionWorkFailure"); rf != nil {
		set := c.fobj(R, "internal/dnsutil.SetRcodeWithEDE")
		ede := c.fobj(R, c12mw+".RecursionWorkEDE")
		if set != nil && ede != nil {
			for _, in := range instrsWhere(rf, isPlainCallTo(set)) {
				key := R + "|recursionWorkFailure|reply shape"
				if IsConstInt(2)(Desc(callArg(in, 1))) && ResultOf(0, ede)(Desc(callArg(in, 3))) && ResultOf(1, ede)(Desc(callArg(in, 4))) {
					c.ok(R, key, instrPos(in), "SERVFAIL with RecursionWorkEDE's code and text")
				} else {
					c.violation(R, key, instrPos(in), "the over-budget reply is not SERVFAIL + the ledger's EDE")
				}
			}
		}
	}
	c.Floor(R, 4)
}

// ---------------------------------------------------------------------------
// R5 recursion inventory

func c12R5(c *Ctx) {
	const R = "C12-R5"
	c.Doc(R, "call graph of middleware/... (static + function values + interface invokes by types.Implements): minus the ranked heads {Chain.Next, pipelineQueryer.Query, Resolver.resolve} the cyclic SCCs are exactly the tabled ones; intra-cycle calls of a head are tabled back-edges; each resolve call carries a recognised rank; heads/self-recursions check their bound; depth constants bounded")
	g := c12BuildGraph(c, "middleware")
	heads := map[string]string{
		"(*middleware.Chain).Next":                "ch.count strictly decreases (count-- before ServeDNS, return at count==0); bounded by the handler list",
		"(*middleware.pipelineQueryer).Query":     "ctx depth counter: depth >= maxQueryerRecursion ⇒ ErrMaxRecursion; depth+1 handed on",
		"(*middleware/resolver.Resolver).resolve": "every re-entry carries a rank checked per call site (level++ ≤ labels, depth>0, nomin one-shot, error-count one-shot); fresh states only from the tabled entries; DS/DNSKEY ascent reaches a proper ancestor (semantic, ValidateSigner)",
	}
	removed := map[*ssa.Function]bool{}
	headFn := map[*ssa.Function]string{}
	for _, n := range sortedKeys(heads) {
		found := false
		for f := range g.nodes {
			if fnKey(f) == n {
				removed[f] = true
				headFn[f] = n
				found = true
			}
		}
		if !found {
			c.unresolved(R, "head|"+n, "ranked head not found in the call graph (stale row)")
		}
	}
	// residual cycles: allow-table keyed by an anchor member
	allowed := map[string]string{
		"(*middleware.forkedCutContext).Value":            "context parent chain: delegates to the embedded parent context; chain length is finite",
		"(*middleware.responseWriter).Write":              "writer-wrapper delegation (type-level): bounded by the number of installed wrappers",
		"(*middleware.responseWriter).WriteMsg":           "writer-wrapper delegation incl. failure writers re-entering the inner writer: bounded by the number of installed wrappers",
		"(*middleware/dnstap.responseWriter).AbortWire":   "writer-wrapper delegation (type-level)",
		"(*middleware/dnstap.responseWriter).BeginWire":   "writer-wrapper delegation (type-level)",
		"(*middleware/dnstap.responseWriter).Size":        "writer-wrapper delegation (type-level)",
		"(*middleware/dnstap.responseWriter).WireReady":   "writer-wrapper delegation (type-level)",
		"(*middleware/dnstap.responseWriter).WriteWire":   "writer-wrapper delegation (type-level)",
		"(*middleware/resolver.Resolver).exchange":        "self: retried<2 / udp→tcp once / EDNS cleared once (checked below)",
		"(*middleware/resolver.Resolver).searchCache":     "self: one label shorter per step, or restart after removing the broken entry (checked below)",
		"(*middleware/resolver.fatalResolverError).Error": "error wrapper chain (type-level): finite unwrap chain",
	}
	// the source gate of C17-R7 (exists only once the fix of F-C17-1 is in the tree, hence not a fixed row)
	if c.P.FuncObj("middleware.(*Pipeline).AdmitsSource") != nil {
		allowed["(*middleware.Pipeline).AdmitsSource"] = "type-level only: *Pipeline has the signature of SourceAdmitter.AdmitsSource but is no Handler, so it is never an element of the p.handlers it ranges over; one pass over the handler list"
	}
	used := map[string]bool{}
	inBig := map[*ssa.Function]bool{}
	for _, comp := range g.cyclicSCCs(nil) {
		hasHead := false
		for _, f := range comp {
			if removed[f] {
				hasHead = true
			}
		}
		if hasHead {
			for _, f := range comp {
				inBig[f] = true
			}
		}
	}
	for _, comp := range g.cyclicSCCs(removed) {
		var anchors []string
		var members []string
		for _, f := range comp {
			members = append(members, fnKey(f))
			if _, ok := allowed[fnKey(f)]; ok {
				anchors = append(anchors, fnKey(f))
			}
		}
		key := R + "|cyclic SCC|" + members[0]
		switch {
		case len(anchors) == 0:
			c.violation(R, key, comp[0].Pos(), fmt.Sprintf("new recursion cycle without a ranked head or table row (%d functions): %s", len(comp), trunc(strings.Join(members, ", "), 400)))
		case len(anchors) > 1:
			c.violation(R, key, comp[0].Pos(), "two tabled cycles merged into one (new back-edge): "+strings.Join(anchors, " + "))
		default:
			used[anchors[0]] = true
			c.ok(R, key, comp[0].Pos(), fmt.Sprintf("%d functions; %s", len(comp), allowed[anchors[0]]))
		}
	}
	for _, a := range sortedKeys(allowed) {
		if !used[a] {
			c.unresolved(R, "cyclic SCC row|"+a, "tabled cycle no longer exists (stale row)")
		}
	}

	// back-edges: calls of a head from inside its cycle.  Chain.Next and
	// pipelineQueryer.Query bound themselves (checked below), so who calls them
	// is not a condition of termination and is only recorded.  Resolver.resolve
	// has no rank of its own: every call of it must carry a recognised rank on
	// its path (from whichever function, so an extracted helper is fine), or
	// build a fresh state in one of the tabled entries.
	backEdges := map[string]string{
		"(*middleware/resolver.Resolver).Resolve → (*middleware/resolver.Resolver).resolve":  "entry",
		"(*middleware/resolver.Resolver).subQuery → (*middleware/resolver.Resolver).resolve": "entry",
	}
	usedBE := map[string]bool{}
	var callers []*ssa.Function
	for f := range g.succ {
		callers = append(callers, f)
	}
	sort.Slice(callers, func(i, j int) bool { return fnKey(callers[i]) < fnKey(callers[j]) })
	levelF := c.field(R, c07res+".resolveState.level")
	depthF := c.field(R, c07res+".resolveState.depth")
	nominF := c.field(R, c07res+".resolveState.nomin")
	addU32 := c.fobj(R, "sync/atomic.AddUint32")
	for _, from := range callers {
		if !inBig[from] {
			continue
		}
		for to, sites := range g.succ[from] {
			hn, isHead := headFn[to]
			if !isHead {
				continue
			}
			ek := fnKey(from) + " → " + hn
			key := R + "|back-edge|" + ek
			if hn != "(*middleware/resolver.Resolver).resolve" {
				c.ok(R, key, instrPos(sites[0]), "back-edge into a self-ranked head: "+heads[hn])
				continue
			}
			reason, tabled := backEdges[ek]
			if tabled {
				usedBE[ek] = true
			}
			if levelF == nil || depthF == nil || nominF == nil || addU32 == nil {
				continue
			}
			// per call site rank for resolve
			for _, in := range sites {
				if callCommon(in) == nil {
					continue
				}
				fresh := false
				if al, ok := callArg(in, 2).(*ssa.Alloc); ok && al.Heap {
					fresh = true
				}
				ranks := []Barrier{
					StoreBarrier("rs.level++", levelF, func(e *Expr) bool {
						e = strip(e)
						return e != nil && e.K == EBin && e.Op == token.ADD && FieldIs(levelF)(e.X) && IsConstInt(1)(e.Y)
					}),
					OnCmp("rs.depth>0", FieldIs(depthF), token.LEQ, IsConstInt(0), false),
					// one-shot: the state handed on has nomin set (a store, or the literal of a fresh state);
					// "the current state's nomin is false" alone is NOT a rank — it stays false on re-entry
					StoreBarrier("rs.nomin=true (one-shot)", nominF, IsConstBool(true)),
					OnCmp("ErrorCount==5 (one-shot)", CallTo(addU32), token.EQL, IsConstInt(5), true),
				}
				ug, tr := c.unguarded(in, ranks, TopLevel(in.Parent()))
				switch {
				case tabled && reason == "entry" && fresh:
					c.ok(R, key, instrPos(in), "entry: fresh resolveState; recursion continues only through Query (depth cap) or the DS/DNSKEY ascent")
				case !ug:
					c.ok(R, key, instrPos(in), "ranked: {level++ | depth>0 | nomin one-shot | error-count one-shot}")
				default:
					c.violation(R, key, instrPos(in), "call of resolve without a recognised rank on its path and not a tabled fresh-state entry (unbounded re-entry); path "+tr)
				}
			}
		}
	}
	for _, k := range sortedKeys(backEdges) {
		if !usedBE[k] {
			c.unresolved(R, "back-edge row|"+k, "tabled back-edge no longer exists (stale row)")
		}
	}

	// head bounds
	next := c.fobj(R, c12mw+".(*Chain).Next")
	if qf := c.fn(R, c12mw+".(*pipelineQueryer).Query"); qf != nil && next != nil {
		maxQ := c.P.ConstVal(c12mw + ".maxQueryerRecursion")
		withValue := c.fobj(R, "context.WithValue")
		depthKey := c.P.Object(c12mw + ".queryerDepthKey")
		if maxQ != nil && withValue != nil && depthKey != nil {
			mq, _ := constant.Int64Val(maxQ)
			isDepth := func(e *Expr) bool {
				e = strip(e)
				return e != nil && Contains(GlobalIs(depthKey))(e) && Contains(MethodNamed("Value"))(e)
			}
			c.MustCross(R, qf, "ch.Next (depth cap)", isCallTo(next), OnCmp("depth>=maxQueryerRecursion", isDepth, token.GEQ, IsConstInt(mq), false))
			okInc := false
			for _, in := range instrsWhere(qf, isPlainCallTo(withValue)) {
				if GlobalIs(depthKey)(Desc(callArg(in, 1))) {
					v := strip(Desc(callArg(in, 2)))
					if v != nil && v.K == EBin && v.Op == token.ADD && isDepth(v.X) && IsConstInt(1)(v.Y) {
						okInc = true
					}
				}
			}
			if okInc {
				c.ok(R, R+"|Query|depth+1 handed on", qf.Pos(), "ctx carries depth+1 into the sub-pipeline")
			} else {
				c.violation(R, R+"|Query|depth+1 handed on", qf.Pos(), "Query does not hand depth+1 to the sub-pipeline: nesting is never counted")
			}
		}
	}
	if nf := c.fn(R, c12mw+".(*Chain).Next"); nf != nil {
		countF := c.field(R, c12mw+".Chain.count")
		if countF != nil {
			serve := isMethodCallNamed("ServeDNS", nil)
			c.MustCross(R, nf, "h.ServeDNS (count>0)", serve, OnCmp("count==0", FieldIs(countF), token.EQL, IsConstInt(0), false))
			c.MustCross(R, nf, "h.ServeDNS (count--)", serve, StoreBarrier("count--", countF, func(e *Expr) bool {
				e = strip(e)
				return e != nil && e.K == EBin && e.Op == token.SUB && FieldIs(countF)(e.X) && IsConstInt(1)(e.Y)
			}))
		}
	}
	// self recursions
	if rex := c.fn(R, c07res+".(*Resolver).exchange"); rex != nil {
		self := c.fobj(R, c07res+".(*Resolver).exchange")
		isEdns0 := c.fobj(R, c07dns+".(*Msg).IsEdns0")
		clearOPT := c.fobj(R, "internal/dnsutil.ClearOPT")
		if self != nil && isEdns0 != nil && clearOPT != nil {
			isStr := func(s string) Pat {
				return func(e *Expr) bool {
					e = strip(e)
					return e != nil && e.K == EConst && e.Val != nil && e.Val.Kind() == constant.String && constant.StringVal(e.Val) == s
				}
			}
			c.MustCross(R, rex, "self call", isCallTo(self),
				OnCmp("retried<2", c07Holds(c07ParamIdx(7)), token.LSS, IsConstInt(2), true),
				OnCmp("proto==udp", c07Holds(c07ParamIdx(4)), token.EQL, isStr("udp"), true),
				CallBarrier("ClearOPT (EDNS removed once)", clearOPT))
			// the retry counter is handed on incremented; the tcp fallback passes "tcp"
			for _, in := range instrsWhere(rex, isPlainCallTo(self)) {
				key := R + "|Resolver.exchange|self call progress"
				ret, proto := strip(Desc(callArg(in, 7))), strip(Desc(callArg(in, 4)))
				req := Desc(callArg(in, 5))
				inc := Contains(func(e *Expr) bool { return e.K == EBin && e.Op == token.ADD && IsConstInt(1)(e.Y) })(ret)
				tcp := isStr("tcp")(proto)
				noedns := Contains(CallTo(clearOPT))(req)
				if inc || tcp || noedns {
					c.ok(R, key, instrPos(in), "retried+1 / proto=tcp / OPT cleared")
				} else {
					c.violation(R, key, instrPos(in), "exchange re-enters itself with the same (proto, retried, request): unbounded retry")
				}
			}
		}
	}
	if scf := c.fn(R, c07res+".(*Resolver).searchCache"); scf != nil {
		self := c.fobj(R, c07res+".(*Resolver).searchCache")
		remove := c.fobj(R, "internal/authority.(*Cache).Remove")
		nextLabel := c.fobj(R, c07dns+".NextLabel")
		if self != nil && remove != nil && nextLabel != nil {
			c.MustCross(R, scf, "self call", isCallTo(self), CallBarrier("delegations.Remove", remove), OnFalse("NextLabel end", ResultOf(1, nextLabel)))
		}
	}
	// constants
	c.ConstBound(R, c12mw+".maxQueryerRecursion", token.LEQ, 64, "nested sub-pipeline cap")
	c.ConstBound(R, c12mw+".maxQueryerRecursion", token.GEQ, 1, "cap must admit at least one sub-query")
	c.ConstBound(R, c07res+".maxDnameDepth", token.LEQ, 16, "DNAME chain cap")
	c.ConstBound(R, "middleware/cache.maxCnameChaseDepth", token.LEQ, 16, "CNAME chase cap")
	c.ConstBound(R, c07res+"/dnssec.maxNSEC3Iterations", token.LEQ, 500, "RFC 9276 iteration ceiling")
	c.ConstBound(R, c12mw+".maxResolutionAttempts", token.LEQ, 8, "RFC 9520 per-tuple retry ceiling")
	// DNAME / CNAME caps guard their sub-query
	if cd := c.fn(R, c07res+".(*Resolver).checkDname"); cd != nil {
		ie := c.fobj(R, c07res+".(*Resolver).internalExchange")
		md := c.P.ConstVal(c07res + ".maxDnameDepth")
		if ie != nil && md != nil {
			v, _ := constant.Int64Val(md)
			c.MustCross(R, cd, "internalExchange (DNAME cap)", isCallTo(ie), OnCmp("depth>=maxDnameDepth", Contains(MethodNamed("Value")), token.GEQ, IsConstInt(v), false))
		}
	}
	c.Floor(R, 60)
}

func sortedKeys(m map[string]string) []string {
	var ks []string
	for k := range m {
		ks = append(ks, k)
	}
	sort.Strings(ks)
	return ks
}
