package main

// Helpers private to the C09 rules (RFC 5011 trust-anchor maintenance).

import (
	"fmt"
	"go/constant"
	"go/token"
	"go/types"
	"strings"

	"golang.org/x/tools/go/ssa"
)

// c09NamedIs: t is (a pointer to) the named type tn.
func c09NamedIs(t types.Type, tn *types.TypeName) bool {
	if t == nil || tn == nil {
		return false
	}
	if p, ok := t.(*types.Pointer); ok {
		t = p.Elem()
	}
	n, ok := t.(*types.Named)
	return ok && n.Obj() == tn
}

// c09MapMutation classifies an instruction as a mutation of a map of named
// type tn: returns the map operand, the key operand, the stored value (nil for
// delete) and the kind ("update" / "delete").
func c09MapMutation(in ssa.Instruction, tn *types.TypeName) (m, key, val ssa.Value, kind string) {
	switch x := in.(type) {
	case *ssa.MapUpdate:
		if c09NamedIs(x.Map.Type(), tn) {
			return x.Map, x.Key, x.Value, "update"
		}
	case *ssa.Call:
		if b, ok := x.Call.Value.(*ssa.Builtin); ok && (b.Name() == "delete" || b.Name() == "clear") && len(x.Call.Args) >= 1 {
			if c09NamedIs(x.Call.Args[0].Type(), tn) {
				var k ssa.Value
				if len(x.Call.Args) > 1 {
					k = x.Call.Args[1]
				}
				return x.Call.Args[0], k, nil, "delete"
			}
		}
	}
	return nil, nil, nil, ""
}

// c09HasOrigin: some leaf origin of v (through phis / cells) matches p.
func c09HasOrigin(v ssa.Value, p Pat) bool {
	for _, l := range Origins(Desc(v), nil) {
		if p(l) {
			return true
		}
	}
	return false
}

// c09FieldStore: store to field fv; returns base value and stored value.
func c09FieldStore(in ssa.Instruction, fv *types.Var) (base, val ssa.Value, ok bool) {
	st, isSt := in.(*ssa.Store)
	if !isSt {
		return nil, nil, false
	}
	fa, isFa := st.Addr.(*ssa.FieldAddr)
	if !isFa {
		return nil, nil, false
	}
	s, isS := deref(fa.X.Type()).Underlying().(*types.Struct)
	if !isS || s.Field(fa.Field).Origin() != fv {
		return nil, nil, false
	}
	return fa.X, st.Val, true
}

// c09ConstIs matches an integer constant equal to v (exact).
func c09ConstIs(v constant.Value) Pat {
	return func(e *Expr) bool {
		e = strip(e)
		if e == nil || e.K != EConst || e.Val == nil || v == nil {
			return false
		}
		if e.Val.Kind() != constant.Int {
			return false
		}
		return constant.Compare(e.Val, token.EQL, constant.ToInt(v))
	}
}

// c09ConstAtLeast matches an integer constant >= n.
func c09ConstAtLeast(n int64) Pat {
	return func(e *Expr) bool {
		v, ok := constInt(e)
		return ok && v >= n
	}
}

// c09StateEq: branch edge on which "<x>.State == <const>" holds, for any of
// the given state constants (one barrier per constant).
func c09StateEq(stateF *types.Var, names []string, vals []constant.Value) []Barrier {
	var atoms []c09Cmp
	for _, v := range vals {
		atoms = append(atoms, c09Cmp{FieldIs(stateF), token.EQL, c09ConstIs(v)})
	}
	// one combined any-of barrier (phi-aware: also recognises the test through a boolean local)
	return []Barrier{c09CmpBarrier("State=="+strings.Join(names, "|"), true, atoms...)}
}

// c09StateNe: branch edge on which "<x>.State == <const>" fails.
func c09StateNe(stateF *types.Var, name string, val constant.Value) Barrier {
	return c09CmpBarrier("State!="+name, false, c09Cmp{FieldIs(stateF), token.EQL, c09ConstIs(val)})
}

// c09Reached reports which of the target instructions are reachable from the
// start points without crossing one of bars.
func c09Reached(starts []Point, bars []Barrier, targets []ssa.Instruction) (*reachResult, []ssa.Instruction) {
	r := reach(starts, bars, nil)
	var hit []ssa.Instruction
	for _, t := range targets {
		if r.visited[t] {
			hit = append(hit, t)
		}
	}
	return r, hit
}

func c09BarNames(bars []Barrier) string {
	var bn []string
	for _, b := range bars {
		bn = append(bn, b.Name)
	}
	return strings.Join(bn, " | ")
}

// c09FromNoReach: for every target site, it must not be reachable from right
// after any `from` instruction without crossing one of bars. One obligation
// per target site (so a new unguarded site is what gets reported).
func (c *Ctx) c09FromNoReach(rule string, fn *ssa.Function, what string, from []ssa.Instruction, targets []ssa.Instruction, bars ...Barrier) {
	if len(from) == 0 {
		c.unresolved(rule, fnKey(fn)+"|"+what, "no start site found (rule would pass vacuously)")
		return
	}
	if len(targets) == 0 {
		c.unresolved(rule, fnKey(fn)+"|"+what, "no target site found (rule would pass vacuously)")
		return
	}
	var starts []Point
	for _, f := range from {
		starts = append(starts, pointAfter(f))
	}
	r := reach(starts, bars, nil)
	all := reach(starts, nil, nil)
	key := fmt.Sprintf("%s|%s|%s", rule, fnKey(fn), what)
	n := 0
	defer func() {
		if n == 0 {
			c.unresolved(rule, fnKey(fn)+"|"+what, "no target site downstream of the start site (rule would pass vacuously)")
		}
	}()
	for _, t := range targets {
		if t.Parent() == fn && !all.visited[t] {
			continue // not downstream
		}
		n++
		if t.Parent() != fn {
			c.undecided(rule, key, instrPos(t), what+": site lives in a closure; path relation to the start site is not decided")
			continue
		}
		if r.visited[t] {
			c.violation(rule, key, instrPos(t), fmt.Sprintf("%s: reachable from %s without crossing {%s}; path %s", what, c.P.pos(instrPos(from[0])), c09BarNames(bars), c.trail(r, t)))
		} else {
			c.ok(rule, key, instrPos(t), fmt.Sprintf("%s: behind {%s}", what, c09BarNames(bars)))
		}
	}
}

// c09Guarded: every target is unreachable from fn's entry without crossing one of bars.
func (c *Ctx) c09Guarded(rule string, fn *ssa.Function, what string, targets []ssa.Instruction, bars ...Barrier) {
	if len(targets) == 0 {
		c.unresolved(rule, fnKey(fn)+"|"+what, "no target site found (rule would pass vacuously)")
		return
	}
	key := fmt.Sprintf("%s|%s|%s", rule, fnKey(fn), what)
	for _, t := range targets {
		if ug, tr := c.unguarded(t, bars, fn); ug {
			c.violation(rule, key, instrPos(t), fmt.Sprintf("%s: reachable without crossing {%s}; path %s", what, c09BarNames(bars), tr))
		} else {
			c.ok(rule, key, instrPos(t), fmt.Sprintf("%s: behind {%s}", what, c09BarNames(bars)))
		}
	}
}

// c09InstrBarrier: crossing = executing exactly one of the given instructions.
func c09InstrBarrier(name string, ins ...ssa.Instruction) Barrier {
	set := map[ssa.Instruction]bool{}
	for _, i := range ins {
		set[i] = true
	}
	return Barrier{Name: name, Instr: func(in ssa.Instruction) bool { return set[in] }}
}

// c09RangeOf: v is the key (idx 1) or value (idx 2) of a `for … range m`
// iteration; returns the ranged-over operand.
func c09RangeOf(v ssa.Value) (ssa.Value, *ssa.Range) {
	for {
		switch x := v.(type) {
		case *ssa.MakeInterface:
			v = x.X
			continue
		case *ssa.ChangeType:
			v = x.X
			continue
		}
		break
	}
	ex, ok := v.(*ssa.Extract)
	if !ok {
		return nil, nil
	}
	nx, ok := ex.Tuple.(*ssa.Next)
	if !ok {
		return nil, nil
	}
	rg, ok := nx.Iter.(*ssa.Range)
	if !ok {
		return nil, nil
	}
	return rg.X, rg
}

// c09StickyTrue decides whether the boolean phi p is a "sticky flag" that is
// definitely true at every later branch on p once execution has passed `after`:
//   - every incoming edge of p is the constant false, the constant true, or p itself;
//   - every path from `after` to p's block enters it through an edge carrying true;
//   - no predecessor carrying false is reachable from `after`.
func c09StickyTrue(p *ssa.Phi, after ssa.Instruction) bool {
	if p == nil || after == nil || p.Block() == nil {
		return false
	}
	var trueJumps []ssa.Instruction
	var falsePreds []*ssa.BasicBlock
	for i, ed := range p.Edges {
		pred := p.Block().Preds[i]
		if ed == p {
			continue
		}
		k, ok := ed.(*ssa.Const)
		if !ok || k.Value == nil || k.Value.Kind() != constant.Bool {
			return false
		}
		if constant.BoolVal(k.Value) {
			last := pred.Instrs[len(pred.Instrs)-1]
			if _, isJump := last.(*ssa.Jump); !isJump {
				return false // conditional edge: cannot be expressed as an instruction barrier
			}
			trueJumps = append(trueJumps, last)
		} else {
			falsePreds = append(falsePreds, pred)
		}
	}
	if len(trueJumps) == 0 {
		return false
	}
	// (a) nothing resets the flag after `after`
	all := reach([]Point{pointAfter(after)}, nil, nil)
	for _, fp := range falsePreds {
		if len(fp.Instrs) > 0 && all.visited[fp.Instrs[len(fp.Instrs)-1]] {
			return false
		}
	}
	// (b) every path from `after` into p's block goes through a true edge
	r := reach([]Point{pointAfter(after)}, []Barrier{c09InstrBarrier("flag=true", trueJumps...)}, nil)
	if len(p.Block().Instrs) > 0 && r.visited[p.Block().Instrs[0]] {
		return false
	}
	return true
}

// c09PhiOf: the phi behind a branch condition description, if any.
func c09PhiOf(e *Expr) *ssa.Phi {
	a, _ := Truthy(e)
	a = strip(a)
	if a == nil || a.K != EPhi {
		return nil
	}
	p, _ := a.V.(*ssa.Phi)
	return p
}

// c09MakeMapUpdates: all MapUpdate instructions whose map operand is m (a map
// created locally, identified by SSA value).
func c09MapUpdatesOf(fn *ssa.Function, m ssa.Value) []*ssa.MapUpdate {
	var out []*ssa.MapUpdate
	for _, f := range WithAnons(fn) {
		for _, b := range f.Blocks {
			for _, in := range b.Instrs {
				if mu, ok := in.(*ssa.MapUpdate); ok && mu.Map == m {
					out = append(out, mu)
				}
			}
		}
	}
	return out
}

// c09AppendTransparent follows append(x, ys...) through both operands.
func c09AppendTransparent(e *Expr) []int {
	call := e
	if e.K == EExtract {
		call = e.X
	}
	if call != nil && call.K == ECall && call.Method == "builtin.append" {
		return []int{0, 1}
	}
	return nil
}

// c09AppendBase follows append(x, ys...) to x only.
func c09AppendBase(e *Expr) []int {
	call := e
	if e.K == EExtract {
		call = e.X
	}
	if call != nil && call.K == ECall && call.Method == "builtin.append" {
		return []int{0}
	}
	return nil
}

func c09IsBuiltinCall(in ssa.Instruction, name string) *ssa.Call {
	cl, ok := in.(*ssa.Call)
	if !ok {
		return nil
	}
	if b, ok := cl.Call.Value.(*ssa.Builtin); ok && b.Name() == name {
		return cl
	}
	return nil
}

func c09InPkg(fn *ssa.Function, full string) bool {
	pk := fnPkg(fn)
	return pk != nil && pk.Path() == full
}

// c09ReachTracked is reach() made path-sensitive for a few immutable atoms
// (SSA values that cannot change between two tests, e.g. the error returned by
// one call): once a branch has decided a tracked atom, later branches on the
// same atom follow only the consistent edge.
func c09ReachTracked(starts []Point, bars []Barrier, track Pat) *reachResult {
	r := &reachResult{prev: map[ssa.Instruction]ssa.Instruction{}, visited: map[ssa.Instruction]bool{}}
	type item struct {
		p    Point
		from ssa.Instruction
		env  string // ";atom=T;atom=F" sorted by insertion (atoms are few)
	}
	type seenKey struct {
		p   Point
		env string
	}
	envGet := func(env, k string) (bool, bool) {
		if strings.Contains(env, ";"+k+"=T") {
			return true, true
		}
		if strings.Contains(env, ";"+k+"=F") {
			return false, true
		}
		return false, false
	}
	envSet := func(env, k string, v bool) string {
		s := ";" + k + "=F"
		if v {
			s = ";" + k + "=T"
		}
		parts := strings.Split(strings.TrimPrefix(env+s, ";"), ";")
		sortStrings(parts)
		return ";" + strings.Join(parts, ";")
	}
	var q []item
	for _, s := range starts {
		q = append(q, item{s, nil, ""})
	}
	seen := map[seenKey]bool{}
	ids := map[string]string{}
	for len(q) > 0 {
		it := q[0]
		q = q[1:]
		p, from, env := it.p, it.from, it.env
		for {
			if p.B == nil || p.I >= len(p.B.Instrs) {
				break
			}
			sk := seenKey{p, env}
			if seen[sk] {
				break
			}
			seen[sk] = true
			in := p.B.Instrs[p.I]
			if !r.visited[in] {
				r.visited[in] = true
				r.prev[in] = from
				r.order = append(r.order, in)
			}
			crossed := false
			for _, b := range bars {
				if b.Instr != nil && b.Instr(in) {
					crossed = true
					break
				}
			}
			if crossed {
				break
			}
			from = in
			if p.I == len(p.B.Instrs)-1 {
				switch t := in.(type) {
				case *ssa.If:
					cond := condOf(t)
					atom, pol := Truthy(cond)
					tracked := atom != nil && track != nil && track(atom)
					ak := ""
					if tracked {
						as := atom.String()
						if _, ok := ids[as]; !ok {
							ids[as] = fmt.Sprintf("a%d", len(ids))
						}
						ak = ids[as]
					}
					for k, s := range p.B.Succs {
						blocked := false
						for _, b := range bars {
							if b.Edge != nil {
								if m, which := b.Edge(cond); m && which == k {
									blocked = true
									break
								}
							}
						}
						if blocked {
							continue
						}
						nenv := env
						if tracked {
							// edge k==0 means cond true, i.e. atom truthy iff pol
							val := pol
							if k == 1 {
								val = !pol
							}
							if known, ok := envGet(env, ak); ok {
								if known != val {
									continue // infeasible edge
								}
							} else {
								nenv = envSet(env, ak, val)
							}
						}
						q = append(q, item{Point{s, 0}, in, nenv})
					}
				case *ssa.Jump:
					q = append(q, item{Point{p.B.Succs[0], 0}, in, env})
				}
				break
			}
			p.I++
		}
	}
	return r
}

func sortStrings(s []string) {
	for i := 1; i < len(s); i++ {
		for j := i; j > 0 && s[j] < s[j-1]; j-- {
			s[j], s[j-1] = s[j-1], s[j]
		}
	}
}

// ---------------------------------------------------------------------------
// Shape-independent evaluation of small boolean functions (used by C09-R4 and
// C13-R1).  The function's CFG is simulated for every assignment of the
// declared atoms; phis are resolved through the edge actually taken, so an
// early-return chain, one `a && b && c` expression, De Morgan forms, named
// boolean locals and switch statements all give the same table.  Conditions
// that are none of the declared atoms become free extra atoms (both values are
// explored), and calls of same-package helpers returning one bool are inlined
// with their parameters substituted.  Nothing is executed.

type c09Atom struct {
	Name string
	// Match: e is true exactly when the atom has value pol.
	Match func(e *Expr) (matched bool, pol bool)
}

// c09TruthyAtom: the atom is "p is truthy" (true / non-nil).
func c09TruthyAtom(name string, p Pat) c09Atom {
	return c09Atom{Name: name, Match: func(e *Expr) (bool, bool) {
		a, pol := Truthy(e)
		if a != nil && p(a) {
			return true, pol
		}
		return false, false
	}}
}

// c09CmpAtom: the atom is "lhs op rhs".
func c09CmpAtom(name string, lhs Pat, op token.Token, rhs Pat) c09Atom {
	return c09Atom{Name: name, Match: func(e *Expr) (bool, bool) { return CmpMatch(e, lhs, op, rhs) }}
}

type c09Row struct {
	Atoms  []bool
	Extra  map[string]bool
	Result bool
}

// c09SubstParams returns a copy of e with parameters replaced by args.
func c09SubstParams(e *Expr, args []*Expr, depth int) *Expr {
	if e == nil || args == nil || depth > 30 {
		return e
	}
	if e.K == EParam && e.Idx >= 0 && e.Idx < len(args) && args[e.Idx] != nil {
		return args[e.Idx]
	}
	cp := *e
	cp.X = c09SubstParams(e.X, args, depth+1)
	cp.Y = c09SubstParams(e.Y, args, depth+1)
	if len(e.Args) > 0 {
		cp.Args = make([]*Expr, len(e.Args))
		for i, a := range e.Args {
			cp.Args[i] = c09SubstParams(a, args, depth+1)
		}
	}
	return &cp
}

type c09Sim struct {
	atoms []c09Atom
	row   []bool
	extra map[string]bool
	need  string
	err   string
	pkg   *types.Package
}

func (s *c09Sim) run(fn *ssa.Function, resIdx int, args []*Expr, depth int) bool {
	if len(fn.Blocks) == 0 || depth > 3 {
		s.err = "cannot evaluate " + fnKey(fn)
		return false
	}
	from := map[*ssa.BasicBlock]*ssa.BasicBlock{}
	var eval func(v ssa.Value) bool
	eval = func(v ssa.Value) bool {
		if s.err != "" || s.need != "" {
			return false
		}
		switch x := v.(type) {
		case *ssa.Const:
			if x.Value != nil && x.Value.Kind() == constant.Bool {
				return constant.BoolVal(x.Value)
			}
		case *ssa.UnOp:
			if x.Op == token.NOT {
				return !eval(x.X)
			}
		case *ssa.Phi:
			pred := from[x.Block()]
			for i, p := range x.Block().Preds {
				if p == pred && i < len(x.Edges) {
					return eval(x.Edges[i])
				}
			}
			s.err = "phi evaluated without a known incoming edge"
			return false
		}
		e := Desc(v)
		if args != nil {
			e = c09SubstParams(e, args, 0)
		}
		for i, a := range s.atoms {
			if m, pol := a.Match(e); m {
				return s.row[i] == pol
			}
		}
		if cl, ok := v.(*ssa.Call); ok {
			if callee := cl.Call.StaticCallee(); callee != nil && len(callee.Blocks) > 0 && fnPkg(callee) == s.pkg {
				if res := callee.Signature.Results(); res.Len() == 1 && types.Identical(res.At(0).Type().Underlying(), types.Typ[types.Bool]) {
					var sub []*Expr
					for _, av := range cl.Call.Args {
						sub = append(sub, c09SubstParams(Desc(av), args, 0))
					}
					return s.run(callee, 0, sub, depth+1)
				}
			}
		}
		if b, ok := v.(*ssa.BinOp); ok && (b.Op == token.EQL || b.Op == token.NEQ) {
			if bt, ok := b.X.Type().Underlying().(*types.Basic); ok && bt.Kind() == types.Bool {
				l, r := eval(b.X), eval(b.Y)
				return (l == r) == (b.Op == token.EQL)
			}
		}
		// free extra atom
		a, pol := Truthy(e)
		key := e.String()
		if a != nil {
			key = a.String()
		} else {
			pol = true
		}
		if val, ok := s.extra[key]; ok {
			return val == pol
		}
		s.need = key
		return false
	}
	b := fn.Blocks[0]
	var prev *ssa.BasicBlock
	for steps := 0; steps < 5000; steps++ {
		from[b] = prev
		if len(b.Instrs) == 0 {
			s.err = "empty block"
			return false
		}
		switch t := b.Instrs[len(b.Instrs)-1].(type) {
		case *ssa.Return:
			if resIdx >= len(t.Results) {
				s.err = "no such result"
				return false
			}
			return eval(t.Results[resIdx])
		case *ssa.Jump:
			prev, b = b, b.Succs[0]
		case *ssa.If:
			v := eval(t.Cond)
			if s.err != "" || s.need != "" {
				return false
			}
			prev = b
			if v {
				b = b.Succs[0]
			} else {
				b = b.Succs[1]
			}
		default:
			s.err = "path ends without a return"
			return false
		}
	}
	s.err = "walk did not terminate (loop?)"
	return false
}

// c09BoolFnRows evaluates result #resIdx of fn for every assignment of the
// declared atoms (and of the free extra atoms met on the way).
func c09BoolFnRows(fn *ssa.Function, resIdx int, atoms []c09Atom) ([]c09Row, string) {
	var rows []c09Row
	var explore func(row []bool, extra map[string]bool) string
	explore = func(row []bool, extra map[string]bool) string {
		s := &c09Sim{atoms: atoms, row: row, extra: extra, pkg: fnPkg(fn)}
		res := s.run(fn, resIdx, nil, 0)
		if s.err != "" {
			return s.err
		}
		if s.need != "" {
			if len(extra) >= 10 {
				return "too many undeclared conditions"
			}
			for _, val := range []bool{true, false} {
				ne := map[string]bool{}
				for k, v := range extra {
					ne[k] = v
				}
				ne[s.need] = val
				if e := explore(row, ne); e != "" {
					return e
				}
			}
			return ""
		}
		rows = append(rows, c09Row{Atoms: append([]bool{}, row...), Extra: extra, Result: res})
		return ""
	}
	n := len(atoms)
	for r := 0; r < 1<<n; r++ {
		row := make([]bool, n)
		for i := range row {
			row[i] = r&(1<<i) != 0
		}
		if e := explore(row, map[string]bool{}); e != "" {
			return nil, e
		}
	}
	return rows, ""
}

// c09RequireWhenTrue: for every evaluated row with Result==want, pred(atoms)
// must hold; reports the first counter-example.
func (c *Ctx) c09RequireWhen(rule, key string, fn *ssa.Function, resIdx int, atoms []c09Atom, want bool, pred func(v map[string]bool) bool, predText string) {
	rows, err := c09BoolFnRows(fn, resIdx, atoms)
	if err != "" {
		c.undecided(rule, key, fn.Pos(), fnKey(fn)+": guard structure not evaluable: "+err)
		return
	}
	seen := map[string]bool{}
	for _, r := range rows {
		v := map[string]bool{}
		var as []string
		for i, a := range atoms {
			v[a.Name] = r.Atoms[i]
			as = append(as, fmt.Sprintf("%s=%v", a.Name, r.Atoms[i]))
			seen[a.Name] = true
		}
		if r.Result == want && !pred(v) {
			c.violation(rule, key, fn.Pos(), fmt.Sprintf("%s returns %v although %s is false (%s)", fnKey(fn), want, predText, strings.Join(as, ",")))
			return
		}
	}
	c.ok(rule, key, fn.Pos(), fmt.Sprintf("%s returns %v only when %s (%d evaluated paths, any guard shape)", fnKey(fn), want, predText, len(rows)))
}

// c09RetSite is a (program point, value) pair at which a function result is
// produced: a return whose result is a phi defined in the return's own block is
// expanded into its incoming edges (site = terminator of the predecessor).
type c09RetSite struct {
	At  ssa.Instruction
	Val ssa.Value
	Ret *ssa.Return
}

func c09ReturnSites(fn *ssa.Function, idx int) []c09RetSite {
	var out []c09RetSite
	for _, b := range fn.Blocks {
		if len(b.Instrs) == 0 {
			continue
		}
		r, ok := b.Instrs[len(b.Instrs)-1].(*ssa.Return)
		if !ok || idx >= len(r.Results) {
			continue
		}
		var expand func(v ssa.Value, at ssa.Instruction, blk *ssa.BasicBlock, depth int)
		expand = func(v ssa.Value, at ssa.Instruction, blk *ssa.BasicBlock, depth int) {
			ph, isPhi := v.(*ssa.Phi)
			if !isPhi || ph.Block() != blk || depth > 4 {
				out = append(out, c09RetSite{At: at, Val: v, Ret: r})
				return
			}
			for i, e := range ph.Edges {
				pred := blk.Preds[i]
				term := pred.Instrs[len(pred.Instrs)-1]
				if _, isJump := term.(*ssa.Jump); isJump {
					expand(e, term, pred, depth+1)
				} else {
					// conditional edge: keep the value, anchor on the branch itself
					out = append(out, c09RetSite{At: term, Val: e, Ret: r})
				}
			}
		}
		expand(r.Results[idx], r, b, 0)
	}
	return out
}

// c09LeavesThroughHelpers: leaf origins of v where a call of a same-package
// function is replaced by what that function returns (parameters substituted
// by the call's arguments).
func c09LeavesThroughHelpers(v ssa.Value, pkg *types.Package) []*Expr {
	var out []*Expr
	var rec func(e *Expr, depth int)
	rec = func(e *Expr, depth int) {
		for _, l := range Origins(e, nil) {
			s := strip(l)
			idx := 0
			call := s
			if s != nil && s.K == EExtract {
				idx = s.Idx
				call = strip(s.X)
			}
			if call != nil && call.K == ECall && call.SFn != nil && len(call.SFn.Blocks) > 0 && fnPkg(call.SFn) == pkg && depth < 3 {
				n := 0
				for _, b := range call.SFn.Blocks {
					if r, ok := b.Instrs[len(b.Instrs)-1].(*ssa.Return); ok && idx < len(r.Results) {
						n++
						rec(c09SubstParams(Desc(r.Results[idx]), call.Args, 0), depth+1)
					}
				}
				if n > 0 {
					continue
				}
			}
			out = append(out, l)
		}
	}
	rec(Desc(v), 0)
	return out
}

// ---------------------------------------------------------------------------
// Phi-aware comparison barriers.  OnCmp sees a comparison only where it is
// branched on directly; a comparison assigned to a boolean local first
// (`ok := a == X || a == Y; if ok {…}`) reaches the branch as a phi.  The
// barrier below recognises, for a set of comparison atoms of which ANY ONE
// suffices, the phi edge that implies one of them:
//   holds=true : the phi-true edge, when every incoming operand is the constant
//                false (cannot be the taken one), a comparison that is one of
//                the atoms, or the constant true arriving over the holds-edge
//                of a branch on one of the atoms;
//   holds=false: symmetrically for the phi-false edge.

type c09Cmp struct {
	Lhs Pat
	Op  token.Token
	Rhs Pat
}

func c09CmpBarrier(name string, holds bool, atoms ...c09Cmp) Barrier {
	match := func(e *Expr) (bool, bool) {
		for _, a := range atoms {
			if m, pol := CmpMatch(e, a.Lhs, a.Op, a.Rhs); m {
				return true, pol
			}
		}
		return false, false
	}
	return Barrier{Name: name, Edge: func(cond *Expr) (bool, int) {
		if m, pol := match(cond); m {
			if pol == holds {
				return true, 0
			}
			return true, 1
		}
		at, cpol := Truthy(cond)
		if at == nil || at.K != EPhi {
			return false, 0
		}
		ph, ok := at.V.(*ssa.Phi)
		if !ok || len(ph.Edges) == 0 {
			return false, 0
		}
		// phi value that implies "some atom == holds"
		for i, ed := range ph.Edges {
			if k, isC := ed.(*ssa.Const); isC && k.Value != nil && k.Value.Kind() == constant.Bool {
				if constant.BoolVal(k.Value) != holds {
					continue // this operand cannot produce the phi value we are interested in
				}
				// constant `holds` arriving from a branch on one of the atoms, over its holds-edge
				pred := ph.Block().Preds[i]
				iff, isIf := pred.Instrs[len(pred.Instrs)-1].(*ssa.If)
				if !isIf {
					return false, 0
				}
				m, pol := match(condOf(iff))
				if !m {
					return false, 0
				}
				want := 1
				if pol == holds {
					want = 0
				}
				if pred.Succs[want] != ph.Block() || pred.Succs[1-want] == ph.Block() {
					return false, 0
				}
				continue
			}
			// non-constant operand: must itself be one of the atoms, positively
			if m, pol := match(Desc(ed)); !m || !pol {
				return false, 0
			}
		}
		// the phi has value `holds` exactly on successor…
		if cpol == holds {
			return true, 0
		}
		return true, 1
	}}
}

// c09StagingFn: the function with which AutoTA stages revocation verdicts,
// identified by structure — the function of AutoTA's package that AutoTA (or
// one of its closures) calls directly and whose body calls
// revocationIsSelfSignedWithWork.  Exactly one such callee is expected.
func c09StagingFn(c *Ctx, rule string, autoTA *ssa.Function, selfSigned *types.Func) (*ssa.Function, *types.Func) {
	if autoTA == nil || selfSigned == nil {
		return nil, nil
	}
	var found []*ssa.Function
	seen := map[*ssa.Function]bool{}
	for _, g := range WithAnons(autoTA) {
		for _, b := range g.Blocks {
			for _, in := range b.Instrs {
				cc := callCommon(in)
				if cc == nil {
					continue
				}
				f := cc.StaticCallee()
				if f == nil || seen[f] || f.Pkg == nil || f.Pkg != autoTA.Pkg || TopLevel(f) == autoTA {
					continue
				}
				seen[f] = true
				if len(instrsWhere(f, isPlainCallTo(selfSigned))) > 0 {
					found = append(found, f)
				}
			}
		}
	}
	if len(found) != 1 {
		c.unresolved(rule, fnKey(autoTA)+"|staging function", fmt.Sprintf("expected exactly one callee of AutoTA that calls revocationIsSelfSignedWithWork, found %d", len(found)))
		return nil, nil
	}
	fo := funcObjOf(found[0])
	if fo == nil {
		c.unresolved(rule, fnKey(found[0])+"|staging function", "no function object")
		return nil, nil
	}
	return found[0], fo
}
