package main

// Helpers private to the C09 rules (RFC 5011 trust-anchor maintenance).

import (
	"fmt"
	"go/constant"
	"go/token"
	"go/types"
	"strings"

	"golang.org/x/tools/go/ssa"
)

// c09NamedIs: t is (a pointer to) the named type tn.
func c09NamedIs(t types.Type, tn *types.TypeName) bool {
	if t == nil || tn == nil {
		return false
	}
	if p, ok := t.(*types.Pointer); ok {
		t = p.Elem()
	}
	n, ok := t.(*types.Named)
	return ok && n.Obj() == tn
}

// c09MapMutation classifies an instruction as a mutation of a map of named
// type tn: returns the map operand, the key operand, the stored value (nil for
// delete) and the kind ("update" / "delete").
func c09MapMutation(in ssa.Instruction, tn *types.TypeName) (m, key, val ssa.Value, kind string) {
	switch x := in.(type) {
	case *ssa.MapUpdate:
		if c09NamedIs(x.Map.Type(), tn) {
			return x.Map, x.Key, x.Value, "update"
		}
	case *ssa.Call:
		if b, ok := x.Call.Value.(*ssa.Builtin); ok && (b.Name() == "delete" || b.Name() == "clear") && len(x.Call.Args) >= 1 {
			if c09NamedIs(x.Call.Args[0].Type(), tn) {
				var k ssa.Value
				if len(x.Call.Args) > 1 {
					k = x.Call.Args[1]
				}
				return x.Call.Args[0], k, nil, "delete"
			}
		}
	}
	return nil, nil, nil, ""
}

// c09HasOrigin: some leaf origin of v (through phis / cells) matches p.
func c09HasOrigin(v ssa.Value, p Pat) bool {
	for _, l := range Origins(Desc(v), nil) {
		if p(l) {
			return true
		}
	}
	return false
}

// c09FieldStore: store to field fv; returns base value and stored value.
func c09FieldStore(in ssa.Instruction, fv *types.Var) (base, val ssa.Value, ok bool) {
	st, isSt := in.(*ssa.Store)
	if !isSt {
		return nil, nil, false
	}
	fa, isFa := st.Addr.(*ssa.FieldAddr)
	if !isFa {
		return nil, nil, false
	}
	s, isS := deref(fa.X.Type()).Underlying().(*types.Struct)
	if !isS || s.Field(fa.Field).Origin() != fv {
		return nil, nil, false
	}
	return fa.X, st.Val, true
}

// c09ConstIs matches an integer constant equal to v (exact).
func c09ConstIs(v constant.Value) Pat {
	return func(e *Expr) bool {
		e = strip(e)
		if e == nil || e.K != EConst || e.Val == nil || v == nil {
			return false
		}
		if e.Val.Kind() != constant.Int {
			return false
		}
		return constant.Compare(e.Val, token.EQL, constant.ToInt(v))
	}
}

// c09ConstAtLeast matches an integer constant >= n.
func c09ConstAtLeast(n int64) Pat {
	return func(e *Expr) bool {
		v, ok := constInt(e)
		return ok && v >= n
	}
}

// c09StateEq: branch edge on which "<x>.State == <const>" holds, for any of
// the given state constants (one barrier per constant).
func c09StateEq(stateF *types.Var, names []string, vals []constant.Value) []Barrier {
	var out []Barrier
	for i, v := range vals {
		out = append(out, OnCmp("State=="+names[i], FieldIs(stateF), token.EQL, c09ConstIs(v), true))
	}
	return out
}

// c09StateNe: branch edge on which "<x>.State == <const>" fails.
func c09StateNe(stateF *types.Var, name string, val constant.Value) Barrier {
	return OnCmp("State!="+name, FieldIs(stateF), token.EQL, c09ConstIs(val), false)
}

// c09Reached reports which of the target instructions are reachable from the
// start points without crossing one of bars.
func c09Reached(starts []Point, bars []Barrier, targets []ssa.Instruction) (*reachResult, []ssa.Instruction) {
	r := reach(starts, bars, nil)
	var hit []ssa.Instruction
	for _, t := range targets {
		if r.visited[t] {
			hit = append(hit, t)
		}
	}
	return r, hit
}

func c09BarNames(bars []Barrier) string {
	var bn []string
	for _, b := range bars {
		bn = append(bn, b.Name)
	}
	return strings.Join(bn, " | ")
}

// c09FromNoReach: for every target site, it must not be reachable from right
// after any `from` instruction without crossing one of bars. One obligation
// per target site (so a new unguarded site is what gets reported).
func (c *Ctx) c09FromNoReach(rule string, fn *ssa.Function, what string, from []ssa.Instruction, targets []ssa.Instruction, bars ...Barrier) {
	if len(from) == 0 {
		c.unresolved(rule, fnKey(fn)+"|"+what, "no start site found (rule would pass vacuously)")
		return
	}
	if len(targets) == 0 {
		c.unresolved(rule, fnKey(fn)+"|"+what, "no target site found (rule would pass vacuously)")
		return
	}
	var starts []Point
	for _, f := range from {
		starts = append(starts, pointAfter(f))
	}
	r := reach(starts, bars, nil)
	all := reach(starts, nil, nil)
	key := fmt.Sprintf("%s|%s|%s", rule, fnKey(fn), what)
	n := 0
	defer func() {
		if n == 0 {
			c.unresolved(rule, fnKey(fn)+"|"+what, "no target site downstream of the start site (rule would pass vacuously)")
		}
	}()
	for _, t := range targets {
		if t.Parent() == fn && !all.visited[t] {
			continue // not downstream
		}
		n++
		if t.Parent() != fn {
			c.undecided(rule, key, instrPos(t), what+": site lives in a closure; path relation to the start site is not decided")
			continue
		}
		if r.visited[t] {
			c.violation(rule, key, instrPos(t), fmt.Sprintf("%s: reachable from %s without crossing {%s}; path %s", what, c.P.pos(instrPos(from[0])), c09BarNames(bars), c.trail(r, t)))
		} else {
			c.ok(rule, key, instrPos(t), fmt.Sprintf("%s: behind {%s}", what, c09BarNames(bars)))
		}
	}
}

// c09Guarded: every target is unreachable from fn's entry without crossing one of bars.
func (c *Ctx) c09Guarded(rule string, fn *ssa.Function, what string, targets []ssa.Instruction, bars ...Barrier) {
	if len(targets) == 0 {
		c.unresolved(rule, fnKey(fn)+"|"+what, "no target site found (rule would pass vacuously)")
		return
	}
	key := fmt.Sprintf("%s|%s|%s", rule, fnKey(fn), what)
	for _, t := range targets {
		if ug, tr := c.unguarded(t, bars, fn); ug {
			c.violation(rule, key, instrPos(t), fmt.Sprintf("%s: reachable without crossing {%s}; path %s", what, c09BarNames(bars), tr))
		} else {
			c.ok(rule, key, instrPos(t), fmt.Sprintf("%s: behind {%s}", what, c09BarNames(bars)))
		}
	}
}

// c09InstrBarrier: crossing = executing exactly one of the given instructions.
func c09InstrBarrier(name string, ins ...ssa.Instruction) Barrier {
	set := map[ssa.Instruction]bool{}
	for _, i := range ins {
		set[i] = true
	}
	return Barrier{Name: name, Instr: func(in ssa.Instruction) bool { return set[in] }}
}

// c09RangeOf: v is the key (idx 1) or value (idx 2) of a `for … range m`
// iteration; returns the ranged-over operand.
func c09RangeOf(v ssa.Value) (ssa.Value, *ssa.Range) {
	for {
		switch x := v.(type) {
		case *ssa.MakeInterface:
			v = x.X
			continue
		case *ssa.ChangeType:
			v = x.X
			continue
		}
		break
	}
	ex, ok := v.(*ssa.Extract)
	if !ok {
		return nil, nil
	}
	nx, ok := ex.Tuple.(*ssa.Next)
	if !ok {
		return nil, nil
	}
	rg, ok := nx.Iter.(*ssa.Range)
	if !ok {
		return nil, nil
	}
	return rg.X, rg
}

// c09StickyTrue decides whether the boolean phi p is a "sticky flag" that is
// definitely true at every later branch on p once execution has passed `after`:
//   - every incoming edge of p is the constant false, the constant true, or p itself;
//   - every path from `after` to p's block enters it through an edge carrying true;
//   - no predecessor carrying false is reachable from `after`.
func c09StickyTrue(p *ssa.Phi, after ssa.Instruction) bool {
	if p == nil || after == nil || p.Block() == nil {
		return false
	}
	var trueJumps []ssa.Instruction
	var falsePreds []*ssa.BasicBlock
	for i, ed := range p.Edges {
		pred := p.Block().Preds[i]
		if ed == p {
			continue
		}
		k, ok := ed.(*ssa.Const)
		if !ok || k.Value == nil || k.Value.Kind() != constant.Bool {
			return false
		}
		if constant.BoolVal(k.Value) {
			last := pred.Instrs[len(pred.Instrs)-1]
			if _, isJump := last.(*ssa.Jump); !isJump {
				return false // conditional edge: cannot be expressed as an instruction barrier
			}
			trueJumps = append(trueJumps, last)
		} else {
			falsePreds = append(falsePreds, pred)
		}
	}
	if len(trueJumps) == 0 {
		return false
	}
	// (a) nothing resets the flag after `after`
	all := reach([]Point{pointAfter(after)}, nil, nil)
	for _, fp := range falsePreds {
		if len(fp.Instrs) > 0 && all.visited[fp.Instrs[len(fp.Instrs)-1]] {
			return false
		}
	}
	// (b) every path from `after` into p's block goes through a true edge
	r := reach([]Point{pointAfter(after)}, []Barrier{c09InstrBarrier("flag=true", trueJumps...)}, nil)
	if len(p.Block().Instrs) > 0 && r.visited[p.Block().Instrs[0]] {
		return false
	}
	return true
}

// c09PhiOf: the phi behind a branch condition description, if any.
func c09PhiOf(e *Expr) *ssa.Phi {
	a, _ := Truthy(e)
	a = strip(a)
	if a == nil || a.K != EPhi {
		return nil
	}
	p, _ := a.V.(*ssa.Phi)
	return p
}

// c09MakeMapUpdates: all MapUpdate instructions whose map operand is m (a map
// created locally, identified by SSA value).
func c09MapUpdatesOf(fn *ssa.Function, m ssa.Value) []*ssa.MapUpdate {
	var out []*ssa.MapUpdate
	for _, f := range WithAnons(fn) {
		for _, b := range f.Blocks {
			for _, in := range b.Instrs {
				if mu, ok := in.(*ssa.MapUpdate); ok && mu.Map == m {
					out = append(out, mu)
				}
			}
		}
	}
	return out
}

// c09AppendTransparent follows append(x, ys...) through both operands.
func c09AppendTransparent(e *Expr) []int {
	call := e
	if e.K == EExtract {
		call = e.X
	}
	if call != nil && call.K == ECall && call.Method == "builtin.append" {
		return []int{0, 1}
	}
	return nil
}

// c09AppendBase follows append(x, ys...) to x only.
func c09AppendBase(e *Expr) []int {
	call := e
	if e.K == EExtract {
		call = e.X
	}
	if call != nil && call.K == ECall && call.Method == "builtin.append" {
		return []int{0}
	}
	return nil
}

func c09IsBuiltinCall(in ssa.Instruction, name string) *ssa.Call {
	cl, ok := in.(*ssa.Call)
	if !ok {
		return nil
	}
	if b, ok := cl.Call.Value.(*ssa.Builtin); ok && b.Name() == name {
		return cl
	}
	return nil
}

func c09InPkg(fn *ssa.Function, full string) bool {
	pk := fnPkg(fn)
	return pk != nil && pk.Path() == full
}

// c09ReachTracked is reach() made path-sensitive for a few immutable atoms
// (SSA values that cannot change between two tests, e.g. the error returned by
// one call): once a branch has decided a tracked atom, later branches on the
// same atom follow only the consistent edge.
func c09ReachTracked(starts []Point, bars []Barrier, track Pat) *reachResult {
	r := &reachResult{prev: map[ssa.Instruction]ssa.Instruction{}, visited: map[ssa.Instruction]bool{}}
	type item struct {
		p    Point
		from ssa.Instruction
		env  string // ";atom=T;atom=F" sorted by insertion (atoms are few)
	}
	type seenKey struct {
		p   Point
		env string
	}
	envGet := func(env, k string) (bool, bool) {
		if strings.Contains(env, ";"+k+"=T") {
			return true, true
		}
		if strings.Contains(env, ";"+k+"=F") {
			return false, true
		}
		return false, false
	}
	envSet := func(env, k string, v bool) string {
		s := ";" + k + "=F"
		if v {
			s = ";" + k + "=T"
		}
		parts := strings.Split(strings.TrimPrefix(env+s, ";"), ";")
		sortStrings(parts)
		return ";" + strings.Join(parts, ";")
	}
	var q []item
	for _, s := range starts {
		q = append(q, item{s, nil, ""})
	}
	seen := map[seenKey]bool{}
	ids := map[string]string{}
	for len(q) > 0 {
		it := q[0]
		q = q[1:]
		p, from, env := it.p, it.from, it.env
		for {
			if p.B == nil || p.I >= len(p.B.Instrs) {
				break
			}
			sk := seenKey{p, env}
			if seen[sk] {
				break
			}
			seen[sk] = true
			in := p.B.Instrs[p.I]
			if !r.visited[in] {
				r.visited[in] = true
				r.prev[in] = from
				r.order = append(r.order, in)
			}
			crossed := false
			for _, b := range bars {
				if b.Instr != nil && b.Instr(in) {
					crossed = true
					break
				}
			}
			if crossed {
				break
			}
			from = in
			if p.I == len(p.B.Instrs)-1 {
				switch t := in.(type) {
				case *ssa.If:
					cond := condOf(t)
					atom, pol := Truthy(cond)
					tracked := atom != nil && track != nil && track(atom)
					ak := ""
					if tracked {
						as := atom.String()
						if _, ok := ids[as]; !ok {
							ids[as] = fmt.Sprintf("a%d", len(ids))
						}
						ak = ids[as]
					}
					for k, s := range p.B.Succs {
						blocked := false
						for _, b := range bars {
							if b.Edge != nil {
								if m, which := b.Edge(cond); m && which == k {
									blocked = true
									break
								}
							}
						}
						if blocked {
							continue
						}
						nenv := env
						if tracked {
							// edge k==0 means cond true, i.e. atom truthy iff pol
							val := pol
							if k == 1 {
								val = !pol
							}
							if known, ok := envGet(env, ak); ok {
								if known != val {
									continue // infeasible edge
								}
							} else {
								nenv = envSet(env, ak, val)
							}
						}
						q = append(q, item{Point{s, 0}, in, nenv})
					}
				case *ssa.Jump:
					q = append(q, item{Point{p.B.Succs[0], 0}, in, env})
				}
				break
			}
			p.I++
		}
	}
	return r
}

func sortStrings(s []string) {
	for i := 1; i < len(s); i++ {
		for j := i; j > 0 && s[j] < s[j-1]; j-- {
			s[j], s[j-1] = s[j-1], s[j]
		}
	}
}
