package main

// F-C07-5 / C07-R12 — a reply WITHOUT an answer is reduced to what the asked
// zone's servers can speak for before it is relayed.
//
// A positive reply leaves Resolver.answer only through clearAdditional
// (C07-R6): its authority and additional sections are emptied.  A reply without
// an answer (NODATA, NXDOMAIN, a bare error rcode) leaves through
// Resolver.authority — which returns the upstream's message itself — or
// straight out of Resolver.resolve.  Whatever sits in Msg.Ns / Msg.Extra at
// that moment reaches the client and is stored by the cache as it stands, so
// the same containment has to hold there:
//
//   (A) every return of a message from Resolver.authority lies behind
//         Ns:    a store into Msg.Ns of a section filtered by owner to the zone
//                (dnsutil.FilterRRsToZone(…, non-constant zone), or a slice
//                built only by appends that sit behind dnsutil.NameInZone), or
//                an edge on which len(Msg.Ns) == 0, or clearAdditional;
//         Extra: a store into Msg.Extra of an empty section or of a slice built
//                only from OPT records (element of type *dns.OPT — IsEdns0, a
//                type assertion — or an append behind Rrtype == TypeOPT / a
//                successful assertion to *dns.OPT), or an edge on which
//                len(Msg.Extra) == 0, or clearAdditional;
//       — in authority itself (helpers are seen through by summary), or,
//       alternatively, before every call of authority in its callers;
//   (B) every return from Resolver.resolve whose message IS the groupLookup
//       result (not what answer/authority/resolve made of it) lies behind the
//       same two guards.
//
// A type-only filter (filterAuthorityRecords) is not an owner filter and does
// not count.  Nothing is executed and no record is ever looked at.

import (
	"fmt"
	"go/constant"
	"go/token"
	"go/types"

	"golang.org/x/tools/go/ssa"
)

func init() {
	wrap := func(id string, extra func(c *Ctx), explain string) {
		pd := props[id]
		if pd == nil {
			return
		}
		orig := pd.Run
		pd.Run = func(c *Ctx) { orig(c); extra(c) }
		pd.Explanation += " " + explain
	}
	wrap("C07", c07R12, "R12 (added): a reply without an answer (NODATA, NXDOMAIN, bare error rcode) leaves Resolver.authority / Resolver.resolve only after its authority section was filtered by owner to the asked zone and its additional section rebuilt from nothing but OPT — the negative-path counterpart of clearAdditional; otherwise the zone's server is believed about everybody's names whenever it denies.")
}

// c07Section decides whether a value stored into a message section is a
// scrubbed section: built from nothing but admissible elements.
type c07Section struct {
	c      *Ctx
	whole  func(e *Expr) bool     // the value as a whole is a filtered section
	elemOK func(v ssa.Value) bool // an appended element admissible by what it is
	guard  []Barrier              // … or the append that adds it lies behind one of these
}

func c07Unwrap(v ssa.Value) ssa.Value {
	for {
		switch x := v.(type) {
		case *ssa.MakeInterface:
			v = x.X
		case *ssa.ChangeInterface:
			v = x.X
		case *ssa.ChangeType:
			v = x.X
		default:
			return v
		}
	}
}

// packElems: the values stored into the backing array of a slice literal /
// variadic pack `new [n]T` sliced whole.
func c07PackElems(sl *ssa.Slice) ([]ssa.Value, bool) {
	al, ok := sl.X.(*ssa.Alloc)
	if !ok {
		return nil, false
	}
	if _, isArr := deref(al.Type()).Underlying().(*types.Array); !isArr {
		return nil, false
	}
	var out []ssa.Value
	for _, ref := range *al.Referrers() {
		switch r := ref.(type) {
		case *ssa.IndexAddr:
			for _, rr := range *r.Referrers() {
				if st, ok := rr.(*ssa.Store); ok && st.Addr == r {
					out = append(out, st.Val)
				} else {
					return nil, false
				}
			}
		case *ssa.Slice:
		default:
			return nil, false
		}
	}
	return out, true
}

func (s *c07Section) guarded(in ssa.Instruction) bool {
	if len(s.guard) == 0 {
		return false
	}
	ug, _ := s.c.unguarded(in, s.guard, in.Parent())
	return !ug
}

func (s *c07Section) elems(v ssa.Value, at ssa.Instruction, seen map[ssa.Value]bool, d int) bool {
	if sl, ok := v.(*ssa.Slice); ok {
		if es, ok := c07PackElems(sl); ok {
			if s.guarded(at) {
				return true
			}
			for _, e := range es {
				if s.elemOK == nil || !s.elemOK(c07Unwrap(e)) {
					return false
				}
			}
			return true
		}
	}
	return s.clean(v, seen, d+1) // append(a, b...)
}

func (s *c07Section) clean(v ssa.Value, seen map[ssa.Value]bool, d int) bool {
	v = c07Unwrap(v)
	if v == nil || d > 12 {
		return false
	}
	if seen[v] {
		return true // a loop-carried slice: its other edges are judged by the enclosing phi
	}
	seen[v] = true
	switch x := v.(type) {
	case *ssa.Const:
		return x.Value == nil
	case *ssa.MakeSlice:
		return true
	case *ssa.Phi:
		for _, e := range x.Edges {
			if !s.clean(e, seen, d+1) {
				return false
			}
		}
		return true
	case *ssa.Slice:
		if es, ok := c07PackElems(x); ok { // []dns.RR{a, b}
			for _, e := range es {
				if s.elemOK == nil || !s.elemOK(c07Unwrap(e)) {
					return false
				}
			}
			return true
		}
		if h, ok := x.High.(*ssa.Const); ok && h.Value != nil && constant.Sign(h.Value) == 0 {
			return true // sec[:0]
		}
		return s.clean(x.X, seen, d+1)
	case *ssa.UnOp:
		if x.Op == token.MUL {
			if al, ok := x.X.(*ssa.Alloc); ok {
				st := cellStores(al)
				if len(st) == 0 {
					return false
				}
				for _, w := range st {
					if !s.clean(w, seen, d+1) {
						return false
					}
				}
				return true
			}
		}
	case *ssa.Call:
		if b, ok := x.Call.Value.(*ssa.Builtin); ok {
			if b.Name() == "append" && len(x.Call.Args) == 2 {
				return s.clean(x.Call.Args[0], seen, d+1) && s.elems(x.Call.Args[1], x, seen, d)
			}
			return false
		}
		if s.whole != nil && s.whole(Desc(v)) {
			return true
		}
		// an unexported builder helper: every value it returns is a scrubbed section
		if h := localHelper(x.Parent(), &x.Call); h != nil && h.Signature.Results().Len() == 1 {
			n := 0
			for _, in := range instrsWhere(h, func(i ssa.Instruction) bool { _, ok := i.(*ssa.Return); return ok && i.Parent() == h }) {
				n++
				if !s.clean(in.(*ssa.Return).Results[0], map[ssa.Value]bool{}, d+1) {
					return false
				}
			}
			return n > 0
		}
		return false
	}
	return s.whole != nil && s.whole(Desc(v))
}

func c07R12(c *Ctx) {
	const R = "C07-R12"
	c.Doc(R, "a reply without an answer is relayed only scrubbed: every return of a message from Resolver.authority, and every return from Resolver.resolve of the groupLookup result itself, lies behind (Ns) a store into Msg.Ns of an owner-filtered section — dnsutil.FilterRRsToZone(…, zone) or appends behind dnsutil.NameInZone —, an empty authority section or clearAdditional, and (Extra) a store into Msg.Extra of an empty / OPT-only section, an empty additional section or clearAdditional; the guard may sit in authority (or an unexported helper of it) or before every call of authority. filterAuthorityRecords filters by type, not by owner, and does not count")
	auth := c.fn(R, c07res+".(*Resolver).authority")
	res := c.fn(R, c07res+".(*Resolver).resolve")
	gl := c.fobj(R, c07res+".(*Resolver).groupLookup")
	clear := c.fobj(R, c07res+".(*Resolver).clearAdditional")
	filter := c.fobj(R, "internal/dnsutil.FilterRRsToZone")
	inZone := c.fobj(R, "internal/dnsutil.NameInZone")
	nsF := c.field(R, c07dns+".Msg.Ns")
	extraF := c.field(R, c07dns+".Msg.Extra")
	rrtypeF := c.field(R, c07dns+".RR_Header.Rrtype")
	optTN := c.P.TypeName(c07dns + ".OPT")
	optC := c.P.ConstVal(c07dns + ".TypeOPT")
	if auth == nil || res == nil || gl == nil || clear == nil || filter == nil || inZone == nil || nsF == nil || extraF == nil || rrtypeF == nil {
		return
	}
	if optTN == nil || optC == nil {
		c.unresolved(R, "dns.OPT / dns.TypeOPT", "not found")
		return
	}
	isOptType := func(t types.Type) bool {
		p, ok := t.(*types.Pointer)
		if !ok {
			return false
		}
		n, ok := p.Elem().(*types.Named)
		return ok && n.Obj() == optTN
	}
	nonConstZone := func(fo *types.Func) Pat {
		return func(e *Expr) bool {
			e = strip(e)
			return e != nil && e.K == ECall && e.Fn != nil && sameFunc(e.Fn, fo) && len(e.Args) == 2 && !IsAnyConst(e.Args[1])
		}
	}
	isOptConst := func(e *Expr) bool {
		e = strip(e)
		return e != nil && e.K == EConst && e.Val != nil && constant.Compare(e.Val, token.EQL, optC)
	}
	assertOK := func(e *Expr) bool { // the ok of `x.(*dns.OPT)` / `case *dns.OPT`
		e = strip(e)
		if e == nil {
			return false
		}
		var ta *ssa.TypeAssert
		switch v := e.V.(type) {
		case *ssa.Extract:
			if v.Index == 1 {
				ta, _ = v.Tuple.(*ssa.TypeAssert)
			}
		}
		return ta != nil && ta.CommaOk && isOptType(ta.AssertedType)
	}
	nsSec := &c07Section{c: c, whole: nonConstZone(filter),
		guard: []Barrier{OnTrue("NameInZone(owner, zone)", nonConstZone(inZone))}}
	exSec := &c07Section{c: c,
		elemOK: func(v ssa.Value) bool { return isOptType(v.Type()) },
		guard: []Barrier{
			OnCmp("Rrtype == TypeOPT", FieldIs(rrtypeF), token.EQL, isOptConst, true),
			OnTrue("_, ok := rr.(*dns.OPT)", assertOK),
		}}
	storeOf := func(name string, fv *types.Var, sec *c07Section) Barrier {
		return Barrier{Name: name, Instr: func(in ssa.Instruction) bool {
			if !isFieldStore(in, fv, nil) {
				return false
			}
			return sec.clean(in.(*ssa.Store).Val, map[ssa.Value]bool{}, 0)
		}}
	}
	lenZero := func(name string, fv *types.Var) []Barrier {
		l := c07Len(FieldIs(fv))
		return []Barrier{
			OnCmp("len("+name+") > 0 fails", l, token.GTR, IsConstInt(0), false),
			OnCmp("len("+name+") == 0", l, token.EQL, IsConstInt(0), true),
		}
	}
	cleared := CallBarrier("clearAdditional", clear)
	// a call of an unexported helper that crosses base on every path, summarised with a
	// context of its own: the engine's shared summary memo can hold a verdict for the same
	// helper that was cut off at the depth limit (resolve → handleLookupError → resolve →
	// helper → helper's helper), which must not be taken for a fact about the helper
	viaHelper := func(base []Barrier) Barrier {
		memo := map[ssa.Instruction]bool{}
		return Barrier{Name: "helper that scrubs on every path", Instr: func(in ssa.Instruction) bool {
			cl, ok := in.(*ssa.Call)
			if !ok {
				return false
			}
			if v, ok := memo[in]; ok {
				return v
			}
			memo[in] = false
			h := localHelper(in.Parent(), &cl.Call)
			if h == nil || h.Signature.Results().Len() != 0 {
				return false // a scrub helper works on the message in place
			}
			hc := &helperCtx{always: map[helperKey]int{}, implies: map[helperKey]int{}, act: map[*ssa.Function][]*Expr{}}
			memo[in] = hc.alwaysCrosses(h, base, hc.callArgsIn(&cl.Call, in.Parent()))
			return memo[in]
		}}
	}
	groups := []struct {
		what string
		bars []Barrier
		why  string
	}{
		{"authority section filtered to the asked zone before relay",
			append([]Barrier{storeOf("resp.Ns = owner-filtered section", nsF, nsSec), cleared}, lenZero("resp.Ns", nsF)...),
			"the upstream's authority section is relayed (and cached) with records of any owner: `www.bank.example. A 6.6.6.6` next to the zone's SOA in a NODATA from the attacker.test. servers reaches the client"},
		{"additional section rebuilt from OPT only before relay",
			append([]Barrier{storeOf("resp.Extra = empty / OPT-only section", extraF, exSec), cleared}, lenZero("resp.Extra", extraF)...),
			"the upstream's additional section is relayed (and cached) untouched: `ns1.bank.example. AAAA 2001:db8::666` in the additional section of an NXDOMAIN from the attacker.test. servers reaches the client"},
	}

	for i := range groups {
		groups[i].bars = append(groups[i].bars, viaHelper(groups[i].bars))
	}

	// (A) Resolver.authority
	authObj := funcObjOf(auth)
	rets := instrsWhere(auth, func(in ssa.Instruction) bool {
		r, ok := in.(*ssa.Return)
		return ok && in.Parent() == auth && len(r.Results) == 2 && !IsNilConst(Desc(r.Results[0]))
	})
	if len(rets) == 0 {
		c.unresolved(R, "authority|return of a message", "none found")
	}
	var sites []Site
	if authObj != nil {
		sites = c.CallSites(authObj)
	}
	for _, g := range groups {
		key := fmt.Sprintf("%s|%s|negative reply: %s", R, fnKey(auth), g.what)
		if len(rets) == 0 {
			break
		}
		bad := ""
		var badAt ssa.Instruction
		for _, t := range rets {
			if ug, tr := c.unguarded(t, g.bars, auth); ug {
				bad, badAt = tr, t
				break
			}
		}
		if bad == "" {
			c.ok(R, key, auth.Pos(), "every return of a message from authority() lies behind the scrub")
			continue
		}
		// alternative placement: before every call of authority
		atCallers := len(sites) > 0
		for _, s := range sites {
			if s.Kind != "call" || s.Instr == nil {
				atCallers = false
				break
			}
			top := TopLevel(s.Fn)
			if top != res && top != auth {
				// a helper of resolve (processAuthoritySection): judged from resolve's entry through its call sites
				top = res
			}
			if ug, _ := c.unguarded(s.Instr, g.bars, top); ug {
				atCallers = false
				break
			}
		}
		if atCallers {
			c.ok(R, key, auth.Pos(), "every call of authority() lies behind the scrub")
			continue
		}
		c.violation(R, key, instrPos(badAt), "Resolver.authority returns the upstream's message and neither it nor its callers reduce it first: "+g.why+"; path "+bad)
	}

	// (B) Resolver.resolve returning the upstream message itself
	passThrough := func(e *Expr) []int { // a same-package helper that hands back one of its parameters (setTags)
		call := e
		if e.K == EExtract {
			call = e.X
		}
		if call == nil || call.K != ECall || call.SFn == nil || len(call.SFn.Blocks) == 0 || fnPkg(call.SFn) != fnPkg(res) {
			return nil
		}
		var idxs []int
		for _, in := range instrsWhere(call.SFn, func(i ssa.Instruction) bool { _, ok := i.(*ssa.Return); return ok && i.Parent() == call.SFn }) {
			r := in.(*ssa.Return)
			if len(r.Results) != 1 {
				return nil
			}
			p, ok := r.Results[0].(*ssa.Parameter)
			if !ok {
				return nil
			}
			for i, q := range call.SFn.Params {
				if q == p {
					idxs = append(idxs, i)
				}
			}
		}
		return idxs
	}
	var direct []ssa.Instruction
	for _, in := range instrsWhere(res, func(in ssa.Instruction) bool { _, ok := in.(*ssa.Return); return ok && in.Parent() == res }) {
		r := in.(*ssa.Return)
		if len(r.Results) != 2 || IsNilConst(Desc(r.Results[0])) {
			continue
		}
		for _, l := range Origins(Desc(r.Results[0]), passThrough) {
			if CallTo(gl)(l) {
				direct = append(direct, in)
				break
			}
		}
	}
	for _, g := range groups {
		key := fmt.Sprintf("%s|%s|upstream reply returned as it came: %s", R, fnKey(res), g.what)
		bad := ""
		var badAt ssa.Instruction
		for _, t := range direct {
			if ug, tr := c.unguarded(t, g.bars, res); ug {
				bad, badAt = tr, t
				break
			}
		}
		if bad == "" {
			c.ok(R, key, res.Pos(), fmt.Sprintf("%d return(s) of the groupLookup result itself, each behind the scrub", len(direct)))
			continue
		}
		c.violation(R, key, instrPos(badAt), "Resolver.resolve hands the groupLookup result to the client without reducing it: "+g.why+"; path "+bad)
	}
	c.Floor(R, 4)
}
