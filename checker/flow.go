package main

// Path engines over the SSA control-flow graph of one function:
//   reach      — instructions reachable from start points in the CFG minus barriers
//   mustCross  — E2: "every path from start to target crosses a barrier"
//   paired     — E3: "after acquire, every path to an exit crosses a release"

import (
	"fmt"
	"go/constant"
	"go/token"
	"go/types"
	"sort"
	"strings"

	"golang.org/x/tools/go/ssa"
)

// Point is the program point just before Instrs[I] of block B.
type Point struct {
	B *ssa.BasicBlock
	I int
}

// EdgeSpec decides, for a branch condition, whether one of the two outgoing
// edges is a barrier edge; succ is the index in Block.Succs (0 = true edge).
type EdgeSpec func(cond *Expr) (matched bool, succ int)

// Barrier is a set of instructions and branch edges; a path "crosses" the
// barrier when it executes a matching instruction or follows a matching edge.
type Barrier struct {
	Name  string
	Instr func(in ssa.Instruction) bool
	Edge  EdgeSpec
}

// atomHolds: does the branch condition c (already reduced by Truthy to atom a
// with polarity pol) decide the atom matched by p?  Besides the direct match it
// recognises boolean phis of short-circuit expressions: for x := a || b … the
// false edge of x implies every non-constant operand false; for x := a && b …
// the true edge implies every non-constant operand true.  Returns (matched,
// succ index on which the atom has value want).
func atomEdge(c *Expr, p Pat, want bool) (bool, int) {
	a, pol := Truthy(c)
	if a == nil {
		return false, 0
	}
	succFor := func(condVal bool) int {
		// successor taken when the (possibly negated) condition atom a has value condVal
		if condVal == pol {
			return 0
		}
		return 1
	}
	if p(a) {
		return true, succFor(want)
	}
	if a.K == EPhi && len(a.Args) > 0 {
		// phi false ⇒ operands that are not the constant true are false
		// phi true  ⇒ operands that are not the constant false are true
		all := true
		n := 0
		for _, op := range a.Args {
			if IsConstBool(!want)(op) {
				continue // this incoming edge cannot produce the value `want`
			}
			n++
			oa, opol := Truthy(op)
			if oa == nil || !opol || !p(oa) {
				all = false
			}
		}
		if all && n > 0 {
			return true, succFor(want)
		}
	}
	return false, 0
}

// OnTrue: the edge on which the atom matched by p is truthy (true / non-nil).
func OnTrue(name string, p Pat) Barrier {
	return Barrier{Name: name + "=true", Edge: func(c *Expr) (bool, int) { return atomEdge(c, p, true) }}
}

// OnFalse: the edge on which the atom matched by p is falsy (false / nil).
func OnFalse(name string, p Pat) Barrier {
	return Barrier{Name: name + "=false", Edge: func(c *Expr) (bool, int) { return atomEdge(c, p, false) }}
}

// OnCmp: the edge on which "lhs op rhs" holds (holds=true) or fails.
func OnCmp(name string, lhs Pat, op token.Token, rhs Pat, holds bool) Barrier {
	return Barrier{Name: name, Edge: func(c *Expr) (bool, int) {
		m, pol := CmpMatch(c, lhs, op, rhs)
		if !m {
			return false, 0
		}
		if pol == holds {
			return true, 0
		}
		return true, 1
	}}
}

// CallBarrier: executing a call (incl. go/defer = false) to one of fs.
func CallBarrier(name string, fs ...*types.Func) Barrier {
	return Barrier{Name: "call " + name, Instr: func(in ssa.Instruction) bool {
		c, ok := in.(*ssa.Call)
		if !ok {
			return false
		}
		return callIs(&c.Call, fs...)
	}}
}

func callIs(c *ssa.CallCommon, fs ...*types.Func) bool {
	fo, _, _ := calleeObj(c)
	if fo == nil {
		return false
	}
	for _, f := range fs {
		if f != nil && sameFunc(fo, f) {
			return true
		}
	}
	return false
}

// callCommon returns the CallCommon of call-like instructions.
func callCommon(in ssa.Instruction) *ssa.CallCommon {
	switch x := in.(type) {
	case *ssa.Call:
		return &x.Call
	case *ssa.Go:
		return &x.Call
	case *ssa.Defer:
		return &x.Call
	}
	return nil
}

// StoreBarrier: executing a store to field fv (optionally with a value pattern).
func StoreBarrier(name string, fv *types.Var, val Pat) Barrier {
	return Barrier{Name: "store " + name, Instr: func(in ssa.Instruction) bool {
		return isFieldStore(in, fv, val)
	}}
}

func isFieldStore(in ssa.Instruction, fv *types.Var, val Pat) bool {
	st, ok := in.(*ssa.Store)
	if !ok {
		return false
	}
	fa, ok := st.Addr.(*ssa.FieldAddr)
	if !ok {
		return false
	}
	s, ok := deref(fa.X.Type()).Underlying().(*types.Struct)
	if !ok || s.Field(fa.Field).Origin() != fv {
		return false
	}
	if val == nil {
		return true
	}
	return val(Desc(st.Val))
}

type reachResult struct {
	prev    map[ssa.Instruction]ssa.Instruction
	visited map[ssa.Instruction]bool
	order   []ssa.Instruction
}

var condCache = map[*ssa.If]*Expr{}

func condOf(i *ssa.If) *Expr {
	if e, ok := condCache[i]; ok {
		return e
	}
	e := Desc(i.Cond)
	condCache[i] = e
	return e
}

// reach explores fn's CFG from the start points without crossing barriers.
// stopAt (optional) instructions are visited but not passed.
func reach(starts []Point, bars []Barrier, stopAt func(ssa.Instruction) bool) *reachResult {
	r := &reachResult{prev: map[ssa.Instruction]ssa.Instruction{}, visited: map[ssa.Instruction]bool{}}
	type item struct {
		p    Point
		from ssa.Instruction
		pred int // index in p.B.Preds of the block we came from, when it matters (phi-valued branch condition); else -1
	}
	type stateKey struct {
		p    Point
		pred int
	}
	var q []item
	for _, s := range starts {
		q = append(q, item{s, nil, -1})
	}
	seenPt := map[stateKey]bool{}
	for len(q) > 0 {
		it := q[0]
		q = q[1:]
		p := it.p
		from := it.from
		pred := it.pred
		if p.I != 0 {
			pred = -1 // started mid-block: the incoming edge is unknown
		}
		for {
			if p.B == nil || p.I >= len(p.B.Instrs) {
				break
			}
			if seenPt[stateKey{p, pred}] {
				break
			}
			seenPt[stateKey{p, pred}] = true
			in := p.B.Instrs[p.I]
			if !r.visited[in] {
				r.visited[in] = true
				r.prev[in] = from
				r.order = append(r.order, in)
			}
			if stopAt != nil && stopAt(in) {
				break
			}
			crossed := false
			for _, b := range bars {
				if b.Instr != nil && b.Instr(in) {
					crossed = true
					break
				}
			}
			if crossed {
				break
			}
			from = in
			if p.I == len(p.B.Instrs)-1 {
				// terminator
				switch t := in.(type) {
				case *ssa.If:
					cond := condOf(t)
					// a branch on a boolean phi of this very block (x := a || b; if x):
					// when we know the incoming edge and its phi operand is a
					// constant, only the consistent successor is feasible
					only := -1
					if pred >= 0 {
						if v, ok := phiCondValue(t, pred); ok {
							if v {
								only = 0
							} else {
								only = 1
							}
						}
					}
					for k, s := range p.B.Succs {
						if only >= 0 && k != only {
							continue
						}
						blocked := false
						for _, b := range bars {
							if b.Edge != nil {
								if m, which := b.Edge(cond); m && which == k {
									blocked = true
									break
								}
							}
						}
						if !blocked {
							q = append(q, item{Point{s, 0}, in, predIndex(s, p.B)})
						}
					}
				case *ssa.Jump:
					q = append(q, item{Point{p.B.Succs[0], 0}, in, predIndex(p.B.Succs[0], p.B)})
				}
				break
			}
			p.I++
		}
	}
	return r
}

// predIndex returns the index of pred in b.Preds when b ends in a branch on a
// phi defined in b (the only case where the incoming edge matters), else -1.
func predIndex(b, pred *ssa.BasicBlock) int {
	if len(b.Instrs) == 0 {
		return -1
	}
	iff, ok := b.Instrs[len(b.Instrs)-1].(*ssa.If)
	if !ok || condPhi(iff) == nil {
		return -1
	}
	for i, p := range b.Preds {
		if p == pred {
			return i
		}
	}
	return -1
}

// condPhi: the branch condition is (a negation of) a phi defined in the same block.
func condPhi(iff *ssa.If) *ssa.Phi {
	v := iff.Cond
	for {
		if u, ok := v.(*ssa.UnOp); ok && u.Op == token.NOT {
			v = u.X
			continue
		}
		break
	}
	ph, ok := v.(*ssa.Phi)
	if !ok || ph.Block() != iff.Block() {
		return nil
	}
	return ph
}

// phiCondValue evaluates the branch condition for the given incoming edge when
// the phi operand on that edge is a boolean constant.
func phiCondValue(iff *ssa.If, pred int) (bool, bool) {
	ph := condPhi(iff)
	if ph == nil || pred < 0 || pred >= len(ph.Edges) {
		return false, false
	}
	k, ok := ph.Edges[pred].(*ssa.Const)
	if !ok || k.Value == nil || k.Value.Kind() != constant.Bool {
		return false, false
	}
	val := constant.BoolVal(k.Value)
	v := iff.Cond
	for {
		if u, ok := v.(*ssa.UnOp); ok && u.Op == token.NOT {
			val = !val
			v = u.X
			continue
		}
		break
	}
	return val, true
}

func entryPoint(fn *ssa.Function) []Point {
	if len(fn.Blocks) == 0 {
		return nil
	}
	return []Point{{fn.Blocks[0], 0}}
}

func pointAfter(in ssa.Instruction) Point {
	b := in.Block()
	for i, x := range b.Instrs {
		if x == in {
			return Point{b, i + 1}
		}
	}
	return Point{}
}

func pointAt(in ssa.Instruction) Point {
	b := in.Block()
	for i, x := range b.Instrs {
		if x == in {
			return Point{b, i}
		}
	}
	return Point{}
}

// trail renders the offending path (branch decisions only) for diagnostics.
func (c *Ctx) trail(r *reachResult, target ssa.Instruction) string {
	var steps []string
	cur := target
	n := 0
	for cur != nil && n < 400 {
		prev := r.prev[cur]
		if prev != nil {
			if _, ok := prev.(*ssa.If); ok {
				which := "?"
				pb := prev.Block()
				for k, s := range pb.Succs {
					if s == cur.Block() {
						if k == 0 {
							which = "T"
						} else {
							which = "F"
						}
					}
				}
				steps = append(steps, fmt.Sprintf("%s[%s]", c.lineOf(prev), which))
			}
		}
		cur = prev
		n++
	}
	// reverse, keep it short
	for i, j := 0, len(steps)-1; i < j; i, j = i+1, j-1 {
		steps[i], steps[j] = steps[j], steps[i]
	}
	if len(steps) > 12 {
		steps = append(steps[:4], append([]string{"…"}, steps[len(steps)-7:]...)...)
	}
	return strings.Join(steps, "→")
}

func (c *Ctx) lineOf(in ssa.Instruction) string {
	ps := c.P.Fset.Position(instrPos(in))
	return fmt.Sprintf("L%d", ps.Line)
}

// closureSites returns the MakeClosure instructions creating fn in its parent.
func closureSites(fn *ssa.Function) []ssa.Instruction {
	par := fn.Parent()
	if par == nil {
		return nil
	}
	var out []ssa.Instruction
	for _, b := range par.Blocks {
		for _, in := range b.Instrs {
			if m, ok := in.(*ssa.MakeClosure); ok && m.Fn == fn {
				out = append(out, in)
			}
		}
	}
	return out
}

// unguarded reports whether target (an instruction of fn or of one of its
// nested closures) is reachable from the entry of the top function without
// crossing a barrier; closures inherit the facts that hold where they are
// created.  Returns a trail if reachable.
func (c *Ctx) unguarded(target ssa.Instruction, bars []Barrier, top *ssa.Function) (bool, string) {
	fn := target.Parent()
	r := reach(entryPoint(fn), bars, nil)
	if !r.visited[target] {
		return false, ""
	}
	tr := c.trail(r, target)
	if fn == top || fn.Parent() == nil {
		return true, tr
	}
	sites := closureSites(fn)
	if len(sites) == 0 {
		return true, tr
	}
	for _, s := range sites {
		if ug, t2 := c.unguarded(s, bars, top); ug {
			return true, t2 + "⇒closure:" + tr
		}
	}
	return false, ""
}

// MustCross (E2): every instruction matching target in fn (and its closures)
// must be unreachable from fn's entry without crossing one of bars.
// Returns the number of target sites found.
func (c *Ctx) MustCross(rule string, fn *ssa.Function, what string, target func(ssa.Instruction) bool, bars ...Barrier) int {
	if fn == nil {
		c.unresolved(rule, what, "function not found")
		return 0
	}
	n := 0
	var bn []string
	for _, b := range bars {
		bn = append(bn, b.Name)
	}
	for _, f := range WithAnons(fn) {
		for _, b := range f.Blocks {
			for _, in := range b.Instrs {
				if !target(in) {
					continue
				}
				n++
				key := fmt.Sprintf("%s|%s|%s|%s", rule, fnKey(fn), what, strings.Join(bn, ","))
				ug, tr := c.unguarded(in, bars, fn)
				if ug {
					c.violation(rule, key, instrPos(in), fmt.Sprintf("%s in %s reachable without crossing {%s}; path %s", what, fnKey(f), strings.Join(bn, " | "), tr))
				} else {
					c.ok(rule, key, instrPos(in), fmt.Sprintf("%s in %s is behind {%s}", what, fnKey(f), strings.Join(bn, " | ")))
				}
			}
		}
	}
	if n == 0 {
		c.unresolved(rule, fmt.Sprintf("%s|%s", fnKey(fn), what), "no target site found (rule would pass vacuously)")
	}
	return n
}

// MustCrossAll checks each barrier separately (conjunction of guards).
func (c *Ctx) MustCrossAll(rule string, fn *ssa.Function, what string, target func(ssa.Instruction) bool, bars ...Barrier) {
	for _, b := range bars {
		c.MustCross(rule, fn, what, target, b)
	}
}

// MustCrossFrom: like MustCross but paths start right after each instruction
// matching from (ordering "A … then only via M … B").
func (c *Ctx) MustCrossFrom(rule string, fn *ssa.Function, what string, from func(ssa.Instruction) bool, target func(ssa.Instruction) bool, bars ...Barrier) int {
	if fn == nil {
		c.unresolved(rule, what, "function not found")
		return 0
	}
	var bn []string
	for _, b := range bars {
		bn = append(bn, b.Name)
	}
	n := 0
	for _, f := range WithAnons(fn) {
		for _, b := range f.Blocks {
			for _, in := range b.Instrs {
				if !from(in) {
					continue
				}
				n++
				key := fmt.Sprintf("%s|%s|%s", rule, fnKey(fn), what)
				r := reach([]Point{pointAfter(in)}, bars, nil)
				bad := false
				for _, t := range r.order {
					if target(t) {
						bad = true
						c.violation(rule, key, instrPos(t), fmt.Sprintf("%s: from %s reaches %s without crossing {%s}; path %s", what, c.P.pos(instrPos(in)), c.P.pos(instrPos(t)), strings.Join(bn, " | "), c.trail(r, t)))
						break
					}
				}
				if !bad {
					c.ok(rule, key, instrPos(in), fmt.Sprintf("%s: nothing forbidden reachable after %s without {%s}", what, c.P.pos(instrPos(in)), strings.Join(bn, " | ")))
				}
			}
		}
	}
	if n == 0 {
		c.unresolved(rule, fmt.Sprintf("%s|%s", fnKey(fn), what), "no start site found (rule would pass vacuously)")
	}
	return n
}

func isReturn(in ssa.Instruction) bool { _, ok := in.(*ssa.Return); return ok }

func isExit(in ssa.Instruction) bool {
	switch in.(type) {
	case *ssa.Return:
		return true
	}
	return false
}

// deferRelease: a Defer instruction whose callee is one of rel, or a closure
// that contains a call matched by relInstr.
func deferBarrier(name string, relInstr func(ssa.Instruction) bool) Barrier {
	return Barrier{Name: "defer " + name, Instr: func(in ssa.Instruction) bool {
		d, ok := in.(*ssa.Defer)
		if !ok {
			return false
		}
		if relInstr(in) {
			return true
		}
		var body *ssa.Function
		switch v := d.Call.Value.(type) {
		case *ssa.MakeClosure:
			body, _ = v.Fn.(*ssa.Function)
		case *ssa.Function:
			body = v
		}
		if body == nil {
			return false
		}
		for _, f := range WithAnons(body) {
			for _, b := range f.Blocks {
				for _, x := range b.Instrs {
					if relInstr(x) {
						return true
					}
				}
			}
		}
		return false
	}}
}

// Paired (E3): after every instruction matching acquire in fn (each nested
// function analysed on its own), every path to a return crosses release (an
// instruction, a deferred release, or an exempt edge).
func (c *Ctx) Paired(rule string, fn *ssa.Function, what string, acquire func(ssa.Instruction) bool, release func(ssa.Instruction) bool, extra ...Barrier) int {
	if fn == nil {
		c.unresolved(rule, what, "function not found")
		return 0
	}
	n := 0
	bars := []Barrier{{Name: "release", Instr: func(in ssa.Instruction) bool {
		if _, isDefer := in.(*ssa.Defer); isDefer {
			return false
		}
		return release(in)
	}}, deferBarrier("release", release)}
	bars = append(bars, extra...)
	for _, f := range WithAnons(fn) {
		// a release deferred before the acquire covers every exit
		for _, b := range f.Blocks {
			for _, in := range b.Instrs {
				if !acquire(in) {
					continue
				}
				n++
				key := fmt.Sprintf("%s|%s|%s", rule, fnKey(fn), what)
				if c.deferredBefore(f, in, bars[1]) {
					c.ok(rule, key, instrPos(in), fmt.Sprintf("%s: release deferred before acquire in %s", what, fnKey(f)))
					continue
				}
				r := reach([]Point{pointAfter(in)}, bars, nil)
				bad := false
				for _, t := range r.order {
					if isExit(t) {
						bad = true
						c.violation(rule, key, instrPos(t), fmt.Sprintf("%s: acquired at %s, exit at %s reachable without release; path %s", what, c.P.pos(instrPos(in)), c.P.pos(instrPos(t)), c.trail(r, t)))
						break
					}
				}
				if !bad {
					c.ok(rule, key, instrPos(in), fmt.Sprintf("%s: every exit after %s crosses a release", what, c.P.pos(instrPos(in))))
				}
			}
		}
	}
	if n == 0 {
		c.unresolved(rule, fmt.Sprintf("%s|%s", fnKey(fn), what), "no acquire site found (rule would pass vacuously)")
	}
	return n
}

// deferredBefore: every path from entry to `at` crosses the defer barrier.
func (c *Ctx) deferredBefore(f *ssa.Function, at ssa.Instruction, deferBar Barrier) bool {
	has := false
	for _, b := range f.Blocks {
		for _, in := range b.Instrs {
			if deferBar.Instr(in) {
				has = true
			}
		}
	}
	if !has {
		return false
	}
	r := reach(entryPoint(f), []Barrier{deferBar}, nil)
	return !r.visited[at]
}

// instrsWhere lists instructions of fn (and closures) matching pred, in source order.
func instrsWhere(fn *ssa.Function, pred func(ssa.Instruction) bool) []ssa.Instruction {
	var out []ssa.Instruction
	for _, f := range WithAnons(fn) {
		for _, b := range f.Blocks {
			for _, in := range b.Instrs {
				if pred(in) {
					out = append(out, in)
				}
			}
		}
	}
	sort.SliceStable(out, func(i, j int) bool { return instrPos(out[i]) < instrPos(out[j]) })
	return out
}

// isCallTo builds an instruction predicate for calls (call/go/defer) to fs.
func isCallTo(fs ...*types.Func) func(ssa.Instruction) bool {
	return func(in ssa.Instruction) bool {
		cc := callCommon(in)
		if cc == nil {
			return false
		}
		return callIs(cc, fs...)
	}
}

// isPlainCallTo: only *ssa.Call (not go/defer).
func isPlainCallTo(fs ...*types.Func) func(ssa.Instruction) bool {
	return func(in ssa.Instruction) bool {
		cl, ok := in.(*ssa.Call)
		if !ok {
			return false
		}
		return callIs(&cl.Call, fs...)
	}
}

// isInvokeNamed matches dynamic or static method calls by method name whose
// receiver type satisfies recvOK (nil = any).
func isMethodCallNamed(name string, recvOK func(types.Type) bool) func(ssa.Instruction) bool {
	return func(in ssa.Instruction) bool {
		cc := callCommon(in)
		if cc == nil {
			return false
		}
		if cc.IsInvoke() {
			if cc.Method.Name() != name {
				return false
			}
			return recvOK == nil || recvOK(cc.Value.Type())
		}
		fo, _, _ := calleeObj(cc)
		if fo == nil || fo.Name() != name {
			return false
		}
		sig := fo.Type().(*types.Signature)
		if sig.Recv() == nil {
			return false
		}
		return recvOK == nil || recvOK(sig.Recv().Type())
	}
}

// edgePoints returns the entry points of the successor blocks reached through
// branch edges matched by e (in fn and its closures).
func edgePoints(fn *ssa.Function, e Barrier) []Point {
	var out []Point
	if e.Edge == nil {
		return nil
	}
	for _, f := range WithAnons(fn) {
		for _, b := range f.Blocks {
			if len(b.Instrs) == 0 {
				continue
			}
			iff, ok := b.Instrs[len(b.Instrs)-1].(*ssa.If)
			if !ok {
				continue
			}
			if m, which := e.Edge(condOf(iff)); m {
				out = append(out, Point{b.Succs[which], 0})
			}
		}
	}
	return out
}

// AfterEdge (E2 variant): on every path that follows an edge matched by
// `edge`, no instruction matching target is reached without crossing bars.
func (c *Ctx) AfterEdge(rule string, fn *ssa.Function, what string, edge Barrier, target func(ssa.Instruction) bool, bars ...Barrier) int {
	if fn == nil {
		c.unresolved(rule, what, "function not found")
		return 0
	}
	pts := edgePoints(fn, edge)
	var bn []string
	for _, b := range bars {
		bn = append(bn, b.Name)
	}
	key := fmt.Sprintf("%s|%s|%s|after %s", rule, fnKey(fn), what, edge.Name)
	if len(pts) == 0 {
		c.unresolved(rule, fmt.Sprintf("%s|%s|after %s", fnKey(fn), what, edge.Name), "no branch edge matches (rule would pass vacuously)")
		return 0
	}
	for _, pt := range pts {
		r := reach([]Point{pt}, bars, nil)
		bad := false
		for _, t := range r.order {
			if target(t) {
				bad = true
				c.violation(rule, key, instrPos(t), fmt.Sprintf("%s: after edge %s (block at %s) reaches %s without crossing {%s}; path %s", what, edge.Name, c.P.pos(instrPos(pt.B.Instrs[0])), c.P.pos(instrPos(t)), strings.Join(bn, " | "), c.trail(r, t)))
				break
			}
		}
		if !bad {
			c.ok(rule, key, instrPos(pt.B.Instrs[0]), fmt.Sprintf("%s: after edge %s nothing forbidden is reachable without {%s}", what, edge.Name, strings.Join(bn, " | ")))
		}
	}
	return len(pts)
}

// ReturnsConst: fn has only returns whose result #idx is the given constant.
func (c *Ctx) ReturnsConst(rule string, fn *ssa.Function, idx int, want Pat, wantDesc string) {
	if fn == nil {
		c.unresolved(rule, "ReturnsConst", "function not found")
		return
	}
	key := fmt.Sprintf("%s|%s|returns %s", rule, fnKey(fn), wantDesc)
	n := 0
	for _, b := range fn.Blocks {
		for _, in := range b.Instrs {
			r, ok := in.(*ssa.Return)
			if !ok || idx >= len(r.Results) {
				continue
			}
			n++
			for _, l := range Origins(Desc(r.Results[idx]), nil) {
				if !want(l) {
					c.violation(rule, key, instrPos(in), fmt.Sprintf("%s may return %s, want %s", fnKey(fn), l.String(), wantDesc))
					return
				}
			}
		}
	}
	if n == 0 {
		c.unresolved(rule, key, "no return found")
		return
	}
	c.ok(rule, key, fn.Pos(), fmt.Sprintf("%s returns %s on every path", fnKey(fn), wantDesc))
}

// ---------------------------------------------------------------------------
// Guard decision tables over the CFG (E8 on branch structure): starting at a
// program point, every branch met must test one of the declared comparison
// atoms; for each assignment of truth values to the atoms the walk follows the
// corresponding edges until it reaches an instruction classified by outcome.
// The resulting table is compared with a reference formula.  Nothing is
// executed: atoms are opaque booleans.

type CmpAtom struct {
	Name     string
	Lhs, Rhs Pat
	Op       token.Token
}

// DecisionTable returns, for each of the 2^n assignments (bit i = atom i true),
// the outcome label, or an error string when a branch tests something else.
func DecisionTable(start Point, atoms []CmpAtom, outcome func(ssa.Instruction) string) ([]string, string) {
	n := len(atoms)
	res := make([]string, 1<<n)
	for row := 0; row < 1<<n; row++ {
		p := start
		steps := 0
		for {
			steps++
			if steps > 10000 || p.B == nil {
				return nil, "walk did not reach an outcome"
			}
			if p.I >= len(p.B.Instrs) {
				return nil, "fell off a block"
			}
			in := p.B.Instrs[p.I]
			if lab := outcome(in); lab != "" {
				res[row] = lab
				break
			}
			if p.I < len(p.B.Instrs)-1 {
				p.I++
				continue
			}
			switch t := in.(type) {
			case *ssa.Jump:
				p = Point{p.B.Succs[0], 0}
			case *ssa.If:
				cond := condOf(t)
				matched := false
				for ai, a := range atoms {
					if m, pol := CmpMatch(cond, a.Lhs, a.Op, a.Rhs); m {
						val := row&(1<<ai) != 0
						// condition true exactly when (atom == pol)
						if val == pol {
							p = Point{p.B.Succs[0], 0}
						} else {
							p = Point{p.B.Succs[1], 0}
						}
						matched = true
						break
					}
				}
				if !matched {
					return nil, "branch tests something other than the declared atoms: " + trunc(cond.String(), 160)
				}
			default:
				return nil, "reached a function exit before an outcome"
			}
		}
	}
	return res, ""
}
