package main

// Path engines over the SSA control-flow graph of one function:
//   reach      — instructions reachable from start points in the CFG minus barriers
//   mustCross  — E2: "every path from start to target crosses a barrier"
//   paired     — E3: "after acquire, every path to an exit crosses a release"

import (
	"fmt"
	"go/constant"
	"go/token"
	"go/types"
	"os"
	"sort"
	"strings"

	"golang.org/x/tools/go/ssa"
)

// Point is the program point just before Instrs[I] of block B.
type Point struct {
	B *ssa.BasicBlock
	I int
}

// EdgeSpec decides, for a branch condition, whether one of the two outgoing
// edges is a barrier edge; succ is the index in Block.Succs (0 = true edge).
type EdgeSpec func(cond *Expr) (matched bool, succ int)

// Barrier is a set of instructions and branch edges; a path "crosses" the
// barrier when it executes a matching instruction or follows a matching edge.
type Barrier struct {
	Name  string
	Instr func(in ssa.Instruction) bool
	Edge  EdgeSpec
}

// condMatcher says whether a (sub)condition is the atom or its negation:
// matched, pol — the expression is true exactly when the atom has value pol.
type condMatcher func(e *Expr) (bool, bool)

// edgeFor decides which successor of a branch on condition c is taken when the
// atom has value want.  Besides the direct case it sees through boolean phis
// of short-circuit expressions and named boolean locals (x := a || b; x := a
// && b; ok := cmp): for the edge on which the phi has value X, the operands
// that are not the constant ¬X must all, when equal to X, fix the atom to
// `want` — then that edge is an atom==want edge.
func edgeFor(c *Expr, match condMatcher, want bool) (bool, int) {
	a, pol0 := Truthy(c)
	if a == nil {
		return false, 0
	}
	succWhenCondIs := func(v bool) int {
		if v {
			return 0
		}
		return 1
	}
	// direct
	if m, p := match(a); m {
		// a true ⇔ atom == p ; cond true ⇔ a == pol0
		condVal := (want == p) == pol0
		return true, succWhenCondIs(condVal)
	}
	if a.K == EPhi && len(a.Args) > 0 {
		for _, X := range []bool{true, false} {
			all := true
			n := 0
			for _, op := range a.Args {
				if IsConstBool(!X)(op) {
					continue // this incoming edge cannot give the phi the value X
				}
				if IsConstBool(X)(op) {
					all = false // the phi can be X without the atom being involved
					break
				}
				n++
				m, p := match(op)
				if !m {
					// operand may itself be negated / compared with a constant
					oa, opol := Truthy(op)
					if oa == nil {
						all = false
						break
					}
					m2, p2 := match(oa)
					if !m2 {
						all = false
						break
					}
					m, p = true, p2 == opol
				}
				_ = m
				// op == X ⇔ atom == (X == p)
				if (X == p) != want {
					all = false
					break
				}
			}
			if all && n > 0 {
				// phi == X ; cond true ⇔ phi == pol0
				return true, succWhenCondIs(X == pol0)
			}
		}
	}
	return false, 0
}

func atomEdge(c *Expr, p Pat, want bool) (bool, int) {
	return edgeFor(c, func(e *Expr) (bool, bool) {
		if e != nil && p(e) {
			return true, true
		}
		return false, false
	}, want)
}

// OnTrue: the edge on which the atom matched by p is truthy (true / non-nil).
func OnTrue(name string, p Pat) Barrier {
	return Barrier{Name: name + "=true", Edge: func(c *Expr) (bool, int) { return atomEdge(c, p, true) }}
}

// OnFalse: the edge on which the atom matched by p is falsy (false / nil).
func OnFalse(name string, p Pat) Barrier {
	return Barrier{Name: name + "=false", Edge: func(c *Expr) (bool, int) { return atomEdge(c, p, false) }}
}

// OnCmp: the edge on which "lhs op rhs" holds (holds=true) or fails; mirrored,
// negated and phi-carried (named boolean / short-circuit) forms are recognised.
func OnCmp(name string, lhs Pat, op token.Token, rhs Pat, holds bool) Barrier {
	return Barrier{Name: name, Edge: func(c *Expr) (bool, int) {
		return edgeFor(c, func(e *Expr) (bool, bool) { return CmpMatch(e, lhs, op, rhs) }, holds)
	}}
}

// CallBarrier: executing a call (incl. go/defer = false) to one of fs.
func CallBarrier(name string, fs ...*types.Func) Barrier {
	return Barrier{Name: "call " + name, Instr: func(in ssa.Instruction) bool {
		c, ok := in.(*ssa.Call)
		if !ok {
			return false
		}
		return callIs(&c.Call, fs...)
	}}
}

func callIs(c *ssa.CallCommon, fs ...*types.Func) bool {
	fo, _, _ := calleeObj(c)
	if fo == nil {
		return false
	}
	for _, f := range fs {
		if f != nil && sameFunc(fo, f) {
			return true
		}
	}
	return false
}

// callCommon returns the CallCommon of call-like instructions.
func callCommon(in ssa.Instruction) *ssa.CallCommon {
	switch x := in.(type) {
	case *ssa.Call:
		return &x.Call
	case *ssa.Go:
		return &x.Call
	case *ssa.Defer:
		return &x.Call
	}
	return nil
}

// StoreBarrier: executing a store to field fv (optionally with a value pattern).
func StoreBarrier(name string, fv *types.Var, val Pat) Barrier {
	return Barrier{Name: "store " + name, Instr: func(in ssa.Instruction) bool {
		return isFieldStore(in, fv, val)
	}}
}

func isFieldStore(in ssa.Instruction, fv *types.Var, val Pat) bool {
	st, ok := in.(*ssa.Store)
	if !ok {
		return false
	}
	fa, ok := st.Addr.(*ssa.FieldAddr)
	if !ok {
		return false
	}
	s, ok := deref(fa.X.Type()).Underlying().(*types.Struct)
	if !ok || s.Field(fa.Field).Origin() != fv {
		return false
	}
	if val == nil {
		return true
	}
	return val(Desc(st.Val))
}

type reachResult struct {
	prev    map[ssa.Instruction]ssa.Instruction
	visited map[ssa.Instruction]bool
	order   []ssa.Instruction
}

var condCache = map[*ssa.If]*Expr{}

func condOf(i *ssa.If) *Expr {
	if e, ok := condCache[i]; ok {
		return e
	}
	e := Desc(i.Cond)
	condCache[i] = e
	return e
}

// reach explores fn's CFG from the start points without crossing barriers.
// stopAt (optional) instructions are visited but not passed.
func reach(starts []Point, bars []Barrier, stopAt func(ssa.Instruction) bool) *reachResult {
	return reachH(starts, bars, stopAt, &helperCtx{always: map[helperKey]int{}, implies: map[helperKey]int{}, act: map[*ssa.Function][]*Expr{}})
}

// ---------------------------------------------------------------------------
// Unexported same-package helpers are seen through by SUMMARY, never by
// continuing a path out of their body (so no infeasible call/return pairs):
//   * a call to a helper that crosses the barriers on every path from its entry
//     to any of its returns crosses the barriers;
//   * branching on a helper's result: the edge taken for result value v is a
//     barrier edge when every return of the helper that may yield v is
//     unreachable from its entry without crossing the barriers (the helper's
//     "v" result implies the guard — e.g. a nil error implies Sync succeeded,
//     a true verdict implies every record was admissible).
// Summaries are recursive through further helpers, depth-limited.

type helperKey struct {
	fn   *ssa.Function
	idx  int
	want bool   // truthy (true / non-nil) or falsy
	sig  string // the activation's arguments
}

type helperCtx struct {
	always  map[helperKey]int // 0 unknown, 1 yes, 2 no, 3 in progress
	implies map[helperKey]int
	depth   int
	// act: the arguments (described in the ORIGINAL caller's terms) of the helper
	// activations being summarised; conditions met inside a helper body are
	// matched against barriers with the helper's parameters replaced by them,
	// so a guard spelled on the caller's values (f.Sync() on the temp file, the
	// same response, the inserted key) is recognised inside the helper
	act map[*ssa.Function][]*Expr
	// edgePhi (opt-in, set by the rule that builds the context): when judging what a
	// helper's phi-valued result may yield, an operand that flows in over a barrier edge
	// is skipped (phiEdgeBlocked).  Off for every rule that goes through reach()/unguarded().
	edgePhi bool
	// cuts counts the summaries refused because of the depth bound or a busy
	// activation: a negative verdict reached while one was refused is not memoised
	// (it may only reflect the cut-off, and the same helper asked at top level
	// could be summarised in full)
	cuts int
	// cutNeg: the shallowest depth at which such a cut-off negative was computed; it
	// is reused at that depth or deeper and recomputed when asked nearer the top
	cutNegA map[helperKey]int
	cutNegI map[helperKey]int
}

// inHelper rewrites a condition met in function f's body into the caller's terms.
func (hc *helperCtx) inHelper(f *ssa.Function, e *Expr) *Expr {
	if hc == nil || hc.act == nil || e == nil {
		return e
	}
	top := TopLevel(f)
	if o := top.Origin(); o != nil {
		top = o
	}
	args, ok := hc.act[top]
	if !ok {
		return e
	}
	return substParams(e, args, map[*Expr]*Expr{}, 0)
}

// callArgsIn describes a call's arguments in the original caller's terms.
func (hc *helperCtx) callArgsIn(cc *ssa.CallCommon, caller *ssa.Function) []*Expr {
	out := make([]*Expr, len(cc.Args))
	for i, a := range cc.Args {
		out[i] = hc.inHelper(caller, Desc(a))
	}
	return out
}

func argSig(args []*Expr) string {
	var sb strings.Builder
	for _, a := range args {
		if a != nil {
			sb.WriteString(a.String())
		}
		sb.WriteByte(';')
	}
	return sb.String()
}

// substParams: copy of e with every parameter node replaced by the matching argument.
func substParams(e *Expr, args []*Expr, memo map[*Expr]*Expr, d int) *Expr {
	if e == nil || d > 40 {
		return e
	}
	if r, ok := memo[e]; ok {
		return r
	}
	if e.K == EParam {
		if e.Idx >= 0 && e.Idx < len(args) && args[e.Idx] != nil {
			memo[e] = args[e.Idx]
			return args[e.Idx]
		}
		return e
	}
	if e.X == nil && e.Y == nil && len(e.Args) == 0 {
		return e
	}
	cp := *e
	memo[e] = &cp
	cp.X = substParams(e.X, args, memo, d+1)
	cp.Y = substParams(e.Y, args, memo, d+1)
	if len(e.Args) > 0 {
		cp.Args = make([]*Expr, len(e.Args))
		for i, a := range e.Args {
			cp.Args[i] = substParams(a, args, memo, d+1)
		}
	}
	return &cp
}

// localHelper returns the callee when it is an unexported, non-recursive,
// same-package function with a body (not a closure, not a method value).
func localHelper(caller *ssa.Function, cc *ssa.CallCommon) *ssa.Function {
	if cc == nil || cc.IsInvoke() {
		return nil
	}
	h := cc.StaticCallee()
	if h == nil || len(h.Blocks) == 0 || h.Parent() != nil {
		return nil
	}
	if o := h.Origin(); o != nil {
		h = o
		if len(h.Blocks) == 0 {
			return nil
		}
	}
	top := TopLevel(caller)
	if o := top.Origin(); o != nil {
		top = o
	}
	if h == top {
		return nil
	}
	hp, cp := fnPkg(h), fnPkg(top)
	if hp == nil || cp == nil || hp != cp {
		return nil
	}
	if token.IsExported(h.Name()) {
		return nil
	}
	return h
}

func (hc *helperCtx) alwaysCrosses(h *ssa.Function, bars []Barrier, args []*Expr) bool {
	k := helperKey{fn: h, sig: argSig(args)}
	switch hc.always[k] {
	case 1:
		return true
	case 2:
		return false
	case 3:
		hc.cuts++
		return false
	}
	if hc.depth >= 3 {
		hc.cuts++
		return false
	}
	if _, busy := hc.act[h]; busy {
		hc.cuts++
		return false
	}
	if d, ok := hc.cutNegA[k]; ok && hc.depth+1 >= d {
		hc.cuts++
		return false
	}
	hc.always[k] = 3
	hc.depth++
	hc.act[h] = args
	cuts0 := hc.cuts
	r := reachH(entryPoint(h), bars, nil, hc)
	delete(hc.act, h)
	hc.depth--
	ok := true
	for _, in := range r.order {
		if _, isRet := in.(*ssa.Return); isRet {
			ok = false
			break
		}
	}
	if ok {
		hc.always[k] = 1
		if os.Getenv("SDNSVERIF_DEBUG_HELPER") != "" {
			fmt.Fprintf(os.Stderr, "DEBUG alwaysCrosses %s bars=%d\n", h.Name(), len(bars))
		}
	} else if hc.cuts != cuts0 {
		delete(hc.always, k)
		if hc.cutNegA == nil {
			hc.cutNegA = map[helperKey]int{}
		}
		hc.cutNegA[k] = hc.depth + 1
	} else {
		hc.always[k] = 2
	}
	return ok
}

// resultImplies: every return of h whose result #idx may have truthiness
// `want` is unreachable from h's entry without crossing bars.
func (hc *helperCtx) resultImplies(h *ssa.Function, idx int, want bool, bars []Barrier, args []*Expr) bool {
	k := helperKey{h, idx, want, argSig(args)}
	switch hc.implies[k] {
	case 1:
		return true
	case 2:
		return false
	case 3:
		hc.cuts++
		return false
	}
	if hc.depth >= 3 {
		hc.cuts++
		return false
	}
	if _, busy := hc.act[h]; busy {
		hc.cuts++
		return false
	}
	if d, ok := hc.cutNegI[k]; ok && hc.depth+1 >= d {
		hc.cuts++
		return false
	}
	hc.implies[k] = 3
	hc.depth++
	hc.act[h] = args
	cuts0 := hc.cuts
	defer func() { hc.depth--; delete(hc.act, h) }()
	base := reachH(entryPoint(h), bars, nil, hc)
	ok := true
	nret := 0
	for _, in := range base.order {
		ret, isRet := in.(*ssa.Return)
		if !isRet || idx >= len(ret.Results) {
			continue
		}
		nret++
		if hc.mayYield(h, ret.Results[idx], in, want, bars, base, 0) {
			ok = false
			break
		}
	}
	if nret == 0 {
		// every return is already behind the barriers
		ok = true
	}
	if ok {
		hc.implies[k] = 1
		if os.Getenv("SDNSVERIF_DEBUG_HELPER") != "" {
			fmt.Fprintf(os.Stderr, "DEBUG resultImplies %s idx=%d want=%v nret=%d\n", h.Name(), idx, want, nret)
		}
	} else if hc.cuts != cuts0 {
		delete(hc.implies, k)
		if hc.cutNegI == nil {
			hc.cutNegI = map[helperKey]int{}
		}
		hc.cutNegI[k] = hc.depth
	} else {
		hc.implies[k] = 2
	}
	return ok
}

// mayYield: can value v, observed when control reaches `at`, have truthiness
// `want` on a path from h's entry that avoids bars?  Short-circuit results
// (return a || b || c) are phis: each operand is judged at the end of the block
// it flows in from, so `false` can only come from the operands that may be
// false, on the paths that lead to them.
func (hc *helperCtx) mayYield(h *ssa.Function, v ssa.Value, at ssa.Instruction, want bool, bars []Barrier, base *reachResult, depth int) bool {
	if !base.visited[at] {
		return false
	}
	d := hc.inHelper(h, Desc(v))
	if sv := strip(d); sv != nil && sv.K == EConst {
		truthy := !sv.IsNil
		if sv.Val != nil && sv.Val.Kind() == constant.Bool {
			truthy = constant.BoolVal(sv.Val)
		}
		return truthy == want
	}
	if ph, ok := v.(*ssa.Phi); ok && depth < 4 && len(ph.Edges) == len(ph.Block().Preds) {
		for i, e := range ph.Edges {
			pred := ph.Block().Preds[i]
			if len(pred.Instrs) == 0 {
				return true
			}
			if hc.edgePhi && hc.phiEdgeBlocked(pred, ph.Block(), bars) {
				continue // the operand flows in over a barrier edge: not on a bars-avoiding path
			}
			// the operand flows in along pred→phi-block; when that very edge is a
			// barrier edge (return a && !b: the constant false arrives on the
			// "a is false" edge) the value is behind the barriers on this path
			if iff, ok := pred.Instrs[len(pred.Instrs)-1].(*ssa.If); ok && len(pred.Succs) == 2 && pred.Succs[0] != pred.Succs[1] {
				which := 0
				if pred.Succs[1] == ph.Block() {
					which = 1
				}
				raw := condOf(iff)
				cond := hc.inHelper(h, raw)
				barred := false
				for _, b := range bars {
					if b.Edge == nil {
						continue
					}
					if m, w := b.Edge(cond); m && w == which {
						barred = true
						break
					}
				}
				if !barred {
					if g, idx, truthySucc, gcl, ok := helperResultEdge(h, raw); ok {
						barred = hc.resultImplies(g, idx, which == truthySucc, bars, hc.callArgsIn(&gcl.Call, h))
					}
				}
				if barred {
					continue
				}
			}
			if hc.mayYield(h, e, pred.Instrs[len(pred.Instrs)-1], want, bars, base, depth+1) {
				return true
			}
		}
		return false
	}
	if un, ok := v.(*ssa.UnOp); ok && un.Op == token.NOT && depth < 4 {
		return hc.mayYield(h, un.X, at, !want, bars, base, depth+1)
	}
	// returning the guard atom itself: "return check(x)" yields true only
	// when check(x) is true — an implicit branch on the returned value
	for _, b := range bars {
		if b.Edge == nil {
			continue
		}
		if m, succ := b.Edge(d); m && ((want && succ == 0) || (!want && succ == 1)) {
			return false
		}
	}
	// non-constant result: it may have the wanted truthiness unless every
	// bars-avoiding path to this point crosses the edge that fixes the value
	// to the opposite truthiness (return err behind err != nil)
	vs := d.String()
	same := func(e *Expr) bool { return e != nil && e.String() == vs }
	var fix Barrier
	if want {
		fix = OnFalse("result falsy", same) // crossing "value is falsy" means it cannot be truthy here
	} else {
		fix = OnTrue("result truthy", same)
	}
	r2 := reachH(entryPoint(h), append(append([]Barrier{}, bars...), fix), nil, hc)
	return r2.visited[at]
}

// phiEdgeBlocked: the CFG edge pred→succ (an incoming edge of a phi in succ) is itself a
// barrier edge — pred branches on a barrier atom, or on the verdict of a further helper
// that implies the barriers, and succ is the successor taken on that side.  A constant
// operand flowing in over such an edge (`x && !(guardA(..) && guardB(..))`: the `false`
// of the inner conjunction arrives on guardA's false edge) is not a bars-avoiding yield,
// although the branching block itself is reachable.
func (hc *helperCtx) phiEdgeBlocked(pred, succ *ssa.BasicBlock, bars []Barrier) bool {
	iff, ok := pred.Instrs[len(pred.Instrs)-1].(*ssa.If)
	if !ok || len(pred.Succs) != 2 || pred.Succs[0] == pred.Succs[1] {
		return false
	}
	k := 1
	if pred.Succs[0] == succ {
		k = 0
	}
	raw := condOf(iff)
	cond := hc.inHelper(pred.Parent(), raw)
	for _, b := range bars {
		if b.Edge == nil {
			continue
		}
		if m, which := b.Edge(cond); m && which == k {
			return true
		}
	}
	if h2, idx, truthySucc, hcl, ok := helperResultEdge(pred.Parent(), raw); ok {
		if hc.resultImplies(h2, idx, k == truthySucc, bars, hc.callArgsIn(&hcl.Call, pred.Parent())) {
			return true
		}
	}
	return false
}

// helperResultEdge: cond (already described) tests the result of a local
// helper; returns the helper, the result index, and which successor is taken
// when the result is truthy.
func helperResultEdge(caller *ssa.Function, cond *Expr) (*ssa.Function, int, int, *ssa.Call, bool) {
	a, pol := Truthy(cond)
	a = strip(a)
	if a == nil {
		return nil, 0, 0, nil, false
	}
	idx := 0
	call := a
	if a.K == EExtract {
		idx = a.Idx
		call = strip(a.X)
	}
	if call == nil || call.K != ECall {
		return nil, 0, 0, nil, false
	}
	cl, ok := call.V.(*ssa.Call)
	if !ok {
		return nil, 0, 0, nil, false
	}
	h := localHelper(caller, &cl.Call)
	if h == nil {
		return nil, 0, 0, nil, false
	}
	truthySucc := 0
	if !pol {
		truthySucc = 1
	}
	return h, idx, truthySucc, cl, true
}

func reachH(starts []Point, bars []Barrier, stopAt func(ssa.Instruction) bool, hc *helperCtx) *reachResult {
	r := &reachResult{prev: map[ssa.Instruction]ssa.Instruction{}, visited: map[ssa.Instruction]bool{}}
	type item struct {
		p    Point
		from ssa.Instruction
		pred int // index in p.B.Preds of the block we came from, when it matters (phi-valued branch condition); else -1
	}
	type stateKey struct {
		p    Point
		pred int
	}
	var q []item
	for _, s := range starts {
		q = append(q, item{s, nil, -1})
	}
	seenPt := map[stateKey]bool{}
	for len(q) > 0 {
		it := q[0]
		q = q[1:]
		p := it.p
		from := it.from
		pred := it.pred
		if p.I != 0 {
			pred = -1 // started mid-block: the incoming edge is unknown
		}
		for {
			if p.B == nil || p.I >= len(p.B.Instrs) {
				break
			}
			if seenPt[stateKey{p, pred}] {
				break
			}
			seenPt[stateKey{p, pred}] = true
			in := p.B.Instrs[p.I]
			if !r.visited[in] {
				r.visited[in] = true
				r.prev[in] = from
				r.order = append(r.order, in)
			}
			if stopAt != nil && stopAt(in) {
				break
			}
			crossed := false
			for _, b := range bars {
				if b.Instr != nil && b.Instr(in) {
					crossed = true
					break
				}
			}
			if !crossed && len(bars) > 0 {
				if cl, ok := in.(*ssa.Call); ok {
					if h := localHelper(in.Parent(), &cl.Call); h != nil && hc.alwaysCrosses(h, bars, hc.callArgsIn(&cl.Call, in.Parent())) {
						crossed = true
					}
				}
			}
			if crossed {
				break
			}
			from = in
			if p.I == len(p.B.Instrs)-1 {
				// terminator
				switch t := in.(type) {
				case *ssa.If:
					rawCond := condOf(t)
					cond := hc.inHelper(in.Parent(), rawCond)
					var condAlt *Expr // the phi as a whole (identity patterns) next to its path-resolved operand
					// when the incoming edge is known and the condition is (a negation
					// of) a phi of this block, match barriers against the operand that
					// actually flows in on this path
					if pred >= 0 {
						if ph := condPhi(t); ph != nil && pred < len(ph.Edges) {
							rawCond = Desc(ph.Edges[pred])
							e := hc.inHelper(in.Parent(), rawCond)
							v := t.Cond
							for {
								u, ok := v.(*ssa.UnOp)
								if !ok || u.Op != token.NOT {
									break
								}
								e = &Expr{K: EUn, Op: token.NOT, X: e}
								v = u.X
							}
							condAlt = cond
							cond = e
						}
					}
					// a branch on a boolean phi of this very block (x := a || b; if x):
					// when we know the incoming edge and its phi operand is a
					// constant, only the consistent successor is feasible
					only := -1
					if pred >= 0 {
						if v, ok := phiCondValue(t, pred); ok {
							if v {
								only = 0
							} else {
								only = 1
							}
						}
					}
					for k, s := range p.B.Succs {
						if only >= 0 && k != only {
							continue
						}
						blocked := false
						for _, b := range bars {
							if b.Edge != nil {
								if m, which := b.Edge(cond); m && which == k {
									blocked = true
									break
								}
								if condAlt != nil {
									if m, which := b.Edge(condAlt); m && which == k {
										blocked = true
										break
									}
								}
							}
						}
						if !blocked && len(bars) > 0 {
							if h, idx, truthySucc, hcl, ok := helperResultEdge(in.Parent(), rawCond); ok {
								if hc.resultImplies(h, idx, k == truthySucc, bars, hc.callArgsIn(&hcl.Call, in.Parent())) {
									blocked = true
								}
							}
						}
						if !blocked {
							q = append(q, item{Point{s, 0}, in, predIndex(s, p.B)})
						}
					}
				case *ssa.Jump:
					q = append(q, item{Point{p.B.Succs[0], 0}, in, predIndex(p.B.Succs[0], p.B)})
				}
				break
			}
			p.I++
		}
	}
	return r
}

// predIndex returns the index of pred in b.Preds when b ends in a branch on a
// phi defined in b (the only case where the incoming edge matters), else -1.
func predIndex(b, pred *ssa.BasicBlock) int {
	if len(b.Instrs) == 0 {
		return -1
	}
	iff, ok := b.Instrs[len(b.Instrs)-1].(*ssa.If)
	if !ok || condPhi(iff) == nil {
		return -1
	}
	for i, p := range b.Preds {
		if p == pred {
			return i
		}
	}
	return -1
}

// condPhi: the branch condition is (a negation of) a phi defined in the same block.
func condPhi(iff *ssa.If) *ssa.Phi {
	v := iff.Cond
	for {
		if u, ok := v.(*ssa.UnOp); ok && u.Op == token.NOT {
			v = u.X
			continue
		}
		break
	}
	ph, ok := v.(*ssa.Phi)
	if !ok || ph.Block() != iff.Block() {
		return nil
	}
	return ph
}

// phiCondValue evaluates the branch condition for the given incoming edge when
// the phi operand on that edge is a boolean constant.
func phiCondValue(iff *ssa.If, pred int) (bool, bool) {
	ph := condPhi(iff)
	if ph == nil || pred < 0 || pred >= len(ph.Edges) {
		return false, false
	}
	k, ok := ph.Edges[pred].(*ssa.Const)
	if !ok || k.Value == nil || k.Value.Kind() != constant.Bool {
		return false, false
	}
	val := constant.BoolVal(k.Value)
	v := iff.Cond
	for {
		if u, ok := v.(*ssa.UnOp); ok && u.Op == token.NOT {
			val = !val
			v = u.X
			continue
		}
		break
	}
	return val, true
}

func entryPoint(fn *ssa.Function) []Point {
	if len(fn.Blocks) == 0 {
		return nil
	}
	return []Point{{fn.Blocks[0], 0}}
}

func pointAfter(in ssa.Instruction) Point {
	b := in.Block()
	for i, x := range b.Instrs {
		if x == in {
			return Point{b, i + 1}
		}
	}
	return Point{}
}

func pointAt(in ssa.Instruction) Point {
	b := in.Block()
	for i, x := range b.Instrs {
		if x == in {
			return Point{b, i}
		}
	}
	return Point{}
}

// trail renders the offending path (branch decisions only) for diagnostics.
func (c *Ctx) trail(r *reachResult, target ssa.Instruction) string {
	var steps []string
	cur := target
	n := 0
	for cur != nil && n < 400 {
		prev := r.prev[cur]
		if prev != nil {
			if _, ok := prev.(*ssa.If); ok {
				which := "?"
				pb := prev.Block()
				for k, s := range pb.Succs {
					if s == cur.Block() {
						if k == 0 {
							which = "T"
						} else {
							which = "F"
						}
					}
				}
				steps = append(steps, fmt.Sprintf("%s[%s]", c.lineOf(prev), which))
			}
		}
		cur = prev
		n++
	}
	// reverse, keep it short
	for i, j := 0, len(steps)-1; i < j; i, j = i+1, j-1 {
		steps[i], steps[j] = steps[j], steps[i]
	}
	if len(steps) > 12 {
		steps = append(steps[:4], append([]string{"…"}, steps[len(steps)-7:]...)...)
	}
	return strings.Join(steps, "→")
}

func (c *Ctx) lineOf(in ssa.Instruction) string {
	ps := c.P.Fset.Position(instrPos(in))
	return fmt.Sprintf("L%d", ps.Line)
}

// closureSites returns the MakeClosure instructions creating fn in its parent.
func closureSites(fn *ssa.Function) []ssa.Instruction {
	par := fn.Parent()
	if par == nil {
		return nil
	}
	var out []ssa.Instruction
	for _, b := range par.Blocks {
		for _, in := range b.Instrs {
			if m, ok := in.(*ssa.MakeClosure); ok && m.Fn == fn {
				out = append(out, in)
			}
		}
	}
	return out
}

// unguarded reports whether target (an instruction of fn or of one of its
// nested closures) is reachable from the entry of the top function without
// crossing a barrier; closures inherit the facts that hold where they are
// created.  Returns a trail if reachable.
func (c *Ctx) unguarded(target ssa.Instruction, bars []Barrier, top *ssa.Function) (bool, string) {
	fn := target.Parent()
	r := reach(entryPoint(fn), bars, nil)
	if !r.visited[target] {
		return false, ""
	}
	tr := c.trail(r, target)
	if fn == top {
		return true, tr
	}
	if fn.Parent() == nil {
		// target sits in an unexported helper of top: it is guarded when every
		// call site of the helper inside top's scope is
		if TopLevel(fn) != TopLevel(top) {
			var sites []ssa.Instruction
			for _, g := range scopeFuncs(top) {
				if g == fn {
					continue
				}
				for _, b := range g.Blocks {
					for _, in := range b.Instrs {
						if cl, ok := in.(*ssa.Call); ok && localHelper(g, &cl.Call) == fn {
							sites = append(sites, in)
						}
					}
				}
			}
			if len(sites) == 0 {
				return true, tr
			}
			for _, s := range sites {
				// with the helper's parameters read as this call's arguments the guard
				// may be crossed inside the helper itself
				if cl, ok := s.(*ssa.Call); ok {
					hc := &helperCtx{always: map[helperKey]int{}, implies: map[helperKey]int{}, act: map[*ssa.Function][]*Expr{}}
					hc.act[fn] = hc.callArgsIn(&cl.Call, s.Parent())
					if r2 := reachH(entryPoint(fn), bars, nil, hc); !r2.visited[target] {
						continue
					}
				}
				if ug, t2 := c.unguarded(s, bars, top); ug {
					return true, t2 + "⇒helper:" + tr
				}
			}
			return false, ""
		}
		return true, tr
	}
	sites := closureSites(fn)
	if len(sites) == 0 {
		return true, tr
	}
	for _, s := range sites {
		if ug, t2 := c.unguarded(s, bars, top); ug {
			return true, t2 + "⇒closure:" + tr
		}
	}
	return false, ""
}

// MustCross (E2): every instruction matching target in fn (and its closures)
// must be unreachable from fn's entry without crossing one of bars.
// Returns the number of target sites found.
func (c *Ctx) MustCross(rule string, fn *ssa.Function, what string, target func(ssa.Instruction) bool, bars ...Barrier) int {
	if fn == nil {
		c.unresolved(rule, what, "function not found")
		return 0
	}
	n := 0
	var bn []string
	for _, b := range bars {
		bn = append(bn, b.Name)
	}
	// Targets are looked for in fn and its closures.  Only when none is there —
	// the anchored construct was moved wholesale into an unexported helper —
	// are fn's helpers searched (a helper's own, unrelated instances of the
	// construct must not be attributed to fn).
	scope := WithAnons(fn)
	own := false
	for _, f := range scope {
		for _, b := range f.Blocks {
			for _, in := range b.Instrs {
				if target(in) {
					own = true
				}
			}
		}
	}
	if !own {
		scope = scopeFuncs(fn)
	}
	for _, f := range scope {
		for _, b := range f.Blocks {
			for _, in := range b.Instrs {
				if !target(in) {
					continue
				}
				if _, isRet := in.(*ssa.Return); isRet && TopLevel(f) != TopLevel(fn) {
					continue // a helper's return is not fn's
				}
				n++
				key := fmt.Sprintf("%s|%s|%s|%s", rule, fnKey(fn), what, strings.Join(bn, ","))
				ug, tr := c.unguarded(in, bars, fn)
				if ug {
					c.violation(rule, key, instrPos(in), fmt.Sprintf("%s in %s reachable without crossing {%s}; path %s", what, fnKey(f), strings.Join(bn, " | "), tr))
				} else {
					c.ok(rule, key, instrPos(in), fmt.Sprintf("%s in %s is behind {%s}", what, fnKey(f), strings.Join(bn, " | ")))
				}
			}
		}
	}
	if n == 0 {
		c.unresolved(rule, fmt.Sprintf("%s|%s", fnKey(fn), what), "no target site found (rule would pass vacuously)")
	}
	return n
}

// MustCrossAll checks each barrier separately (conjunction of guards).
func (c *Ctx) MustCrossAll(rule string, fn *ssa.Function, what string, target func(ssa.Instruction) bool, bars ...Barrier) {
	for _, b := range bars {
		c.MustCross(rule, fn, what, target, b)
	}
}

// MustCrossFrom: like MustCross but paths start right after each instruction
// matching from (ordering "A … then only via M … B").
func (c *Ctx) MustCrossFrom(rule string, fn *ssa.Function, what string, from func(ssa.Instruction) bool, target func(ssa.Instruction) bool, bars ...Barrier) int {
	if fn == nil {
		c.unresolved(rule, what, "function not found")
		return 0
	}
	var bn []string
	for _, b := range bars {
		bn = append(bn, b.Name)
	}
	n := 0
	for _, f := range WithAnons(fn) {
		for _, b := range f.Blocks {
			for _, in := range b.Instrs {
				if !from(in) {
					continue
				}
				n++
				key := fmt.Sprintf("%s|%s|%s", rule, fnKey(fn), what)
				r := reach([]Point{pointAfter(in)}, bars, nil)
				bad := false
				for _, t := range r.order {
					if hit, ok := hitIn(t, target, bars); ok {
						bad = true
						c.violation(rule, key, instrPos(hit), fmt.Sprintf("%s: from %s reaches %s without crossing {%s}; path %s", what, c.P.pos(instrPos(in)), c.P.pos(instrPos(hit)), strings.Join(bn, " | "), c.trail(r, t)))
						break
					}
				}
				if !bad {
					c.ok(rule, key, instrPos(in), fmt.Sprintf("%s: nothing forbidden reachable after %s without {%s}", what, c.P.pos(instrPos(in)), strings.Join(bn, " | ")))
				}
			}
		}
	}
	if n == 0 {
		c.unresolved(rule, fmt.Sprintf("%s|%s", fnKey(fn), what), "no start site found (rule would pass vacuously)")
	}
	return n
}

func isReturn(in ssa.Instruction) bool { _, ok := in.(*ssa.Return); return ok }

func isExit(in ssa.Instruction) bool {
	switch in.(type) {
	case *ssa.Return:
		return true
	}
	return false
}

// deferRelease: a Defer instruction whose callee is one of rel, or a closure
// that contains a call matched by relInstr.
func deferBarrier(name string, relInstr func(ssa.Instruction) bool) Barrier {
	return Barrier{Name: "defer " + name, Instr: func(in ssa.Instruction) bool {
		d, ok := in.(*ssa.Defer)
		if !ok {
			return false
		}
		if relInstr(in) {
			return true
		}
		var body *ssa.Function
		switch v := d.Call.Value.(type) {
		case *ssa.MakeClosure:
			body, _ = v.Fn.(*ssa.Function)
		case *ssa.Function:
			body = v
		}
		if body == nil {
			return false
		}
		for _, f := range WithAnons(body) {
			for _, b := range f.Blocks {
				for _, x := range b.Instrs {
					if relInstr(x) {
						return true
					}
				}
			}
		}
		return false
	}}
}

// Paired (E3): after every instruction matching acquire in fn (each nested
// function analysed on its own), every path to a return crosses release (an
// instruction, a deferred release, or an exempt edge).
func (c *Ctx) Paired(rule string, fn *ssa.Function, what string, acquire func(ssa.Instruction) bool, release func(ssa.Instruction) bool, extra ...Barrier) int {
	if fn == nil {
		c.unresolved(rule, what, "function not found")
		return 0
	}
	n := 0
	bars := []Barrier{{Name: "release", Instr: func(in ssa.Instruction) bool {
		if _, isDefer := in.(*ssa.Defer); isDefer {
			return false
		}
		return release(in)
	}}, deferBarrier("release", release)}
	bars = append(bars, extra...)
	for _, f := range WithAnons(fn) {
		// a release deferred before the acquire covers every exit
		for _, b := range f.Blocks {
			for _, in := range b.Instrs {
				if !acquire(in) {
					continue
				}
				n++
				key := fmt.Sprintf("%s|%s|%s", rule, fnKey(fn), what)
				if c.deferredBefore(f, in, bars[1]) {
					c.ok(rule, key, instrPos(in), fmt.Sprintf("%s: release deferred before acquire in %s", what, fnKey(f)))
					continue
				}
				r := reach([]Point{pointAfter(in)}, bars, nil)
				bad := false
				for _, t := range r.order {
					if isExit(t) {
						bad = true
						c.violation(rule, key, instrPos(t), fmt.Sprintf("%s: acquired at %s, exit at %s reachable without release; path %s", what, c.P.pos(instrPos(in)), c.P.pos(instrPos(t)), c.trail(r, t)))
						break
					}
				}
				if !bad {
					c.ok(rule, key, instrPos(in), fmt.Sprintf("%s: every exit after %s crosses a release", what, c.P.pos(instrPos(in))))
				}
			}
		}
	}
	if n == 0 {
		c.unresolved(rule, fmt.Sprintf("%s|%s", fnKey(fn), what), "no acquire site found (rule would pass vacuously)")
	}
	return n
}

// deferredBefore: every path from entry to `at` crosses the defer barrier.
func (c *Ctx) deferredBefore(f *ssa.Function, at ssa.Instruction, deferBar Barrier) bool {
	has := false
	for _, b := range f.Blocks {
		for _, in := range b.Instrs {
			if deferBar.Instr(in) {
				has = true
			}
		}
	}
	if !has {
		return false
	}
	r := reach(entryPoint(f), []Barrier{deferBar}, nil)
	return !r.visited[at]
}

// instrsWhere lists instructions of fn (and closures) matching pred, in source order.
func instrsWhere(fn *ssa.Function, pred func(ssa.Instruction) bool) []ssa.Instruction {
	var out []ssa.Instruction
	for _, f := range WithAnons(fn) {
		for _, b := range f.Blocks {
			for _, in := range b.Instrs {
				if pred(in) {
					out = append(out, in)
				}
			}
		}
	}
	sort.SliceStable(out, func(i, j int) bool { return instrPos(out[i]) < instrPos(out[j]) })
	return out
}

// instrsInScope: like instrsWhere, but over fn, its closures AND the unexported
// same-package helpers they call (scopeFuncs) — for rules that inspect the
// operands of an anchored call, which must not depend on whether the call sits
// in the anchored function or in a helper split off from it.  Sites in the
// function itself come first.
func instrsInScope(fn *ssa.Function, pred func(ssa.Instruction) bool) []ssa.Instruction {
	out := instrsWhere(fn, pred)
	own := map[*ssa.Function]bool{}
	for _, f := range WithAnons(fn) {
		own[f] = true
	}
	var rest []ssa.Instruction
	for _, f := range scopeFuncs(fn) {
		if own[f] {
			continue
		}
		for _, b := range f.Blocks {
			for _, in := range b.Instrs {
				if pred(in) {
					rest = append(rest, in)
				}
			}
		}
	}
	sort.SliceStable(rest, func(i, j int) bool { return instrPos(rest[i]) < instrPos(rest[j]) })
	return append(out, rest...)
}

// isCallTo builds an instruction predicate for calls (call/go/defer) to fs.
func isCallTo(fs ...*types.Func) func(ssa.Instruction) bool {
	return func(in ssa.Instruction) bool {
		cc := callCommon(in)
		if cc == nil {
			return false
		}
		return callIs(cc, fs...)
	}
}

// isPlainCallTo: only *ssa.Call (not go/defer).
func isPlainCallTo(fs ...*types.Func) func(ssa.Instruction) bool {
	return func(in ssa.Instruction) bool {
		cl, ok := in.(*ssa.Call)
		if !ok {
			return false
		}
		return callIs(&cl.Call, fs...)
	}
}

// isInvokeNamed matches dynamic or static method calls by method name whose
// receiver type satisfies recvOK (nil = any).
func isMethodCallNamed(name string, recvOK func(types.Type) bool) func(ssa.Instruction) bool {
	return func(in ssa.Instruction) bool {
		cc := callCommon(in)
		if cc == nil {
			return false
		}
		if cc.IsInvoke() {
			if cc.Method.Name() != name {
				return false
			}
			return recvOK == nil || recvOK(cc.Value.Type())
		}
		fo, _, _ := calleeObj(cc)
		if fo == nil || fo.Name() != name {
			return false
		}
		sig := fo.Type().(*types.Signature)
		if sig.Recv() == nil {
			return false
		}
		return recvOK == nil || recvOK(sig.Recv().Type())
	}
}

// edgePoints returns the entry points of the successor blocks reached through
// branch edges matched by e (in fn and its closures).
func edgePoints(fn *ssa.Function, e Barrier) []Point {
	var out []Point
	if e.Edge == nil {
		return nil
	}
	for _, f := range WithAnons(fn) {
		for _, b := range f.Blocks {
			if len(b.Instrs) == 0 {
				continue
			}
			iff, ok := b.Instrs[len(b.Instrs)-1].(*ssa.If)
			if !ok {
				continue
			}
			if m, which := e.Edge(condOf(iff)); m {
				out = append(out, Point{b.Succs[which], 0})
			}
		}
	}
	return out
}

// AfterEdge (E2 variant): on every path that follows an edge matched by
// `edge`, no instruction matching target is reached without crossing bars.
func (c *Ctx) AfterEdge(rule string, fn *ssa.Function, what string, edge Barrier, target func(ssa.Instruction) bool, bars ...Barrier) int {
	if fn == nil {
		c.unresolved(rule, what, "function not found")
		return 0
	}
	pts := edgePoints(fn, edge)
	if len(pts) == 0 {
		// the branch was moved wholesale into an unexported helper of fn
		for _, g := range scopeFuncs(fn) {
			if TopLevel(g) != TopLevel(fn) {
				pts = append(pts, edgePoints(g, edge)...)
			}
		}
	}
	var bn []string
	for _, b := range bars {
		bn = append(bn, b.Name)
	}
	key := fmt.Sprintf("%s|%s|%s|after %s", rule, fnKey(fn), what, edge.Name)
	if len(pts) == 0 {
		c.unresolved(rule, fmt.Sprintf("%s|%s|after %s", fnKey(fn), what, edge.Name), "no branch edge matches (rule would pass vacuously)")
		return 0
	}
	for _, pt := range pts {
		inHelper := TopLevel(pt.B.Parent()) != TopLevel(fn)
		r := reach([]Point{pt}, bars, nil)
		bad := false
		report := func(r *reachResult, t, hit ssa.Instruction) {
			bad = true
			c.violation(rule, key, instrPos(hit), fmt.Sprintf("%s: after edge %s (block at %s) reaches %s without crossing {%s}; path %s", what, edge.Name, c.P.pos(instrPos(pt.B.Instrs[0])), c.P.pos(instrPos(hit)), strings.Join(bn, " | "), c.trail(r, t)))
		}
		var resume []Point
		for _, t := range r.order {
			if _, isRet := t.(*ssa.Return); isRet && inHelper {
				// the helper returns with the barriers uncrossed: the path goes on after
				// each of its call sites in fn
				h := TopLevel(pt.B.Parent())
				for _, g := range scopeFuncs(fn) {
					if TopLevel(g) == h {
						continue
					}
					for _, b := range g.Blocks {
						for _, in := range b.Instrs {
							if cl, ok := in.(*ssa.Call); ok && localHelper(g, &cl.Call) == h {
								resume = append(resume, pointAfter(in))
							}
						}
					}
				}
				continue
			}
			if hit, ok := hitIn(t, target, bars); ok {
				report(r, t, hit)
				break
			}
		}
		if !bad && len(resume) > 0 {
			r2 := reach(resume, bars, nil)
			for _, t := range r2.order {
				if hit, ok := hitIn(t, target, bars); ok {
					report(r2, t, hit)
					break
				}
			}
		}
		if !bad {
			c.ok(rule, key, instrPos(pt.B.Instrs[0]), fmt.Sprintf("%s: after edge %s nothing forbidden is reachable without {%s}", what, edge.Name, strings.Join(bn, " | ")))
		}
	}
	return len(pts)
}

// ReturnsConst: fn has only returns whose result #idx is the given constant.
func (c *Ctx) ReturnsConst(rule string, fn *ssa.Function, idx int, want Pat, wantDesc string) {
	if fn == nil {
		c.unresolved(rule, "ReturnsConst", "function not found")
		return
	}
	key := fmt.Sprintf("%s|%s|returns %s", rule, fnKey(fn), wantDesc)
	n := 0
	for _, b := range fn.Blocks {
		for _, in := range b.Instrs {
			r, ok := in.(*ssa.Return)
			if !ok || idx >= len(r.Results) {
				continue
			}
			n++
			for _, l := range Origins(Desc(r.Results[idx]), nil) {
				if !want(l) {
					c.violation(rule, key, instrPos(in), fmt.Sprintf("%s may return %s, want %s", fnKey(fn), l.String(), wantDesc))
					return
				}
			}
		}
	}
	if n == 0 {
		c.unresolved(rule, key, "no return found")
		return
	}
	c.ok(rule, key, fn.Pos(), fmt.Sprintf("%s returns %s on every path", fnKey(fn), wantDesc))
}

// ---------------------------------------------------------------------------
// Guard decision tables over the CFG (E8 on branch structure): starting at a
// program point, every branch met must test one of the declared comparison
// atoms; for each assignment of truth values to the atoms the walk follows the
// corresponding edges until it reaches an instruction classified by outcome.
// The resulting table is compared with a reference formula.  Nothing is
// executed: atoms are opaque booleans.

type CmpAtom struct {
	Name     string
	Lhs, Rhs Pat
	Op       token.Token
}

// DecisionTable returns, for each of the 2^n assignments (bit i = atom i true),
// the outcome label, or an error string when a branch tests something else.
func DecisionTable(start Point, atoms []CmpAtom, outcome func(ssa.Instruction) string) ([]string, string) {
	n := len(atoms)
	res := make([]string, 1<<n)
	for row := 0; row < 1<<n; row++ {
		p := start
		path := []*ssa.BasicBlock{p.B}
		steps := 0
		for {
			steps++
			if steps > 10000 || p.B == nil {
				return nil, "walk did not reach an outcome"
			}
			if p.I >= len(p.B.Instrs) {
				return nil, "fell off a block"
			}
			in := p.B.Instrs[p.I]
			if lab := outcome(in); lab != "" {
				res[row] = lab
				break
			}
			if p.I < len(p.B.Instrs)-1 {
				p.I++
				continue
			}
			switch t := in.(type) {
			case *ssa.Jump:
				p = Point{p.B.Succs[0], 0}
				path = append(path, p.B)
			case *ssa.If:
				val, why := evalBoolOnPath(t.Cond, path, atoms, row, 0)
				if why != "" {
					return nil, why
				}
				if val {
					p = Point{p.B.Succs[0], 0}
				} else {
					p = Point{p.B.Succs[1], 0}
				}
				path = append(path, p.B)
			default:
				return nil, "reached a function exit before an outcome"
			}
		}
	}
	return res, ""
}

// evalBoolOnPath evaluates a boolean SSA value under an assignment of the
// comparison atoms, resolving phis (named boolean locals, && / ||) by the
// block the walked path came from.
func evalBoolOnPath(v ssa.Value, path []*ssa.BasicBlock, atoms []CmpAtom, row int, depth int) (bool, string) {
	if depth > 12 {
		return false, "condition too deep"
	}
	switch x := v.(type) {
	case *ssa.Const:
		if x.Value != nil && x.Value.Kind() == constant.Bool {
			return constant.BoolVal(x.Value), ""
		}
	case *ssa.UnOp:
		if x.Op == token.NOT {
			b, why := evalBoolOnPath(x.X, path, atoms, row, depth+1)
			return !b, why
		}
	case *ssa.Phi:
		// find the phi's block on the path (last occurrence) and the block before it
		for i := len(path) - 1; i >= 1; i-- {
			if path[i] != x.Block() {
				continue
			}
			for k, pr := range x.Block().Preds {
				if pr == path[i-1] && k < len(x.Edges) {
					return evalBoolOnPath(x.Edges[k], path[:i], atoms, row, depth+1)
				}
			}
		}
		return false, "phi operand cannot be resolved on the walked path"
	case *ssa.Call:
		// a pure predicate extracted into an unexported same-package helper: evaluate its
		// branch structure under the same assignment, with the atoms' operand patterns
		// carried over to the helper's parameters through the call's arguments
		if h := localHelper(x.Parent(), &x.Call); h != nil && len(h.Blocks) > 0 && h.Signature.Results().Len() == 1 {
			args := x.Call.Args
			via := func(p Pat) Pat {
				return func(e *Expr) bool {
					s := strip(e)
					if s != nil && s.K == EParam && s.Idx >= 0 && s.Idx < len(args) {
						return p(Desc(args[s.Idx]))
					}
					return false
				}
			}
			sub := make([]CmpAtom, len(atoms))
			for i, a := range atoms {
				sub[i] = CmpAtom{Name: a.Name, Op: a.Op, Lhs: via(a.Lhs), Rhs: via(a.Rhs)}
			}
			pt := Point{h.Blocks[0], 0}
			hpath := []*ssa.BasicBlock{pt.B}
			for steps := 0; steps < 10000; steps++ {
				if pt.I >= len(pt.B.Instrs) {
					return false, "fell off a block in helper " + h.Name()
				}
				in := pt.B.Instrs[pt.I]
				if pt.I < len(pt.B.Instrs)-1 {
					switch in.(type) {
					case *ssa.Store, *ssa.Go, *ssa.Defer, *ssa.Send, *ssa.MapUpdate, *ssa.Panic:
						return false, "helper " + h.Name() + " is not a pure predicate"
					}
					pt.I++
					continue
				}
				switch t := in.(type) {
				case *ssa.Jump:
					pt = Point{pt.B.Succs[0], 0}
					hpath = append(hpath, pt.B)
				case *ssa.If:
					val, why := evalBoolOnPath(t.Cond, hpath, sub, row, depth+1)
					if why != "" {
						return false, why
					}
					if val {
						pt = Point{pt.B.Succs[0], 0}
					} else {
						pt = Point{pt.B.Succs[1], 0}
					}
					hpath = append(hpath, pt.B)
				case *ssa.Return:
					if len(t.Results) != 1 {
						return false, "helper " + h.Name() + " result shape"
					}
					return evalBoolOnPath(t.Results[0], hpath, sub, row, depth+1)
				default:
					return false, "helper " + h.Name() + " leaves the predicate shape"
				}
			}
			return false, "helper " + h.Name() + " walk did not terminate"
		}
	case *ssa.BinOp:
		e := Desc(x)
		for ai, a := range atoms {
			if a.Op == token.ILLEGAL {
				continue
			}
			if m, pol := CmpMatch(e, a.Lhs, a.Op, a.Rhs); m {
				val := row&(1<<ai) != 0
				return val == pol, ""
			}
		}
		return false, "branch tests something other than the declared atoms: " + trunc(e.String(), 160)
	}
	// truthiness atoms (Op == token.ILLEGAL): a boolean value matched by Lhs
	{
		e := Desc(v)
		for ai, a := range atoms {
			if a.Op == token.ILLEGAL && a.Lhs != nil && a.Lhs(e) {
				return row&(1<<ai) != 0, ""
			}
		}
	}
	return false, "branch tests something other than the declared atoms: " + trunc(Desc(v).String(), 160)
}

// ---------------------------------------------------------------------------
// Targets inside unexported same-package helpers

// scopeFuncs: fn, its closures, and the local helpers they call (transitively,
// depth ≤ 2), with their closures.
func scopeFuncs(fn *ssa.Function) []*ssa.Function {
	seen := map[*ssa.Function]bool{}
	var out []*ssa.Function
	var add func(f *ssa.Function, depth int)
	add = func(f *ssa.Function, depth int) {
		for _, g := range WithAnons(f) {
			if seen[g] {
				continue
			}
			seen[g] = true
			out = append(out, g)
			if depth >= 2 {
				continue
			}
			for _, b := range g.Blocks {
				for _, in := range b.Instrs {
					if cl, ok := in.(*ssa.Call); ok {
						if h := localHelper(g, &cl.Call); h != nil && !seen[h] {
							add(h, depth+1)
						}
					}
				}
			}
		}
	}
	add(fn, 0)
	return out
}

// helperHasTarget: some instruction matching target (returns excluded: a
// helper's return is not the caller's) is reachable from h's entry without
// crossing bars, directly or through further helpers.
func helperHasTarget(h *ssa.Function, target func(ssa.Instruction) bool, bars []Barrier, depth int) (ssa.Instruction, bool) {
	if depth > 2 {
		return nil, false
	}
	r := reach(entryPoint(h), bars, nil)
	for _, in := range r.order {
		if _, isRet := in.(*ssa.Return); isRet {
			continue
		}
		if target(in) {
			return in, true
		}
		if cl, ok := in.(*ssa.Call); ok {
			if g := localHelper(h, &cl.Call); g != nil {
				if t, ok := helperHasTarget(g, target, bars, depth+1); ok {
					return t, true
				}
			}
		}
	}
	return nil, false
}

// hitIn: t matches target, or t calls a local helper in which a target is reachable.
func hitIn(t ssa.Instruction, target func(ssa.Instruction) bool, bars []Barrier) (ssa.Instruction, bool) {
	if target(t) {
		return t, true
	}
	if cl, ok := t.(*ssa.Call); ok {
		if h := localHelper(t.Parent(), &cl.Call); h != nil {
			if in, ok := helperHasTarget(h, target, bars, 0); ok {
				return in, true
			}
		}
	}
	return nil, false
}

// helperActivations: the argument lists (described in the caller's terms) of every
// direct call to helper h from top's scope.
func helperActivations(top, h *ssa.Function) [][]*Expr {
	var out [][]*Expr
	for _, g := range scopeFuncs(top) {
		if TopLevel(g) == h {
			continue
		}
		for _, b := range g.Blocks {
			for _, in := range b.Instrs {
				if cl, ok := in.(*ssa.Call); ok && localHelper(g, &cl.Call) == h {
					args := make([]*Expr, len(cl.Call.Args))
					for i, a := range cl.Call.Args {
						args[i] = Desc(a)
					}
					out = append(out, args)
				}
			}
		}
	}
	return out
}

// inActivation rewrites e (an expression of helper code) with the helper's
// parameters replaced by args; args == nil leaves e unchanged.
func inActivation(e *Expr, args []*Expr) *Expr {
	if args == nil {
		return e
	}
	return substParams(e, args, map[*Expr]*Expr{}, 0)
}

// edgeGuarded: is the CFG edge pred→succ taken only across one of bars?  Either the edge
// itself is a barrier edge (pred ends in a branch whose matching successor is succ), or
// pred's terminator is unreachable from the function entry without crossing bars.
func (c *Ctx) edgeGuarded(pred, succ *ssa.BasicBlock, bars []Barrier, top *ssa.Function) bool {
	if len(pred.Instrs) == 0 {
		return false
	}
	term := pred.Instrs[len(pred.Instrs)-1]
	if iff, ok := term.(*ssa.If); ok {
		cond := condOf(iff)
		for _, b := range bars {
			if b.Edge == nil {
				continue
			}
			if m, which := b.Edge(cond); m && which < len(pred.Succs) && pred.Succs[which] == succ {
				// the other successor must not be succ as well
				if len(pred.Succs) == 2 && pred.Succs[0] != pred.Succs[1] {
					return true
				}
			}
		}
	}
	ug, _ := c.unguarded(term, bars, top)
	return !ug
}
