package main

// Regression mutants for finding F-C09-6 (rule C09-R17): each files the
// records of the fetched root DNSKEY set under their 16-bit key tag again, one
// slot per tag, without looking at the slot — the record stored last stands in
// for the one it shares the tag with.

func init() {
	addMutants("C09", []Mutant{
		{ID: "f-c09-6-walk-by-tag", File: "middleware/resolver/auto_trust_anchor.go",
			Old:    "	for _, ta := range fetchedKSKs {\n		tag := dnssec.KeyTag(ta.DNSKey)\n",
			New:    "	fetchedByTag := make(TrustAnchors, len(fetchedKSKs))\n	for _, ta := range fetchedKSKs {\n		fetchedByTag[dnssec.KeyTag(ta.DNSKey)] = ta\n	}\n	for _, ta := range fetchedByTag {\n		tag := dnssec.KeyTag(ta.DNSKey)\n",
			Expect: "C09-R17|(*middleware/resolver.Resolver).AutoTA|record of a received message filed in tag-keyed resolver.TrustAnchors",
			Why:    "the mutation loop walks a tag-indexed copy of the fetched keys again: of a new key and the revoked form of a trusted anchor sharing a tag only one is processed — the authenticated revocation is skipped and the anchor stays trusted, or the new key never starts its hold-down"},
		{ID: "f-c09-6-stage-by-tag", File: "middleware/resolver/auto_trust_anchor.go",
			Old:    "	for _, ta := range fetched {\n		if ta == nil || ta.DNSKey == nil || ta.DNSKey.Flags&DNSKEYFlagRevoke == 0 {\n",
			New:    "	fetchedByTag := make(TrustAnchors, len(fetched))\n	for _, ta := range fetched {\n		if ta != nil && ta.DNSKey != nil {\n			fetchedByTag[dnssec.KeyTag(ta.DNSKey)] = ta\n		}\n	}\n	for _, ta := range fetchedByTag {\n		if ta == nil || ta.DNSKey == nil || ta.DNSKey.Flags&DNSKEYFlagRevoke == 0 {\n",
			Expect: "C09-R17|middleware/resolver.stageRevocationSelfSignaturesByRecord|record of a received message filed in tag-keyed resolver.TrustAnchors",
			Why:    "the staging pass indexes the fetched keys by tag before verifying self-signatures: a revoked anchor whose published form shares its tag with a newly published key is never staged, so AutoTA finds no verdict for it and ignores the revocation"},
		{ID: "f-c09-6-new-key-overwrites", File: "middleware/resolver/auto_trust_anchor.go",
			Old:    "		if existing != nil {\n			zlog.Warn(\"Fetched KSK tag collides with different active key — ignoring new key\", \"keytag\", tag)\n			continue\n		}\n",
			New:    "		if existing != nil {\n			zlog.Warn(\"Fetched KSK tag collides with different active key\", \"keytag\", tag)\n		}\n",
			Expect: "C09-R17|(*middleware/resolver.Resolver).AutoTA|record of a received message filed in tag-keyed resolver.TrustAnchors",
			Why:    "the collision is logged but the fetched key is filed anyway: a newly published key replaces the tracked anchor (or an earlier fetched key) that holds its tag, in memory and in the state file"},
	})
}
