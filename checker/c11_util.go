package main

// Helpers for C11 (one reply per query; slots, tokens and leaders are paired).

import (
	"fmt"
	"go/token"
	"go/types"
	"sort"
	"strings"

	"golang.org/x/tools/go/ssa"
)

// c11SelectEdge: the branch edge on which "select chose state k" holds (or
// fails), where k is decided per Select instruction by pick.
func c11SelectEdge(name string, pick func(*ssa.Select) (int, bool), holds bool) Barrier {
	return Barrier{Name: name, Edge: func(cond *Expr) (bool, int) {
		a, pol := Truthy(cond)
		if a == nil || a.K != EBin || (a.Op != token.EQL && a.Op != token.NEQ) {
			return false, 0
		}
		x, y := a.X, a.Y
		if x == nil || y == nil {
			return false, 0
		}
		if x.K != EExtract {
			x, y = y, x
		}
		if x.K != EExtract || x.Idx != 0 || x.X == nil {
			return false, 0
		}
		sel, ok := x.X.V.(*ssa.Select)
		if !ok {
			return false, 0
		}
		k, ok := pick(sel)
		if !ok || !IsConstInt(int64(k))(y) {
			return false, 0
		}
		eq := pol
		if a.Op == token.NEQ {
			eq = !eq
		}
		// eq: the condition's true edge means "chose k"
		if eq == holds {
			return true, 0
		}
		return true, 1
	}}
}

// c11ChanIs: the channel operand is a load of one of the given struct fields.
func c11ChanIs(v ssa.Value, fields ...*types.Var) *types.Var {
	e := strip(Desc(v))
	if e == nil || e.K != EField || e.Op == token.AND {
		return nil
	}
	for _, f := range fields {
		if f != nil && e.Var == f {
			return f
		}
	}
	return nil
}

// c11ReleasesOnEveryExit: every Return of fn is behind a (deferred) release.
func (c *Ctx) c11ReleasesOnEveryExit(fn *ssa.Function, rel func(ssa.Instruction) bool) (bool, string) {
	bars := []Barrier{c10InstrBarrier("release", rel), deferBarrier("release", rel)}
	r := reach(entryPoint(fn), bars, nil)
	for _, t := range r.order {
		if isExit(t) {
			return false, c.P.pos(instrPos(t)) + " via " + c.trail(r, t)
		}
	}
	return true, ""
}

// c11ChanSemaphores checks every acquisition (send) on the capacity channels
// held in the given struct fields, wherever it occurs in pkg.  Returns the
// functions that hand the release to their caller as a returned closure.
func (c *Ctx) c11ChanSemaphores(rule, pkg string, fields []*types.Var, extra func(f *types.Var) []Barrier) []*ssa.Function {
	var handBack []*ssa.Function
	count := map[*types.Var]int{}
	for _, fn := range c.P.FuncsInPkg(pkg) {
		for _, b := range fn.Blocks {
			for _, in := range b.Instrs {
				var fld *types.Var
				var selIdx = -1
				switch x := in.(type) {
				case *ssa.Send:
					fld = c11ChanIs(x.Chan, fields...)
				case *ssa.Select:
					for i, st := range x.States {
						if st.Dir == types.SendOnly {
							if f := c11ChanIs(st.Chan, fields...); f != nil {
								fld, selIdx = f, i
							}
						}
					}
				}
				if fld == nil {
					continue
				}
				count[fld]++
				f := fld
				rel := func(in ssa.Instruction) bool {
					u, ok := in.(*ssa.UnOp)
					return ok && u.Op == token.ARROW && c11ChanIs(u.X, f) != nil
				}
				key := fmt.Sprintf("%s|%s|slot %s", rule, fnKey(TopLevel(fn)), f.Name())
				bars := []Barrier{c10InstrBarrier("<-"+f.Name(), rel), deferBarrier("<-"+f.Name(), rel)}
				if selIdx >= 0 {
					sel := in.(*ssa.Select)
					k := selIdx
					bars = append(bars, c11SelectEdge("select did not take the slot", func(s *ssa.Select) (int, bool) { return k, s == sel }, false))
				}
				// hand-off to a goroutine that releases on every exit
				var goNotes []string
				bars = append(bars, Barrier{Name: "go <releasing function>", Instr: func(in ssa.Instruction) bool {
					g, ok := in.(*ssa.Go)
					if !ok {
						return false
					}
					body := c10CalleeFn(g)
					if body == nil || len(body.Blocks) == 0 {
						return false
					}
					ok2, why := c.c11ReleasesOnEveryExit(body, rel)
					if !ok2 {
						goNotes = append(goNotes, fnKey(body)+" has an exit without release: "+why)
					}
					return ok2
				}})
				// hand-back: the function returns a closure that releases
				handed := false
				retBar := func(in ssa.Instruction) bool {
					rt, ok := in.(*ssa.Return)
					if !ok || len(rt.Results) == 0 {
						return false
					}
					e := strip(Desc(rt.Results[0]))
					if e != nil && e.K == EClosure && e.SFn != nil && len(instrsWhere(e.SFn, rel)) > 0 {
						handed = true
						return true
					}
					return false
				}
				bars = append(bars, Barrier{Name: "return <release closure>", Instr: retBar})
				if extra != nil {
					bars = append(bars, extra(f)...)
				}
				r := reach([]Point{pointAfter(in)}, bars, nil)
				var bad ssa.Instruction
				for _, t := range r.order {
					if isExit(t) && !retBar(t) {
						bad = t
						break
					}
				}
				if bad != nil {
					c.violation(rule, key, instrPos(in), fmt.Sprintf("slot of %s taken at %s but exit at %s is reachable without releasing it or handing it to a releasing goroutine (%s); path %s", f.Name(), c.P.pos(instrPos(in)), c.P.pos(instrPos(bad)), strings.Join(goNotes, "; "), c.trail(r, bad)))
				} else {
					c.ok(rule, key, instrPos(in), fmt.Sprintf("slot of %s: every exit after the acquisition releases it, defers the release, hands it to a goroutine that releases on every exit, or returns the release", f.Name()))
				}
				if handed && fn.Parent() == nil {
					handBack = append(handBack, fn)
				}
			}
		}
	}
	for _, f := range fields {
		if f != nil && count[f] == 0 {
			c.unresolved(rule, "slot "+f.Name(), "no acquisition site found (rule would pass vacuously)")
		}
	}
	return handBack
}

// c11TokenFlow: for every function in roots (functions returning
// (release func(), ok bool|error)), every in-module call site must, on every
// path, call/defer the release, return it to its own caller (which is then
// checked the same way), or be on the not-acquired edge.
func (c *Ctx) c11TokenFlow(rule string, roots []*types.Func) {
	done := map[*types.Func]bool{}
	queue := append([]*types.Func{}, roots...)
	for len(queue) > 0 {
		f := queue[0]
		queue = queue[1:]
		if f == nil || done[f.Origin()] {
			continue
		}
		done[f.Origin()] = true
		sig := f.Type().(*types.Signature)
		if sig.Results().Len() == 0 {
			continue
		}
		sites := c.CallSites(f)
		sort.SliceStable(sites, func(i, j int) bool { return instrPos(sites[i].Instr) < instrPos(sites[j].Instr) })
		for _, s := range sites {
			key := fmt.Sprintf("%s|%s|token from %s", rule, fnKey(TopLevel(s.Fn)), f.Name())
			cl, ok := s.Instr.(*ssa.Call)
			if !ok {
				if s.Kind == "ref" {
					continue // method value / alias declaration; its calls are dynamic and not followed
				}
				c.violation(rule, key, instrPos(s.Instr), "token function is started with go/defer: the returned release is dropped")
				continue
			}
			// the callee at an interface site must have the same result shape
			csig := cl.Call.Signature()
			if csig.Results().Len() != sig.Results().Len() {
				continue
			}
			tuple := csig.Results().Len() > 1
			relPat := func(e *Expr) bool {
				e = strip(e)
				if e == nil {
					return false
				}
				if tuple {
					return e.K == EExtract && e.Idx == 0 && e.X != nil && e.X.V == ssa.Value(cl)
				}
				return e.V == ssa.Value(cl)
			}
			okPat := func(e *Expr) bool {
				e = strip(e)
				return e != nil && e.K == EExtract && e.Idx == 1 && e.X != nil && e.X.V == ssa.Value(cl)
			}
			fromRel := func(v ssa.Value) bool {
				for _, l := range Origins(Desc(v), nil) {
					if relPat(l) {
						return true
					}
				}
				return false
			}
			bars := []Barrier{
				{Name: "release()", Instr: func(in ssa.Instruction) bool {
					cc := callCommon(in)
					if cc == nil || cc.IsInvoke() {
						return false
					}
					if _, isGo := in.(*ssa.Go); isGo {
						return false
					}
					return fromRel(cc.Value)
				}},
				OnFalse("release == nil", relPat),
			}
			if tuple {
				if types.Identical(csig.Results().At(1).Type(), types.Typ[types.Bool]) {
					bars = append(bars, OnFalse("ok", okPat))
				} else {
					bars = append(bars, OnTrue("err", okPat))
				}
			}
			handed := false
			retBar := func(in ssa.Instruction) bool {
				rt, ok := in.(*ssa.Return)
				if !ok {
					return false
				}
				for _, res := range rt.Results {
					if Contains(relPat)(Desc(res)) {
						handed = true
						return true
					}
				}
				return false
			}
			bars = append(bars, Barrier{Name: "return release", Instr: retBar})
			r := reach([]Point{pointAfter(cl)}, bars, nil)
			var bad ssa.Instruction
			for _, t := range r.order {
				if isExit(t) && !retBar(t) {
					bad = t
					break
				}
			}
			if bad != nil {
				c.violation(rule, key, instrPos(cl), fmt.Sprintf("release returned by %s at %s is neither called, deferred nor returned on the path to %s (the slot leaks); path %s", f.Name(), c.P.pos(instrPos(cl)), c.P.pos(instrPos(bad)), c.trail(r, bad)))
				continue
			}
			c.ok(rule, key, instrPos(cl), "release from "+f.Name()+" is called, deferred or handed to the caller on every acquired path")
			if handed {
				if s.Fn.Parent() != nil {
					c.undecided(rule, key+"|closure", instrPos(cl), "release is returned from a closure; its callers are not followed")
					continue
				}
				if fo := funcObjOf(s.Fn); fo != nil {
					queue = append(queue, fo)
				}
			}
		}
	}
}

// c11FuncResultPaired: in fn, after every call matched by acq whose result
// #idx is a func value (cancel/stop), every exit crosses a call or defer of it.
func (c *Ctx) c11FuncResultPaired(rule string, fn *ssa.Function, what string, acq func(ssa.Instruction) bool, idx int) int {
	if fn == nil {
		c.unresolved(rule, what, "function not found")
		return 0
	}
	n := 0
	for _, in := range instrsWhere(fn, acq) {
		cl, ok := in.(*ssa.Call)
		if !ok {
			continue
		}
		n++
		relPat := func(e *Expr) bool {
			e = strip(e)
			return e != nil && e.K == EExtract && e.Idx == idx && e.X != nil && e.X.V == ssa.Value(cl)
		}
		isRel := func(in ssa.Instruction) bool {
			cc := callCommon(in)
			if cc == nil || cc.IsInvoke() {
				return false
			}
			for _, l := range Origins(Desc(cc.Value), nil) {
				if relPat(l) {
					return true
				}
			}
			return false
		}
		key := fmt.Sprintf("%s|%s|%s", rule, fnKey(fn), what)
		r := reach([]Point{pointAfter(cl)}, []Barrier{{Name: "cancel()", Instr: isRel}}, nil)
		var bad ssa.Instruction
		for _, t := range r.order {
			if isExit(t) {
				bad = t
				break
			}
		}
		if bad != nil {
			c.violation(rule, key, instrPos(cl), fmt.Sprintf("%s: exit at %s reachable without calling/deferring the returned cancel; path %s", what, c.P.pos(instrPos(bad)), c.trail(r, bad)))
		} else {
			c.ok(rule, key, instrPos(cl), what+": the returned cancel is called or deferred on every exit")
		}
	}
	if n == 0 {
		c.unresolved(rule, fmt.Sprintf("%s|%s", fnKey(fn), what), "no acquire site found (rule would pass vacuously)")
	}
	return n
}
