package main

import (
	"fmt"
	"go/token"
	"go/types"
	"strings"

	"golang.org/x/tools/go/ssa"
)

func init() {
	register(&PropDef{
		ID:    "C07",
		Title: "Authoritative data is trusted only inside the sender's bailiwick",
		Run:   runC07,
		Explanation: "Decided (structure only): R1 in dnsclient.(*Conn).Exchange every path that returns a message with a possibly-nil error crossed the r.Id == m.Id edge and the QuestionMatches=true edge (or the empty-request-question edge) for the LAST datagram read; QuestionMatches answers true only behind len(resp)==1, qtype, qclass and the canonical-name comparison; Client.SkipQuestionCheck has no store; raw ReadMsg is called only by Exchange and the Exchange wrappers hand on Exchange's own result; Resolver.exchange and Client.Exchange return the message only across the nil-error edge. " +
			"R2 in checkGlueRR every server construction, glue-map insert and found-set insert is behind the bailiwick comparison's pass edge, the hosts[name] hit edge and usableAddr's valid edge, and carries usableAddr's address; usableAddr answers valid only behind AddrFromSlice ok, !IsLoopback and !isLocalIP; NS addresses enter the glue caches only through the enumerated delegation-path functions. " +
			"R3 (formulas decided as decision tables on the CFG, independent of how the guards are written) validReferral ≡ nsRecord!=nil ∧ ¬incoherent ∧ class==qclass ∧ progressingReferral(owner, authZone, qname); progressingReferral ≡ Sub(authZone,referral) ∧ ¬same-zone ∧ Sub(referral,qname); extractDelegationInfo admits an NS target only for the anchoring owner/class and flags incoherent on a mismatch; in lookup a response is returned as winner only across validReferral=true or a not-a-referral edge; in processDelegation every cache write, glue admission and descent is behind validReferral=true. " +
			"R4 authority.(*Cache).SetUntil is called only from processDelegation/lookupV4Nss (Set: no production caller), and those and checkGlueRR are reachable only from the delegation path. " +
			"R5 the message handed to every CacheEntry constructor originates from filterCacheableAnswer, whose keep predicate is owner==qname ∨ DNAME ∨ RRSIG(DNAME) and which returns the unfiltered message only when nothing was rejected. " +
			"R6 every successful return of Resolver.answer crossed clearAdditional or one of the two target-proof arms; clearAdditional empties the authority section unconditionally; the validated arm filters authority to the signer zone before AD is set.",
		NotDecided: []string{
			"the label arithmetic inside CompareSuffix / dnsname.Sub / PrevLabel / usableAddr (value-level)",
			"which records an adversarial server can place where in a message, and that a CNAME/DNAME chain inside one message stays inside the zone",
			"later-query visibility (history): that nothing admitted earlier is served for a victim name afterwards",
			"that the UDP socket is connected to the queried server (source-address check is the kernel's)",
		},
	})
}

const c07res = "middleware/resolver"
const c07dc = "internal/dnsclient"
const c07dns = "github.com/miekg/dns"

// c07Len matches builtin len(x) with x matching p.
func c07Len(p Pat) Pat {
	return func(e *Expr) bool {
		e = strip(e)
		return e != nil && e.K == ECall && e.Method == "builtin.len" && len(e.Args) == 1 && p(e.Args[0])
	}
}

func c07And(ps ...Pat) Pat {
	return func(e *Expr) bool {
		for _, p := range ps {
			if !p(e) {
				return false
			}
		}
		return true
	}
}

// c07ExtractOf: v is result #idx of a static call to f.
func c07ExtractOf(v ssa.Value, idx int, fs ...*types.Func) bool {
	if v == nil {
		return false
	}
	return ResultOf(idx, fs...)(Desc(v))
}

// c07ReturnEff: a return whose effective result #idx matches p.
func c07ReturnEff(idx int, p Pat) func(ssa.Instruction) bool {
	return func(in ssa.Instruction) bool {
		r, ok := in.(*ssa.Return)
		if !ok || idx >= len(r.Results) {
			return false
		}
		return p(Desc(c07EffectiveResult(r, idx)))
	}
}

type c07agg struct {
	bad   string
	pos   token.Pos
	n     int
	first token.Pos
}

func runC07(c *Ctx) {
	c07R1(c)
	c07R2(c)
	c07R3(c)
	c07R4(c)
	c07R5(c)
	c07R6(c)
}

// ---------------------------------------------------------------------------
// R1 — ID and question guard

func c07R1(c *Ctx) {
	const R = "C07-R1"
	c.Doc(R, "(*Conn).Exchange returns a message with a possibly-nil error only after the last datagram read crossed r.Id==m.Id and QuestionMatches=true (or the request has no question); QuestionMatches is true only behind len==1 ∧ qtype ∧ qclass ∧ canonical name; SkipQuestionCheck is never stored; raw reads happen only in Exchange; callers use the message only across err==nil")
	exch := c.fn(R, c07dc+".(*Conn).Exchange")
	exchObj := c.fobj(R, c07dc+".(*Conn).Exchange")
	exchCtx := c.fobj(R, c07dc+".(*Conn).ExchangeContext")
	exchInt := c.fobj(R, c07dc+".(*Conn).ExchangeInterruptible")
	readMsg := c.fobj(R, c07dc+".(*Conn).ReadMsg")
	qm := c.fobj(R, c07dc+".QuestionMatches")
	idF := c.field(R, c07dns+".MsgHdr.Id")
	questionF := c.field(R, c07dns+".Msg.Question")
	qtypeF := c.field(R, c07dns+".Question.Qtype")
	qclassF := c.field(R, c07dns+".Question.Qclass")
	qnameF := c.field(R, c07dns+".Question.Name")
	canon := c.fobj(R, c07dns+".CanonicalName")
	skipF := c.field(R, c07dc+".Client.SkipQuestionCheck")
	if exch == nil || exchObj == nil || exchCtx == nil || exchInt == nil || readMsg == nil || qm == nil || idF == nil || questionF == nil || qtypeF == nil || qclassF == nil || qnameF == nil || canon == nil || skipF == nil {
		return
	}
	fromRead := Contains(ResultOf(0, readMsg))
	reqM := c07ParamIdx(1)
	idEq := OnCmp("id-eq", c07And(FieldIs(idF), fromRead), token.EQL, c07And(FieldIs(idF), Contains(reqM)), true)
	qmatch := OnTrue("qmatch", CallTo(qm))
	noq := OnCmp("noq", c07Len(c07FieldOf(questionF, reqM)), token.GTR, IsConstInt(0), false)
	idEq.Name, qmatch.Name, noq.Name = "id-eq", "qmatch", "noq"

	ends, complete := c.c07Walk(exch, c07WalkSpec{Markers: []Barrier{idEq, qmatch, noq}, Reset: isPlainCallTo(readMsg), GlobalsNonNil: true})
	if !complete {
		c.undecided(R, R+"|Conn.Exchange|walk", exch.Pos(), "path enumeration exceeded its budget")
	}
	nAcc := 0
	var badID, badQ *c07PathEnd
	for i := range ends {
		e := &ends[i]
		if len(e.Vals) != 3 {
			continue
		}
		if e.Nil[2] == 1 || e.Nil[0] == -1 {
			continue // error surely non-nil, or no message handed out
		}
		nAcc++
		if !e.Marks["id-eq"] && badID == nil {
			badID = e
		}
		if !e.Marks["qmatch"] && !e.Marks["noq"] && badQ == nil {
			badQ = e
		}
	}
	if nAcc == 0 {
		c.unresolved(R, "Conn.Exchange|accepting return", "no accepting path found (rule would pass vacuously)")
	} else {
		key := R + "|(*Conn).Exchange|accepted message crossed r.Id==m.Id"
		if badID != nil {
			c.violation(R, key, badID.Ret.Pos(), "a message can be returned with a nil error although the last datagram read never crossed the r.Id == m.Id edge; path "+badID.Trail)
		} else {
			c.ok(R, key, exch.Pos(), fmt.Sprintf("%d accepting path classes, all crossed r.Id == m.Id after the last ReadMsg", nAcc))
		}
		key = R + "|(*Conn).Exchange|accepted message crossed QuestionMatches"
		if badQ != nil {
			c.violation(R, key, badQ.Ret.Pos(), "a message can be returned with a nil error without QuestionMatches=true (and the request has a question); path "+badQ.Trail)
		} else {
			c.ok(R, key, exch.Pos(), fmt.Sprintf("%d accepting path classes, all crossed QuestionMatches=true or len(m.Question)==0", nAcc))
		}
	}
	// the guard compares the request's question with the read message's question
	for _, in := range instrsWhere(exch, isPlainCallTo(qm)) {
		a0, a1 := Desc(callArg(in, 0)), Desc(callArg(in, 1))
		key := R + "|(*Conn).Exchange|QuestionMatches operands"
		ok0 := c07Through(func(e *Expr) bool {
			return e.K == EIndex && c07FieldOf(questionF, c07Through(reqM))(e.X) && IsConstInt(0)(e.Y)
		})(a0)
		ok1 := FieldIs(questionF)(a1) && c07Through(ResultOf(0, readMsg))(a1)
		if ok0 && ok1 {
			c.ok(R, key, instrPos(in), "QuestionMatches(m.Question[0], <read message>.Question)")
		} else {
			c.violation(R, key, instrPos(in), "QuestionMatches is not applied to (request question, read message's question): "+trunc(a0.String()+" , "+a1.String(), 240))
		}
	}

	// QuestionMatches itself
	if qmf := c.fn(R, c07dc+".QuestionMatches"); qmf != nil {
		reqP, respP := c07ParamIdx(0), c07ParamIdx(1)
		mk := func(name string, f *types.Var) Barrier {
			b := OnCmp(name, c07And(FieldIs(f), c07Through(respP)), token.EQL, c07And(FieldIs(f), c07Through(reqP)), true)
			b.Name = name
			return b
		}
		len1 := OnCmp("len1", c07Len(respP), token.EQL, IsConstInt(1), true)
		len1.Name = "len1"
		nameCmp := func(e *Expr) bool {
			e = strip(e)
			if e == nil || e.K != EBin || e.Op != token.EQL {
				return false
			}
			side := func(x *Expr, p Pat) bool {
				x = strip(x)
				return x != nil && CallTo(canon)(x) && len(x.Args) == 1 && FieldIs(qnameF)(x.Args[0]) && c07Through(p)(x.Args[0])
			}
			return (side(e.X, respP) && side(e.Y, reqP)) || (side(e.X, reqP) && side(e.Y, respP))
		}
		nameM := Barrier{Name: "name", Edge: func(cond *Expr) (bool, int) {
			a, pol := Truthy(cond)
			if a != nil && nameCmp(a) {
				if pol {
					return true, 0
				}
				return true, 1
			}
			return false, 0
		}}
		ends, complete := c.c07Walk(qmf, c07WalkSpec{Markers: []Barrier{len1, mk("qtype", qtypeF), mk("qclass", qclassF), nameM}})
		if !complete {
			c.undecided(R, R+"|QuestionMatches|walk", qmf.Pos(), "path enumeration exceeded its budget")
		}
		n := 0
		for _, atom := range []string{"len1", "qtype", "qclass", "name"} {
			key := R + "|QuestionMatches|true only behind " + atom
			var bad *c07PathEnd
			n = 0
			for i := range ends {
				e := &ends[i]
				if len(e.Vals) != 1 || e.Nil[0] == -1 {
					continue
				}
				n++
				okp := e.Marks[atom]
				if atom == "name" && !okp && e.Vals[0] != nil {
					okp = nameCmp(Desc(e.Vals[0]))
				}
				if !okp && bad == nil {
					bad = e
				}
			}
			if n == 0 {
				c.unresolved(R, "QuestionMatches|"+atom, "no path may return true")
			} else if bad != nil {
				c.violation(R, key, bad.Ret.Pos(), "QuestionMatches may answer true without the "+atom+" comparison; path "+bad.Trail)
			} else {
				c.ok(R, key, qmf.Pos(), fmt.Sprintf("%d true-capable path classes all include the %s comparison", n, atom))
			}
		}
	}

	// the opt-out is never taken
	if sites := c.StoreSites(skipF); len(sites) == 0 {
		c.ok(R, R+"|Client.SkipQuestionCheck|stores", skipF.Pos(), "no store and no composite-literal field sets Client.SkipQuestionCheck in non-test code")
	} else {
		c.c07WhoMay(R, "store Client.SkipQuestionCheck", sites, map[string]string{})
	}

	// raw reads only inside the guard; wrappers hand on Exchange's result
	c.c07WhoMay(R, "call (*Conn).ReadMsg", c.CallSites(readMsg), map[string]string{"(*" + c07dc + ".Conn).Exchange": "the guarded read loop"})
	c.c07WhoMay(R, "call (*Conn).Exchange", c.CallSites(exchObj), map[string]string{
		"(*" + c07dc + ".Conn).ExchangeContext":       "cancellation wrapper",
		"(*" + c07dc + ".Conn).ExchangeInterruptible": "interrupt-group wrapper",
	})
	for _, w := range []string{c07dc + ".(*Conn).ExchangeContext", c07dc + ".(*Conn).ExchangeInterruptible"} {
		wf := c.fn(R, w)
		if wf == nil {
			continue
		}
		for _, in := range instrsWhere(wf, isReturn) {
			ret := in.(*ssa.Return)
			if ret.Parent() != wf || len(ret.Results) != 3 {
				continue
			}
			for idx := 0; idx < 3; idx += 2 {
				c.OriginCheck(R, fmt.Sprintf("%s|%s|result %d origin", R, fnKey(wf), idx), in, fmt.Sprintf("wrapper result #%d", idx), ret.Results[idx], nil,
					ResultOf(idx, exchObj, exchCtx))
			}
		}
	}

	// Resolver.exchange: the message leaves only across the nil-error edge
	if rex := c.fn(R, c07res+".(*Resolver).exchange"); rex != nil {
		c.MustCrossFrom(R, rex, "message returned after ExchangeInterruptible", isPlainCallTo(exchInt),
			isReturnWith(0, c07Holds(ResultOf(0, exchInt))),
			OnFalse("exchange err", c07Holds(ResultOf(2, exchInt))))
	}

	// Client.Exchange (forwarder / failover transport)
	if cex := c.fn(R, c07dc+".(*Client).Exchange"); cex != nil {
		doh := c.fobj(R, c07dc+".dohExchange")
		reqP := c07ParamIdx(2)
		errnil := OnFalse("errnil", ResultOf(2, exchCtx))
		skipq := OnTrue("skipq", FieldIs(skipF))
		qmatch := OnTrue("qmatch", CallTo(qm))
		noq := OnCmp("noq", c07Len(c07FieldOf(questionF, reqP)), token.GTR, IsConstInt(0), false)
		errnil.Name, skipq.Name, qmatch.Name, noq.Name = "errnil", "skipq", "qmatch", "noq"
		ends, complete := c.c07Walk(cex, c07WalkSpec{Markers: []Barrier{errnil, skipq, qmatch, noq}, GlobalsNonNil: true})
		if !complete {
			c.undecided(R, R+"|Client.Exchange|walk", cex.Pos(), "path enumeration exceeded its budget")
		}
		nConn, nDoh := 0, 0
		var badConn, badDoh *c07PathEnd
		for i := range ends {
			e := &ends[i]
			if len(e.Vals) != 3 || e.Nil[2] == 1 {
				continue
			}
			switch {
			case c07ExtractOf(e.Vals[0], 0, exchCtx):
				nConn++
				if !e.Marks["errnil"] && !e.Marks["skipq"] && badConn == nil {
					badConn = e
				}
			case doh != nil && c07ExtractOf(e.Vals[0], 0, doh):
				nDoh++
				if !e.Marks["qmatch"] && !e.Marks["noq"] && !e.Marks["skipq"] && badDoh == nil {
					badDoh = e
				}
			}
		}
		key := R + "|(*Client).Exchange|conn message only across err==nil"
		switch {
		case nConn == 0:
			c.unresolved(R, "Client.Exchange|conn arm", "no path returns the ExchangeContext message")
		case badConn != nil:
			c.violation(R, key, badConn.Ret.Pos(), "the ExchangeContext message is returned with a nil error without crossing its err==nil edge (or SkipQuestionCheck); path "+badConn.Trail)
		default:
			c.ok(R, key, cex.Pos(), fmt.Sprintf("%d path classes", nConn))
		}
		key = R + "|(*Client).Exchange|DoH message only across QuestionMatches"
		switch {
		case nDoh == 0:
			c.unresolved(R, "Client.Exchange|doh arm", "no path returns the dohExchange message")
		case badDoh != nil:
			c.violation(R, key, badDoh.Ret.Pos(), "the DoH message is returned with a nil error without QuestionMatches=true; path "+badDoh.Trail)
		default:
			c.ok(R, key, cex.Pos(), fmt.Sprintf("%d path classes", nDoh))
		}
	}
	c.Floor(R, 22)
}

// ---------------------------------------------------------------------------
// R2 — glue filters

func c07R2(c *Ctx) {
	const R = "C07-R2"
	c.Doc(R, "checkGlueRR: every NewServerFromAddrPort call, glue-map insert (maps handed to addIPv4Cache/addIPv6Cache) and found-set insert is behind CompareSuffix(name, zone-suffix) >= level, the hosts[name] hit and usableAddr's valid result, and uses usableAddr's address; usableAddr: valid only behind AddrFromSlice ok, !IsLoopback and !isLocalIP; glue caches are fed only by the enumerated delegation-path functions")
	glue := c.fn(R, c07res+".(*Resolver).checkGlueRR")
	cmpSuffix := c.fobj(R, "internal/dnsname.CompareSuffix")
	usable := c.fobj(R, c07res+".usableAddr")
	newSrv := c.fobj(R, "internal/authority.NewServerFromAddrPort")
	add4 := c.fobj(R, c07res+".(*Resolver).addIPv4Cache")
	add6 := c.fobj(R, c07res+".(*Resolver).addIPv6Cache")
	hdrName := c.field(R, c07dns+".RR_Header.Name")
	if glue == nil || cmpSuffix == nil || usable == nil || newSrv == nil || add4 == nil || add6 == nil || hdrName == nil {
		return
	}
	// maps that leave the function towards the glue caches or as found-sets
	sink := map[ssa.Value]string{}
	for _, in := range instrsWhere(glue, isPlainCallTo(add4, add6)) {
		if v := callArg(in, 1); v != nil {
			sink[v] = "glue map"
		}
	}
	for _, in := range instrsWhere(glue, isReturn) {
		for i, rv := range in.(*ssa.Return).Results {
			if i > 0 {
				sink[rv] = "found set"
			}
		}
	}
	isAdmit := func(in ssa.Instruction) bool {
		if isPlainCallTo(newSrv)(in) {
			return true
		}
		if mu, ok := in.(*ssa.MapUpdate); ok {
			_, is := sink[mu.Map]
			return is
		}
		return false
	}
	hostsHit := func(e *Expr) bool {
		e = strip(e)
		return e != nil && e.K == EExtract && e.Idx == 1 && e.X != nil && e.X.K == ELookup && c07ParamOfType(c07res, "hostSet")(e.X.X)
	}
	// each guard may sit in checkGlueRR itself or behind an extracted unexported helper
	c.MustCrossAll(R, glue, "glue admission", isAdmit,
		c.c07LiftAny("CompareSuffix>=level", OnCmp("CompareSuffix>=level", CallTo(cmpSuffix), token.LSS, c07IntParam, false)),
		c.c07LiftAny("hosts[name]=true", OnTrue("hosts[name]", hostsHit)),
		c.c07LiftAny("usableAddr valid=true", OnTrue("usableAddr valid", ResultOf(1, usable))))
	// the compared name is the glue record's owner; the admitted address is usableAddr's
	for _, in := range instrsWhere(glue, isPlainCallTo(cmpSuffix)) {
		a0 := Desc(callArg(in, 0))
		key := R + "|checkGlueRR|bailiwick operand"
		if Contains(FieldIs(hdrName))(a0) {
			c.ok(R, key, instrPos(in), "CompareSuffix compares the glue record's owner name")
		} else {
			c.violation(R, key, instrPos(in), "CompareSuffix's first operand is not derived from the glue record's owner name: "+trunc(a0.String(), 200))
		}
	}
	for _, in := range instrsWhere(glue, isPlainCallTo(newSrv)) {
		a0 := Desc(callArg(in, 0))
		key := R + "|checkGlueRR|server address origin"
		if Contains(ResultOf(0, usable))(a0) {
			c.ok(R, key, instrPos(in), "server endpoint is built from usableAddr's address")
		} else {
			c.violation(R, key, instrPos(in), "server endpoint does not come from usableAddr: "+trunc(a0.String(), 200))
		}
	}
	for _, in := range instrsWhere(glue, func(in ssa.Instruction) bool {
		mu, ok := in.(*ssa.MapUpdate)
		return ok && sink[mu.Map] == "glue map"
	}) {
		v := Desc(in.(*ssa.MapUpdate).Value)
		key := R + "|checkGlueRR|glue map value origin"
		if Contains(ResultOf(0, usable))(v) {
			c.ok(R, key, instrPos(in), "glue map value is built from usableAddr's address")
		} else {
			c.violation(R, key, instrPos(in), "glue map value does not come from usableAddr: "+trunc(v.String(), 200))
		}
	}

	// usableAddr
	if uf := c.fn(R, c07res+".usableAddr"); uf != nil {
		fromSlice := c.fobj(R, "net/netip.AddrFromSlice")
		isLoop := c.fobj(R, "net/netip.Addr.IsLoopback")
		isLocal := c.fobj(R, c07res+".isLocalIP")
		if fromSlice != nil && isLoop != nil && isLocal != nil {
			c.MustCrossAll(R, uf, "valid=true return", isReturnWith(1, func(e *Expr) bool { return !IsConstBool(false)(e) }),
				OnTrue("AddrFromSlice ok", ResultOf(1, fromSlice)),
				OnFalse("IsLoopback", CallTo(isLoop)),
				OnFalse("isLocalIP", CallTo(isLocal)))
		}
	}
	// searchAddrs (NS address lookups) filters through usableAddr too
	if sf := c.fn(R, c07res+".searchAddrs"); sf != nil {
		c.MustCross(R, sf, "append address", func(in ssa.Instruction) bool {
			cl, ok := in.(*ssa.Call)
			if !ok {
				return false
			}
			b, ok := cl.Call.Value.(*ssa.Builtin)
			return ok && b.Name() == "append"
		}, OnTrue("usableAddr valid", ResultOf(1, usable)))
	}
	// who feeds the glue caches
	c.c07WhoMay(R, "call addIPv4Cache", c.CallSites(add4), map[string]string{
		"(*" + c07res + ".Resolver).checkGlueRR": "in-bailiwick glue (filters above)",
		"(*" + c07res + ".Resolver).checkHosts":  "addresses resolved by lookupNSAddrV4",
		"(*" + c07res + ".Resolver).lookupV4Nss": "addresses resolved by lookupNSAddrV4",
	})
	c.c07WhoMay(R, "call addIPv6Cache", c.CallSites(add6), map[string]string{
		"(*" + c07res + ".Resolver).checkGlueRR": "in-bailiwick glue (filters above)",
		"(*" + c07res + ".Resolver).checkHosts":  "addresses resolved by lookupNSAddrV6",
		"(*" + c07res + ".Resolver).lookupV6Nss": "addresses resolved by lookupNSAddrV6",
	})
	for _, f := range []string{"glueV4", "glueV6"} {
		fv := c.field(R, c07res+".Resolver."+f)
		if fv == nil {
			continue
		}
		adder := map[string]string{"glueV4": "(*" + c07res + ".Resolver).addIPv4Cache", "glueV6": "(*" + c07res + ".Resolver).addIPv6Cache"}[f]
		for _, fn := range c.P.FuncsInPkg(c07res) {
			for _, b := range fn.Blocks {
				for _, in := range b.Instrs {
					cc := callCommon(in)
					if cc == nil || cc.IsInvoke() || len(cc.Args) == 0 {
						continue
					}
					fo, _, name := calleeObj(cc)
					if fo == nil || !FieldIs(fv)(Desc(cc.Args[0])) {
						continue
					}
					switch name {
					case "Get", "Remove", "Len", "Stop":
						continue
					}
					key := fmt.Sprintf("%s|%s.%s writer|%s", R, f, name, fnKey(TopLevel(fn)))
					if fnKey(TopLevel(fn)) == adder {
						c.ok(R, key, instrPos(in), f+"."+name+" in its single adder")
					} else {
						c.violation(R, key, instrPos(in), f+"."+name+" outside "+adder+": glue cache written by a path that skips the bailiwick/address filters")
					}
				}
			}
		}
	}
	c.Floor(R, 34)
}

// ---------------------------------------------------------------------------
// R3 — referral rule

func c07R3(c *Ctx) {
	const R = "C07-R3"
	c.Doc(R, "validReferral ≡ nsRecord!=nil ∧ ¬incoherent ∧ class==qclass ∧ progressingReferral(owner,authZone,qname); progressingReferral ≡ Sub(authZone,referral) ∧ ¬EqualFold(canon) ∧ Sub(referral,qname); extractDelegationInfo adds hosts only for the anchoring owner/class and stores incoherent on mismatch; lookup returns a winner only across validReferral=true or a not-a-referral edge; processDelegation reaches cache writes, glue admission and descent only across validReferral=true")
	valid := c.fobj(R, c07res+".validReferral")
	prog := c.fobj(R, c07res+".progressingReferral")
	sub := c.fobj(R, "internal/dnsname.Sub")
	equalFold := c.fobj(R, "strings.EqualFold")
	canon := c.fobj(R, c07dns+".CanonicalName")
	extract := c.fobj(R, c07res+".(*Resolver).extractDelegationInfo")
	nsRecordF := c.field(R, c07res+".delegationInfo.nsRecord")
	incoherentF := c.field(R, c07res+".delegationInfo.incoherent")
	hostsF := c.field(R, c07res+".delegationInfo.hosts")
	classF := c.field(R, c07dns+".RR_Header.Class")
	hdrNameF := c.field(R, c07dns+".RR_Header.Name")
	qclassF := c.field(R, c07dns+".Question.Qclass")
	qnameF := c.field(R, c07dns+".Question.Name")
	questionF := c.field(R, c07dns+".Msg.Question")
	zoneF := c.field(R, "internal/authority.Servers.Zone")
	nsF := c.field(R, c07dns+".Msg.Ns")
	answerF := c.field(R, c07dns+".Msg.Answer")
	rcodeF := c.field(R, c07dns+".MsgHdr.Rcode")
	if valid == nil || prog == nil || sub == nil || equalFold == nil || canon == nil || extract == nil || nsRecordF == nil || incoherentF == nil || hostsF == nil || classF == nil || hdrNameF == nil || qclassF == nil || qnameF == nil || questionF == nil || zoneF == nil || nsF == nil || answerF == nil || rcodeF == nil {
		return
	}

	// (a) validReferral's formula, decided on the CFG: any arrangement of the
	// same four atoms (one && expression, early-return guards, nested ifs)
	// gives the same decision table.
	{
		viaNS := Contains(FieldIs(nsRecordF))
		progCall := func(e *Expr) bool {
			e = strip(e)
			if e == nil || e.K != ECall || !CallTo(prog)(e) || len(e.Args) != 3 {
				return false
			}
			return FieldIs(hdrNameF)(e.Args[0]) && viaNS(e.Args[0]) &&
				c07Through(c07ParamIdx(1))(e.Args[1]) &&
				FieldIs(qnameF)(e.Args[2]) && c07Through(c07ParamIdx(2))(e.Args[2])
		}
		c.c07FormulaCheck(R, R+"|validReferral|formula", c.fn(R, c07res+".validReferral"), 0, []c07Atom{
			c07AtomTruthy("nonnil", c07And(FieldIs(nsRecordF), c07Through(c07ParamIdx(0)))),
			c07AtomTruthy("incoherent", c07And(FieldIs(incoherentF), c07Through(c07ParamIdx(0)))),
			c07AtomCmp("class", c07And(FieldIs(classF), viaNS), token.EQL, c07And(FieldIs(qclassF), c07Through(c07ParamIdx(2)))),
			c07AtomTruthy("progress", progCall),
		}, func(v map[string]bool) bool { return v["nonnil"] && !v["incoherent"] && v["class"] && v["progress"] },
			"nsRecord!=nil ∧ ¬incoherent ∧ class==qclass ∧ progressingReferral(owner, authZone, qname)")
	}

	// (b) progressingReferral, likewise a decision table
	{
		referral, authZone, qname := c07ParamIdx(0), c07ParamIdx(1), c07ParamIdx(2)
		callArgs := func(f *types.Func, a, b Pat) Pat {
			return func(e *Expr) bool {
				e = strip(e)
				return e != nil && e.K == ECall && CallTo(f)(e) && len(e.Args) == 2 && a(e.Args[0]) && b(e.Args[1])
			}
		}
		can := func(p Pat) Pat {
			return func(e *Expr) bool {
				e = strip(e)
				return e != nil && e.K == ECall && CallTo(canon)(e) && len(e.Args) == 1 && p(e.Args[0])
			}
		}
		sameZone := AnyOf(callArgs(equalFold, can(referral), can(authZone)), callArgs(equalFold, can(authZone), can(referral)))
		c.c07FormulaCheck(R, R+"|progressingReferral|formula", c.fn(R, c07res+".progressingReferral"), 0, []c07Atom{
			c07AtomTruthy("inbailiwick", callArgs(sub, authZone, referral)),
			c07AtomTruthy("samezone", sameZone),
			c07AtomTruthy("onpath", callArgs(sub, referral, qname)),
		}, func(v map[string]bool) bool { return v["inbailiwick"] && !v["samezone"] && v["onpath"] },
			"Sub(authZone,referral) ∧ ¬EqualFold(canon(referral),canon(authZone)) ∧ Sub(referral,qname)")
	}

	// (c) extractDelegationInfo: coherent NS set
	if ef := c.fn(R, c07res+".(*Resolver).extractDelegationInfo"); ef != nil {
		hostAdd := func(in ssa.Instruction) bool {
			mu, ok := in.(*ssa.MapUpdate)
			return ok && FieldIs(hostsF)(Desc(mu.Map))
		}
		first := OnFalse("first NS (nsRecord==nil)", FieldIs(nsRecordF))
		ownerEq := func(e *Expr) bool {
			e = strip(e)
			return e != nil && e.K == ECall && CallTo(equalFold)(e) && len(e.Args) == 2 && FieldIs(hdrNameF)(e.Args[0]) && FieldIs(hdrNameF)(e.Args[1])
		}
		c.MustCross(R, ef, "hosts insert (owner)", hostAdd, first, OnTrue("owner==anchor", ownerEq))
		c.MustCross(R, ef, "hosts insert (class)", hostAdd, first, OnCmp("class==anchor", FieldIs(classF), token.EQL, FieldIs(classF), true))
		loopOrExit := func(in ssa.Instruction) bool {
			if isReturn(in) {
				return true
			}
			_, ok := in.(*ssa.Next)
			return ok
		}
		flag := StoreBarrier("incoherent=true", incoherentF, IsConstBool(true))
		c.AfterEdge(R, ef, "owner mismatch leaves without flag", OnFalse("owner==anchor", ownerEq), loopOrExit, flag)
		c.AfterEdge(R, ef, "class mismatch leaves without flag", OnCmp("class!=anchor", FieldIs(classF), token.EQL, FieldIs(classF), false), loopOrExit, flag)
	}

	// (d) lookup: winner selection
	validTrue := c.c07LiftAny("validReferral=true", OnTrue("validReferral", CallTo(valid)))
	if lf := c.fn(R, c07res+".(*Resolver).lookup"); lf != nil {
		// one lifted barrier over the whole triage, so the referral test may live in an
		// unexported bool helper whose true returns crossed one of these edges
		c.MustCross(R, lf, "winner return (nil error)", c07ReturnEff(1, IsNilConst),
			c.c07LiftAny("validReferral=true,no NS record=false,Ns empty,Answer present,Rcode!=NOERROR",
				OnTrue("validReferral", CallTo(valid)),
				OnFalse("no NS record", FieldIs(nsRecordF)),
				OnCmp("Ns empty", c07Len(FieldIs(nsF)), token.GTR, IsConstInt(0), false),
				OnCmp("Answer present", c07Len(FieldIs(answerF)), token.EQL, IsConstInt(0), false),
				OnCmp("Rcode!=NOERROR", FieldIs(rcodeF), token.EQL, IsConstInt(0), false)))
	}
	// validReferral operands at every call site: (info, <servers>.Zone, <req>.Question[0])
	for _, s := range c.CallSites(valid) {
		a1, a2 := Desc(callArg(s.Instr, 1)), Desc(callArg(s.Instr, 2))
		key := fmt.Sprintf("%s|%s|validReferral operands", R, fnKey(TopLevel(s.Fn)))
		ok1 := c07Through(FieldIs(zoneF))(a1)
		ok2 := c07Through(func(e *Expr) bool { return e.K == EIndex && FieldIs(questionF)(e.X) && IsConstInt(0)(e.Y) })(a2)
		if ok1 && ok2 {
			c.ok(R, key, instrPos(s.Instr), "validReferral(info, servers.Zone, req.Question[0])")
		} else {
			c.violation(R, key, instrPos(s.Instr), "validReferral is not applied to (queried zone, request question): "+trunc(a1.String()+" , "+a2.String(), 240))
		}
	}

	// (e) processDelegation: nothing before the check
	if pd := c.fn(R, c07res+".(*Resolver).processDelegation"); pd != nil {
		effects := c.fobjs(R,
			"internal/authority.(*Cache).SetUntil", "internal/authority.(*Cache).Set",
			c07res+".(*Resolver).checkGlueRR", c07res+".(*Resolver).lookupV4Nss", c07res+".(*Resolver).lookupV6Nss",
			c07res+".(*Resolver).resolve", c07res+".(*Resolver).resolveWithCachedNameservers", c07res+".(*Resolver).validateDelegation")
		// an unexported resolver function that itself performs one of the effects
		// (an extracted helper) is an effect when called from processDelegation
		isEffect := isCallTo(effects...)
		viaHelper := map[*ssa.Function]bool{}
		for _, hf := range c.P.FuncsInPkg(c07res) {
			top := TopLevel(hf)
			if top == pd || viaHelper[top] {
				continue
			}
			if fo := funcObjOf(top); fo == nil || fo.Exported() {
				continue
			}
			for _, b := range hf.Blocks {
				for _, in := range b.Instrs {
					if isEffect(in) {
						viaHelper[top] = true
					}
				}
			}
		}
		c.MustCross(R, pd, "delegation effect", func(in ssa.Instruction) bool {
			if isEffect(in) {
				return true
			}
			if cc := callCommon(in); cc != nil && !cc.IsInvoke() {
				if sf := cc.StaticCallee(); sf != nil && viaHelper[TopLevel(sf)] {
					return true
				}
			}
			return false
		}, validTrue)
	}
	// the delegation info handed to processDelegation is extractDelegationInfo's
	if pdo := c.fobj(R, c07res+".(*Resolver).processDelegation"); pdo != nil {
		for _, s := range c.CallSites(pdo) {
			key := fmt.Sprintf("%s|%s|processDelegation nsInfo origin", R, fnKey(TopLevel(s.Fn)))
			leaves := c07StructOrigins(callArg(s.Instr, 4))
			okv := len(leaves) > 0
			for _, l := range leaves {
				if !CallTo(extract)(l) {
					okv = false
				}
			}
			if okv {
				c.ok(R, key, instrPos(s.Instr), "nsInfo ← extractDelegationInfo(resp)")
			} else {
				c.violation(R, key, instrPos(s.Instr), "the delegation info handed to processDelegation is not extractDelegationInfo's result")
			}
		}
	}
	c.Floor(R, 21)
}

// ---------------------------------------------------------------------------
// R4 — who writes the delegation cache

func c07R4(c *Ctx) {
	const R = "C07-R4"
	c.Doc(R, "authority.(*Cache).SetUntil is called only by processDelegation and lookupV4Nss; Set has no production caller; store only by Set/SetUntil; lookupV4Nss, lookupV6Nss and checkGlueRR are called only by processDelegation, which is called only by processAuthoritySection")
	rp := "(*" + c07res + ".Resolver)."
	setUntil := c.fobj(R, "internal/authority.(*Cache).SetUntil")
	set := c.fobj(R, "internal/authority.(*Cache).Set")
	store := c.fobj(R, "internal/authority.(*Cache).store")
	if setUntil == nil || set == nil || store == nil {
		return
	}
	c.c07WhoMay(R, "call authority.(*Cache).SetUntil", c.CallSites(setUntil), map[string]string{
		rp + "processDelegation": "final delegation entry, behind validReferral (R3)",
		rp + "lookupV4Nss":       "provisional entry for the same key while NS addresses are resolved",
	})
	if sites := c.CallSites(set); len(sites) == 0 {
		c.ok(R, R+"|call authority.(*Cache).Set|none", set.Pos(), "relative-TTL Set has no production caller")
	} else {
		c.c07WhoMay(R, "call authority.(*Cache).Set", sites, map[string]string{})
	}
	c.c07WhoMay(R, "call authority.(*Cache).store", c.CallSites(store), map[string]string{
		"(*internal/authority.Cache).Set":      "clamps ttl then stores",
		"(*internal/authority.Cache).SetUntil": "clamps deadline then stores",
	})
	for _, t := range []struct{ fn, reason string }{
		{"lookupV4Nss", "delegation path"}, {"lookupV6Nss", "delegation path (detached enrichment)"}, {"checkGlueRR", "delegation path"},
	} {
		if fo := c.fobj(R, c07res+".(*Resolver)."+t.fn); fo != nil {
			c.c07WhoMay(R, "call "+t.fn, c.CallSites(fo), map[string]string{rp + "processDelegation": t.reason})
		}
	}
	if fo := c.fobj(R, c07res+".(*Resolver).processDelegation"); fo != nil {
		c.c07WhoMay(R, "call processDelegation", c.CallSites(fo), map[string]string{rp + "processAuthoritySection": "referral branch of the authority-section triage"})
	}
	// the key written is the NS question of the referral owner
	c.Floor(R, 9)
}

// ---------------------------------------------------------------------------
// R5 — only question-owned records are cached

func c07R5(c *Ctx) {
	const R = "C07-R5"
	const pkg = "middleware/cache"
	c.Doc(R, "the message argument of every NewCacheEntryWithKey / NewScopedCacheEntry / NewCacheEntry call originates from filterCacheableAnswer(...) (constructors forwarding their own parameter excepted); keep ≡ Rrtype==DNAME ∨ EqualFold(Question[0].Name, owner) ∨ RRSIG covering DNAME; records are appended only behind keep=true and the unfiltered message is returned only if nothing was rejected")
	filter := c.fobj(R, pkg+".filterCacheableAnswer")
	ctors := c.fobjs(R, pkg+".NewCacheEntryWithKey", pkg+".NewScopedCacheEntry", pkg+".NewCacheEntry")
	if filter == nil || len(ctors) != 3 {
		return
	}
	isCtor := map[string]bool{}
	for _, f := range ctors {
		isCtor[funcObjKey(f)] = true
	}
	for _, ctor := range ctors {
		for _, s := range c.CallSites(ctor) {
			if s.Kind == "ref" {
				c.violation(R, fmt.Sprintf("%s|%s|%s taken as value", R, fnKey(TopLevel(s.Fn)), ctor.Name()), instrPos(s.Instr), "constructor escapes as a function value; its message argument cannot be traced")
				continue
			}
			arg := callArg(s.Instr, 0)
			key := fmt.Sprintf("%s|%s|%s message origin", R, fnKey(TopLevel(s.Fn)), ctor.Name())
			var bad []string
			var good []string
			var visit func(v ssa.Value, depth int)
			visit = func(v ssa.Value, depth int) {
				for _, l := range Origins(Desc(v), nil) {
					switch {
					case CallTo(filter)(l):
						good = append(good, l.String())
					case l.K == EParam && depth < 3:
						if p, ok := l.V.(*ssa.Parameter); ok {
							if p.Parent().Parent() != nil {
								args := c07ClosureArgs(p)
								if len(args) == 0 {
									bad = append(bad, "closure parameter "+l.Name+" with no traceable call")
								}
								for _, a := range args {
									visit(a, depth+1)
								}
								continue
							}
							if fo := funcObjOf(p.Parent()); fo != nil && isCtor[funcObjKey(fo)] && l.Idx == 0 {
								good = append(good, "forwarded constructor parameter")
								continue
							}
						}
						bad = append(bad, l.String())
					default:
						bad = append(bad, l.String())
					}
				}
			}
			visit(arg, 0)
			if len(bad) > 0 || len(good) == 0 {
				c.violation(R, key, instrPos(s.Instr), "cached message does not (only) originate from filterCacheableAnswer: "+trunc(strings.Join(bad, " ; "), 240))
			} else {
				c.ok(R, key, instrPos(s.Instr), "message ← "+trunc(strings.Join(good, " ; "), 160))
			}
		}
	}

	ff := c.fn(R, pkg+".filterCacheableAnswer")
	rrtype := c.field(R, c07dns+".RR_Header.Rrtype")
	hdrName := c.field(R, c07dns+".RR_Header.Name")
	qname := c.field(R, c07dns+".Question.Name")
	covered := c.field(R, c07dns+".RRSIG.TypeCovered")
	answerF := c.field(R, c07dns+".Msg.Answer")
	equalFold := c.fobj(R, "strings.EqualFold")
	if ff == nil || rrtype == nil || hdrName == nil || qname == nil || covered == nil || equalFold == nil || answerF == nil {
		return
	}
	// the keep predicate: the one bool function (closure of the filter, or an
	// extracted same-package helper) that the filter calls on a record
	var keep *ssa.Function
	nKeep := 0
	for _, b := range ff.Blocks {
		for _, in := range b.Instrs {
			cl, ok := in.(*ssa.Call)
			if !ok || cl.Call.IsInvoke() {
				continue
			}
			sf := cl.Call.StaticCallee()
			if sf == nil || fnPkg(sf) == nil || fnPkg(sf) != fnPkg(ff) {
				continue
			}
			res := sf.Signature.Results()
			if res.Len() != 1 {
				continue
			}
			if bt, ok := res.At(0).Type().Underlying().(*types.Basic); !ok || bt.Kind() != types.Bool {
				continue
			}
			takesRR := false
			for _, a := range cl.Call.Args {
				if c07NamedType(a.Type(), "miekg/dns", "RR") {
					takesRR = true
				}
			}
			if !takesRR {
				continue
			}
			if keep != sf {
				nKeep++
			}
			keep = sf
		}
	}
	if nKeep != 1 {
		c.undecided(R, R+"|filterCacheableAnswer|keep", ff.Pos(), fmt.Sprintf("expected exactly one keep predicate (bool function of a record) called by the filter, found %d", nKeep))
		return
	}
	const typeDNAME = 39
	dname := OnCmp("dname", FieldIs(rrtype), token.EQL, IsConstInt(typeDNAME), true)
	owner := OnTrue("owner", func(e *Expr) bool {
		e = strip(e)
		if e == nil || e.K != ECall || !CallTo(equalFold)(e) || len(e.Args) != 2 {
			return false
		}
		qn := c.c07ViaParam(Contains(FieldIs(qname))) // the question name, possibly handed to an extracted helper
		return (qn(e.Args[0]) && FieldIs(hdrName)(e.Args[1])) || (qn(e.Args[1]) && FieldIs(hdrName)(e.Args[0]))
	})
	sig := OnCmp("sigdname", FieldIs(covered), token.EQL, IsConstInt(typeDNAME), true)
	dname.Name, owner.Name, sig.Name = "dname", "owner", "sigdname"
	nTrue, badKeep, decided := c.c07GoodReturnsGuarded(keep, 0, 0, dname, owner, sig)
	key := R + "|filterCacheableAnswer$keep|true only for owner==qname ∨ DNAME ∨ RRSIG(DNAME)"
	switch {
	case !decided:
		c.undecided(R, key, keep.Pos(), "keep predicate could not be enumerated")
	case nTrue == 0:
		c.unresolved(R, "keep", "no path may return true")
	case badKeep != nil:
		c.violation(R, key, badKeep.Ret.Pos(), "keep may answer true for a record that is neither owned by the question name nor a DNAME / RRSIG(DNAME); path "+badKeep.Trail)
	default:
		c.ok(R, key, keep.Pos(), fmt.Sprintf("%d true-capable path classes", nTrue))
	}
	keepCall := func(e *Expr) bool {
		e = strip(e)
		return e != nil && e.K == ECall && e.SFn == keep
	}
	c.MustCross(R, ff, "append kept record", func(in ssa.Instruction) bool {
		cl, ok := in.(*ssa.Call)
		if !ok || in.Parent() != ff {
			return false
		}
		b, ok := cl.Call.Value.(*ssa.Builtin)
		return ok && b.Name() == "append"
	}, OnTrue("keep(r)", keepCall))
	kf := OnFalse("keepfalse", keepCall)
	empty := OnCmp("empty", c07Len(c07FieldOf(answerF, c07ParamIdx(0))), token.EQL, IsConstInt(0), true)
	kf.Name, empty.Name = "keepfalse", "empty"
	ends, complete := c.c07Walk(ff, c07WalkSpec{Markers: []Barrier{kf, empty}})
	if !complete {
		c.undecided(R, R+"|filterCacheableAnswer|walk", ff.Pos(), "path enumeration exceeded its budget")
	}
	n := 0
	var bad *c07PathEnd
	for i := range ends {
		e := &ends[i]
		if len(e.Vals) != 1 {
			continue
		}
		if e.Vals[0] == nil || !c07ParamIdx(0)(Desc(e.Vals[0])) {
			if e.Vals[0] == nil && bad == nil {
				bad = e
			}
			continue
		}
		n++
		if e.Marks["keepfalse"] && !e.Marks["empty"] && bad == nil {
			bad = e
		}
	}
	key = R + "|filterCacheableAnswer|unfiltered message only if nothing was rejected"
	switch {
	case bad != nil:
		c.violation(R, key, bad.Ret.Pos(), "the original message is returned although keep rejected a record; path "+bad.Trail)
	case n == 0:
		c.unresolved(R, "filterCacheableAnswer|pass-through", "no pass-through return found")
	default:
		c.ok(R, key, ff.Pos(), fmt.Sprintf("%d pass-through path classes, none after a keep=false edge", n))
	}
	c.Floor(R, 10)
}

// ---------------------------------------------------------------------------
// R6 — authority/additional dropped from positive answers

func c07R6(c *Ctx) {
	const R = "C07-R6"
	c.Doc(R, "every nil-error return of Resolver.answer crossed clearAdditional (the DNAME target-proof arms included); after clearAdditional the authority section is refilled only from the checkDname target's Ns, never from the outer reply's; clearAdditional stores an empty authority section on every path and an Extra built only from the request's own OPT; on the validated arm FilterRRsToZone precedes the AD store")
	ans := c.fn(R, c07res+".(*Resolver).answer")
	clear := c.fobj(R, c07res+".(*Resolver).clearAdditional")
	checkDname := c.fobj(R, c07res+".(*Resolver).checkDname")
	verify := c.fobj(R, c07res+".(*Resolver).verifyDNSSEC")
	filterZone := c.fobj(R, "internal/dnsutil.FilterRRsToZone")
	nsF := c.field(R, c07dns+".Msg.Ns")
	extraF := c.field(R, c07dns+".Msg.Extra")
	adF := c.field(R, c07dns+".MsgHdr.AuthenticatedData")
	isEdns0 := c.fobj(R, c07dns+".(*Msg).IsEdns0")
	if ans == nil || clear == nil || checkDname == nil || verify == nil || filterZone == nil || nsF == nil || extraF == nil || adF == nil || isEdns0 == nil {
		return
	}
	targetNs := Contains(c07FieldOf(nsF, Contains(ResultOf(0, checkDname))))
	// every successful return crossed clearAdditional — the target-proof arms included: a store
	// `resp.Ns ← append(resp.Ns, target.Ns…)` alone keeps the outer reply's authority and additional
	// sections exactly as the zone's server put them on the wire (finding F-C07-2)
	c.MustCross(R, ans, "successful return", isReturnWith(1, IsNilConst),
		CallBarrier("clearAdditional", clear))
	// after clearAdditional the authority section may only be refilled from the validated target's proof
	outerNs := Contains(c07FieldOf(nsF, func(e *Expr) bool { return c07ParamIdx(3)(strip(e)) || c07Holds(c07ParamIdx(3))(e) }))
	c.MustCrossFrom(R, ans, "authority section refilled after clearAdditional with anything but the DNAME target's proof",
		func(in ssa.Instruction) bool { return in.Parent() == ans && isPlainCallTo(clear)(in) },
		func(in ssa.Instruction) bool {
			if !isFieldStore(in, nsF, nil) {
				return false
			}
			v := Desc(in.(*ssa.Store).Val)
			return !targetNs(v) || outerNs(v)
		})
	// the cleared message is what is returned / further used
	for _, in := range instrsWhere(ans, isPlainCallTo(clear)) {
		key := R + "|answer|clearAdditional operand"
		a := Desc(callArg(in, 2))
		if Contains(c07ParamIdx(3))(a) || c07Holds(c07ParamIdx(3))(a) {
			c.ok(R, key, instrPos(in), "clearAdditional is applied to the response being answered")
		} else {
			c.violation(R, key, instrPos(in), "clearAdditional is applied to something other than the response: "+trunc(a.String(), 160))
		}
	}
	c.AfterEdge(R, ans, "AD stored on validated arm without zone filter", OnTrue("verifyDNSSEC ok", ResultOf(0, verify)),
		func(in ssa.Instruction) bool { return isFieldStore(in, adF, nil) }, CallBarrier("FilterRRsToZone", filterZone))

	if cf := c.fn(R, c07res+".(*Resolver).clearAdditional"); cf != nil {
		empty := func(e *Expr) bool {
			e = strip(e)
			return e != nil && ((e.K == EMake && len(e.Args) == 0) || IsNilConst(e))
		}
		c.MustCross(R, cf, "return", isReturn, StoreBarrier("resp.Ns = empty", nsF, empty))
		// every store to Ns in clearAdditional is the empty one
		for _, in := range instrsWhere(cf, func(in ssa.Instruction) bool { return isFieldStore(in, nsF, nil) }) {
			key := R + "|clearAdditional|Ns store"
			if isFieldStore(in, nsF, empty) {
				c.ok(R, key, instrPos(in), "authority section emptied")
			} else {
				c.violation(R, key, instrPos(in), "clearAdditional stores a non-empty authority section")
			}
		}
		// Extra: only empty or the request's own OPT appended to the emptied section
		c.MustCross(R, cf, "Extra ← append(Extra, opt)", func(in ssa.Instruction) bool {
			return isFieldStore(in, extraF, func(e *Expr) bool { return e.K == ECall && e.Method == "builtin.append" })
		}, StoreBarrier("resp.Extra = empty", extraF, empty))
		for _, in := range instrsWhere(cf, func(in ssa.Instruction) bool { return isFieldStore(in, extraF, nil) }) {
			st := in.(*ssa.Store)
			e := Desc(st.Val)
			key := R + "|clearAdditional|Extra store"
			okv := empty(e)
			if !okv && e.K == ECall && e.Method == "builtin.append" && len(e.Args) == 2 {
				okv = Contains(CallTo(isEdns0))(e.Args[1])
			}
			if okv {
				c.ok(R, key, instrPos(in), "Extra ← empty / request OPT")
			} else {
				c.violation(R, key, instrPos(in), "clearAdditional stores upstream additional data: "+trunc(e.String(), 200))
			}
		}
	}
	c.Floor(R, 9)
}
