package main

import (
	"fmt"
	"go/ast"
	"go/constant"
	"go/token"
	"go/types"
	"sort"
	"strings"

	"golang.org/x/tools/go/ssa"
)

func init() {
	register(&PropDef{
		ID:    "C14",
		Title: "In-house DNSSEC primitives agree with an independent reference",
		Run:   runC14,
		Explanation: "Decided (structure only, no verdict is computed): R1 the algorithm and digest tables — read from the control-flow graph, so a switch, an if/else chain, an || expression, a named result or a map-literal lookup are the same table — agree with the miekg/dns source in the module cache — " +
			"IsSupportedDNSKEYAlgorithm = the algorithm cases of (*RRSIG).Verify; verifySignatureSupported ⊆ verifySignature's dispatch ⊆ the library's; the RSA/ECDSA/Ed25519 families of the dispatch equal the library's families and " +
			"rsaHash/rsaCryptoHash/ecdsaParameters cover exactly their family; every algorithm→hash pairing equals dns.AlgorithmToHash and every algorithm→curve pairing equals (*DNSKEY).publicKeyECDSA; " +
			"IsSupportedDSDigest = dsDigestHash ⊆ (*DNSKEY).ToDS with the same digest→hash pairing. " +
			"R2 preflight before mathematics: verifySignature reaches a verifier only across signatureBinding=nil and rrsigSignedData err=nil and hands it that signed data; signatureBinding returns nil only across the twelve binding atoms and reads every field the library's own refusals read; " +
			"verifyRSASignature reaches either RSA verification only across parseRSAPublicKey ok and usableRSAKey true, the standard-library one only across e.BitLen() ≤ 31; rsaVerifyPKCS1v15 reaches Exp only across the length and range checks and accepts only across ConstantTimeCompare == 1; " +
			"ECDSA/Ed25519 reach their Verify only across the exact key and signature lengths; dsDigestMatches compares only across the digest-type, size, oversize and decoded-length refusals; KeyTag decodes only across oversizedKeyMaterial=false, answers a chunk-decode error with the library's tag, and decodes a further chunk only after the previous one yielded exactly len(out) octets (octet parity across chunks); " +
			"who may call the raw verifiers is fixed. R3 the size ceilings are constants within the documented limits and are the operands actually compared in usableRSAKey.",
		NotDecided: []string{
			"equality of verdicts (key tags, digests, signature validity) over all byte strings — a numerical relation",
			"the bytes of the canonical signed-data form (rrsigSignedData / canonicalRRset), including wildcard label count and original TTL",
			"key-tag arithmetic of the chunked decoder and of rsamd5KeyTag (the chunk-discipline rule recognises the `encoded = encoded[n:]` remaining-text loop; an index-based rewrite of that loop is reported for review rather than decided)",
			"absence of panics on malformed input",
			"timing / super-linear work on attacker-supplied material (DESIGN R4 is evidence only and not armed)",
		},
	})
}

func c14ConstPat(v constant.Value) Pat {
	return func(e *Expr) bool {
		e = strip(e)
		if e == nil || e.K != EConst || e.Val == nil || v == nil {
			return false
		}
		a := constant.ToInt(e.Val)
		b := constant.ToInt(v)
		if a.Kind() != constant.Int || b.Kind() != constant.Int {
			return false
		}
		return constant.Compare(a, token.EQL, b)
	}
}

// c14AtMost: the branch edge on which lhs ≤ n holds, in either spelling
// (lhs <= c with c ≤ n, lhs < c with c ≤ n+1, and the mirrored/negated forms).
func c14AtMost(name string, lhs Pat, n int64) Barrier {
	constLE := func(max int64) Pat {
		return func(e *Expr) bool { v, ok := constInt(e); return ok && v <= max }
	}
	return Barrier{Name: name, Edge: func(cnd *Expr) (bool, int) {
		if m, pol := CmpMatch(cnd, lhs, token.LEQ, constLE(n)); m {
			if pol {
				return true, 0
			}
			return true, 1
		}
		if m, pol := CmpMatch(cnd, lhs, token.LSS, constLE(n+1)); m {
			if pol {
				return true, 0
			}
			return true, 1
		}
		return false, 0
	}}
}

func runC14(c *Ctx) {
	// edge barriers also recognise their guard through negations and named booleans (c02Deep, c02_util.go)
	OnTrue := func(name string, p Pat) Barrier { return c02Deep(OnTrue(name, p)) }
	OnFalse := func(name string, p Pat) Barrier { return c02Deep(OnFalse(name, p)) }
	OnCmp := func(name string, lhs Pat, op token.Token, rhs Pat, holds bool) Barrier {
		return c02Deep(OnCmp(name, lhs, op, rhs, holds))
	}
	const pkg = "middleware/resolver/dnssec"
	const lib = "github.com/miekg/dns"
	algTag := switchTagMentions("Algorithm")

	// ------------------------------------------------------------------ R1
	c.Doc("C14-R1", "algorithm / digest tables and their hash and curve pairings agree with the miekg/dns source (never more permissive: ⊆ towards the library)")
	decl := func(path string) (*ast.FuncDecl, *types.Info) {
		fd, pk := c.P.FuncDecl(path)
		if fd == nil || pk == nil {
			c.unresolved("C14-R1", path, "function declaration not found")
			return nil, nil
		}
		return fd, pk.TypesInfo
	}
	cases := func(path string, pick func(*ast.SwitchStmt) bool) map[string]bool {
		fd, info := decl(path)
		if fd == nil {
			return nil
		}
		s, n := caseConsts(fd, info, pick)
		if n == 0 {
			c.unresolved("C14-R1", path, "no switch statement found")
			return nil
		}
		for k := range s {
			if strings.HasPrefix(k, "?") {
				c.undecided("C14-R1", "C14-R1|"+path+"|non-constant case", fd.Pos(), "case expression is not a constant: "+k)
			}
		}
		return s
	}
	relate := func(key string, a, b map[string]bool, equal bool, what string) {
		if a == nil || b == nil {
			return
		}
		k := "C14-R1|" + key
		okRel := subset(a, b)
		if equal {
			okRel = sameSet(a, b)
		}
		if okRel {
			c.ok("C14-R1", k, token.NoPos, fmt.Sprintf("%s: %s vs %s", what, setString(a), setString(b)))
		} else {
			c.violation("C14-R1", k, token.NoPos, fmt.Sprintf("%s does not hold: %s vs %s", what, setString(a), setString(b)))
		}
	}
	relateMap := func(key string, a, b map[string]string, what string) {
		// every key of a must be present in b with the same value
		k := "C14-R1|" + key
		if len(a) == 0 {
			c.unresolved("C14-R1", key, "empty table (rule would pass vacuously)")
			return
		}
		var bad []string
		for x, v := range a {
			if strings.HasPrefix(v, "?") || v == "" {
				bad = append(bad, x+": value not resolved ("+v+")")
				continue
			}
			if w, ok := b[x]; !ok {
				bad = append(bad, x+": absent from the reference")
			} else if w != v {
				bad = append(bad, fmt.Sprintf("%s: %s here, %s in the reference", x, v, w))
			}
		}
		sort.Strings(bad)
		if len(bad) == 0 {
			c.ok("C14-R1", k, token.NoPos, fmt.Sprintf("%s: %s", what, c14MapString(a)))
		} else {
			c.violation("C14-R1", k, token.NoPos, fmt.Sprintf("%s differs: %s", what, strings.Join(bad, "; ")))
		}
	}

	// sdns-side tables are read from the control-flow graph (switch, if/else chain,
	// || expression, early returns, named result, map-literal lookup alike); the
	// library side, whose source is fixed, is read from its syntax.
	paramTag := c14ParamIdx(0)
	table := func(path string, tag Pat, idx int) map[string]string {
		fn := c.fn("C14-R1", path)
		if fn == nil {
			return nil
		}
		t := c14ArmTable(fn, tag, idx)
		if len(t) == 0 {
			if m, ok := c14MapTable(c.P, fn, tag, idx); ok {
				t = m
			}
		}
		if len(t) == 0 {
			c.unresolved("C14-R1", path, "no comparison of the table's tag with a constant and no lookup in a package-level map literal found")
			return nil
		}
		return t
	}
	// okSet: the keys for which the boolean result #idx is true; a key outside the table must get false
	okSet := func(path string, idx int) map[string]bool {
		t := table(path, paramTag, idx)
		if t == nil {
			return nil
		}
		out := map[string]bool{}
		for k, v := range t {
			switch v {
			case "const:true":
				out[k] = true
			case "const:false":
			default:
				c.undecided("C14-R1", "C14-R1|"+path+"|verdict for "+k, token.NoPos, "the verdict for key "+k+" is not a boolean constant on its arm: "+v)
			}
		}
		// keys outside the table must be refused (checked when the table is branch-built and the
		// fall-through value is the same on every path; a map literal's zero value is false by construction)
		if fn := c.fn("C14-R1", path); fn != nil && len(c14ArmTable(fn, paramTag, idx)) > 0 {
			if d := c14DefaultResult(fn, paramTag, idx); d != "" && d != "const:false" {
				c.violation("C14-R1", "C14-R1|"+path+"|keys outside the table", token.NoPos, "a key outside the table is not refused (result "+d+")")
			}
		}
		return out
	}
	// valueTable: key → value id of result #valIdx, for the keys okSet admits
	valueTable := func(path string, valIdx int, admitted map[string]bool) map[string]string {
		t := table(path, paramTag, valIdx)
		out := map[string]string{}
		for k, v := range t {
			if admitted[k] {
				out[k] = v
			}
		}
		return out
	}

	supported := okSet(pkg+".IsSupportedDNSKEYAlgorithm", 0)
	gate := okSet(pkg+".verifySignatureSupported", 0)
	libVerify := cases(lib+".(*RRSIG).Verify", algTag)
	relate("IsSupportedDNSKEYAlgorithm = library Verify", supported, libVerify, true, "IsSupportedDNSKEYAlgorithm cases = algorithm cases of dns.(*RRSIG).Verify")
	relate("verifySignatureSupported ⊆ IsSupportedDNSKEYAlgorithm", gate, supported, false, "in-house gate ⊆ supported algorithms")

	// families of the dispatch
	famOf := map[string]string{
		modPath + "/" + pkg + ".verifyRSASignature":     "rsa",
		modPath + "/" + pkg + ".verifyECDSASignature":   "ecdsa",
		modPath + "/" + pkg + ".verifyEd25519Signature": "ed25519",
		"crypto/rsa.VerifyPKCS1v15":                     "rsa",
		"crypto/ecdsa.Verify":                           "ecdsa",
		"crypto/ed25519.Verify":                         "ed25519",
	}
	classify := func(f *types.Func) string {
		if f == nil {
			return ""
		}
		return famOf[f.FullName()]
	}
	var ours, theirs map[string]map[string]bool
	if fn := c.fn("C14-R1", pkg+".verifySignature"); fn != nil {
		ours = c14ArmFamilies(fn, FieldIs(c.field("C14-R1", lib+".RRSIG.Algorithm")), classify)
		dispatch := map[string]bool{}
		for fam, ks := range ours {
			if fam == "none" {
				continue
			}
			for k := range ks {
				dispatch[k] = true
			}
		}
		relate("verifySignatureSupported ⊆ verifySignature", gate, dispatch, false, "every algorithm cryptoVerify routes to the in-house verifier is implemented by its dispatch")
		relate("verifySignature ⊆ library Verify", dispatch, libVerify, false, "in-house dispatch ⊆ library algorithms")
	}
	if fd, info := decl(lib + ".(*RRSIG).Verify"); fd != nil {
		theirs = c14ClauseFamilies(fd, info, algTag, classify)
	}
	for _, fam := range []string{"rsa", "ecdsa", "ed25519"} {
		if ours == nil || theirs == nil {
			break
		}
		if len(ours[fam]) == 0 {
			c.violation("C14-R1", "C14-R1|family "+fam, token.NoPos, "verifySignature has no clause dispatching to the "+fam+" verifier")
			continue
		}
		relate("family "+fam+" = library", ours[fam], theirs[fam], true, "algorithms dispatched to the "+fam+" verifier = library's "+fam+" clause")
	}
	for fam := range ours {
		if fam == "mixed" {
			c.violation("C14-R1", "C14-R1|family mixed", token.NoPos, "a verifySignature clause calls verifiers of two families")
		}
	}
	// each family verifier really ends in that family's primitive
	for _, fv := range []struct{ fn, prim, fam string }{
		{pkg + ".verifyRSASignature", "crypto/rsa.VerifyPKCS1v15", "rsa"},
		{pkg + ".verifyECDSASignature", "crypto/ecdsa.Verify", "ecdsa"},
		{pkg + ".verifyEd25519Signature", "crypto/ed25519.Verify", "ed25519"},
	} {
		fn := c.fn("C14-R1", fv.fn)
		prim := c.fobj("C14-R1", fv.prim)
		if fn == nil || prim == nil {
			continue
		}
		key := "C14-R1|" + fv.fam + " verifier uses " + fv.prim
		if c14HasCall(fn, prim) {
			c.ok("C14-R1", key, fn.Pos(), fnKey(fn)+" verifies with "+fv.prim)
		} else {
			c.violation("C14-R1", key, fn.Pos(), fnKey(fn)+" no longer calls "+fv.prim)
		}
	}
	// helper tables cover exactly their family
	rsaHashSet := okSet(pkg+".rsaHash", 2)
	rsaCryptoSet := okSet(pkg+".rsaCryptoHash", 1)
	ecdsaSet := okSet(pkg+".ecdsaParameters", 2)
	if ours != nil {
		relate("rsaHash = rsa family", rsaHashSet, ours["rsa"], true, "rsaHash keys = RSA clause")
		relate("rsaCryptoHash = rsa family", rsaCryptoSet, ours["rsa"], true, "rsaCryptoHash keys = RSA clause")
		relate("ecdsaParameters = ecdsa family", ecdsaSet, ours["ecdsa"], true, "ecdsaParameters keys = ECDSA clause")
	}

	// hash pairings against dns.AlgorithmToHash
	hashConst := func(name string) string {
		v := c.P.ConstVal("crypto." + name)
		if v == nil {
			c.unresolved("C14-R1", "crypto."+name, "constant not found")
			return "?"
		}
		return "const:" + v.ExactString()
	}
	ctor := map[string]string{
		"call:crypto/sha1.New":      hashConst("SHA1"),
		"call:crypto/sha256.New":    hashConst("SHA256"),
		"call:crypto/sha512.New384": hashConst("SHA384"),
		"call:crypto/sha512.New":    hashConst("SHA512"),
	}
	viaCtor := func(m map[string]string) map[string]string {
		out := map[string]string{}
		for k, v := range m {
			if h, ok := ctor[v]; ok {
				out[k] = h
			} else {
				out[k] = "?" + v
			}
		}
		return out
	}
	var libHash map[string]string
	if v, pk := c14PkgVarValue(c.P, lib, "AlgorithmToHash"); v == nil {
		c.unresolved("C14-R1", lib+".AlgorithmToHash", "variable not found")
	} else if m, ok := c14MapLitValues(v, pk.TypesInfo); !ok {
		c.undecided("C14-R1", "C14-R1|AlgorithmToHash shape", v.Pos(), "dns.AlgorithmToHash is not a constant-keyed map literal")
	} else {
		libHash = m
	}
	if libHash != nil {
		relateMap("rsaCryptoHash pairing", valueTable(pkg+".rsaCryptoHash", 0, rsaCryptoSet), libHash, "rsaCryptoHash algorithm→crypto.Hash = dns.AlgorithmToHash")
		relateMap("rsaHash pairing", viaCtor(valueTable(pkg+".rsaHash", 0, rsaHashSet)), libHash, "rsaHash algorithm→hash constructor = dns.AlgorithmToHash")
		relateMap("ecdsaParameters hash pairing", viaCtor(valueTable(pkg+".ecdsaParameters", 1, ecdsaSet)), libHash, "ecdsaParameters algorithm→hash constructor = dns.AlgorithmToHash")
	}
	if lfd, linfo := decl(lib + ".(*DNSKEY).publicKeyECDSA"); lfd != nil {
		relateMap("ecdsaParameters curve pairing", valueTable(pkg+".ecdsaParameters", 0, ecdsaSet), c14CaseValues(lfd, linfo, algTag, 0), "ecdsaParameters algorithm→curve = dns.(*DNSKEY).publicKeyECDSA")
	}

	// DS digests
	dsSupported := okSet(pkg+".IsSupportedDSDigest", 0)
	dsHash := okSet(pkg+".dsDigestHash", 1)
	toDS := cases(lib+".(*DNSKEY).ToDS", nil)
	relate("IsSupportedDSDigest = dsDigestHash", dsSupported, dsHash, true, "IsSupportedDSDigest cases = dsDigestHash cases")
	relate("dsDigestHash ⊆ library ToDS", dsHash, toDS, false, "digest types computed here ⊆ dns.(*DNSKEY).ToDS")
	if lfd, linfo := decl(lib + ".(*DNSKEY).ToDS"); lfd != nil {
		relateMap("dsDigestHash pairing", valueTable(pkg+".dsDigestHash", 0, dsHash), c14CaseValues(lfd, linfo, nil, 0), "dsDigestHash digest→crypto.Hash = dns.(*DNSKEY).ToDS")
	}
	c.Floor("C14-R1", 20)

	// ------------------------------------------------------------------ R2
	c.Doc("C14-R2", "no cryptographic primitive is reached before its preflight: binding + signed data before any verifier; key parse + key bounds before RSA; exact lengths before ECDSA/Ed25519; digest/size refusals before the DS comparison; oversize refusal before the key-tag decode; fixed callers of the raw verifiers")
	binding := c.fobj("C14-R2", pkg+".signatureBinding")
	signedData := c.fobj("C14-R2", pkg+".rrsigSignedData")
	vRSA := c.fobj("C14-R2", pkg+".verifyRSASignature")
	vECDSA := c.fobj("C14-R2", pkg+".verifyECDSASignature")
	vEd := c.fobj("C14-R2", pkg+".verifyEd25519Signature")
	vSig := c.fobj("C14-R2", pkg+".verifySignature")
	rawRSA := c.fobj("C14-R2", pkg+".rsaVerifyPKCS1v15")
	fromB64 := c.fobj("C14-R2", pkg+".fromBase64")

	// who may
	if vSig != nil {
		c.WhoMay("C14-R2", "verifySignature", c.CallSites(vSig), map[string]string{pkg + ".cryptoVerify": "the single dispatcher; everything else stays on the library"})
	}
	for _, f := range []*types.Func{vRSA, vECDSA, vEd} {
		if f != nil {
			c.WhoMay("C14-R2", f.Name(), c.CallSites(f), map[string]string{pkg + ".verifySignature": "dispatch after binding and signed-data construction"})
		}
	}
	if rawRSA != nil {
		c.WhoMay("C14-R2", "rsaVerifyPKCS1v15", c.CallSites(rawRSA), map[string]string{pkg + ".verifyRSASignature": "raw modexp only behind parse + key bounds"})
	}
	bigExp := c.fobj("C14-R2", "math/big.(*Int).Exp")
	if bigExp != nil {
		var sites []Site
		for _, s := range c.CallSites(bigExp) {
			if pk := fnPkg(s.Fn); pk != nil && pk.Path() == modPath+"/"+pkg {
				sites = append(sites, s)
			}
		}
		c.WhoMay("C14-R2", "big.Int.Exp in dnssec", sites, map[string]string{pkg + ".rsaVerifyPKCS1v15": "the only modular exponentiation on attacker-supplied operands"})
	}

	// verifySignature
	if fn := c.fn("C14-R2", pkg+".verifySignature"); fn != nil && binding != nil && signedData != nil {
		tgt := isPlainCallTo(vRSA, vECDSA, vEd)
		c.MustCrossAll("C14-R2", fn, "family verifier", tgt,
			OnFalse("signatureBinding err", CallTo(binding)),
			OnFalse("rrsigSignedData err", ResultOf(1, signedData)),
			OnFalse("fromBase64(sig) err", ResultOf(1, fromB64)))
		for _, in := range instrsWhere(fn, tgt) {
			cc := callCommon(in)
			fo, _, _ := calleeObj(cc)
			si := 2 // (k, algorithm, signed, signature)
			if sameFunc(fo, vEd) {
				si = 1 // (k, signed, signature)
			}
			c.OriginCheck("C14-R2", "C14-R2|verifySignature|signed argument of "+fo.Name(), in, "signed data handed to "+fo.Name(), callArg(in, si), nil, ResultOf(0, signedData))
			c.OriginCheck("C14-R2", "C14-R2|verifySignature|signature argument of "+fo.Name(), in, "signature handed to "+fo.Name(), callArg(in, si+1), nil, ResultOf(0, fromB64))
		}
	}

	// signatureBinding: the nil return lies behind every binding atom
	if fn := c.fn("C14-R2", pkg+".signatureBinding"); fn != nil {
		fRR := func(n string) *types.Var { return c.field("C14-R2", lib+".RRSIG."+n) }
		fKey := func(n string) *types.Var { return c.field("C14-R2", lib+".DNSKEY."+n) }
		fHdr := func(n string) *types.Var { return c.field("C14-R2", lib+".RR_Header."+n) }
		sigHdr, keyHdr := fRR("Hdr"), fKey("Hdr")
		hdrField := func(f, base *types.Var) Pat { // <x>.Hdr.f with Hdr = base
			return func(e *Expr) bool {
				e = strip(e)
				return e != nil && e.K == EField && e.Var == f && f != nil && e.X != nil && e.X.K == EField && e.X.Var == base && base != nil
			}
		}
		h0Field := func(f *types.Var) Pat { // rrset[0].Header().f
			return func(e *Expr) bool {
				e = strip(e)
				return e != nil && e.K == EField && e.Var == f && f != nil && e.X != nil && MethodNamed("Header")(e.X)
			}
		}
		// the name-equality atom: a two-argument boolean predicate applied to exactly
		// these two names (either order), each possibly rooted/lower-cased first by the
		// library (CanonicalName / Fqdn).  Which predicate it is — strings.EqualFold
		// before the F-C14-1 repair, an ASCII-only fold after it — is C14-R7's business;
		// this rule only requires that the nil return lies behind it.
		canonName := c.fobj("C14-R2", lib+".CanonicalName")
		fqdnF := c.fobj("C14-R2", lib+".Fqdn")
		rooted := func(p Pat) Pat {
			return func(e *Expr) bool {
				if p(e) {
					return true
				}
				s := strip(e)
				return s != nil && s.K == ECall && CallTo(canonName, fqdnF)(s) && len(s.Args) == 1 && p(s.Args[0])
			}
		}
		foldOf := func(a, b Pat) Pat {
			a, b = rooted(a), rooted(b)
			return func(e *Expr) bool {
				e = strip(e)
				if e == nil || e.K != ECall || len(e.Args) != 2 || e.V == nil {
					return false
				}
				if bt, ok := e.V.Type().Underlying().(*types.Basic); !ok || bt.Kind() != types.Bool {
					return false
				}
				return (a(e.Args[0]) && b(e.Args[1])) || (a(e.Args[1]) && b(e.Args[0]))
			}
		}
		isRRset := c.fobj("C14-R2", lib+".IsRRset")
		keyTag := c.fobj("C14-R2", pkg+".KeyTag")
		countLabel := c.fobj("C14-R2", lib+".CountLabel")
		nameInZone := c.fobj("C14-R2", "internal/dnsutil.NameInZone")
		cls, rrtype, name := fHdr("Class"), fHdr("Rrtype"), fHdr("Name")
		atoms := []Barrier{
			OnTrue("IsRRset(rrset)", CallTo(isRRset)),
			OnCmp("k.Protocol == 3", FieldIs(fKey("Protocol")), token.EQL, IsConstInt(3), true),
			OnCmp("k.Flags&ZONE != 0", func(e *Expr) bool {
				e = strip(e)
				return e != nil && e.K == EBin && e.Op == token.AND && FieldIs(fKey("Flags"))(e.X) && IsConstInt(256)(e.Y)
			}, token.NEQ, IsConstInt(0), true),
			OnCmp("sig.KeyTag == KeyTag(k)", FieldIs(fRR("KeyTag")), token.EQL, CallTo(keyTag), true),
			OnCmp("sig.Algorithm == k.Algorithm", FieldIs(fRR("Algorithm")), token.EQL, FieldIs(fKey("Algorithm")), true),
			OnCmp("sig.Hdr.Class == k.Hdr.Class", hdrField(cls, sigHdr), token.EQL, hdrField(cls, keyHdr), true),
			OnTrue("sameName(sig.SignerName, k.Hdr.Name)", foldOf(FieldIs(fRR("SignerName")), hdrField(name, keyHdr))),
			OnCmp("h0.Class == sig.Hdr.Class", h0Field(cls), token.EQL, hdrField(cls, sigHdr), true),
			OnCmp("h0.Rrtype == sig.TypeCovered", h0Field(rrtype), token.EQL, FieldIs(fRR("TypeCovered")), true),
			OnCmp("CountLabel(h0.Name) >= sig.Labels", CallTo(countLabel), token.GEQ, FieldIs(fRR("Labels")), true),
			OnTrue("sameName(h0.Name, sig.Hdr.Name)", foldOf(h0Field(name), hdrField(name, sigHdr))),
			OnTrue("NameInZone(h0.Name, signer)", CallTo(nameInZone)),
		}
		c.c14MustCrossAcceptAll("C14-R2", fn, "signatureBinding returns nil", 0, IsNilConst, nil, atoms...)

		// E9: every field the library's own refusals read is read here too
		lfd, lpk := c.P.FuncDecl(lib + ".(*RRSIG).Verify")
		ofd, opk := c.P.FuncDecl(pkg + ".signatureBinding")
		if lfd == nil || ofd == nil {
			c.unresolved("C14-R2", "preflight field sets", "declaration not found")
		} else {
			libFields := c14FieldsReadAST(c14GuardConds(lfd, lpk.TypesInfo, map[string]bool{"ErrKey": true, "ErrRRset": true}), lpk.TypesInfo)
			ourFields := c14FieldsReadAST(c14BodiesWithHelpers(c.P, ofd, opk), opk.TypesInfo)
			var missing, all []string
			for v := range libFields {
				all = append(all, v.Name())
				if !ourFields[v] {
					missing = append(missing, v.Name())
				}
			}
			sort.Strings(missing)
			sort.Strings(all)
			key := "C14-R2|signatureBinding|reads the library's preflight fields"
			switch {
			case len(all) < 10:
				c.unresolved("C14-R2", "library preflight fields", fmt.Sprintf("only %d fields found in the library's refusals (expected ≥ 10)", len(all)))
			case len(missing) > 0:
				c.violation("C14-R2", key, ofd.Pos(), "fields the library's preflight reads and signatureBinding does not: "+strings.Join(missing, ", "))
			default:
				c.ok("C14-R2", key, ofd.Pos(), "signatureBinding reads every field of the library's refusals: "+strings.Join(all, ", "))
			}
		}
	}

	// verifyRSASignature
	bitLen := c.fobj("C14-R2", "math/big.(*Int).BitLen")
	if fn := c.fn("C14-R2", pkg+".verifyRSASignature"); fn != nil {
		parse := c.fobj("C14-R2", pkg+".parseRSAPublicKey")
		usable := c.fobj("C14-R2", pkg+".usableRSAKey")
		std := c.fobj("C14-R2", "crypto/rsa.VerifyPKCS1v15")
		if parse != nil && usable != nil && std != nil && rawRSA != nil && bitLen != nil {
			c.MustCrossAll("C14-R2", fn, "RSA verification", isPlainCallTo(std, rawRSA),
				OnTrue("parseRSAPublicKey ok", ResultOf(2, parse)),
				OnTrue("usableRSAKey", CallTo(usable)))
			c.MustCross("C14-R2", fn, "crypto/rsa verification (exponent narrowed to int)", isPlainCallTo(std),
				c14AtMost("e.BitLen() <= 31", func(e *Expr) bool {
					return CallTo(bitLen)(e) && len(strip(e).Args) == 1 && ResultOf(1, parse)(strip(e).Args[0])
				}, 31))
			// both verifications see the parsed key
			for _, in := range instrsWhere(fn, isPlainCallTo(rawRSA)) {
				c.OriginCheck("C14-R2", "C14-R2|verifyRSASignature|raw modulus", in, "modulus handed to rsaVerifyPKCS1v15", callArg(in, 0), nil, ResultOf(0, parse))
				c.OriginCheck("C14-R2", "C14-R2|verifyRSASignature|raw exponent", in, "exponent handed to rsaVerifyPKCS1v15", callArg(in, 1), nil, ResultOf(1, parse))
			}
			for _, in := range instrsWhere(fn, isPlainCallTo(usable)) {
				c.OriginCheck("C14-R2", "C14-R2|verifyRSASignature|usableRSAKey modulus", in, "modulus judged by usableRSAKey", callArg(in, 0), nil, ResultOf(0, parse))
				c.OriginCheck("C14-R2", "C14-R2|verifyRSASignature|usableRSAKey exponent", in, "exponent judged by usableRSAKey", callArg(in, 1), nil, ResultOf(1, parse))
			}
		}
	}

	// rsaVerifyPKCS1v15
	if fn := c.fn("C14-R2", pkg+".rsaVerifyPKCS1v15"); fn != nil && bigExp != nil {
		cmp := c.fobj("C14-R2", "math/big.(*Int).Cmp")
		ctc := c.fobj("C14-R2", "crypto/subtle.ConstantTimeCompare")
		c.MustCrossAll("C14-R2", fn, "modular exponentiation", isPlainCallTo(bigExp),
			OnCmp("len(sig) == size", c14LenOf(c14ParamIdx(4)), token.EQL, func(e *Expr) bool { return Contains(CallTo(bitLen))(e) }, true),
			OnCmp("c < n", func(e *Expr) bool {
				return CallTo(cmp)(e) && len(strip(e).Args) == 2 && c14ParamIdx(0)(strip(e).Args[1])
			}, token.LSS, IsConstInt(0), true))
		c.c14MustCrossAccept("C14-R2", fn, "accept", 0, IsNilConst, nil,
			OnCmp("ConstantTimeCompare == 1", CallTo(ctc), token.EQL, IsConstInt(1), true))
	}

	// ECDSA
	if fn := c.fn("C14-R2", pkg+".verifyECDSASignature"); fn != nil && fromB64 != nil {
		verify := c.fobj("C14-R2", "crypto/ecdsa.Verify")
		params := c.fobj("C14-R2", pkg+".ecdsaParameters")
		parsePoint := c.fobj("C14-R2", "crypto/ecdsa.ParseUncompressedPublicKey")
		bitSize := c.field("C14-R2", "crypto/elliptic.CurveParams.BitSize")
		width := Contains(FieldIs(bitSize))
		c.MustCrossAll("C14-R2", fn, "ecdsa.Verify", isPlainCallTo(verify),
			OnTrue("ecdsaParameters ok", ResultOf(2, params)),
			OnFalse("fromBase64(key) err", ResultOf(1, fromB64)),
			OnCmp("len(public) == 2*size", c14LenOf(ResultOf(0, fromB64)), token.EQL, width, true),
			OnCmp("len(signature) == 2*size", c14LenOf(c14ParamIdx(3)), token.EQL, width, true),
			OnFalse("ParseUncompressedPublicKey err", ResultOf(1, parsePoint)))
	}
	// Ed25519
	if fn := c.fn("C14-R2", pkg+".verifyEd25519Signature"); fn != nil && fromB64 != nil {
		verify := c.fobj("C14-R2", "crypto/ed25519.Verify")
		pkSize := c.P.ConstVal("crypto/ed25519.PublicKeySize")
		sigSize := c.P.ConstVal("crypto/ed25519.SignatureSize")
		if pkSize == nil || sigSize == nil {
			c.unresolved("C14-R2", "crypto/ed25519 sizes", "constants not found")
		} else {
			c.MustCrossAll("C14-R2", fn, "ed25519.Verify", isPlainCallTo(verify),
				OnFalse("fromBase64(key) err", ResultOf(1, fromB64)),
				OnCmp("len(public) == PublicKeySize", c14LenOf(ResultOf(0, fromB64)), token.EQL, c14ConstPat(pkSize), true))
			// (the signature-length refusal is not armed: ed25519.Verify itself answers false for any other length)
			_ = sigSize
		}
	}

	// DS digest
	oversized := c.fobj("C14-R2", pkg+".oversizedKeyMaterial")
	maxDS := c.P.ConstVal(pkg + ".maxDSKeyMaterial")
	if fn := c.fn("C14-R2", pkg+".dsDigestMatches"); fn != nil && oversized != nil {
		dsHashF := c.fobj("C14-R2", pkg+".dsDigestHash")
		decode := c.fobj("C14-R2", "encoding/base64.(*Encoding).DecodeString")
		equal := c.fobj("C14-R2", "bytes.Equal")
		hsize := c.fobj("C14-R2", "crypto.Hash.Size")
		if maxDS == nil {
			c.unresolved("C14-R2", pkg+".maxDSKeyMaterial", "constant not found")
		} else {
			c.MustCrossAll("C14-R2", fn, "digest comparison", isPlainCallTo(equal),
				OnTrue("dsDigestHash ok", ResultOf(1, dsHashF)),
				OnCmp("hash.Size() == len(want)", CallTo(hsize), token.EQL, c14LenOf(c14ParamIdx(2)), true),
				OnFalse("DecodeString err", ResultOf(1, decode)))
			// either refusal bounds the key material (the encoded-length one implies the decoded-length one)
			c.MustCross("C14-R2", fn, "digest comparison", isPlainCallTo(equal),
				OnFalse("oversizedKeyMaterial", CallTo(oversized)),
				OnCmp("len(public) <= maxDSKeyMaterial", c14LenOf(ResultOf(0, decode)), token.LEQ, c14ConstPat(maxDS), true))
			// the digest type compared is the one the hash was chosen for
			for _, in := range instrsWhere(fn, isPlainCallTo(dsHashF)) {
				c.OriginCheck("C14-R2", "C14-R2|dsDigestMatches|digest type", in, "digest type handed to dsDigestHash", callArg(in, 0), nil, c14ParamIdx(1))
			}
		}
	}
	// oversizedKeyMaterial judges against the constant
	if fn := c.fn("C14-R2", pkg+".oversizedKeyMaterial"); fn != nil && maxDS != nil {
		enc := c.fobj("C14-R2", "encoding/base64.(*Encoding).EncodedLen")
		for _, in := range instrsWhere(fn, isPlainCallTo(enc)) {
			c.OriginCheck("C14-R2", "C14-R2|oversizedKeyMaterial|limit", in, "EncodedLen operand", callArg(in, 1), nil, c14ConstPat(maxDS))
		}
	}

	// KeyTag
	if fn := c.fn("C14-R2", pkg+".KeyTag"); fn != nil && oversized != nil {
		dec := c.fobj("C14-R2", "encoding/base64.(*Encoding).Decode")
		libTag := c.fobj("C14-R2", lib+".(*DNSKEY).KeyTag")
		c.MustCross("C14-R2", fn, "chunked decode", isPlainCallTo(dec), OnFalse("oversizedKeyMaterial", CallTo(oversized)))
		c.AfterEdge("C14-R2", fn, "a chunk the decoder rejects is answered by anything but the library's tag",
			OnTrue("Decode err", ResultOf(1, dec)),
			func(in ssa.Instruction) bool {
				if isPlainCallTo(dec)(in) {
					return true // went on decoding
				}
				r, ok := in.(*ssa.Return)
				return ok && len(r.Results) == 1 && !CallTo(libTag)(Desc(r.Results[0]))
			})
		c14KeyTagChunkDiscipline(c, fn, dec, pkg)
	}
	c.Floor("C14-R2", 62)

	// ------------------------------------------------------------------ R3
	c.Doc("C14-R3", "size ceilings are package constants within the documented limits, and usableRSAKey returns true only across comparisons against exactly those constants")
	c.ConstBound("C14-R3", pkg+".minRSAModulusBits", token.GEQ, 1024, "crypto/rsa's weak-key floor: never more permissive than the library")
	c.ConstBound("C14-R3", pkg+".maxRSAModulusBits", token.LEQ, 4096, "documented modulus ceiling")
	c.ConstBound("C14-R3", pkg+".maxRSAExponentBits", token.LEQ, 64, "documented exponent ceiling bounding modexp cost")
	c.ConstBound("C14-R3", pkg+".maxRSAExponentBits", token.GEQ, 33, "the wide-exponent keys this path exists for (2^32+1) must remain verifiable")
	c.ConstBound("C14-R3", pkg+".maxDSKeyMaterial", token.LEQ, 4092, "library packs flags/protocol/algorithm + key into 4096 octets: a larger key yields no DS there")
	c.ConstBound("C14-R3", pkg+".ecdsaMaxCoordinate", token.GEQ, 48, "stack point buffer must hold a P-384 coordinate pair")
	if v := c.P.ConstVal(pkg + ".keyTagChunk"); v == nil {
		c.unresolved("C14-R3", pkg+".keyTagChunk", "constant not found")
	} else if n, ok := constant.Int64Val(constant.ToInt(v)); !ok || n <= 0 || n%8 != 0 {
		c.violation("C14-R3", "C14-R3|const keyTagChunk multiple of 8", c.P.Object(pkg+".keyTagChunk").Pos(), "keyTagChunk = "+v.ExactString()+" is not a positive multiple of eight: a chunk must be whole base64 groups (×4) and decode to an even number of octets (×8), or the octet parity the checksum weights by is lost at the chunk boundary")
	} else {
		c.ok("C14-R3", "C14-R3|const keyTagChunk multiple of 8", c.P.Object(pkg+".keyTagChunk").Pos(), "keyTagChunk = "+v.ExactString()+": whole base64 groups, even number of decoded octets per full chunk")
	}
	if fn := c.fn("C14-R3", pkg+".usableRSAKey"); fn != nil && bitLen != nil {
		cmp := c.fobj("C14-R3", "math/big.(*Int).Cmp")
		bit := c.fobj("C14-R3", "math/big.(*Int).Bit")
		minB, maxB, maxE := c.P.ConstVal(pkg+".minRSAModulusBits"), c.P.ConstVal(pkg+".maxRSAModulusBits"), c.P.ConstVal(pkg+".maxRSAExponentBits")
		bitLenOf := func(i int) Pat {
			return func(e *Expr) bool {
				return CallTo(bitLen)(e) && len(strip(e).Args) == 1 && c14ParamIdx(i)(strip(e).Args[0])
			}
		}
		cmpOf := func(i int, arg Pat) Pat {
			return func(e *Expr) bool {
				if !CallTo(cmp)(e) {
					return false
				}
				e = strip(e)
				return len(e.Args) == 2 && c14ParamIdx(i)(e.Args[0]) && arg(e.Args[1])
			}
		}
		if minB != nil && maxB != nil && maxE != nil {
			c.c14MustCrossAcceptAll("C14-R3", fn, "usableRSAKey returns true", 0, IsConstBool(true), nil,
				OnCmp("n.BitLen() >= minRSAModulusBits", bitLenOf(0), token.GEQ, c14ConstPat(minB), true),
				OnCmp("n.BitLen() <= maxRSAModulusBits", bitLenOf(0), token.LEQ, c14ConstPat(maxB), true),
				OnCmp("e.BitLen() <= maxRSAExponentBits", bitLenOf(1), token.LEQ, c14ConstPat(maxE), true),
				OnCmp("e < n", cmpOf(1, c14ParamIdx(0)), token.LSS, IsConstInt(0), true),
				OnCmp("e >= 3", cmpOf(1, CallTo(c.fobj("C14-R3", "math/big.NewInt"))), token.GEQ, IsConstInt(0), true),
				OnCmp("e odd", func(e *Expr) bool { return CallTo(bit)(e) }, token.NEQ, IsConstInt(0), true))
		}
	}
	c.Floor("C14-R3", 13)
}

// c14KeyTagChunkDiscipline (C14-R2, round 2): KeyTag weights every octet by its
// offset parity *within the chunk*, which equals its parity within the RDATA
// only while every earlier chunk contributed the full, even len(out) octets.
// So after a chunk has been decoded, another chunk may be decoded only across
// the edge "decoded == len(out)"; any other non-final chunk has to leave the
// function (it is handed to the library).  base64 skips CR/LF, so a chunk can
// decode short without error and without ending in padding.
//
// The loop re-tests the remaining text at its head.  The edge "remaining text
// is empty" taken inside the body therefore also ends the iteration: it is
// accepted as a barrier only after checking that the head's test is on a phi
// whose every back-edge value is that same remaining-text value.
func c14KeyTagChunkDiscipline(c *Ctx, fn *ssa.Function, dec *types.Func, pkg string) {
	const rule = "C14-R2"
	key := "C14-R2|" + fnKey(fn) + "|next chunk only after a full chunk"
	decodes := instrsWhere(fn, isPlainCallTo(dec))
	if len(decodes) == 0 || dec == nil {
		c.unresolved(rule, "KeyTag|chunk discipline", "no chunk decode found")
		return
	}
	// the full-chunk length: the destination buffer of the decode
	var full int64 = -1
	for _, in := range decodes {
		if sl, ok := callArg(in, 1).(*ssa.Slice); ok {
			if arr, ok := deref(sl.X.Type()).Underlying().(*types.Array); ok {
				full = arr.Len()
			}
		}
	}
	if v := c.P.ConstVal(pkg + ".keyTagChunk"); v != nil && full >= 0 {
		if n, ok := constant.Int64Val(constant.ToInt(v)); ok && n/4*3 != full {
			c.violation(rule, "C14-R2|"+fnKey(fn)+"|decode buffer = keyTagChunk/4*3", fn.Pos(), fmt.Sprintf("decode buffer holds %d octets, a full chunk of keyTagChunk=%d decodes to %d", full, n, n/4*3))
		}
	}
	if full < 0 {
		c.undecided(rule, key, fn.Pos(), "the chunk decode does not write into a fixed-size array: full-chunk length unknown")
		return
	}
	isFull := func(e *Expr) bool { v, ok := constInt(e); return ok && v == full }
	decoded := ResultOf(0, dec)
	bars := []Barrier{
		OnCmp("decoded == len(out)", decoded, token.EQL, isFull, true),
		OnCmp("decoded >= len(out)", decoded, token.GEQ, isFull, true),
	}
	// the remaining-text value and the loop-head test
	var rest []ssa.Value
	for _, b := range fn.Blocks {
		for _, in := range b.Instrs {
			phi, ok := in.(*ssa.Phi)
			if !ok {
				continue
			}
			if bt, ok := phi.Type().Underlying().(*types.Basic); !ok || bt.Info()&types.IsString == 0 {
				continue
			}
			var back []ssa.Value
			okPhi := true
			nonSelf := 0
			for _, ed := range phi.Edges {
				if sl, ok := ed.(*ssa.Slice); ok && sl.X == ssa.Value(phi) && sl.Low != nil && sl.High == nil {
					back = append(back, ed)
					continue
				}
				nonSelf++
			}
			if len(back) == 0 || nonSelf != 1 {
				okPhi = false
			}
			for _, v := range back {
				if v != back[0] {
					okPhi = false
				}
			}
			if !okPhi {
				continue
			}
			// every decode must lie behind "phi is not empty" (the loop head)
			nonEmpty := []Barrier{
				OnCmp("len(encoded) > 0", c14LenOfValue(phi), token.GTR, IsConstInt(0), true),
				OnCmp("len(encoded) != 0", c14LenOfValue(phi), token.NEQ, IsConstInt(0), true),
			}
			headOK := true
			for _, d := range decodes {
				if ug, _ := c.unguarded(d, nonEmpty, fn); ug {
					headOK = false
				}
			}
			if headOK {
				rest = append(rest, back[0])
			}
		}
	}
	for _, rv := range rest {
		bars = append(bars,
			OnCmp("remaining text empty (len == 0)", c14LenOfValue(rv), token.EQL, IsConstInt(0), true),
			OnCmp("remaining text empty (len <= 0)", c14LenOfValue(rv), token.LEQ, IsConstInt(0), true))
	}
	var bn []string
	for _, b := range bars {
		bn = append(bn, b.Name)
	}
	for _, d := range decodes {
		r := reach([]Point{pointAfter(d)}, bars, nil)
		bad := false
		for _, in := range r.order {
			if isPlainCallTo(dec)(in) {
				bad = true
				c.violation(rule, key, instrPos(in), "after a chunk is decoded, a further chunk is decoded without crossing {"+strings.Join(bn, " | ")+"}: a non-final chunk that decoded short (line breaks inside it) shifts the octet parity of everything after it and the tag differs from the library's; path "+c.trail(r, in))
				break
			}
		}
		if !bad {
			c.ok(rule, key, instrPos(d), "a further chunk is decoded only after a full chunk {"+strings.Join(bn, " | ")+"}")
		}
	}
}
