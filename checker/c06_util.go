package main

// Helpers private to the C06 / C05 / C15 rule files (prefix c06 / wire).

import (
	"fmt"
	"go/constant"
	"go/token"
	"go/types"
	"strings"

	"golang.org/x/tools/go/ssa"
)

const x5DnsPkg = "github.com/miekg/dns"

// isNamedPtr reports whether t is *pkg.name (or pkg.name).
func x5IsNamedType(t types.Type, pkgPath, name string) bool {
	n, ok := deref(t).(*types.Named)
	if !ok {
		if a, ok2 := deref(t).(*types.Alias); ok2 {
			n, ok = types.Unalias(a).(*types.Named)
		}
		if !ok {
			return false
		}
	}
	return n.Obj().Name() == name && n.Obj().Pkg() != nil && n.Obj().Pkg().Path() == pkgPath
}

func x5IsDNSMsgPtr(t types.Type) bool {
	if _, ok := t.Underlying().(*types.Pointer); !ok {
		return false
	}
	return x5IsNamedType(t, x5DnsPkg, "Msg")
}

// x5IsConstString matches the string constant s.
func x5IsConstString(s string) Pat {
	return func(e *Expr) bool {
		e = strip(e)
		return e != nil && e.K == EConst && e.Val != nil && e.Val.Kind() == constant.String && constant.StringVal(e.Val) == s
	}
}

// x5IsBuiltinCall matches a call of the builtin (len, cap, append, …).
func x5IsBuiltinCall(e *Expr, name string) bool {
	e = strip(e)
	return e != nil && e.K == ECall && e.Fn == nil && e.Method == "builtin."+name
}

// x5LenOf matches len(x) where x satisfies p.
func x5LenOf(p Pat) Pat {
	return func(e *Expr) bool {
		e = strip(e)
		return x5IsBuiltinCall(e, "len") && len(e.Args) == 1 && p(e.Args[0])
	}
}

// x5SameDesc matches expressions whose canonical description equals want.
func x5SameDesc(want string) Pat {
	return func(e *Expr) bool { return e != nil && e.String() == want }
}

// x5InPkgTree reports whether fn's package is rel or below it (module-relative).
func x5InPkgTree(fn *ssa.Function, rels ...string) bool {
	pk := fnPkg(fn)
	if pk == nil {
		return false
	}
	p := strings.TrimPrefix(pk.Path(), modPath+"/")
	for _, r := range rels {
		if p == r || strings.HasPrefix(p, r+"/") {
			return true
		}
	}
	return false
}

// x5MsgWriteArg returns the *dns.Msg argument of a WriteMsg-like call
// (any method or function value named WriteMsg taking exactly one *dns.Msg).
func x5MsgWriteArg(in ssa.Instruction) ssa.Value {
	cc := callCommon(in)
	if cc == nil {
		return nil
	}
	name := ""
	if cc.IsInvoke() {
		name = cc.Method.Name()
	} else {
		_, _, name = calleeObj(cc)
	}
	if name != "WriteMsg" {
		return nil
	}
	args := cc.Args
	if !cc.IsInvoke() {
		if len(args) != 2 {
			return nil
		}
		args = args[1:]
	}
	if len(args) != 1 || !x5IsDNSMsgPtr(args[0].Type()) {
		return nil
	}
	return args[0]
}

// allocsOf returns the fresh local allocations (new(T) / &T{…}) among the
// leaf origins of v, and whether every leaf is such an allocation.
func x5LeafKinds(v ssa.Value) (allocs []*ssa.Alloc, others []*Expr) {
	for _, l := range Origins(Desc(v), nil) {
		l = strip(l)
		if l != nil && l.K == EAlloc && len(l.Args) == 0 {
			if a, ok := l.V.(*ssa.Alloc); ok {
				allocs = append(allocs, a)
				continue
			}
		}
		others = append(others, l)
	}
	return
}

// recvIs builds an instruction predicate: a static call to one of fs whose
// receiver (argument 0) has v among its leaf origins.
func x5CallOnValue(v ssa.Value, fs ...*types.Func) func(ssa.Instruction) bool {
	return func(in ssa.Instruction) bool {
		cl, ok := in.(*ssa.Call)
		if !ok || !callIs(&cl.Call, fs...) || len(cl.Call.Args) == 0 {
			return false
		}
		if cl.Call.Args[0] == v {
			return true
		}
		for _, l := range Origins(Desc(cl.Call.Args[0]), nil) {
			if l != nil && l.V == v {
				return true
			}
		}
		return false
	}
}

// x5FieldStoreOn matches a store into field fv of the object v (base == v).
func x5FieldStoreOn(in ssa.Instruction, v ssa.Value, fv *types.Var, val Pat) bool {
	st, ok := in.(*ssa.Store)
	if !ok {
		return false
	}
	fa, ok := st.Addr.(*ssa.FieldAddr)
	if !ok {
		return false
	}
	// allow nested embedded struct: base.MsgHdr.Id
	base := fa.X
	for {
		if inner, ok := base.(*ssa.FieldAddr); ok {
			base = inner.X
			continue
		}
		break
	}
	if base != v {
		return false
	}
	s, ok := deref(fa.X.Type()).Underlying().(*types.Struct)
	if !ok || s.Field(fa.Field).Origin() != fv {
		return false
	}
	return val == nil || val(Desc(st.Val))
}

// constSetOf collects the exact strings of named constants for messages.
func x5ConstInt64(c *Ctx, rule, path string) (int64, bool) {
	v := c.P.ConstVal(path)
	if v == nil {
		c.unresolved(rule, path, "constant not found")
		return 0, false
	}
	i, ok := constant.Int64Val(constant.ToInt(v))
	return i, ok
}

// x5StoresToField lists stores (in fn + closures) to field fv.
func x5StoresToField(fn *ssa.Function, fv *types.Var) []ssa.Instruction {
	return instrsWhere(fn, func(in ssa.Instruction) bool { return isFieldStore(in, fv, nil) })
}

// x5IsEmptySliceOrNil matches []T{} / nil.
func x5IsEmptySliceOrNil(e *Expr) bool {
	e = strip(e)
	if e == nil {
		return false
	}
	if IsNilConst(e) {
		return true
	}
	return e.K == EMake && e.Name == "slicelit" && len(e.Args) == 0
}

// okOrViol records one obligation.
func (c *Ctx) x5Decide(rule, key string, pos token.Pos, good bool, okMsg, badMsg string) bool {
	if good {
		c.ok(rule, key, pos, okMsg)
	} else {
		c.violation(rule, key, pos, badMsg)
	}
	return good
}

func x5FmtExprs(es []*Expr) string {
	var ss []string
	for _, e := range es {
		ss = append(ss, trunc(e.String(), 120))
	}
	return strings.Join(ss, " ; ")
}

var _ = fmt.Sprintf
