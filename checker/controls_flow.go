package main

import (
	"go/types"

	"golang.org/x/tools/go/ssa"
)

func init() {
	registerControl(controlDef{Name: "E2 must-cross (guard edge, error edge, closure, &&/||)", Bad: []string{"bad-guard", "bad-err", "bad-closure", "bad-and"}, Good: []string{"good-guard", "good-err", "good-closure", "good-and"}, Run: func(c *Ctx) {
		sink := c.P.FuncObj("ctl/flow.sink")
		check := c.P.FuncObj("ctl/flow.check")
		verify := c.P.FuncObj("ctl/flow.verify")
		ready := c.P.Field("ctl/flow.T.ready")
		c.MustCross("good-guard", c.P.Func("ctl/flow.GuardGood"), "sink", isPlainCallTo(sink), OnTrue("check", CallTo(check)))
		c.MustCross("bad-guard", c.P.Func("ctl/flow.GuardBad"), "sink", isPlainCallTo(sink), OnTrue("check", CallTo(check)))
		c.MustCross("good-err", c.P.Func("ctl/flow.ErrGood"), "sink", isPlainCallTo(sink), OnFalse("verify err", CallTo(verify)))
		c.MustCross("bad-err", c.P.Func("ctl/flow.ErrBad"), "sink", isPlainCallTo(sink), OnFalse("verify err", CallTo(verify)))
		c.MustCross("good-closure", c.P.Func("ctl/flow.ClosureGood"), "sink", isPlainCallTo(sink), OnTrue("check", CallTo(check)))
		c.MustCross("bad-closure", c.P.Func("ctl/flow.ClosureBad"), "sink", isPlainCallTo(sink), OnTrue("check", CallTo(check)))
		c.MustCross("good-and", c.P.Func("ctl/flow.AndGood"), "sink", isPlainCallTo(sink), OnTrue("ready", FieldIs(ready)))
		c.MustCross("bad-and", c.P.Func("ctl/flow.AndBad"), "sink", isPlainCallTo(sink), OnTrue("ready", FieldIs(ready)))
	}})
	registerControl(controlDef{Name: "E2 on defer-spilled return values", Bad: []string{"bad-deferret"}, Good: []string{"good-deferret"}, Run: func(c *Ctx) {
		check := c.P.FuncObj("ctl/flow.check")
		c.MustCross("good-deferret", c.P.Func("ctl/flow.DeferRetGood"), "return true", isReturnWith(0, IsConstBool(true)), OnTrue("check", CallTo(check)))
		c.MustCross("bad-deferret", c.P.Func("ctl/flow.DeferRetBad"), "return true", isReturnWith(0, IsConstBool(true)), OnTrue("check", CallTo(check)))
	}})
	registerControl(controlDef{Name: "E2 through a boolean phi (x := a || b; if !x)", Bad: []string{"bad-phior"}, Good: []string{"good-phior"}, Run: func(c *Ctx) {
		sink := c.P.FuncObj("ctl/flow.sink")
		ready := c.P.Field("ctl/flow.T.ready")
		c.MustCross("good-phior", c.P.Func("ctl/flow.PhiOrGood"), "sink", isPlainCallTo(sink), OnFalse("ready", FieldIs(ready)))
		c.MustCross("bad-phior", c.P.Func("ctl/flow.PhiOrBad"), "sink", isPlainCallTo(sink), OnFalse("ready", FieldIs(ready)))
	}})
	registerControl(controlDef{Name: "E2/E3 through unexported helpers (result summaries, targets and releases inside helpers)", Bad: []string{"bad-helper-err", "bad-helper-target"}, Good: []string{"good-helper-err", "good-helper-bool", "good-helper-target", "good-helper-pair"}, Run: func(c *Ctx) {
		sink := c.P.FuncObj("ctl/flow.sink")
		check := c.P.FuncObj("ctl/flow.check")
		verify := c.P.FuncObj("ctl/flow.verify")
		acq := c.P.FuncObj("ctl/flow.acquire")
		rel := c.P.FuncObj("ctl/flow.release")
		c.MustCross("good-helper-err", c.P.Func("ctl/flow.HelperErrGood"), "sink", isPlainCallTo(sink), OnFalse("verify err", CallTo(verify)))
		c.MustCross("bad-helper-err", c.P.Func("ctl/flow.HelperErrBad"), "sink", isPlainCallTo(sink), OnFalse("verify err", CallTo(verify)))
		c.MustCross("good-helper-bool", c.P.Func("ctl/flow.HelperBoolGood"), "sink", isPlainCallTo(sink), OnTrue("check", CallTo(check)))
		c.MustCross("good-helper-target", c.P.Func("ctl/flow.HelperTargetGood"), "sink", isPlainCallTo(sink), OnTrue("check", CallTo(check)))
		c.MustCross("bad-helper-target", c.P.Func("ctl/flow.HelperTargetBad"), "sink", isPlainCallTo(sink), OnTrue("check", CallTo(check)))
		c.Paired("good-helper-pair", c.P.Func("ctl/flow.HelperPairGood"), "h", isPlainCallTo(acq), isCallTo(rel))
	}})
	registerControl(controlDef{Name: "E3 pairing (defer, explicit, missing)", Bad: []string{"bad-pair"}, Good: []string{"good-pair", "good-pair2"}, Run: func(c *Ctx) {
		acq := c.P.FuncObj("ctl/flow.acquire")
		rel := c.P.FuncObj("ctl/flow.release")
		c.Paired("good-pair", c.P.Func("ctl/flow.PairGood"), "h", isPlainCallTo(acq), isCallTo(rel))
		c.Paired("good-pair2", c.P.Func("ctl/flow.PairGood2"), "h", isPlainCallTo(acq), isCallTo(rel))
		c.Paired("bad-pair", c.P.Func("ctl/flow.PairBad"), "h", isPlainCallTo(acq), isCallTo(rel))
	}})
	registerControl(controlDef{Name: "E6 lockset (guarded field, read lock for write, caller-holds helper)", Bad: []string{"bad-lock", "bad-helper"}, Good: []string{"good-lock"}, Run: func(c *Ctx) {
		m := c.P.Field("ctl/flow.T.m")
		// good: LockGood, LockGoodHelper+helperLocked ; bad: LockBadWrite, LockBadNone
		cg := NewCtx(c.P, "CTL", "ctl")
		cg.GuardedFields(guardSpec{Rule: "x", Pkg: "ctl/flow", Fields: []*types.Var{m}, Mutex: "mu"})
		for _, r := range cg.Results {
			bad := r.Status != StOK
			fnBad := contains(r.Key, "LockBadWrite") || contains(r.Key, "LockBadNone")
			switch {
			case bad && fnBad:
				c.violation("bad-lock", r.Key, 0, r.Msg)
			case bad && !fnBad:
				c.violation("good-lock", r.Key, 0, "unexpected: "+r.Msg)
			case !bad && fnBad:
				// a bad function may have individually fine accesses; ignore
			default:
				c.ok("good-lock", r.Key, 0, r.Msg)
			}
		}
		m2 := c.P.Field("ctl/lock2.T.m")
		c2 := NewCtx(c.P, "CTL", "ctl")
		c2.GuardedFields(guardSpec{Rule: "y", Pkg: "ctl/lock2", Fields: []*types.Var{m2}, Mutex: "mu"})
		for _, r := range c2.Results {
			if r.Status != StOK {
				c.violation("bad-helper", r.Key, 0, r.Msg)
			}
		}
	}})
	registerControl(controlDef{Name: "E4 origin", Bad: []string{"bad-origin"}, Good: []string{"good-origin"}, Run: func(c *Ctx) {
		sink := c.P.FuncObj("ctl/flow.sink")
		produce := c.P.FuncObj("ctl/flow.produce")
		for _, pr := range [][2]string{{"good-origin", "ctl/flow.OriginGood"}, {"bad-origin", "ctl/flow.OriginBad"}} {
			for _, in := range instrsWhere(c.P.Func(pr[1]), isPlainCallTo(sink)) {
				c.OriginCheck(pr[0], pr[0], in, "sink arg", callArg(in, 0), nil, CallTo(produce))
			}
		}
	}})
	registerControl(controlDef{Name: "E1 who-may (call and function-value reference)", Bad: []string{"bad-who"}, Good: []string{"good-who"}, Run: func(c *Ctx) {
		secret := c.P.FuncObj("ctl/flow.secret")
		sites := c.CallSites(secret)
		var good, bad []Site
		for _, s := range sites {
			if s.Fn.Name() == "AllowedCaller" {
				good = append(good, s)
			} else {
				bad = append(bad, s)
			}
		}
		c.WhoMay("good-who", "secret", good, map[string]string{"ctl/flow.AllowedCaller": "the owner"})
		c.WhoMay("bad-who", "secret", bad, map[string]string{})
	}})
	registerControl(controlDef{Name: "helper summaries 2 (|| chain result, guard on the caller's value inside a helper, origins through a helper, who-may through a helper)",
		Bad:  []string{"bad-orchain", "bad-paramguard", "bad-originhelper", "bad-whohelper"},
		Good: []string{"good-orchain-busy", "good-orchain-broken", "good-paramguard", "good-originhelper", "good-whohelper"}, Run: func(c *Ctx) {
			sink := c.P.FuncObj("ctl/flow.sink")
			busy := c.P.FuncObj("ctl/flow.busy")
			broken := c.P.FuncObj("ctl/flow.broken")
			verify := c.P.FuncObj("ctl/flow.verify")
			produce := c.P.FuncObj("ctl/flow.produce")
			c.MustCross("good-orchain-busy", c.P.Func("ctl/flow.OrChainGood"), "sink", isPlainCallTo(sink), OnFalse("busy", CallTo(busy)))
			c.MustCross("good-orchain-broken", c.P.Func("ctl/flow.OrChainGood"), "sink", isPlainCallTo(sink), OnFalse("broken", CallTo(broken)))
			c.MustCross("bad-orchain", c.P.Func("ctl/flow.OrChainBad"), "sink", isPlainCallTo(sink), OnFalse("broken", CallTo(broken)))
			// verify(<the produced value>) must have succeeded — the helper sees it as its parameter
			onProduced := func(e *Expr) bool {
				e = strip(e)
				return e != nil && e.K == ECall && sameFunc(e.Fn, verify) && len(e.Args) == 1 && CallTo(produce)(e.Args[0])
			}
			c.MustCross("good-paramguard", c.P.Func("ctl/flow.ParamGuardGood"), "sink", isPlainCallTo(sink), OnFalse("verify(produced)", onProduced))
			c.MustCross("bad-paramguard", c.P.Func("ctl/flow.ParamGuardBad"), "sink", isPlainCallTo(sink), OnFalse("verify(produced)", onProduced))
			for _, pr := range [][2]string{{"good-originhelper", "ctl/flow.OriginHelperGood"}, {"bad-originhelper", "ctl/flow.OriginHelperBad"}} {
				for _, in := range instrsWhere(c.P.Func(pr[1]), isPlainCallTo(sink)) {
					c.OriginCheck(pr[0], pr[0], in, "sink arg", callArg(in, 0), nil, CallTo(produce))
				}
			}
			c.WhoMay("good-whohelper", "secret2", c.CallSites(c.P.FuncObj("ctl/flow.secret2")), map[string]string{"ctl/flow.AllowedCaller2": "the owner"})
			c.WhoMay("bad-whohelper", "secret3", c.CallSites(c.P.FuncObj("ctl/flow.secret3")), map[string]string{"ctl/flow.AllowedCaller3": "the owner"})
		}})
	_ = ssa.Instruction(nil)
}

func contains(s, sub string) bool {
	for i := 0; i+len(sub) <= len(s); i++ {
		if s[i:i+len(sub)] == sub {
			return true
		}
	}
	return false
}
