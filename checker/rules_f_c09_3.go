package main

// C09-R13 (finding F-C09-3) — what happens to a tracked trust anchor is decided
// on that anchor's key, never on its 16-bit tag alone.
//
// The RFC 5011 state machine is driven by events about ONE key: "this key is
// (still) in the validated RRset" (KeyPres), "this key is gone" (KeyRem),
// "this key is published revoked" (RevBit).  The state file is indexed by key
// tag, and so is the fetched set; tags are 16-bit checksums an adversary can
// grind.  A transition taken because "some record with this tag is there"
// lets another record stand in for the key: a pending key that appeared in a
// single forged response is kept alive, and promoted to a live anchor, by any
// published record (e.g. the revoked form of a retired key) sharing its tag.
//
// Decided from the SSA alone: for every store to TrustAnchor.State whose base
// is a tracked entry (an element looked up in / ranged out of a map — not a
// record under construction), every path from the function's entry to the
// store passes a branch whose condition depends on that entry's identity: its
// DNSKey (fingerprint lookup, material comparison, predicate helper taking the
// key) or the entry itself handed to a predicate.  Conditions on the entry's
// State, FirstSeen, on its map key (the tag) or a bare nil test do not count.
// For State=StateValid (KeyPres: pending→valid, missing→valid) the path must
// take the edge on which such a membership / match test SUCCEEDED, for
// State=StateMissing (KeyRem) the edge on which it FAILED; a lookup in the
// tombstone store is not a membership test of the fetched set.
// When the store sits in a helper and the entry is the helper's parameter, the
// helper's call sites are examined with the argument as the entry.

import (
	"fmt"
	"go/constant"
	"go/token"
	"go/types"
	"strings"

	"golang.org/x/tools/go/ssa"
)

func init() {
	wrap := func(id string, extra func(c *Ctx), explain string) {
		pd := props[id]
		if pd == nil {
			return
		}
		orig := pd.Run
		pd.Run = func(c *Ctx) { orig(c); extra(c) }
		pd.Explanation += " " + explain
	}
	wrap("C09", c09R13, "R13 (F-C09-3): every state transition of a tracked trust anchor (pending→valid, valid→missing, missing→valid, →revoked) lies behind a test on that anchor's own key — a fingerprint or material comparison — never only on the 16-bit tag it is filed under, so a different record sharing the tag cannot keep a hold-down alive or complete it.")
}

func c09R13(c *Ctx) {
	const R = "C09-R13"
	const pkg = "middleware/resolver"
	c.Doc(R, "KeyPres/KeyRem/RevBit are events about one key: every store to TrustAnchor.State on a tracked entry (looked up in / ranged out of a map, or a helper parameter bound to one) is dominated by a branch whose condition depends on that entry's DNSKey or on the entry itself — not on its State, FirstSeen, map key (tag) or nil-ness alone; a tag-only presence test lets any record with the same 16-bit tag stand in for the key during the 30-day add hold-down")
	stateF := c.field(R, pkg+".TrustAnchor.State")
	firstF := c.field(R, pkg+".TrustAnchor.FirstSeen")
	stT := c.P.TypeName(pkg + ".State")
	if stateF == nil || firstF == nil || stT == nil {
		return
	}
	stateName := func(v ssa.Value) string {
		k, ok := v.(*ssa.Const)
		if !ok || k.Value == nil {
			return "computed"
		}
		if pk := c.P.ByPath[c.P.expand(pkg)]; pk != nil {
			sc := pk.Types.Scope()
			for _, nm := range sc.Names() {
				if kc, ok := sc.Lookup(nm).(*types.Const); ok && types.Identical(kc.Type(), stT.Type()) && constant.Compare(kc.Val(), token.EQL, k.Value) {
					return nm
				}
			}
		}
		return k.Value.String()
	}

	hasRange := func(e *Expr) bool {
		return Contains(func(x *Expr) bool { return x.K == ERange })(e)
	}
	leafVals := func(e *Expr) map[ssa.Value]bool {
		m := map[ssa.Value]bool{}
		for _, l := range Origins(e, nil) {
			if l.V != nil {
				m[l.V] = true
			}
		}
		return m
	}
	// sameEntry: x denotes the entry `base` (same SSA value, a load of the same
	// cell, or — outside loops — the same description)
	sameEntry := func(x, base *Expr, baseLeaves map[ssa.Value]bool) bool {
		if x == nil || base == nil {
			return false
		}
		if x.V != nil && (x.V == base.V || baseLeaves[x.V]) {
			return true
		}
		switch x.K {
		case EPhi, EAlloc, EConvert, ETypeAssert, EFree:
			for _, l := range Origins(x, nil) {
				if l.V != nil && l != x && baseLeaves[l.V] {
					return true
				}
			}
		case ELookup, EIndex, EField, ECall, EExtract:
			if !hasRange(x) && !hasRange(base) && x.String() == base.String() {
				return true
			}
		}
		return false
	}
	// dependsOnKey: the condition reads the entry's identity
	dependsOnKey := func(cond, base *Expr, baseLeaves map[ssa.Value]bool) bool {
		seen := map[*Expr]bool{}
		var walk func(e *Expr, d int) bool
		walk = func(e *Expr, d int) bool {
			if e == nil || seen[e] || d > 40 {
				return false
			}
			seen[e] = true
			if e.K == EField && (e.Var == stateF || e.Var == firstF) && sameEntry(e.X, base, baseLeaves) {
				return false
			}
			if e.K == EBin && (e.Op == token.EQL || e.Op == token.NEQ) {
				if (IsNilConst(e.X) && sameEntry(e.Y, base, baseLeaves)) || (IsNilConst(e.Y) && sameEntry(e.X, base, baseLeaves)) {
					return false
				}
			}
			if sameEntry(e, base, baseLeaves) {
				return true
			}
			if walk(e.X, d+1) || walk(e.Y, d+1) {
				return true
			}
			for _, a := range e.Args {
				if walk(a, d+1) {
					return true
				}
			}
			return false
		}
		return walk(cond, 0)
	}
	tombT := c.P.TypeName(pkg + ".Tombstones")
	// identification atom: a membership test / predicate that relates the entry's
	// key to something else (`set[fp(ta.DNSKey)]`, `_, ok := set[…]`,
	// `stillPublished(set, ta)`, `sameKeyExceptRevoke(ta.DNSKey, k)`); its truthy
	// edge is "this very key was found".  The tombstone store is not such a set:
	// a hit there means the opposite.
	identAtom := func(base *Expr, leaves map[ssa.Value]bool) Pat {
		return func(e *Expr) bool {
			e = strip(e)
			if e == nil {
				return false
			}
			l := e
			if e.K == EExtract && e.X != nil && (e.X.K == ELookup || e.X.K == ECall) {
				l = e.X
			}
			switch l.K {
			case ELookup:
				if l.X != nil && l.X.V != nil && c09NamedIs(l.X.V.Type(), tombT) {
					return false
				}
			case ECall:
			default:
				return false
			}
			return dependsOnKey(l, base, leaves)
		}
	}
	// guarded: every entry→at path in at's function passes a branch on base's key
	// (mode 0: either edge; +1: the edge on which the key was found; -1: the
	// edge on which it was not)
	guarded := func(at ssa.Instruction, baseV ssa.Value, mode int) (bool, string) {
		base := Desc(baseV)
		leaves := leafVals(base)
		var bars []Barrier
		switch mode {
		case 1:
			bars = []Barrier{OnTrue("this key found", identAtom(base, leaves))}
		case -1:
			bars = []Barrier{OnFalse("this key found", identAtom(base, leaves))}
		default:
			bars = []Barrier{{Name: "branch on the entry's own key", Instr: func(in ssa.Instruction) bool {
				t, ok := in.(*ssa.If)
				return ok && dependsOnKey(condOf(t), base, leaves)
			}}}
		}
		r := reach(entryPoint(at.Parent()), bars, nil)
		if !r.visited[at] {
			return true, ""
		}
		return false, c.trail(r, at)
	}

	type classT int
	const (
		fresh classT = iota
		tracked
		param
	)
	classify := func(v ssa.Value) (classT, *Expr) {
		cl := fresh
		var pe *Expr
		for _, l := range Origins(Desc(v), nil) {
			switch l.K {
			case EAlloc, EMake:
				// record under construction
			case EParam:
				if cl != tracked {
					cl = param
					pe = l
				}
			case EConst:
			default:
				cl = tracked
			}
		}
		return cl, pe
	}

	n := 0
	var check func(at ssa.Instruction, baseV ssa.Value, what string, mode, depth int, via string)
	check = func(at ssa.Instruction, baseV ssa.Value, what string, mode, depth int, via string) {
		fn := at.Parent()
		key := fmt.Sprintf("%s|%s|%s decided on the entry's key", R, fnKey(TopLevel(fn)), what)
		cl, pe := classify(baseV)
		if cl == fresh {
			return
		}
		need := map[int]string{0: "a branch on the entry's DNSKey / identity", 1: "the edge on which a test of the entry's own key (membership / match) succeeded", -1: "the edge on which the membership test of the entry's own key failed"}[mode]
		ok, tr := guarded(at, baseV, mode)
		if ok {
			n++
			c.ok(R, key, instrPos(at), fmt.Sprintf("%s%s: every path to it crosses %s", what, via, need))
			return
		}
		if cl == param && depth < 3 && fn.Parent() == nil {
			fo := funcObjOf(fn)
			var sites []Site
			if fo != nil {
				for _, s := range c.CallSites(fo) {
					if s.Kind == "call" || s.Kind == "defer" || s.Kind == "go" {
						sites = append(sites, s)
					} else {
						sites = nil
						break
					}
				}
			}
			if len(sites) > 0 {
				for _, s := range sites {
					if a := callArg(s.Instr, pe.Idx); a != nil {
						check(s.Instr, a, what, mode, depth+1, via+" (in "+fnKey(fn)+", entry = its parameter "+pe.Name+")")
					}
				}
				return
			}
		}
		n++
		c.violation(R, key, instrPos(at), fmt.Sprintf("%s%s is reachable without crossing %s (only its tag / State / age decide): path %s — a different record sharing the 16-bit tag stands in for the key", what, via, need, trunc(tr, 400)))
	}

	for _, s := range c.StoreSites(stateF) {
		if pk := fnPkg(s.Fn); pk == nil || pk.Path() != c.P.expand(pkg) {
			continue
		}
		st, ok := s.Instr.(*ssa.Store)
		if !ok {
			continue
		}
		fa, ok := st.Addr.(*ssa.FieldAddr)
		if !ok {
			continue
		}
		nm := stateName(st.Val)
		what := "State=" + strings.TrimPrefix(nm, "State") + " on a tracked anchor"
		mode := 0
		switch nm {
		case "StateValid":
			mode = 1 // KeyPres: this key is in the validated RRset
		case "StateMissing":
			mode = -1 // KeyRem: this key is not
		}
		check(s.Instr, fa.X, what, mode, 0, "")
	}
	c.Floor(R, 5)
}
