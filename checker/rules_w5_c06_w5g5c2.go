package main

// W5 C06-w5g5c2 / C06-R11 = C19-R15 — the filter that rebuilds an additional
// section around "the" OPT record tests EVERY record of the section.
//
// C19-R14 decides that a sanitising writer hands the reply on only after
// m.Extra was re-stored through an OPT-discriminating filter; it does not decide
// that the filter looks at every record.  A filter that finds the first foreign
// OPT, cuts it out and copies the remainder wholesale
// (append(kept, extra[i+1:]...), copy(dst, extra[i+1:]), slices.Delete(s, i, i+1))
// is right for one and two OPT records and leaves the third, fourth, ... in the
// section that goes to the client - ECS option, upstream cookie and all.
//
// Necessary condition, local to the filter (discovered, not named: every
// in-module function through which some M.Extra is re-stored from the old
// M.Extra and which - itself, in a helper or in a predicate handed to it -
// tells OPT records from the others; dropOtherOPTs, keepOPTOnly and
// dnsutil.filterOut today; the storing function itself when the loop is inline):
//
//   in the filter, its closures and its unexported helpers no record reaches the
//   output untested, i.e. there is no BULK transfer of a TAIL of a []dns.RR
//     - append(x, s[lo:]...) with a low bound other than 0,
//     - copy(dst, s[lo:]),
//     - slices.Delete / slices.Replace (a positional cut = the tail moved as one),
//   unless the transfer lies on a CFG cycle that contains an element test (an OPT
//   type test / Rrtype comparison, a call to a function that makes one, or the
//   application of a func(dns.RR) bool predicate the filter was handed): the
//   scan goes on after the cut.  When the transfer sits in a helper the call of
//   the helper must lie on such a cycle.
//
// Accepted on purpose: the bulk copy of a PREFIX (s[:i], everything before the
// first hit was tested one by one - dnsutil.filterOut does that), ranging over a
// tail (for _, rr := range s[i+1:] {test}), a scan loop that leaves with break
// once it knows a rebuild is needed, slices.DeleteFunc with a discriminating
// predicate, delete-in-a-loop (cut, then keep scanning).
//
// Not decided (value-level): that a cut which lies on a scanning cycle restarts at
// the right index; that the identity return (`return extra`) is taken only when
// nothing foreign was seen.
//
// Decided on SSA; nothing is executed.

import (
	"go/constant"
	"go/token"
	"go/types"
	"sort"

	"golang.org/x/tools/go/ssa"
)

func init() {
	wrap := func(id string, extra func(c *Ctx), explain string) {
		pd := props[id]
		if pd == nil {
			return
		}
		orig := pd.Run
		pd.Run = func(c *Ctx) { orig(c); extra(c) }
		pd.Explanation += " " + explain
	}
	const why = "the filter through which a message's additional section is rebuilt around one OPT record tests every record: no tail of the section is moved wholesale (append(.., s[i+1:]...), copy(.., s[i+1:]), slices.Delete) outside a scan that goes on after the cut - cutting out the first foreign OPT and copying the rest leaves the 2nd..nth foreign OPT (ECS option, upstream cookie) in the client's reply."
	wrap("C06", func(c *Ctx) { w5OptFilterExhaustive(c, "C06-R11") }, "R11 (added, w5g5c2): "+why)
	wrap("C19", func(c *Ctx) { w5OptFilterExhaustive(c, "C19-R15") }, "R15 (added, w5g5c2 = C06-R11): "+why)
}

func w5OptFilterExhaustive(c *Ctx, R string) {
	c.Doc(R, "every function through which some M.Extra is re-stored from the old M.Extra and that tells OPT records from the others (itself, in a helper, or by a predicate it is handed) moves no tail of a []dns.RR wholesale - append(x, s[lo:]...), copy(d, s[lo:]), slices.Delete/Replace - except on a CFG cycle that contains an element test: every record is tested before it reaches the output (one cut + rest copied leaves the 3rd OPT of a relayed reply in place)")
	extraF := c.field(R, "github.com/miekg/dns.Msg.Extra")
	rrtypeF := c.field(R, "github.com/miekg/dns.RR_Header.Rrtype")
	optTN := c.P.TypeName("github.com/miekg/dns.OPT")
	rrTN := c.P.TypeName("github.com/miekg/dns.RR")
	if optTN == nil || rrTN == nil {
		c.unresolved(R, "dns.OPT / dns.RR", "type not found")
	}
	if extraF == nil || rrtypeF == nil || optTN == nil || rrTN == nil {
		return
	}
	var typeOPT int64 = 41
	if v := c.P.ConstVal("github.com/miekg/dns.TypeOPT"); v != nil {
		if n, ok := constant.Int64Val(constant.ToInt(v)); ok {
			typeOPT = n
		}
	}
	isNamed := func(t types.Type, tn *types.TypeName) bool {
		nt, ok := deref(t).(*types.Named)
		return ok && nt.Obj() == tn
	}
	isRRSlice := func(t types.Type) bool {
		s, ok := t.Underlying().(*types.Slice)
		if !ok {
			return false
		}
		nt, ok := s.Elem().(*types.Named)
		return ok && nt.Obj() == rrTN
	}
	inMod := func(f *ssa.Function) bool {
		p := fnPkg(f)
		return p != nil && c.P.inModule(p.Path())
	}

	// ---- what counts as telling an OPT record from the others (as in C19-R14)
	optTest := func(in ssa.Instruction) bool {
		switch x := in.(type) {
		case *ssa.TypeAssert:
			return isNamed(x.AssertedType, optTN)
		case *ssa.BinOp:
			if x.Op != token.EQL && x.Op != token.NEQ {
				return false
			}
			l, r := Desc(x.X), Desc(x.Y)
			return (IsConstInt(typeOPT)(l) && Contains(FieldIs(rrtypeF))(r)) || (IsConstInt(typeOPT)(r) && Contains(FieldIs(rrtypeF))(l))
		}
		return false
	}
	memo := map[*ssa.Function]int{} // 1 yes, 2 no, 3 in progress
	var discriminates func(f *ssa.Function, depth int) bool
	exprDiscriminates := func(e *Expr, depth int) bool {
		return Contains(func(x *Expr) bool {
			if x == nil || x.SFn == nil {
				return false
			}
			switch x.K {
			case ECall, EFunc, EClosure:
				return discriminates(x.SFn, depth)
			}
			return false
		})(e)
	}
	discriminates = func(f *ssa.Function, depth int) bool {
		if f == nil || depth > 3 || len(f.Blocks) == 0 || !inMod(f) {
			return false
		}
		switch memo[f] {
		case 1:
			return true
		case 2, 3:
			return false
		}
		memo[f] = 3
		found := false
	scan:
		for _, g := range WithAnons(f) {
			for _, b := range g.Blocks {
				for _, in := range b.Instrs {
					if optTest(in) {
						found = true
						break scan
					}
					cc := callCommon(in)
					if cc == nil {
						continue
					}
					if sf := cc.StaticCallee(); sf != nil && discriminates(sf, depth+1) {
						found = true
						break scan
					}
					for _, a := range cc.Args {
						if _, isFn := a.Type().Underlying().(*types.Signature); isFn && exprDiscriminates(Desc(a), depth+1) {
							found = true
							break scan
						}
					}
				}
			}
		}
		memo[f] = 2
		if found {
			memo[f] = 1
		}
		return found
	}
	// func(dns.RR) bool
	isRRPredicate := func(t types.Type) bool {
		sig, ok := t.Underlying().(*types.Signature)
		if !ok || sig.Params().Len() != 1 || sig.Results().Len() != 1 {
			return false
		}
		b, ok := sig.Results().At(0).Type().Underlying().(*types.Basic)
		return ok && b.Kind() == types.Bool && isNamed(sig.Params().At(0).Type(), rrTN)
	}
	// an instruction that tests ONE record
	elemTest := func(in ssa.Instruction) bool {
		if optTest(in) {
			return true
		}
		cc := callCommon(in)
		if cc == nil || cc.IsInvoke() {
			return false
		}
		if sf := cc.StaticCallee(); sf != nil {
			return discriminates(sf, 1)
		}
		if _, isB := cc.Value.(*ssa.Builtin); isB {
			return false
		}
		// the predicate the filter was handed (parameter, captured variable, local cell)
		return isRRPredicate(cc.Value.Type())
	}

	// ---- discovery of the filters
	type root struct {
		fn     *ssa.Function
		inline bool
	}
	var roots []root
	seenRoot := map[*ssa.Function]bool{}
	addRoot := func(f *ssa.Function, inline bool) {
		if o := f.Origin(); o != nil {
			f = o
		}
		if f == nil || seenRoot[f] || len(f.Blocks) == 0 {
			return
		}
		seenRoot[f] = true
		roots = append(roots, root{f, inline})
	}
	for _, site := range c.StoreSites(extraF) {
		st, ok := site.Instr.(*ssa.Store)
		if !ok {
			continue
		}
		fa, ok := st.Addr.(*ssa.FieldAddr)
		if !ok {
			continue
		}
		base := Desc(fa.X).String()
		val := Desc(st.Val)
		oldExtra := func(x *Expr) bool {
			return x != nil && x.K == EField && x.Var == extraF && x.X != nil && x.X.String() == base
		}
		if !Contains(oldExtra)(val) {
			continue
		}
		found := false
		Contains(func(x *Expr) bool {
			if x == nil || x.K != ECall || x.SFn == nil || !inMod(x.SFn) {
				return false
			}
			takesOld := false
			for _, a := range x.Args {
				if a != nil && Contains(oldExtra)(a) {
					takesOld = true
				}
			}
			if !takesOld {
				return false
			}
			tells := discriminates(x.SFn, 0)
			for _, a := range x.Args {
				if a == nil || tells {
					break
				}
				if a.V != nil {
					if _, isFn := a.V.Type().Underlying().(*types.Signature); isFn && exprDiscriminates(a, 1) {
						tells = true
					}
				}
			}
			if tells {
				addRoot(x.SFn, false)
				found = true
			}
			return false // keep walking: nested filters are roots too
		})(val)
		if found {
			continue
		}
		// inline loop: rebuilt by append in a function that tests the records of an Extra section
		if !Contains(func(x *Expr) bool { return x != nil && x.K == ECall && x.Method == "builtin.append" })(val) {
			continue
		}
		top := TopLevel(site.Fn)
		inlineTest := false
		for _, g := range WithAnons(top) {
			for _, t := range instrsWhere(g, optTest) {
				switch x := t.(type) {
				case *ssa.TypeAssert:
					inlineTest = inlineTest || Contains(FieldIs(extraF))(Desc(x.X))
				case *ssa.BinOp:
					inlineTest = inlineTest || Contains(FieldIs(extraF))(Desc(x.X)) || Contains(FieldIs(extraF))(Desc(x.Y))
				}
			}
		}
		if inlineTest {
			addRoot(top, true)
		}
	}
	if len(roots) == 0 {
		c.unresolved(R, "OPT filter of an additional section", "no function through which M.Extra is re-stored from the old M.Extra and that tells OPT records from the others was found")
		return
	}
	sort.SliceStable(roots, func(i, j int) bool { return fnKey(roots[i].fn) < fnKey(roots[j].fn) })

	// ---- bulk transfers of a tail
	constZero := func(v ssa.Value) bool {
		k, ok := v.(*ssa.Const)
		if !ok || k.Value == nil {
			return false
		}
		n, exact := constant.Int64Val(constant.ToInt(k.Value))
		return exact && n == 0
	}
	// the value (seen through phis, cells, conversions) can be s[lo:...] with lo != 0
	isTail := func(v ssa.Value) bool {
		if v == nil || !isRRSlice(v.Type()) {
			return false
		}
		for _, l := range Origins(Desc(v), nil) {
			if l == nil || l.K != ESlice {
				continue
			}
			sl, ok := l.V.(*ssa.Slice)
			if !ok || sl.Low == nil || constZero(sl.Low) {
				continue
			}
			return true
		}
		return false
	}
	// a variadic pack built for this very call (append(x, rr) / append(x, a, b)), not a slice the program holds
	isPack := func(v ssa.Value) bool {
		sl, ok := v.(*ssa.Slice)
		if !ok {
			return false
		}
		al, ok := sl.X.(*ssa.Alloc)
		return ok && al.Comment == "varargs"
	}
	bulkTail := func(in ssa.Instruction) string {
		cc := callCommon(in)
		if cc == nil || cc.IsInvoke() {
			return ""
		}
		if b, ok := cc.Value.(*ssa.Builtin); ok {
			switch b.Name() {
			case "append":
				if len(cc.Args) == 2 && !isPack(cc.Args[1]) && isTail(cc.Args[1]) {
					return "append(.., tail...) moves the rest of the section wholesale"
				}
			case "copy":
				if len(cc.Args) == 2 && isTail(cc.Args[1]) {
					return "copy(.., tail) moves the rest of the section wholesale"
				}
			}
			return ""
		}
		fo, _, _ := calleeObj(cc)
		if fo == nil || fo.Pkg() == nil || fo.Pkg().Path() != "slices" {
			return ""
		}
		switch fo.Name() {
		case "Delete", "Replace":
			if len(cc.Args) > 0 && isRRSlice(cc.Args[0].Type()) {
				return "slices." + fo.Name() + " cuts by position and moves the rest of the section wholesale"
			}
		}
		return ""
	}

	// block b lies on a CFG cycle that contains an element test
	onScanCycle := func(b *ssa.BasicBlock) bool {
		fwd := map[*ssa.BasicBlock]bool{}
		var stack []*ssa.BasicBlock
		stack = append(stack, b.Succs...)
		for len(stack) > 0 {
			x := stack[len(stack)-1]
			stack = stack[:len(stack)-1]
			if fwd[x] {
				continue
			}
			fwd[x] = true
			stack = append(stack, x.Succs...)
		}
		if !fwd[b] {
			return false // not on any cycle
		}
		bwd := map[*ssa.BasicBlock]bool{}
		stack = append(stack[:0], b.Preds...)
		for len(stack) > 0 {
			x := stack[len(stack)-1]
			stack = stack[:len(stack)-1]
			if bwd[x] {
				continue
			}
			bwd[x] = true
			stack = append(stack, x.Preds...)
		}
		for x := range fwd {
			if !bwd[x] {
				continue
			}
			for _, in := range x.Instrs {
				if elemTest(in) {
					return true
				}
			}
		}
		return false
	}

	for _, rt := range roots {
		scope := scopeFuncs(rt.fn)
		inScope := map[*ssa.Function]bool{}
		for _, g := range scope {
			inScope[g] = true
		}
		// the transfer (or, for one inside a helper, every call of the helper in scope) is on a scanning cycle
		var scanned func(in ssa.Instruction, depth int) bool
		scanned = func(in ssa.Instruction, depth int) bool {
			if in.Block() != nil && onScanCycle(in.Block()) {
				return true
			}
			g := in.Parent()
			if g == nil || g == rt.fn || g.Parent() != nil || depth >= 2 {
				return false
			}
			n := 0
			for _, h := range scope {
				for _, call := range instrsWhere(h, func(x ssa.Instruction) bool {
					cc := callCommon(x)
					if cc == nil {
						return false
					}
					sf := cc.StaticCallee()
					if sf != nil && sf.Origin() != nil {
						sf = sf.Origin()
					}
					return sf == g
				}) {
					n++
					if !scanned(call, depth+1) {
						return false
					}
				}
			}
			return n > 0
		}
		bad := map[string]token.Pos{}
		nOK := 0
		for _, g := range scope {
			for _, in := range instrsWhere(g, func(x ssa.Instruction) bool { return bulkTail(x) != "" }) {
				what := bulkTail(in)
				if scanned(in, 0) {
					nOK++
					continue
				}
				if _, dup := bad[what]; !dup {
					bad[what] = in.Pos()
				}
			}
		}
		name := fnKey(rt.fn)
		if len(bad) == 0 {
			msg := "no tail of the section is moved wholesale: every record is tested before it reaches the output"
			if nOK > 0 {
				msg = "every wholesale move of a tail lies on a scanning cycle: the scan goes on after the cut"
			}
			if rt.inline {
				msg += " (inline filter)"
			}
			c.ok(R, R+"|"+name+"|every record of the section is tested before it reaches the output", rt.fn.Pos(), msg)
			continue
		}
		var whats []string
		for w := range bad {
			whats = append(whats, w)
		}
		sort.Strings(whats)
		for _, w := range whats {
			c.violation(R, R+"|"+name+"|"+w, bad[w], "this function is the OPT filter an additional section is rebuilt through (M.Extra = f(M.Extra)); here the records after a cut reach the output without being tested and no scan goes on afterwards - with three or more OPT records only the first foreign one is dropped, the others (their ECS option, the other hop's cookie) go to the client")
		}
	}
}
