package main

// C09-R12 (finding F-C09-2) — a key tag is never adjusted, it is computed.
//
// The key tag of RFC 4034 Appendix B is a checksum over the whole DNSKEY
// RDATA with an end-around carry: flipping a flag bit moves the tag by an
// amount that depends on the rest of the key (REVOKE: 128 for most keys, 129
// when the addition carries out of the low sixteen bits).  "The tag this key
// had before it was revoked" therefore cannot be derived from the tag of the
// revoked record; it has to be computed over the un-revoked record.  A lookup
// that derives it arithmetically misses the anchor for one key in 512 and the
// revocation is silently ignored.
//
// Decided from the SSA alone, for every function of the module:
//
//   (a) no uint16 value produced by + - | ^ &^ has a key tag among its
//       operands (a key tag = a result of dnssec.KeyTag / (*dns.DNSKEY).KeyTag,
//       the KeyTag field of an RRSIG or DS, or the key ranged out of a
//       tag-keyed map);
//   (b) no tag-keyed map (a map type into which some function of the module
//       stores under a key tag) is indexed — read, written or deleted — with
//       a value produced by + - | ^ &^.
//
// Widening a tag into a composite key (uint32(alg)<<16 | uint32(tag)) is not a
// uint16 operation and is left alone; so are % / * >> & (bucketing, masking).

import (
	"fmt"
	"go/token"
	"go/types"
	"sort"
	"strings"

	"golang.org/x/tools/go/ssa"
)

func init() {
	wrap := func(id string, extra func(c *Ctx), explain string) {
		pd := props[id]
		if pd == nil {
			return
		}
		orig := pd.Run
		pd.Run = func(c *Ctx) { orig(c); extra(c) }
		pd.Explanation += " " + explain
	}
	wrap("C09", c09R12, "R12 (F-C09-2): a key tag is a checksum with end-around carry — no key tag (and no index of a tag-keyed map) is produced by adding, subtracting or toggling bits of another tag; the tag of the un-revoked form of a revoked key is computed over that record, so a revocation is honoured whatever the key's tag.")
}

func c09R12(c *Ctx) {
	const R = "C09-R12"
	c.Doc(R, "a key tag is computed, never adjusted: no uint16 value produced by + - | ^ &^ has a key tag (result of dnssec.KeyTag / dns.DNSKEY.KeyTag, RRSIG.KeyTag, DS.KeyTag, key ranged out of a tag-keyed map) among its operands, and no tag-keyed map is indexed with a value so produced — the RFC 4034 App. B checksum folds its carry, so REVOKE moves the tag by 128 or 129 and `tag-128` misses the anchor being revoked")
	tagFns := c.fobjs(R, "middleware/resolver/dnssec.KeyTag", "github.com/miekg/dns.(*DNSKEY).KeyTag")
	sigTag := c.field(R, "github.com/miekg/dns.RRSIG.KeyTag")
	dsTag := c.field(R, "github.com/miekg/dns.DS.KeyTag")
	if len(tagFns) < 2 || sigTag == nil || dsTag == nil {
		return
	}
	isU16 := func(t types.Type) bool {
		b, ok := t.Underlying().(*types.Basic)
		return ok && b.Kind() == types.Uint16
	}
	adjusting := func(op token.Token) bool {
		switch op {
		case token.ADD, token.SUB, token.OR, token.XOR, token.AND_NOT:
			return true
		}
		return false
	}
	directTag := AnyOf(CallTo(tagFns...), FieldIs(sigTag, dsTag))

	funcs := c.P.RepoFuncs()

	// tag-keyed map types: discovered from the stores
	var tagMaps []types.Type
	isTagMap := func(t types.Type) bool {
		for _, m := range tagMaps {
			if types.Identical(m, t) || types.Identical(m.Underlying(), t.Underlying()) {
				return true
			}
		}
		return false
	}
	for _, fn := range funcs {
		for _, b := range fn.Blocks {
			for _, in := range b.Instrs {
				mu, ok := in.(*ssa.MapUpdate)
				if !ok {
					continue
				}
				mt, ok := mu.Map.Type().Underlying().(*types.Map)
				if !ok || !isU16(mt.Key()) || isTagMap(mu.Map.Type()) {
					continue
				}
				for _, l := range Origins(Desc(mu.Key), nil) {
					if directTag(l) {
						tagMaps = append(tagMaps, mu.Map.Type())
						break
					}
				}
			}
		}
	}
	if len(tagMaps) == 0 {
		c.unresolved(R, "tag-keyed maps", "no map is stored into under a KeyTag result — the rule has lost its anchors")
		return
	}

	// is v a key tag?  (direct producer, or the key ranged out of a tag-keyed map)
	isTag := func(e *Expr) bool {
		for _, l := range Origins(e, nil) {
			if directTag(l) {
				return true
			}
			if l.K == EExtract && l.Idx == 1 && l.V != nil {
				if ex, ok := l.V.(*ssa.Extract); ok {
					if nx, ok := ex.Tuple.(*ssa.Next); ok {
						if rg, ok := nx.Iter.(*ssa.Range); ok && isTagMap(rg.X.Type()) {
							return true
						}
					}
				}
			}
		}
		return false
	}
	// the adjusting operation v is produced by, if any
	inModule := map[*ssa.Function]bool{}
	for _, fn := range funcs {
		inModule[fn] = true
	}
	var adjustedE func(e *Expr, depth int) (*Expr, bool)
	adjustedE = func(e *Expr, depth int) (*Expr, bool) {
		for _, l := range Origins(e, nil) {
			if l.K == EBin && adjusting(l.Op) {
				return l, true
			}
			// `prev(tag)` with func prev(t uint16) uint16 { return t - 128 }: the
			// adjustment sits in a helper of the module (the tag functions
			// themselves are the definition of a tag, not an adjustment)
			if l.K == ECall && l.SFn != nil && inModule[l.SFn] && !directTag(l) && depth < 2 {
				for _, b := range l.SFn.Blocks {
					for _, in := range b.Instrs {
						if rt, ok := in.(*ssa.Return); ok && len(rt.Results) == 1 && isU16(rt.Results[0].Type()) {
							if a, ok := adjustedE(Desc(rt.Results[0]), depth+1); ok {
								return a, true
							}
						}
					}
				}
			}
		}
		return nil, false
	}
	adjusted := func(v ssa.Value) (*Expr, bool) { return adjustedE(Desc(v), 0) }

	type tally struct{ uses, maps int }
	perFn := map[string]*tally{}
	pos := map[string]token.Pos{}
	bad := map[string]bool{}
	note := func(fn *ssa.Function, in ssa.Instruction) *tally {
		k := fnKey(TopLevel(fn))
		t := perFn[k]
		if t == nil {
			t = &tally{}
			perFn[k] = t
			pos[k] = instrPos(in)
		}
		return t
	}
	report := func(fn *ssa.Function, in ssa.Instruction, what, msg string) {
		k := fnKey(TopLevel(fn))
		bad[k] = true
		c.violation(R, R+"|"+k+"|"+what, instrPos(in), msg)
	}
	mapName := func(t types.Type) string {
		s := types.TypeString(t, func(p *types.Package) string { return p.Name() })
		return s
	}

	for _, fn := range funcs {
		for _, b := range fn.Blocks {
			for _, in := range b.Instrs {
				// (a) arithmetic on a key tag
				if bo, ok := in.(*ssa.BinOp); ok {
					if !isU16(bo.X.Type()) && !isU16(bo.Y.Type()) {
						continue
					}
					xt, yt := isTag(Desc(bo.X)), isTag(Desc(bo.Y))
					if xt || yt {
						note(fn, in).uses++
						if adjusting(bo.Op) && isU16(bo.Type()) {
							report(fn, in, "key tag adjusted by "+bo.Op.String(),
								fmt.Sprintf("a key tag is an operand of %s and the result is again a 16-bit tag: %s — the tag of a related record must be computed over that record (RFC 4034 App. B folds the carry: REVOKE moves a tag by 128 or 129)", bo.Op, trunc(Desc(bo).String(), 160)))
						}
					}
					continue
				}
				// (b) index of a tag-keyed map
				var m, key ssa.Value
				switch x := in.(type) {
				case *ssa.Lookup:
					m, key = x.X, x.Index
				case *ssa.MapUpdate:
					m, key = x.Map, x.Key
				case *ssa.Call:
					if bi, ok := x.Call.Value.(*ssa.Builtin); ok && bi.Name() == "delete" && len(x.Call.Args) == 2 {
						m, key = x.Call.Args[0], x.Call.Args[1]
					}
				}
				if m == nil {
					continue
				}
				if _, ok := m.Type().Underlying().(*types.Map); !ok || !isTagMap(m.Type()) {
					continue
				}
				note(fn, in).maps++
				if e, isAdj := adjusted(key); isAdj {
					report(fn, in, "tag-keyed map "+mapName(m.Type())+" indexed by the result of "+e.Op.String(),
						fmt.Sprintf("the index of a map keyed by key tag is produced by arithmetic: %s — one key in 512 has a revoked-form tag 129 (not 128) above its own, and the entry is not found", trunc(e.String(), 160)))
				}
			}
		}
	}
	var names []string
	for k := range perFn {
		names = append(names, k)
	}
	sort.Strings(names)
	for _, k := range names {
		if bad[k] {
			continue
		}
		t := perFn[k]
		c.ok(R, R+"|"+k+"|key tags used as computed", pos[k], fmt.Sprintf("%d accesses to tag-keyed maps (%s), %d operations on key tags: none adjusts a tag", t.maps, strings.Join(mapNames(tagMaps, mapName), ", "), t.uses))
	}
	c.Floor(R, 6)
}

func mapNames(ts []types.Type, name func(types.Type) string) []string {
	var out []string
	for _, t := range ts {
		out = append(out, name(t))
	}
	sort.Strings(out)
	return out
}
