package main

// Regression mutants for C10-R12 (wave 4, change C10-w4g5c6: the failover
// writer re-asks the client's question without its class).
func init() {
	addMutants("C10", []Mutant{
		{ID: "c10-w4-failover-class-dropped", File: "middleware/failover/failover.go", Expect: "C10-R12|(*middleware/failover.ResponseWriter).WriteMsg",
			Old: "\treq.Question[0].Qclass = m.Question[0].Qclass\n",
			New: "",
			Why: "seeded C10-w4g5c6: SetQuestion writes class IN, so a CH/HS query whose primary resolution ended in SERVFAIL is re-asked in class IN and the IN answer is relayed to the client under its ID"},
		{ID: "c10-w4-failover-class-only-chaos", File: "middleware/failover/failover.go", Expect: "C10-R12|(*middleware/failover.ResponseWriter).WriteMsg",
			Old: "\treq.Question[0].Qclass = m.Question[0].Qclass\n",
			New: "\tif m.Question[0].Qclass == dns.ClassCHAOS {\n\t\treq.Question[0].Qclass = m.Question[0].Qclass\n\t}\n",
			Why: "variant: the class is carried over for CH only; an HS (or any other non-IN class) query is still re-asked and answered in class IN"},
		{ID: "c10-w4-failover-class-forced-in", File: "middleware/failover/failover.go", Expect: "C10-R12|(*middleware/failover.ResponseWriter).WriteMsg",
			Old: "\treq.Question[0].Qclass = m.Question[0].Qclass\n",
			New: "\treq.Question[0].Qclass = dns.ClassINET\n",
			Why: "variant: the class slot is written, but with a constant instead of the client's class"},
	})
}
