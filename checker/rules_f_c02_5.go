package main

// F-C02-5 / C02-R15 — the cache's alias chase never lends the alias's AD to
// what the target leg said.
//
// Cache.additionalAnswer is handed the reply for the alias (msg), asks the
// sub-pipeline about the alias target (Cache.internalExchange → M) and returns
// msg as the answer to the client's question — with M's records merged in, with
// M's rcode taken over (NXDOMAIN at the target), or, when M holds nothing at
// all, as it stands ("the target has no such data").  In every one of these
// cases the returned message states what M stated.  msg.AuthenticatedData was
// earned by the alias alone; the only place the two AD bits met was inside the
// record merge, which runs only when M carries records.  A bare NXDOMAIN / an
// empty NOERROR out of an insecure zone (no record to merge) therefore left
// under the alias's AD=1: a denial with no NSEC/NSEC3 — indeed no record —
// behind it, authenticated.
//
// Necessary condition, decided on the SSA CFG (nothing is executed):
//   for every call of Cache.internalExchange (sites discovered through the
//   callee) in a function that returns a *dns.Msg PARAMETER of its own (the
//   outer reply): from the point after the call, no return of that parameter is
//   reachable without crossing
//     - a store  <outer>.AuthenticatedData ← false, or
//     - a store  <outer>.AuthenticatedData ← … M.AuthenticatedData …   (the AND), or
//     - the true edge of  M.AuthenticatedData   (nothing to take away), or
//     - the false edge of <outer>.AuthenticatedData (nothing left to lend), or
//     - the non-nil edge of the call's error / the nil edge of M
//       (there is no target reply: the alias reply goes out exactly as an
//       unchased one does), or
//     - a call of an unexported helper that crosses one of these on every path
//       (engine summary; the helper's parameters are read as the call's arguments).
//   Returns of anything else (dnsutil.SetRcode… builds a fresh message, AD=0) are
//   not targets.  Which records, rcode or proof provenance are taken over is
//   irrelevant to the rule: guards and filters added in between do not matter.
//
// Not decided: the value-level question whether M's AD itself was earned (C01),
// and the wire twin composeWireChase (C01-R10 / C05-R9 decide its fold).

import (
	"go/types"

	"golang.org/x/tools/go/ssa"
)

func init() {
	wrap := func(id string, extra func(c *Ctx), explain string) {
		pd := props[id]
		if pd == nil {
			return
		}
		orig := pd.Run
		pd.Run = func(c *Ctx) { orig(c); extra(c) }
		pd.Explanation += " " + explain
	}
	wrap("C02", c02R15, "R15 (added, F-C02-5): after the alias chase's sub-query (Cache.internalExchange) the outer reply is returned only with the target reply's AD folded into its own — whatever the target reply holds: records, an rcode or nothing; a bare NXDOMAIN / empty NOERROR from an insecure zone otherwise leaves as an authenticated denial under the alias's AD without any NSEC/NSEC3 behind it.")
}

func c02R15(c *Ctx) { c02R15as(c, "C02-R15") }

func c02R15as(c *Ctx, R string) {
	const cp = "middleware/cache"
	c.Doc(R, "every function that calls Cache.internalExchange and returns one of its own *dns.Msg parameters (the outer reply of the alias chase): from the call, each return of that parameter lies behind a store outer.AuthenticatedData ← false / ← (… M.AuthenticatedData …), behind M.AuthenticatedData = true, behind outer.AuthenticatedData = false, or behind 'no target reply' (err != nil / M == nil) — on every exit (merged records, adopted NXDOMAIN, empty target reply alike); M = result 0 of the call")
	ix := c.fobj(R, cp+".(*Cache).internalExchange")
	adF := c.field(R, "github.com/miekg/dns.MsgHdr.AuthenticatedData")
	msgT := c.P.TypeName("github.com/miekg/dns.Msg")
	if ix == nil || adF == nil || msgT == nil {
		if msgT == nil {
			c.unresolved(R, "dns.Msg", "type not found")
		}
		return
	}
	isMsgPtr := func(t types.Type) bool {
		p, ok := t.(*types.Pointer)
		if !ok {
			return false
		}
		n, ok := p.Elem().(*types.Named)
		return ok && n.Obj() == msgT
	}

	sites := c.CallSites(ix)
	n := 0
	for _, s := range sites {
		call, ok := s.Instr.(*ssa.Call)
		if !ok || s.Kind != "call" {
			c.undecided(R, R+"|"+fnKey(s.Fn)+"|internalExchange used as a value", instrPos(s.Instr), "Cache.internalExchange is referenced other than by a plain call ("+s.Kind+"): the target reply cannot be followed")
			n++
			continue
		}
		fn := s.Fn
		// the outer replies: *dns.Msg parameters of the function holding the call
		outer := map[ssa.Value]bool{}
		for _, p := range fn.Params {
			if isMsgPtr(p.Type()) {
				outer[p] = true
			}
		}
		isOuter := func(e *Expr) bool {
			e = strip(e)
			return e != nil && e.K == EParam && e.V != nil && outer[e.V]
		}
		returnsOuter := func(in ssa.Instruction) bool {
			r, ok := in.(*ssa.Return)
			if !ok {
				return false
			}
			for _, v := range r.Results {
				if !isMsgPtr(v.Type()) {
					continue
				}
				for _, l := range Origins(Desc(v), nil) {
					if isOuter(l) {
						return true
					}
				}
			}
			return false
		}
		var targets []ssa.Instruction
		for _, b := range fn.Blocks {
			for _, in := range b.Instrs {
				if returnsOuter(in) {
					targets = append(targets, in)
				}
			}
		}
		key := R + "|" + fnKey(fn) + "|target reply's AD folded into the outer reply before every return of it"
		if len(targets) == 0 {
			c.unresolved(R, fnKey(fn)+"|outer reply", "the function calling Cache.internalExchange returns none of its *dns.Msg parameters: the composition of alias and target reply happens somewhere this rule does not follow")
			n++
			continue
		}

		// M: result 0 of THIS callee (any call of it: go/ssa registers are per call, and
		// a path from one call to the next has to cross the barriers first)
		isM := func(e *Expr) bool {
			e = strip(e)
			return e != nil && e.K == EExtract && e.Idx == 0 && CallTo(ix)(e.X)
		}
		fromM := Contains(isM)
		adOf := func(base Pat) Pat {
			return func(e *Expr) bool {
				e = strip(e)
				return e != nil && e.K == EField && FieldIs(adF)(e) && e.X != nil && base(e.X)
			}
		}
		mAD := adOf(fromM)
		outerAD := adOf(Contains(isOuter))
		// base of an AD store
		storeBase := func(in ssa.Instruction) *Expr {
			st, ok := in.(*ssa.Store)
			if !ok {
				return nil
			}
			fa, ok := st.Addr.(*ssa.FieldAddr)
			if !ok {
				return nil
			}
			return Desc(fa.X)
		}
		bars := []Barrier{
			{Name: "store outer.AD ← false", Instr: func(in ssa.Instruction) bool {
				if !isFieldStore(in, adF, IsConstBool(false)) {
					return false
				}
				b := storeBase(in)
				return b != nil && !fromM(b)
			}},
			{Name: "store outer.AD ← … M.AD …", Instr: func(in ssa.Instruction) bool {
				if !isFieldStore(in, adF, Contains(mAD)) {
					return false
				}
				b := storeBase(in)
				return b != nil && !fromM(b)
			}},
			// the same fold extracted into an unexported helper that is handed both
			// messages: AD of one *dns.Msg parameter ← … AD of ANOTHER one …
			{Name: "store AD ← … <other message parameter>.AD … (in a helper)", Instr: func(in ssa.Instruction) bool {
				if TopLevel(in.Parent()) == TopLevel(fn) || !isFieldStore(in, adF, nil) {
					return false
				}
				base := strip(storeBase(in))
				return Contains(func(e *Expr) bool {
					e = strip(e)
					if e == nil || e.K != EField || !FieldIs(adF)(e) || e.X == nil {
						return false
					}
					x := strip(e.X)
					for x != nil && x.K == EField {
						x = strip(x.X)
					}
					return x != nil && x.K == EParam && isMsgPtr(x.V.Type()) &&
						(base == nil || !Contains(func(b *Expr) bool { return b != nil && b.K == EParam && b.Name == x.Name })(base))
				})(Desc(in.(*ssa.Store).Val))
			}},
			OnTrue("M.AD", mAD),
			OnFalse("outer.AD", outerAD),
			OnTrue("err (no target reply)", func(e *Expr) bool {
				e = strip(e)
				if e == nil || e.K != EExtract || !CallTo(ix)(e.X) {
					return false
				}
				_, isIface := e.V.Type().Underlying().(*types.Interface)
				return isIface && e.Idx > 0
			}),
			OnFalse("M (no target reply)", isM),
		}

		r := reach([]Point{pointAfter(call)}, bars, nil)
		bad := false
		for _, t := range r.order {
			if t.Parent() != fn || !returnsOuter(t) {
				continue
			}
			c.violation(R, key, instrPos(t), "after the sub-query at "+c.lineOf(call)+" (Cache.internalExchange) the outer reply is returned at "+c.P.pos(instrPos(t))+" without the target reply's AD having met its own (no AD ← false / AD ← own && target store, no test of the target's AD on the way): when the target reply carries no record to merge — a bare NXDOMAIN or an empty NOERROR, which is what an insecure zone (or anyone spoofing it) returns — the client gets that denial with the alias's AD=1 and no NSEC/NSEC3 behind it; path "+c.trail(r, t))
			bad = true
			break
		}
		if !bad {
			c.ok(R, key, instrPos(call), "from the sub-query every return of the outer reply crosses the AD fold (or target AD=1 / outer AD=0 / no target reply)")
		}
		n++
	}
	if n == 0 {
		c.unresolved(R, "internalExchange|call sites", "no call of Cache.internalExchange found (rule would pass vacuously)")
	}
}
