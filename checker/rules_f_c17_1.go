package main

// C17-R7 (finding F-C17-1) — every reply the server originates itself, ahead of
// the middleware chain, is behind the access list's verdict.
//
// The access list is a chain handler; a reply that never enters the chain is
// never asked.  "Originates itself" is decided structurally: in package server
// (and server/doh, server/doq) a call of a client-transport write —
//   * Write / WriteMsg through an interface that is a middleware.Transport,
//   * Write / WriteMsg of a package type implementing middleware.Transport,
//   * the TCP framing primitive (*tcpStream).stage those methods sit on —
// made from a function that is NOT itself such a write method (those are the
// sinks the chain's writer calls) is a reply built by the server.  Every such
// site must be reachable only across one of
//   G1  the true edge of a source-gate verdict (a method named AdmitsSource),
//   G2  the `pipeline == nil` edge (no pipeline, hence no access list to ask),
//   G3  the failed comma-ok assertion of the handler to an interface carrying
//       AdmitsSource (a handler without the gate) — sound only together with
//       O2 below;
// the guard may sit in the function itself or, for an unexported function
// that is only ever called, at every one of its call sites.
//   O2  every value handed to the engine constructors as handler in non-test
//       code has an AdmitsSource method (so G3 is never taken in production);
//   O3  the gate really is the access list's verdict: every module method named
//       AdmitsSource consults an inner verdict (another AdmitsSource or
//       ipset.(*Set).ContainsIP), returns it or returns false on its deny
//       edge, and one of them, in middleware/accesslist, asks ContainsIP on the
//       very field (List.allowed) ServeDNS asks; the server-side gate takes the
//       address from the transport's RemoteAddr.
// Nothing is executed.

import (
	"fmt"
	"go/token"
	"go/types"
	"sort"

	"golang.org/x/tools/go/ssa"
)

func init() {
	wrap := func(id string, extra func(c *Ctx), explain string) {
		pd := props[id]
		if pd == nil {
			return
		}
		orig := pd.Run
		pd.Run = func(c *Ctx) { orig(c); extra(c) }
		pd.Explanation += " " + explain
	}
	wrap("C17", c17R7, "R7 (added, F-C17-1): every reply the server builds itself ahead of the chain (a transport write issued outside the transports' own write methods: the QDCOUNT FORMERR of serveMsgBy, the engines' in-place NOTIMP/FORMERR) is reachable only across the true edge of the source gate (AdmitsSource), and that gate is the access list's own ContainsIP verdict on the same set, fed from the transport's RemoteAddr — an excluded source hears nothing, malformed query or not.")
}

const c17GateName = "AdmitsSource"

func c17R7(c *Ctx) {
	const R = "C17-R7"
	c.Doc(R, "packages server, server/doh, server/doq: a call of a client-transport write (Transport.Write/WriteMsg by interface or on a package type implementing middleware.Transport, or (*tcpStream).stage) from a function that is not itself such a write method is a reply originated ahead of the chain; each is reachable only across AdmitsSource()=true, pipeline==nil, or the failed comma-ok assertion to the gate interface (guard in the function or at every call site of an unexported only-called function); every handler given to newUDPEngine/newTCPEngine in non-test code has the gate method; every module method named AdmitsSource returns an inner verdict (AdmitsSource / ipset.ContainsIP) or false on its deny edge, the accesslist one asks ContainsIP on List.allowed (the set ServeDNS asks), and the server-side gate derives the address from RemoteAddr")
	transportTN := c.P.TypeName("middleware.Transport")
	containsIP := c.fobj(R, "internal/ipset.(*Set).ContainsIP")
	allowedF := c.field(R, "middleware/accesslist.List.allowed")
	pipelineF := c.field(R, "server.Server.pipeline")
	stage := c.fobj(R, "server.(*tcpStream).stage")
	if transportTN == nil || containsIP == nil || allowedF == nil || pipelineF == nil || stage == nil {
		if transportTN == nil {
			c.unresolved(R, "middleware.Transport", "type not found")
		}
		return
	}
	transportI, _ := transportTN.Type().Underlying().(*types.Interface)
	if transportI == nil {
		c.unresolved(R, "middleware.Transport", "not an interface")
		return
	}
	isTransport := func(t types.Type) bool {
		if t == nil {
			return false
		}
		if types.Implements(t, transportI) {
			return true
		}
		if _, isPtr := t.(*types.Pointer); !isPtr {
			if _, isI := t.Underlying().(*types.Interface); !isI {
				return types.Implements(types.NewPointer(t), transportI)
			}
		}
		return false
	}
	writeName := map[string]bool{"Write": true, "WriteMsg": true}

	var fns []*ssa.Function
	for _, p := range []string{"server", "server/doh", "server/doq"} {
		fns = append(fns, c.P.FuncsInPkg(p)...)
	}
	// sinks: the transports' own write methods (+ the framing primitive)
	isSinkFn := func(f *ssa.Function) bool {
		f = TopLevel(f)
		fo := funcObjOf(f)
		if fo == nil {
			return false
		}
		if sameFunc(fo, stage) {
			return true
		}
		sig, _ := fo.Type().(*types.Signature)
		return sig != nil && sig.Recv() != nil && writeName[fo.Name()] && isTransport(sig.Recv().Type())
	}
	isOrigination := func(in ssa.Instruction) (string, bool) {
		cc := callCommon(in)
		if cc == nil {
			return "", false
		}
		if cc.IsInvoke() {
			if writeName[cc.Method.Name()] && isTransport(cc.Value.Type()) {
				return "Transport." + cc.Method.Name(), true
			}
			return "", false
		}
		fo, _, _ := calleeObj(cc)
		if fo == nil {
			return "", false
		}
		if sameFunc(fo, stage) {
			return "tcpStream.stage", true
		}
		sig, _ := fo.Type().(*types.Signature)
		if sig != nil && sig.Recv() != nil && writeName[fo.Name()] && isTransport(sig.Recv().Type()) {
			return fo.Name(), true
		}
		return "", false
	}

	// --- guards
	gate := MethodNamed(c17GateName)
	hasGateMethod := func(t types.Type) bool {
		if t == nil {
			return false
		}
		it, ok := t.Underlying().(*types.Interface)
		if !ok {
			return false
		}
		for i := 0; i < it.NumMethods(); i++ {
			if it.Method(i).Name() == c17GateName {
				return true
			}
		}
		return false
	}
	// static types of the values asserted to the gate interface (the engines' handler)
	var gatedFrom []types.Type
	for _, f := range fns {
		for _, b := range f.Blocks {
			for _, in := range b.Instrs {
				if ta, ok := in.(*ssa.TypeAssert); ok && hasGateMethod(ta.AssertedType) {
					gatedFrom = append(gatedFrom, ta.X.Type())
				}
			}
		}
	}
	// G3: "this handler has no gate" — the failed comma-ok assertion to the gate
	// interface, or a nil value of the gate interface (asserted once at construction)
	noGate := Barrier{Name: "handler has no source gate", Edge: func(cond *Expr) (bool, int) {
		return atomEdge(cond, func(e *Expr) bool {
			if e == nil {
				return false
			}
			if e.K == EExtract && e.Idx == 1 && e.X != nil && e.X.K == ETypeAssert && e.X.CommaOk {
				if ta, ok := e.X.V.(*ssa.TypeAssert); ok && hasGateMethod(ta.AssertedType) {
					return true
				}
				return false
			}
			if e.K == ECall || e.V == nil {
				return false
			}
			return hasGateMethod(e.V.Type())
		}, false)
	}}
	bars := []Barrier{
		OnTrue(c17GateName+"()", gate),
		OnFalse("pipeline!=nil", FieldIs(pipelineF)), // the `s.pipeline == nil` edge
		noGate,
	}
	var guardedSite func(in ssa.Instruction, depth int) bool
	guardedSite = func(in ssa.Instruction, depth int) bool {
		top := TopLevel(in.Parent())
		if ug, _ := c.unguarded(in, bars, top); !ug {
			return true
		}
		if depth == 0 {
			return false
		}
		fo := funcObjOf(top)
		if fo == nil || fo.Exported() {
			return false
		}
		sites := c.CallSites(fo)
		if len(sites) == 0 {
			return false
		}
		for _, s := range sites {
			if s.Kind != "call" || !guardedSite(s.Instr, depth-1) {
				return false
			}
		}
		return true
	}

	// --- O1: origination sites
	n := 0
	for _, f := range fns {
		if isSinkFn(f) {
			continue
		}
		for _, b := range f.Blocks {
			for _, in := range b.Instrs {
				what, ok := isOrigination(in)
				if !ok {
					continue
				}
				n++
				key := fmt.Sprintf("%s|%s|reply ahead of the chain (%s) behind the source gate", R, fnKey(TopLevel(f)), what)
				if guardedSite(in, 2) {
					c.ok(R, key, instrPos(in), "reachable only across AdmitsSource()=true / pipeline==nil / handler-without-gate")
				} else {
					c.violation(R, key, instrPos(in), "the server answers here without going through the chain and without asking the access list: a source outside the configured list gets this reply (NOTIMP/FORMERR for a malformed query) although every well-formed query from it is dropped in silence")
				}
			}
		}
	}
	if n == 0 {
		c.unresolved(R, "origination sites", "no server-originated reply found (rule would pass vacuously)")
	}

	// --- O3: what the gate is
	var gates []*ssa.Function
	for _, f := range c.P.RepoFuncs() {
		if f.Parent() != nil || len(f.Blocks) == 0 {
			continue
		}
		fo := funcObjOf(f)
		if fo == nil || fo.Name() != c17GateName {
			continue
		}
		sig, _ := fo.Type().(*types.Signature)
		if sig == nil || sig.Recv() == nil || sig.Results().Len() != 1 {
			continue
		}
		gates = append(gates, f)
	}
	sort.Slice(gates, func(i, j int) bool { return fnKey(gates[i]) < fnKey(gates[j]) })
	if len(gates) == 0 {
		c.violation(R, R+"|source gate|exists", token.NoPos, "no method named "+c17GateName+" exists in the module: nothing lets the code ahead of the chain ask the access list")
		return
	}
	inner := AnyOf(CallTo(containsIP), gate)
	bottom := false
	for _, g := range gates {
		key := fmt.Sprintf("%s|%s|gate returns the access list's verdict", R, fnKey(g))
		calls := instrsWhere(g, func(in ssa.Instruction) bool {
			v, ok := in.(ssa.Value)
			return ok && in.Parent() == g && callCommon(in) != nil && inner(Desc(v))
		})
		if len(calls) == 0 {
			c.violation(R, key, g.Pos(), "the gate consults neither another "+c17GateName+" nor ipset.ContainsIP: its answer does not depend on the access list")
			continue
		}
		bad := ""
		// every inner verdict is looked at: it decides a branch or is returned
		looked := map[ssa.Value]bool{}
		for _, b := range g.Blocks {
			if len(b.Instrs) == 0 {
				continue
			}
			switch t := b.Instrs[len(b.Instrs)-1].(type) {
			case *ssa.If:
				exprValues(condOf(t), looked)
			case *ssa.Return:
				for _, rv := range t.Results {
					exprValues(Desc(rv), looked)
				}
			}
		}
		for _, in := range calls {
			if v, ok := in.(ssa.Value); ok && !looked[v] {
				bad = "an inner verdict is computed and then ignored (neither branched on nor returned)"
			}
		}
		// every return: the inner verdict itself / a value computed from it, or a constant
		for _, in := range instrsWhere(g, isReturn) {
			if in.Parent() != g {
				continue
			}
			rv := Desc(in.(*ssa.Return).Results[0])
			if Contains(inner)(rv) || IsAnyConst(rv) {
				continue
			}
			bad = "a return value that is neither a constant nor derived from the inner verdict: " + trunc(rv.String(), 120)
		}
		// deny propagates: past an inner verdict's false edge only `false` is returned
		if pts := edgePoints(g, OnFalse("inner verdict", inner)); len(pts) > 0 {
			r := reach(pts, nil, nil)
			for _, t := range r.order {
				ret, ok := t.(*ssa.Return)
				if !ok || t.Parent() != g {
					continue
				}
				rv := Desc(ret.Results[0])
				if !IsConstBool(false)(rv) && !Contains(inner)(rv) {
					bad = "after an inner verdict said no, the gate can still return " + trunc(rv.String(), 80)
				}
			}
		}
		if bad != "" {
			c.violation(R, key, g.Pos(), bad)
		} else {
			c.ok(R, key, g.Pos(), "returns the inner verdict, or false once an inner verdict is false")
		}
		// the bottom of the chain: ContainsIP on List.allowed
		for _, in := range calls {
			if cc := callCommon(in); cc != nil && callIs(cc, containsIP) && FieldIs(allowedF)(Desc(callArg(in, 0))) {
				bottom = true
			}
		}
		// the server-side gate: the address handed to the inner gate comes from RemoteAddr
		if pk := fnPkg(g); pk != nil && pk.Path() == c.P.expand("server") {
			for _, in := range calls {
				cc := callCommon(in)
				if cc == nil || len(cc.Args) == 0 {
					continue
				}
				arg := cc.Args[len(cc.Args)-1]
				k2 := fmt.Sprintf("%s|%s|address asked about is the transport's remote address", R, fnKey(g))
				if Contains(MethodNamed("RemoteAddr"))(Desc(arg)) {
					c.ok(R, k2, instrPos(in), "the address derives from RemoteAddr()")
				} else {
					c.violation(R, k2, instrPos(in), "the address the gate asks about does not derive from the transport's RemoteAddr(): "+trunc(Desc(arg).String(), 160))
				}
			}
		}
	}
	kb := R + "|source gate|asks ContainsIP on List.allowed"
	if bottom {
		c.ok(R, kb, allowedF.Pos(), "a gate in the chain asks ipset.ContainsIP on accesslist.List.allowed, the set ServeDNS consults")
	} else {
		c.violation(R, kb, allowedF.Pos(), "no "+c17GateName+" method asks ipset.ContainsIP on accesslist.List.allowed: the gate and the chain handler can disagree")
	}

	// --- O2: the production handler has the gate (G3 is never taken outside tests):
	// every concrete value converted, in non-test module code, to the interface type the
	// engines assert the gate on has the gate method
	if len(gatedFrom) == 0 {
		return
	}
	isGatedFrom := func(t types.Type) bool {
		for _, g := range gatedFrom {
			if types.Identical(t, g) {
				return true
			}
		}
		return false
	}
	nconv := 0
	for _, f := range c.P.RepoFuncs() {
		for _, b := range f.Blocks {
			for _, in := range b.Instrs {
				mi, ok := in.(*ssa.MakeInterface)
				if !ok || !isGatedFrom(mi.Type()) {
					continue
				}
				nconv++
				key := fmt.Sprintf("%s|%s|handler handed to the engines has the source gate", R, fnKey(TopLevel(f)))
				ms := types.NewMethodSet(mi.X.Type())
				has := false
				for i := 0; i < ms.Len(); i++ {
					if ms.At(i).Obj().Name() == c17GateName {
						has = true
					}
				}
				if has {
					c.ok(R, key, instrPos(in), fmt.Sprintf("%s has %s", mi.X.Type(), c17GateName))
				} else {
					c.violation(R, key, instrPos(in), fmt.Sprintf("%s becomes the engines' handler but has no %s method: the optional gate is silently absent and the in-place rejections never ask the access list", mi.X.Type(), c17GateName))
				}
			}
		}
	}
	if nconv == 0 {
		c.unresolved(R, "engine handler", "the engines assert the gate on an interface no concrete value is ever converted to in non-test code")
	}
}
