package main

// Rules added by the coordinator after running the per-property tables
// against independently seeded breaking changes (see DESIGN.md §8).

import (
	"fmt"
	"go/types"

	"golang.org/x/tools/go/ssa"
)

func init() {
	wrap := func(id string, extra func(c *Ctx), explain string) {
		pd := props[id]
		if pd == nil {
			return
		}
		orig := pd.Run
		pd.Run = func(c *Ctx) { orig(c); extra(c) }
		pd.Explanation += " " + explain
	}
	wrap("C01", c01Extra, "R9 (added): the wildcard next-closer check in Resolver.answer sees only authority records already filtered to the validated signer zone (resp.Ns = FilterRRsToZone(resp.Ns, signer) precedes it on every path).")
	wrap("C12", c12Extra, "R6 (added): the work ledger follows every resolveState — each construction of a resolveState sets work from the current state's work, the request context's ledger, or the caller-supplied ledger.")
}

func c01Extra(c *Ctx) {
	c.Doc("C01-R9", "Resolver.answer: every call of a wildcard/denial verifier that reads resp.Ns is preceded on every path by resp.Ns = dnsutil.FilterRRsToZone(resp.Ns, signer): unsigned records owned outside the signer zone never take part in a proof")
	fn := c.fn("C01-R9", "middleware/resolver.(*Resolver).answer")
	wild := c.fobj("C01-R9", "middleware/resolver/dnssec.VerifyWildcardAnswerForZoneWithWork")
	filter := c.fobj("C01-R9", "internal/dnsutil.FilterRRsToZone")
	ns := c.field("C01-R9", "github.com/miekg/dns.Msg.Ns")
	if fn == nil || wild == nil || filter == nil || ns == nil {
		return
	}
	c.MustCross("C01-R9", fn, "wildcard next-closer check", isPlainCallTo(wild), StoreBarrier("resp.Ns=FilterRRsToZone(…)", ns, CallTo(filter)))
	// the filter's zone argument is the signer that was validated
	for _, in := range instrsWhere(fn, isPlainCallTo(wild)) {
		key := "C01-R9|answer|verifier and filter use the same zone"
		var zoneArgs []string
		for _, f := range instrsWhere(fn, isPlainCallTo(filter)) {
			zoneArgs = append(zoneArgs, Desc(callArg(f, 1)).String())
		}
		found := false
		cc := callCommon(in)
		for _, a := range cc.Args {
			as := Desc(a).String()
			for _, z := range zoneArgs {
				if as == z {
					found = true
				}
			}
		}
		if found {
			c.ok("C01-R9", key, instrPos(in), "the verifier is handed the zone the authority section was filtered to")
		} else {
			c.violation("C01-R9", key, instrPos(in), fmt.Sprintf("the wildcard verifier's zone argument is not the zone used by FilterRRsToZone (%v)", zoneArgs))
		}
	}
}

func c12Extra(c *Ctx) {
	c.Doc("C12-R6", "every construction of a resolveState in package resolver stores its work field, and the stored ledger is the current state's (rs.work), the request context's (RecursionWorkFrom / ensureRecursionWork) or the caller's parameter — a restart or child state can never run unbudgeted")
	tn := c.P.TypeName("middleware/resolver.resolveState")
	work := c.field("C12-R6", "middleware/resolver.resolveState.work")
	if tn == nil || work == nil {
		c.unresolved("C12-R6", "resolveState", "type not found")
		return
	}
	n := 0
	for _, fn := range c.P.FuncsInPkg("middleware/resolver") {
		for _, b := range fn.Blocks {
			for _, in := range b.Instrs {
				al, ok := in.(*ssa.Alloc)
				if !ok {
					continue
				}
				nt, ok := deref(al.Type()).(*types.Named)
				if !ok || nt.Obj() != tn {
					continue
				}
				n++
				key := "C12-R6|" + fnKey(TopLevel(fn)) + "|resolveState.work"
				var st *ssa.Store
				if al.Referrers() != nil {
					for _, r := range *al.Referrers() {
						fa, ok := r.(*ssa.FieldAddr)
						if !ok || fa.Referrers() == nil {
							continue
						}
						s := deref(fa.X.Type()).Underlying().(*types.Struct)
						if s.Field(fa.Field).Origin() != work {
							continue
						}
						for _, rr := range *fa.Referrers() {
							if x, ok := rr.(*ssa.Store); ok && x.Addr == fa {
								st = x
							}
						}
					}
				}
				if st == nil {
					c.violation("C12-R6", key, instrPos(in), "a resolveState is constructed without a work ledger: everything resolved through it is never debited")
					continue
				}
				okOrigin := true
				var ls []string
				for _, l := range Origins(Desc(st.Val), nil) {
					ls = append(ls, l.String())
					switch {
					case FieldIs(work)(l):
					case l.K == EParam:
					case l.K == ECall || l.K == EExtract:
						nm := ""
						x := l
						if x.K == EExtract {
							x = x.X
						}
						if x.Fn != nil {
							nm = x.Fn.Name()
						}
						// a ledger handed out by package middleware (RecursionWorkFrom, EnsureRecursionWork, …)
						if x.Fn == nil || x.Fn.Pkg() == nil || x.Fn.Pkg().Path() != c.P.expand("middleware") || nm == "" {
							okOrigin = false
						}
					default:
						okOrigin = false
					}
				}
				if okOrigin && len(ls) > 0 {
					c.ok("C12-R6", key, instrPos(st), fmt.Sprintf("work ← %v", ls))
				} else {
					c.violation("C12-R6", key, instrPos(st), fmt.Sprintf("resolveState.work has an origin other than the current state / context ledger / caller parameter: %v", ls))
				}
			}
		}
	}
	if n < 3 {
		c.unresolved("C12-R6", "resolveState constructions", fmt.Sprintf("expected ≥3, found %d", n))
	}
}
