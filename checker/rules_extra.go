package main

// Rules added by the coordinator after running the per-property tables
// against independently seeded breaking changes (see DESIGN.md §8).

import (
	"fmt"
	"go/ast"
	"go/constant"
	"go/token"
	"go/types"
	"strings"

	"golang.org/x/tools/go/ssa"
)

func init() {
	wrap := func(id string, extra func(c *Ctx), explain string) {
		pd := props[id]
		if pd == nil {
			return
		}
		orig := pd.Run
		pd.Run = func(c *Ctx) { orig(c); extra(c) }
		pd.Explanation += " " + explain
	}
	wrap("C01", c01Extra, "R9 (added): the wildcard next-closer check in Resolver.answer sees only authority records already filtered to the validated signer zone (resp.Ns = FilterRRsToZone(resp.Ns, signer) precedes it on every path).")
	wrap("C05", c05Extra, "R9 (added): the AD verdict of a wire-composed alias chase is a conjunction over every segment (each segs[i].ad with the loop index, never one fixed hop), as the decoded path computes it.")
	wrap("C06", c06Extra, "R8 (added): the has-DNSSEC verdict of a stored wire body is taken from the answer AND authority sections (the guard of the flag compares the record index with ANCount+NSCount), so a signed negative answer is never handed unstripped to a DO=0 client.")
	wrap("C18", c18Extra, "R8 (added): inside persist the only file ever removed is the temp file — the destination is replaced by rename alone, never unlinked first.")
	wrap("C19", c19Extra, "R6 (added): ClampScope applies BOTH clamps on every path — the prefix length handed to Prefix() has passed the comparison with the forwarded source length and, for the address family at hand, the comparison with the configured minimum scope.")
	wrap("C20", c20Extra, "R7 (added): negativeAAAATTL is min(SOA TTL, SOA MINIMUM): the MINIMUM replaces the TTL only behind Minttl < ttl.")
	wrap("C11", c11Extra, "R7 (added): the fresh-clock entry Server.serveMsg (deadline = time.Now()+timeout) is used only by the message-born ingress ServeMsg; every raw/strict entry reaches the chain through serveMsgBy with its arrival-anchored deadline.")
	wrap("C14", c14Extra, "R5 (added): the raw RSA verifier compares the recovered encoding at full modulus width — both ConstantTimeCompare operands have length = the modulus size by construction (a fresh make(size) buffer or FillBytes into one), never the zero-stripped big.Int bytes.")
	wrap("C02", c02Extra, "R9 (added): the aggressive-NSEC closest encloser is derived from BOTH names of the covering record (shared-suffix count with owner and with next, the larger of the two), as RFC 8198/4035 require.")
	wrap("C02", c02R10, "R10 (added): the plain NSEC closest encloser keeps the longer of the two shared suffixes (owner / next) — a max-fold decided on the branch structure.")
	wrap("C06", func(c *Ctx) { runWriterSlotRule(c, "C06-R9") }, "R9 (added): the reused edns wrapper (pool or job-owned slot) has every field reassigned before ch.Next or reset by the deferred cleanup — no cookie/DO/size of the previous request shapes the next reply.")
	wrap("C10", func(c *Ctx) { runWriterSlotRule(c, "C10-R10") }, "R10 (added): same wrapper-reuse rule as C06-R9, claimed here because a leftover cookie is another client's datum in this client's reply.")
	wrap("C08", func(c *Ctx) { runSubQueryLineage(c, "C08-R9") }, "R9 (added): a reply (answer or denial) that takes anything from an internal sub-query folds the sub-query's lineage — its delegation leases — into the outer request before returning (same rule as C04-R10).")
	wrap("C14", c14R6, "R6 (added): oversizedKeyMaterial answers a constant false only for a key whose encoded length is within the limit or after scanning the whole string with the material counter compared against the limit — the size refusal the DS match and the key tag rely on cannot be skipped for wrapped input.")
	wrap("C15", c15R7, "R7 (added): in packInto the caller's selected OPT is replaced by the rcode-carrying copy wherever that very pointer occurs — the substitution is decided by the type assertion and the pointer identity alone, in every section, as the library's in-place SetExtendedRcode would show it.")
	wrap("C18", c18R9, "R9 (added): in persist no failed or unchecked write to the temp file (WriteString, a buffered writer's Flush, Sync, Close, or a helper handed the file) can be followed by the rename — the destination is replaced only by a completely written file.")
	wrap("C20", c20R8, "R8 (added): compileConfig settles the prefix set (including the RFC 6147 §5.2 default) before it reads hasWellKnown() — no store to compiled.prefixes is reachable after that call, so the exclusion list of the well-known prefix is never skipped for a defaulted prefix.")
	wrap("C09", c09R11, "R11 (added): every place that asks whether a trust anchor is live compares its State with StateValid AND StateMissing together (same operand, same operator, one boolean expression) — RFC 5011 keeps a Missing key trusted, so staging, consumption and publication of revocations agree on the same live set.")
	wrap("C12", c12R7, "R7 (added): the failover writer starts no fallback exchange for a request tree whose recursion-work ledger has already rejected it — every dnsclient exchange in failover.ResponseWriter.WriteMsg is behind RecursionWorkEnforcementError(ctx) == nil.")
	wrap("C12", c12R8, "R8 (added): the alias chase in Cache.additionalAnswer re-enters its loop only across `counter > 0` for a counter that is carried round the loop (initialised outside it, decremented inside) — a bound that restarts every hop is no bound.")
	wrap("C01", c01R12, "R12 (added): a zone's own DNSKEY response is verified only against keys the parent's DS set names — in verifyDNSSEC the full, still unauthenticated key set reaches VerifyRRSIGWithWork only on the msg != resp route (RFC 4035 §5.2).")
	wrap("C02", c02R11, "R11 (added): the NSEC covering predicate consults an ancestor/descendant relation between the record's next name and the tested name and answers true on no path where next lies below the name — a name with something beneath it exists as an empty non-terminal and cannot be denied (RFC 4592 §2.2.2, RFC 8198 App. B).")
	wrap("C01", c01R13, "R13 (added): in answer() and authority() the DS set handed to isZoneSecure / findDS / provenInsecureDelegation can come from the root trust anchors (dsRRFromRootKeys) — an empty set at the root means 'no referral followed yet', never 'insecure'.")
	wrap("C07", c07R9, "R9 (added): a positive reply is relayed by Resolver.resolve only after its answer section was filtered to the zone that was asked (dnsutil.FilterRRsToZone on resp.Answer) — records a server volunteers about names outside its zone reach neither the client nor the NS-address collector.")
	wrap("C15", c15R8, "R8 (added): the window of the pooled buffer a message is packed into is zeroed (builtin clear on a slice of packState.buf) before anything is written to it — the library's packers advance over octets they do not write, so an unzeroed pooled buffer shows through inside the payload.")
	wrap("C19", func(c *Ctx) { c03R10as(c, "C19-R9") }, "R9 (added, F-C19-1 = F-C03-2): the resolver keeps the authority's ECS scope on the reply it hands to the cache (same rule as C03-R10).")
	wrap("C19", func(c *Ctx) { c03R11as(c, "C19-R10") }, "R10 (added, F-C19-3 = F-C03-3): a background refresh of an unscoped entry carries no client subnet (same rule as C03-R11).")
	wrap("C01", func(c *Ctx) { c02R15as(c, "C01-R22") }, "R22 (added, red wave 5): the alias chase folds the target reply's AD into the outer reply before every return of it — AD only when every part of the reply validated (same rule as C02-R15).")
	wrap("C02", func(c *Ctx) { c01R15as(c, "C02-R16") }, "R16 (added, red wave 5): an NSEC/NSEC3 signature is never accepted through wildcard reconstruction — a wildcard's denial record re-owned to another name proves nothing (same rule as C01-R15).")
	wrap("C19", func(c *Ctx) { c03R12as(c, "C19-R16") }, "R16 (added, red wave 6): the scope a scoped insert is filed under keeps a declared length and the address of one declared prefix (same rule as C03-R12).")
	wrap("C20", func(c *Ctx) { c04R11as(c, "C20-R11") }, "R11 (added, F-C20-3 = F-C04-1): DNS64 tells a zero negative TTL from a missing SOA (same rule as C04-R11).")
	wrap("C13", c13R9, "R9 (added): Resolver.lookup gives up on a zone's remaining servers only for NXDOMAIN — after a failing reply is recorded, every path to the fallback verdict (which the caller turns into a zone failure) goes round the server loop again or crosses Rcode == NameError.")
	wrap("C13", c13Extra, "R8 (added): a stored failure is turned into a hit (failureEntry.hit) only behind now.Before(<that entry>.retryAfter) — on the Msg and the wire lookup alike — so suppression ends with the backoff.")
	wrap("C09", c09Extra, "R10 (added): tombstone precedence is unconditional — in the sweep over the loaded state and in the merge loops, the only conditions that may skip a tombstone check are the entry's own Revoked/Removed marker state.")
	wrap("C12", c12Extra, "R6 (added): the work ledger follows every resolveState — each construction of a resolveState sets work from the current state's work, the request context's ledger, or the caller-supplied ledger.")
}

func c01Extra(c *Ctx) {
	c.Doc("C01-R9", "Resolver.answer: every call of a wildcard/denial verifier that reads resp.Ns is preceded on every path by resp.Ns = dnsutil.FilterRRsToZone(resp.Ns, signer): unsigned records owned outside the signer zone never take part in a proof")
	fn := c.fn("C01-R9", "middleware/resolver.(*Resolver).answer")
	wild := c.fobj("C01-R9", "middleware/resolver/dnssec.VerifyWildcardAnswerForZoneWithWork")
	filter := c.fobj("C01-R9", "internal/dnsutil.FilterRRsToZone")
	ns := c.field("C01-R9", "github.com/miekg/dns.Msg.Ns")
	if fn == nil || wild == nil || filter == nil || ns == nil {
		return
	}
	c.MustCross("C01-R9", fn, "wildcard next-closer check", isPlainCallTo(wild), StoreBarrier("resp.Ns=FilterRRsToZone(…)", ns, CallTo(filter)))
	// the filter's zone argument is the signer that was validated
	for _, in := range instrsWhere(fn, isPlainCallTo(wild)) {
		key := "C01-R9|answer|verifier and filter use the same zone"
		var zoneArgs []string
		for _, f := range instrsWhere(fn, isPlainCallTo(filter)) {
			zoneArgs = append(zoneArgs, Desc(callArg(f, 1)).String())
		}
		found := false
		cc := callCommon(in)
		for _, a := range cc.Args {
			as := Desc(a).String()
			for _, z := range zoneArgs {
				if as == z {
					found = true
				}
			}
		}
		if found {
			c.ok("C01-R9", key, instrPos(in), "the verifier is handed the zone the authority section was filtered to")
		} else {
			c.violation("C01-R9", key, instrPos(in), fmt.Sprintf("the wildcard verifier's zone argument is not the zone used by FilterRRsToZone (%v)", zoneArgs))
		}
	}
}

func c12Extra(c *Ctx) {
	c.Doc("C12-R6", "every construction of a resolveState in package resolver stores its work field, and the stored ledger is the current state's (rs.work), the request context's (RecursionWorkFrom / ensureRecursionWork) or the caller's parameter — a restart or child state can never run unbudgeted")
	tn := c.P.TypeName("middleware/resolver.resolveState")
	work := c.field("C12-R6", "middleware/resolver.resolveState.work")
	if tn == nil || work == nil {
		c.unresolved("C12-R6", "resolveState", "type not found")
		return
	}
	n := 0
	for _, fn := range c.P.FuncsInPkg("middleware/resolver") {
		for _, b := range fn.Blocks {
			for _, in := range b.Instrs {
				al, ok := in.(*ssa.Alloc)
				if !ok {
					continue
				}
				nt, ok := deref(al.Type()).(*types.Named)
				if !ok || nt.Obj() != tn {
					continue
				}
				n++
				key := "C12-R6|" + fnKey(TopLevel(fn)) + "|resolveState.work"
				var st *ssa.Store
				if al.Referrers() != nil {
					for _, r := range *al.Referrers() {
						fa, ok := r.(*ssa.FieldAddr)
						if !ok || fa.Referrers() == nil {
							continue
						}
						s := deref(fa.X.Type()).Underlying().(*types.Struct)
						if s.Field(fa.Field).Origin() != work {
							continue
						}
						for _, rr := range *fa.Referrers() {
							if x, ok := rr.(*ssa.Store); ok && x.Addr == fa {
								st = x
							}
						}
					}
				}
				if st == nil {
					c.violation("C12-R6", key, instrPos(in), "a resolveState is constructed without a work ledger: everything resolved through it is never debited")
					continue
				}
				okOrigin := true
				var ls []string
				for _, l := range Origins(Desc(st.Val), nil) {
					ls = append(ls, l.String())
					switch {
					case FieldIs(work)(l):
					case l.K == EParam:
					case l.K == ECall || l.K == EExtract:
						nm := ""
						x := l
						if x.K == EExtract {
							x = x.X
						}
						if x.Fn != nil {
							nm = x.Fn.Name()
						}
						// a ledger handed out by package middleware (RecursionWorkFrom, EnsureRecursionWork, …)
						if x.Fn == nil || x.Fn.Pkg() == nil || x.Fn.Pkg().Path() != c.P.expand("middleware") || nm == "" {
							okOrigin = false
						}
					default:
						okOrigin = false
					}
				}
				if okOrigin && len(ls) > 0 {
					c.ok("C12-R6", key, instrPos(st), fmt.Sprintf("work ← %v", ls))
				} else {
					c.violation("C12-R6", key, instrPos(st), fmt.Sprintf("resolveState.work has an origin other than the current state / context ledger / caller parameter: %v", ls))
				}
			}
		}
	}
	if n < 3 {
		c.unresolved("C12-R6", "resolveState constructions", fmt.Sprintf("expected ≥3, found %d", n))
	}
}

func c13Extra(c *Ctx) {
	c.Doc("C13-R8", "every call of (*failureEntry).hit in package cache is behind the true edge of now.Before(e.retryAfter) for the same entry e: expired failure state (kept as streak history) is never served")
	hit := c.fobj("C13-R8", "middleware/cache.(*failureEntry).hit")
	retry := c.field("C13-R8", "middleware/cache.failureEntry.retryAfter")
	before := c.fobj("C13-R8", "time.Time.Before")
	if hit == nil || retry == nil || before == nil {
		return
	}
	sites := c.CallSites(hit)
	for _, s := range sites {
		recv := Desc(callArg(s.Instr, 0)).String()
		live := OnTrue("now.Before(entry.retryAfter)", func(e *Expr) bool {
			if !CallTo(before)(e) || e.K != ECall || len(e.Args) != 2 {
				return false
			}
			a := strip(e.Args[1])
			return a != nil && a.K == EField && a.Var == retry && a.X.String() == recv
		})
		key := "C13-R8|" + fnKey(TopLevel(s.Fn)) + "|entry.hit()"
		if fnKey(TopLevel(s.Fn)) == "(*middleware/cache.FailureCache).record" {
			c.ok("C13-R8", key, instrPos(s.Instr), "exempt: record returns the state it has just written or renewed (retryAfter = now + backoff), not a lookup")
			continue
		}
		if ug, tr := c.unguarded(s.Instr, []Barrier{live}, s.Fn); ug {
			c.violation("C13-R8", key, instrPos(s.Instr), "a cached failure is served without testing that its backoff is still running (now.Before(entry.retryAfter)); path "+tr)
		} else {
			c.ok("C13-R8", key, instrPos(s.Instr), "hit() behind now.Before(entry.retryAfter)")
		}
	}
	if len(sites) < 4 {
		c.unresolved("C13-R8", "failureEntry.hit call sites", fmt.Sprintf("expected ≥4, found %d", len(sites)))
	}
}

func c09Extra(c *Ctx) {
	c.Doc("C09-R10", "AutoTA: every branch that decides whether a state entry is checked against the tombstones tests only that entry's own State (Revoked/Removed marker) — no run-level flag can exempt entries loaded from the state file")
	fn := c.fn("C09-R10", "middleware/resolver.(*Resolver).AutoTA")
	fp := c.fobj("C09-R10", "middleware/resolver.dnskeyMaterialFP")
	stateF := c.field("C09-R10", "middleware/resolver.TrustAnchor.State")
	if fn == nil || fp == nil || stateF == nil {
		return
	}
	// tombstone lookups whose key is the fingerprint of a state entry's key: tombstones[dnskeyMaterialFP(ta.DNSKey)]
	n := 0
	for _, f := range WithAnons(fn) {
		for _, b := range f.Blocks {
			for _, in := range b.Instrs {
				lk, ok := in.(*ssa.Lookup)
				if !ok || !lk.CommaOk {
					continue
				}
				ke := Desc(lk.Index)
				if !CallTo(fp)(ke) {
					continue
				}
				// only the sweeps that range over a map of *TrustAnchor (loop variable from Next)
				if !Contains(func(x *Expr) bool { return x.K == ERange || (x.K == EExtract && x.X != nil && x.X.K == ERange) })(ke) {
					continue
				}
				// only the precedence sweep: a tombstone hit deletes the entry from the ranged state map
				sweep := false
				if lk.Referrers() != nil {
					for _, rf := range *lk.Referrers() {
						ex, ok := rf.(*ssa.Extract)
						if !ok || ex.Index != 1 || ex.Referrers() == nil {
							continue
						}
						for _, ur := range *ex.Referrers() {
							iff, ok := ur.(*ssa.If)
							if !ok {
								continue
							}
							for _, x := range iff.Block().Succs[0].Instrs {
								if cl, ok := x.(*ssa.Call); ok {
									if bi, ok := cl.Call.Value.(*ssa.Builtin); ok && bi.Name() == "delete" {
										sweep = true
									}
								}
							}
						}
					}
				}
				if !sweep {
					continue
				}
				n++
				// walk the dominating branch conditions between the loop head and the lookup: each must be a State comparison
				key := "C09-R10|AutoTA|tombstone check exemption"
				bad := ""
				blk := b
				for hops := 0; hops < 6 && blk != nil; hops++ {
					idom := blk.Idom()
					if idom == nil || len(idom.Instrs) == 0 {
						break
					}
					iff, ok := idom.Instrs[len(idom.Instrs)-1].(*ssa.If)
					if !ok {
						break
					}
					cond := condOf(iff)
					a, _ := Truthy(cond)
					isState := false
					if a != nil && a.K == EBin {
						if FieldIs(stateF)(a.X) || FieldIs(stateF)(a.Y) {
							isState = true
						}
					}
					if a != nil && (a.K == ERange || (a.K == EExtract && a.X != nil && a.X.K == ERange)) {
						break // the range loop's own "more elements" test
					}
					if !isState {
						bad = trunc(cond.String(), 140)
						break
					}
					blk = idom
				}
				if bad != "" {
					c.violation("C09-R10", key, instrPos(in), "a condition other than the entry's own marker state decides whether the tombstone check runs: "+bad)
				} else {
					c.ok("C09-R10", key, instrPos(in), "tombstone check guarded only by the entry's own State")
				}
			}
		}
	}
	if n == 0 {
		c.unresolved("C09-R10", "AutoTA tombstone sweep", "no tombstones[dnskeyMaterialFP(entry key)] lookup over a ranged state map found")
	}
}

// staticLenIs: the slice described by e has, by construction, the length
// described by want (a canonical Expr string): a make([]T, want), a FillBytes
// into such a buffer, or an unsliced alias of one.
func staticLenIs(e *Expr, want string, depth int) bool {
	e = strip(e)
	if e == nil || depth > 6 {
		return false
	}
	switch e.K {
	case EMake:
		if ms, ok := e.V.(*ssa.MakeSlice); ok {
			return Desc(ms.Len).String() == want
		}
	case ECall:
		if e.Fn != nil && e.Fn.Name() == "FillBytes" && len(e.Args) == 2 {
			return staticLenIs(e.Args[1], want, depth+1)
		}
		// an unexported same-package helper that builds the buffer: every value it
		// returns has the length of one of its parameters, and the argument passed
		// for that parameter is `want`
		if cl, ok := e.V.(*ssa.Call); ok {
			if h := localHelper(cl.Parent(), &cl.Call); h != nil {
				for i, prm := range h.Params {
					if i >= len(e.Args) || e.Args[i].String() != want {
						continue
					}
					all, n := true, 0
					for _, b := range h.Blocks {
						for _, in := range b.Instrs {
							if r, ok := in.(*ssa.Return); ok && len(r.Results) >= 1 {
								n++
								if !staticLenIs(Desc(r.Results[0]), prm.Name(), depth+1) {
									all = false
								}
							}
						}
					}
					if all && n > 0 {
						return true
					}
				}
			}
		}
	case EPhi, EAlloc:
		if len(e.Args) == 0 {
			return false
		}
		for _, a := range e.Args {
			if !staticLenIs(a, want, depth+1) {
				return false
			}
		}
		return true
	}
	return false
}

func c14Extra(c *Ctx) {
	c.Doc("C14-R5", "rsaVerifyPKCS1v15: both operands of the deciding subtle.ConstantTimeCompare have static length size=(n.BitLen()+7)/8 (fresh make(size) / FillBytes into one); comparing the zero-stripped m.Bytes() against a suffix skips the 00 01 FF… frame")
	fn := c.fn("C14-R5", "middleware/resolver/dnssec.rsaVerifyPKCS1v15")
	ctc := c.fobj("C14-R5", "crypto/subtle.ConstantTimeCompare")
	if fn == nil || ctc == nil {
		return
	}
	sites := instrsWhere(fn, isPlainCallTo(ctc))
	if len(sites) == 0 {
		c.unresolved("C14-R5", "rsaVerifyPKCS1v15", "no ConstantTimeCompare call")
		return
	}
	// the modulus size: the value len(sig) is compared with
	var sizeStr string
	for _, b := range fn.Blocks {
		for _, in := range b.Instrs {
			if bo, ok := in.(*ssa.BinOp); ok {
				e := Desc(bo)
				if e.K == EBin && e.X != nil && e.X.K == ECall && e.X.Method == "builtin.len" && len(e.X.Args) == 1 && e.X.Args[0].K == EParam && e.X.Args[0].Name == "sig" {
					sizeStr = e.Y.String()
				}
			}
		}
	}
	if sizeStr == "" {
		c.unresolved("C14-R5", "rsaVerifyPKCS1v15", "modulus size (the value len(sig) is compared with) not found")
		return
	}
	for _, in := range sites {
		for i := 0; i < 2; i++ {
			key := fmt.Sprintf("C14-R5|rsaVerifyPKCS1v15|compare operand %d full width", i)
			if staticLenIs(Desc(callArg(in, i)), sizeStr, 0) {
				c.ok("C14-R5", key, instrPos(in), "operand has length size by construction")
			} else {
				c.violation("C14-R5", key, instrPos(in), "the encoded message is not compared at full modulus width: operand "+trunc(Desc(callArg(in, i)).String(), 120)+" is not a size-long buffer, so leading octets of the EMSA-PKCS1-v1_5 frame go unchecked")
			}
		}
	}
}

func c02Extra(c *Ctx) {
	c.Doc("C02-R9", "closestEncloserFromAggressiveNSEC: the label count that selects the encloser originates from aggressiveSharedSuffixLabels(qname, cover.owner) AND aggressiveSharedSuffixLabels(qname, cover.next) (their maximum): a name covered only through the NSEC's next name (wildcard under an empty non-terminal) is not denied")
	fn := c.fn("C02-R9", "middleware/resolver/dnssec.closestEncloserFromAggressiveNSEC")
	shared := c.fobj("C02-R9", "middleware/resolver/dnssec.aggressiveSharedSuffixLabels")
	owner := c.field("C02-R9", "middleware/resolver/dnssec.aggressiveNSECEntry.owner")
	next := c.field("C02-R9", "middleware/resolver/dnssec.aggressiveNSECEntry.next")
	suffix := c.fobj("C02-R9", "middleware/resolver/dnssec.aggressiveCanonicalName.suffix")
	if fn == nil || shared == nil || owner == nil || next == nil || suffix == nil {
		return
	}
	for _, in := range instrsWhere(fn, isPlainCallTo(suffix)) {
		hasOwner, hasNext := false, false
		for _, l := range Origins(Desc(callArg(in, 1)), nil) {
			Contains(func(x *Expr) bool {
				if CallTo(shared)(x) && x.K == ECall && len(x.Args) == 2 {
					if FieldIs(owner)(x.Args[1]) {
						hasOwner = true
					}
					if FieldIs(next)(x.Args[1]) {
						hasNext = true
					}
				}
				return false
			})(l)
		}
		key := "C02-R9|closestEncloserFromAggressiveNSEC|encloser from owner and next"
		if hasOwner && hasNext {
			c.ok("C02-R9", key, instrPos(in), "shared-suffix count drawn from both cover.owner and cover.next")
		} else {
			c.violation("C02-R9", key, instrPos(in), fmt.Sprintf("the closest encloser ignores one name of the covering NSEC (owner used=%v, next used=%v)", hasOwner, hasNext))
		}
	}
}

// C02-R10: the NSEC closest encloser keeps the LONGER of the two shared suffixes.
func c02R10(c *Ctx) {
	c.Doc("C02-R10", "closestEncloserFromNSEC: the label count that selects the closest encloser is the MAXIMUM of the suffix shared with the covering NSEC's owner and with its next name (builtin max, compare-and-assign, or helper — decided on the branch structure): taking the shorter one moves the encloser up and the real wildcard below it is never required to be denied")
	fn := c.fn("C02-R10", "middleware/resolver/dnssec.closestEncloserFromNSEC")
	hdrName := c.field("C02-R10", "github.com/miekg/dns.RR_Header.Name")
	next := c.field("C02-R10", "github.com/miekg/dns.NSEC.NextDomain")
	if fn == nil || hdrName == nil || next == nil {
		return
	}
	countOf := func(fv Pat) Pat {
		return func(e *Expr) bool {
			e = strip(e)
			if e == nil || e.K != ECall {
				return false
			}
			for _, a := range e.Args {
				if Contains(fv)(a) {
					return true
				}
			}
			return false
		}
	}
	c.FoldOfTwo("C02-R10", "C02-R10|closestEncloserFromNSEC|max(shared(owner), shared(next))", fn, countOf(FieldIs(hdrName)), countOf(FieldIs(next)), true, "shared-suffix label count")
}

func c05Extra(c *Ctx) {
	c.Doc("C05-R9", "composeWireChase: the value that decides ClearAD / WireInfo.AuthenticatedData is an AND-fold over all segments — its leaves are the constants and wireChaseSegment.ad loaded with the loop index; a fixed-index hop (segs[0].ad) is the alias-only verdict the Msg path does not use")
	fn := c.fn("C05-R9", "middleware/cache.composeWireChase")
	segAD := c.field("C05-R9", "middleware/cache.wireChaseSegment.ad")
	clearAD := c.fobj("C05-R9", "internal/wire.ClearAD")
	if fn == nil || segAD == nil || clearAD == nil {
		return
	}
	// the ad verdict: the condition of the branch that guards the first ClearAD
	n := 0
	for _, b := range fn.Blocks {
		if len(b.Instrs) == 0 {
			continue
		}
		iff, ok := b.Instrs[len(b.Instrs)-1].(*ssa.If)
		if !ok {
			continue
		}
		a, _ := Truthy(condOf(iff))
		if a == nil || !Contains(FieldIs(segAD))(a) {
			continue
		}
		// a branch directly on one segment's flag inside the loop is not the merged verdict
		if sa := strip(a); sa.K == EField && sa.X != nil && sa.X.K == EIndex && !IsAnyConst(sa.X.Y) {
			continue
		}
		n++
		varIdx, constIdx := 0, 0
		var bad []string
		for _, l := range Origins(a, nil) {
			l = strip(l)
			switch {
			case IsAnyConst(l):
			case l.K == EField && l.Var == segAD && l.X != nil && l.X.K == EIndex:
				if IsAnyConst(l.X.Y) {
					constIdx++
				} else {
					varIdx++
				}
			case l.K == EUnknown:
			default:
				bad = append(bad, l.String())
			}
		}
		key := "C05-R9|composeWireChase|AD is an AND over every segment"
		switch {
		case len(bad) > 0:
			c.violation("C05-R9", key, instrPos(iff), fmt.Sprintf("the merged AD verdict has inputs other than the segments' ad flags: %v", bad))
		case constIdx > 0 || varIdx == 0:
			c.violation("C05-R9", key, instrPos(iff), fmt.Sprintf("the merged AD verdict reads a fixed segment (constant index ×%d, loop index ×%d): AD=1 can cover an unvalidated hop", constIdx, varIdx))
		default:
			c.ok("C05-R9", key, instrPos(iff), "AD verdict folds segs[i].ad over the loop index")
		}
	}
	if n == 0 {
		c.unresolved("C05-R9", "composeWireChase AD verdict", "no branch on a value built from wireChaseSegment.ad found")
	}
}

func c06Extra(c *Ctx) {
	c.Doc("C06-R8", "prepareWireServe: wireHasDNSSEC is set only behind `record index < ANCount+NSCount` — the bound mentions both header counts — so RRSIG/NSEC/NSEC3 in the authority section mark the body as DNSSEC-bearing (the DO=0 route then serves the stripped body or declines)")
	fn := c.fn("C06-R8", "middleware/cache.prepareWireServe")
	an := c.field("C06-R8", "internal/wire.Header.ANCount")
	ns := c.field("C06-R8", "internal/wire.Header.NSCount")
	flagC := c.P.ConstVal("middleware/cache.wireHasDNSSEC")
	if fn == nil || an == nil || ns == nil || flagC == nil {
		if flagC == nil {
			c.unresolved("C06-R8", "middleware/cache.wireHasDNSSEC", "constant not found")
		}
		return
	}
	flagV, _ := constant.Int64Val(constant.ToInt(flagC))
	isSet := func(in ssa.Instruction) bool {
		bo, ok := in.(*ssa.BinOp)
		if !ok || bo.Op != token.OR {
			return false
		}
		for _, op := range []ssa.Value{bo.X, bo.Y} {
			if k, ok := op.(*ssa.Const); ok && k.Value != nil {
				if v, ok := constant.Int64Val(constant.ToInt(k.Value)); ok && v == flagV {
					return true
				}
			}
		}
		return false
	}
	ar := c.field("C06-R8", "internal/wire.Header.ARCount")
	// the bound is ANCount+NSCount: both counts, and not the additional section (the loop bound itself adds ARCount)
	both := func(e *Expr) bool {
		return Contains(FieldIs(an))(e) && Contains(FieldIs(ns))(e) && !Contains(FieldIs(ar))(e)
	}
	c.MustCross("C06-R8", fn, "flags |= wireHasDNSSEC", isSet,
		OnCmp("i < ANCount+NSCount", func(e *Expr) bool { return true }, token.LSS, both, true))
	// and the type test in front of it names all three DNSSEC types (C05-R5 checks the set); here: the flag is reachable at all
	if len(instrsWhere(fn, isSet)) == 0 {
		c.unresolved("C06-R8", "prepareWireServe", "wireHasDNSSEC is never set")
	}
}

func c18Extra(c *Ctx) {
	c.Doc("C18-R8", "BlockList.persist (and the helpers/closures it calls): every os.Remove argument originates from the temp file's name (tmp.Name()); the destination path is never removed — an interruption between an unlink and the rename would leave no local file at all")
	fn := c.fn("C18-R8", "middleware/blocklist.(*BlockList).persist")
	osRemove := c.fobj("C18-R8", "os.Remove")
	fname := c.fobj("C18-R8", "os.(*File).Name")
	if fn == nil || osRemove == nil || fname == nil {
		return
	}
	n := 0
	for _, f := range scopeFuncs(fn) {
		for _, b := range f.Blocks {
			for _, in := range b.Instrs {
				if !isCallTo(osRemove)(in) {
					continue
				}
				n++
				c.OriginCheck("C18-R8", "C18-R8|persist|os.Remove argument", in, "os.Remove argument", callArg(in, 0), nil, CallTo(fname))
			}
		}
	}
	if n == 0 {
		c.unresolved("C18-R8", "persist os.Remove", "no cleanup of the temp file found")
	}
}

func c19Extra(c *Ctx) {
	c.Doc("C19-R6", "Policy.ClampScope: every path to scope.Addr().Prefix(bits) on which the scope is an IPv4 (IPv6) prefix has evaluated the comparison of bits with p.MinScopeV4 (MinScopeV6), and every path has evaluated the comparison with source.Bits() or found the source invalid — neither clamp can pre-empt the other")
	fn := c.fn("C19-R6", "internal/ecs.(*Policy).ClampScope")
	min4 := c.field("C19-R6", "internal/ecs.Policy.MinScopeV4")
	min6 := c.field("C19-R6", "internal/ecs.Policy.MinScopeV6")
	prefixF := c.fobj("C19-R6", "net/netip.Addr.Prefix")
	is4 := c.fobj("C19-R6", "net/netip.Addr.Is4")
	is6 := c.fobj("C19-R6", "net/netip.Addr.Is6")
	pbits := c.fobj("C19-R6", "net/netip.Prefix.Bits")
	pvalid := c.fobj("C19-R6", "net/netip.Prefix.IsValid")
	if fn == nil || min4 == nil || min6 == nil || prefixF == nil || is4 == nil || is6 == nil || pbits == nil || pvalid == nil {
		return
	}
	// "comparison evaluated" = a branch whose condition compares something with the field / call; either edge counts
	bothEdges := func(name string, p Pat) []Barrier {
		m := func(e *Expr) bool {
			a, _ := Truthy(e)
			a = strip(a)
			return a != nil && a.K == EBin && (Contains(p)(a.X) || Contains(p)(a.Y))
		}
		mk := func(succ int) Barrier {
			return Barrier{Name: name, Edge: func(cnd *Expr) (bool, int) {
				if m(cnd) {
					return true, succ
				}
				return false, 0
			}}
		}
		return []Barrier{mk(0), mk(1)}
	}
	target := isPlainCallTo(prefixF)
	isSourceBits := func(e *Expr) bool {
		return CallTo(pbits)(e) && e.K == ECall && len(e.Args) == 1 && e.Args[0].K == EParam && e.Args[0].Name == "source"
	}
	sourceInvalid := OnFalse("source.IsValid()", func(e *Expr) bool {
		return CallTo(pvalid)(e) && e.K == ECall && len(e.Args) == 1 && e.Args[0].K == EParam && e.Args[0].Name == "source"
	})
	c.MustCross("C19-R6", fn, "Prefix(bits) — source clamp evaluated", target, append(bothEdges("bits vs source.Bits()", isSourceBits), sourceInvalid)...)
	// family floor: v4 scope ⇒ MinScopeV4 comparison evaluated ; v6 likewise
	c.MustCross("C19-R6", fn, "Prefix(bits) — v4 floor evaluated", target, append(bothEdges("bits vs MinScopeV4", FieldIs(min4)), OnFalse("Is4()", CallTo(is4)))...)
	c.MustCross("C19-R6", fn, "Prefix(bits) — v6 floor evaluated", target, append(bothEdges("bits vs MinScopeV6", FieldIs(min6)), OnFalse("Is6()", CallTo(is6)), OnTrue("Is4()", CallTo(is4)))...)
}

func c20Extra(c *Ctx) {
	c.Doc("C20-R7", "negativeAAAATTL: the value returned is the SOA record's TTL, or its MINIMUM taken only behind Minttl < ttl (RFC 2308 §5: the negative TTL is the minimum of the two)")
	fn := c.fn("C20-R7", "middleware/dns64.negativeAAAATTL")
	minttl := c.field("C20-R7", "github.com/miekg/dns.SOA.Minttl")
	hdrTTL := c.field("C20-R7", "github.com/miekg/dns.RR_Header.Ttl")
	if fn == nil || minttl == nil || hdrTTL == nil {
		return
	}
	n := 0
	for _, b := range fn.Blocks {
		for _, in := range b.Instrs {
			r, ok := in.(*ssa.Return)
			if !ok || len(r.Results) == 0 {
				continue // result #0 is the TTL whatever else (a presence flag) is returned with it
			}
			top := Desc(r.Results[0])
			for _, l := range Origins(top, nil) {
				if IsAnyConst(l) || FieldIs(hdrTTL)(l) {
					continue
				}
				n++
				key := "C20-R7|negativeAAAATTL|MINIMUM only when smaller"
				if !FieldIs(minttl)(l) {
					c.violation("C20-R7", key, instrPos(in), "negative TTL has an origin other than the SOA TTL / MINIMUM: "+l.String())
					continue
				}
				// the merge point that selects Minttl: the block feeding it must be behind Minttl < ttl
				guard := OnCmp("Minttl<ttl", FieldIs(minttl), token.LSS, FieldIs(hdrTTL), true)
				okG := false
				if ph, isPhi := strip(top).V.(*ssa.Phi); isPhi {
					okG = true
					for i, ev := range ph.Edges {
						if !FieldIs(minttl)(Desc(ev)) {
							continue
						}
						pred := ph.Block().Preds[i]
						term := pred.Instrs[len(pred.Instrs)-1]
						if ug, _ := c.unguarded(term, []Barrier{guard}, fn); ug {
							okG = false
						}
					}
				}
				if okG {
					c.ok("C20-R7", key, instrPos(in), "ttl = soa.Minttl only behind soa.Minttl < ttl")
				} else {
					c.violation("C20-R7", key, instrPos(in), "the SOA MINIMUM replaces the SOA TTL without the `Minttl < ttl` test: the synthesised TTL can exceed the negative TTL of the AAAA answer")
				}
			}
		}
	}
	if n == 0 {
		c.unresolved("C20-R7", "negativeAAAATTL", "no return drawing on SOA.Minttl found")
	}
}

// ---------------------------------------------------------------------------
// C05-R10 / C05-R11: sibling agreement decided statically (interval evaluation
// and table extraction) — no concrete inputs are pushed through sdns code.

func c05R10static(c *Ctx) {
	const R = "C05-R10"
	c.Doc(R, "the UDP reply ceiling is the same clamp on both ingress paths: the value stored to edns.ResponseWriter.size in the decoded branch (through dnsutil.SetEdns0) and in edns.serveWire is proven by interval evaluation to lie in exactly [MinMsgSize, DefaultMsgSize] (or is MaxMsgSize on a stream transport) — a branch with a wider or narrower range answers the same packet differently")
	a := c06Anchors(c, R)
	if a == nil {
		return
	}
	lo, ok1 := x5ConstInt64(c, R, x5DnsPkg+".MinMsgSize")
	hi, ok2 := x5ConstInt64(c, R, "internal/dnsutil.DefaultMsgSize")
	maxMsg, ok3 := x5ConstInt64(c, R, x5DnsPkg+".MaxMsgSize")
	setEdns0 := c.fn(R, "internal/dnsutil.SetEdns0")
	setEdns0Obj := c.fobj(R, "internal/dnsutil.SetEdns0")
	if !ok1 || !ok2 || !ok3 || setEdns0 == nil || setEdns0Obj == nil {
		return
	}
	ev := &x5IvalEval{results: map[string]x5Ival{}}
	// summary of SetEdns0's size result (#1)
	var acc x5Ival
	n := 0
	for _, in := range returnsWhere(setEdns0, 1, nil) {
		r := ev.eval(in.(*ssa.Return).Results[1], 0)
		if n == 0 {
			acc = r
		} else {
			acc = x5IvUnion(acc, r)
		}
		n++
	}
	if n > 0 && acc.known {
		ev.results[funcObjKey(setEdns0Obj)+"#1"] = acc
	}
	type branch struct {
		fn  string
		iv  x5Ival
		pos ssa.Instruction
	}
	var got []branch
	for _, s := range c.StoreSites(a.size) {
		// union over the non-stream alternatives of the stored value
		var u x5Ival
		first := true
		var walk func(v ssa.Value, pred, blk *ssa.BasicBlock, d int)
		seen := map[ssa.Value]bool{}
		walk = func(v ssa.Value, pred, blk *ssa.BasicBlock, d int) {
			if d > 20 {
				return
			}
			if k, ok := v.(*ssa.Const); ok && IsConstInt(maxMsg)(Desc(k)) {
				return // the stream-transport override, decided by C06-R6
			}
			if ph, ok := v.(*ssa.Phi); ok && !seen[v] {
				seen[v] = true
				for i, e := range ph.Edges {
					walk(e, ph.Block().Preds[i], ph.Block(), d+1)
				}
				return
			}
			r := ev.eval(v, 0)
			if pred != nil {
				r = ev.refine(v, pred, blk, r, 0)
			}
			if first {
				u, first = r, false
			} else {
				u = x5IvUnion(u, r)
			}
		}
		walk(s.Val, nil, nil, 0)
		if !first {
			got = append(got, branch{fnKey(TopLevel(s.Fn)), u, s.Instr})
		}
	}
	if len(got) < 2 {
		c.unresolved(R, "ResponseWriter.size stores", fmt.Sprintf("expected the decoded and the wire branch, found %d", len(got)))
		return
	}
	for _, b := range got {
		key := R + "|" + b.fn + "|UDP ceiling interval"
		if b.iv.known && b.iv.lo == lo && b.iv.hi == hi {
			c.ok(R, key, instrPos(b.pos), fmt.Sprintf("size ∈ %s = [MinMsgSize, DefaultMsgSize]", b.iv))
		} else {
			c.violation(R, key, instrPos(b.pos), fmt.Sprintf("this ingress path clamps the UDP ceiling to %s, the other to [%d,%d]: the same packet is answered differently (e.g. truncated on one path only)", b.iv, lo, hi))
		}
	}
}

// c05ECSChecks extracts, per address-family case, the rejected conditions of
// an ECS validator as tuples "octet <k> <op> <const>", resolving each compared
// quantity to the payload octet it was read from.
func c05ECSChecks(fd *ast.FuncDecl, info *types.Info, ecsOnly func(sw *ast.SwitchStmt) bool) (map[string]bool, string) {
	if fd == nil {
		return nil, "function not found"
	}
	// quantity → octet index: x = buf[k] / x = buf[off+k] / recv.Field = buf[k]
	octet := map[string]int{}
	constIdx := func(e ast.Expr) (int, bool) {
		if tv, ok := info.Types[e]; ok && tv.Value != nil {
			v, ok := constant.Int64Val(constant.ToInt(tv.Value))
			return int(v), ok
		}
		if be, ok := e.(*ast.BinaryExpr); ok && be.Op == token.ADD {
			if tv, ok := info.Types[be.Y]; ok && tv.Value != nil {
				v, ok := constant.Int64Val(constant.ToInt(tv.Value))
				return int(v), ok
			}
		}
		return 0, false
	}
	name := func(e ast.Expr) string {
		switch x := e.(type) {
		case *ast.Ident:
			return x.Name
		case *ast.SelectorExpr:
			return x.Sel.Name
		}
		return ""
	}
	ast.Inspect(fd.Body, func(n ast.Node) bool {
		as, ok := n.(*ast.AssignStmt)
		if !ok || len(as.Lhs) != len(as.Rhs) {
			return true
		}
		for i := range as.Lhs {
			if ix, ok := as.Rhs[i].(*ast.IndexExpr); ok {
				if k, ok := constIdx(ix.Index); ok && name(as.Lhs[i]) != "" {
					octet[name(as.Lhs[i])] = k
				}
			}
		}
		return true
	})
	out := map[string]bool{}
	var sw *ast.SwitchStmt
	ast.Inspect(fd.Body, func(n ast.Node) bool {
		if s, ok := n.(*ast.SwitchStmt); ok && sw == nil && s.Tag != nil && ecsOnly(s) {
			sw = s
		}
		return true
	})
	if sw == nil {
		return nil, "no switch over the address family found"
	}
	for _, st := range sw.Body.List {
		cc := st.(*ast.CaseClause)
		fam := "default"
		if len(cc.List) == 1 {
			if tv, ok := info.Types[cc.List[0]]; ok && tv.Value != nil {
				fam = tv.Value.ExactString()
			}
		}
		rejectsAll := false
		for _, s := range cc.Body {
			switch x := s.(type) {
			case *ast.ReturnStmt:
				rejectsAll = true
			case *ast.IfStmt:
				var walk func(e ast.Expr)
				walk = func(e ast.Expr) {
					e = ast.Unparen(e)
					be, ok := e.(*ast.BinaryExpr)
					if !ok {
						return
					}
					if be.Op == token.LOR {
						walk(be.X)
						walk(be.Y)
						return
					}
					k, okk := octet[name(be.X)]
					tv, okc := info.Types[be.Y]
					if okk && okc && tv.Value != nil {
						out[fmt.Sprintf("family %s: octet %d %s %s", fam, k, be.Op, tv.Value.ExactString())] = true
					}
				}
				walk(x.Cond)
			}
		}
		if rejectsAll && fam == "default" {
			out["family default: reject"] = true
		}
	}
	return out, ""
}

func c05R11static(c *Ctx) {
	const R = "C05-R11"
	c.Doc(R, "strict admission mirrors the library's ECS validation: per address family, every (payload octet, comparison, bound) that (*dns.EDNS0_SUBNET).unpack rejects is rejected by Request.parseWireOPT's client-subnet arm, read from both sources' syntax (source netmask and scope against 32 / 128, family 0 only with a zero netmask, unknown families refused)")
	lfd, lpk := c.P.FuncDecl("github.com/miekg/dns.(*EDNS0_SUBNET).unpack")
	sfd, spk := c.P.FuncDecl("middleware.(*Request).parseWireOPT")
	if lfd == nil || sfd == nil {
		c.unresolved(R, "ECS validators", "library unpack or parseWireOPT not found")
		return
	}
	isFamilySwitch := func(info *types.Info) func(sw *ast.SwitchStmt) bool {
		return func(sw *ast.SwitchStmt) bool {
			// the switch whose cases are exactly the family constants 0,1,2 (+default)
			cs := map[string]bool{}
			for _, st := range sw.Body.List {
				for _, e := range st.(*ast.CaseClause).List {
					if tv, ok := info.Types[e]; ok && tv.Value != nil {
						cs[tv.Value.ExactString()] = true
					}
				}
			}
			return len(cs) == 3 && cs["0"] && cs["1"] && cs["2"]
		}
	}
	lib, why := c05ECSChecks(lfd, lpk.TypesInfo, isFamilySwitch(lpk.TypesInfo))
	if why != "" {
		c.undecided(R, R+"|library unpack", lfd.Pos(), why)
		return
	}
	str, why := c05ECSChecks(sfd, spk.TypesInfo, isFamilySwitch(spk.TypesInfo))
	if why != "" {
		c.undecided(R, R+"|parseWireOPT", sfd.Pos(), why)
		return
	}
	if len(lib) < 6 {
		c.unresolved(R, "library ECS checks", fmt.Sprintf("expected ≥6 rejected conditions in the library, read %d: %s", len(lib), setString(lib)))
		return
	}
	for k := range lib {
		key := R + "|parseWireOPT|" + k
		if str[k] {
			c.ok(R, key, sfd.Pos(), "library rejects ["+k+"], so does strict admission")
		} else {
			c.violation(R, key, sfd.Pos(), "the library refuses ["+k+"] (the decoded path answers FORMERR) but strict admission lets the packet through: the two ingress paths disagree on which packets are refused")
		}
	}
}

func c11Extra(c *Ctx) {
	c.Doc("C11-R7", "(*Server).serveMsg — the only place that anchors a request deadline at time.Now() — is called only from (*Server).ServeMsg; the raw entry points (ServeRaw, ServeRawInline, ServeRawReplay and their fallbacks) must hand serveMsgBy the deadline derived from the packet's read time, so time spent queued is not handed back as fresh budget")
	sm := c.fobj("C11-R7", "server.(*Server).serveMsg")
	if sm == nil {
		return
	}
	c.WhoMay("C11-R7", "Server.serveMsg (fresh clock)", c.CallSites(sm), map[string]string{
		"(*server.Server).ServeMsg": "message-born ingress (DoH/DoQ/embedders): arrival time is now",
	})
	// and serveMsg itself is the only function in package server that builds a deadline from time.Now()
	now := c.fobj("C11-R7", "time.Now")
	smb := c.fobj("C11-R7", "server.(*Server).serveMsgBy")
	if now == nil || smb == nil {
		return
	}
	for _, s := range c.CallSites(smb) {
		key := "C11-R7|" + fnKey(TopLevel(s.Fn)) + "|serveMsgBy deadline"
		d := Desc(callArg(s.Instr, 5))
		usesNow := Contains(CallTo(now))(d)
		isFresh := fnKey(TopLevel(s.Fn)) == "(*server.Server).serveMsg"
		switch {
		case usesNow && !isFresh:
			c.violation("C11-R7", key, instrPos(s.Instr), "a raw entry point anchors the request deadline at time.Now() instead of the packet's read time")
		default:
			c.ok("C11-R7", key, instrPos(s.Instr), "deadline: "+trunc(d.String(), 120))
		}
	}
}

// C13-R9: the per-zone verdict "every server failed" is only reached with servers left
// untried when the reply was an NXDOMAIN.
func c13R9(c *Ctx) {
	const R = "C13-R9"
	c.Doc(R, "Resolver.lookup: from every point where one server's failing result is recorded (an append that feeds pickFallbackResponse), each path to pickFallbackResponse either re-enters an enclosing loop (next server / next result) or crosses the edge resp.Rcode == NameError — a count of error replies, a level test or any other condition alone never abandons the zone's remaining servers, so a zone failure is recorded only when every server failed")
	fn := c.fn(R, "middleware/resolver.(*Resolver).lookup")
	pick := c.fobj(R, "middleware/resolver.pickFallbackResponse")
	rcodeF := c.field(R, "github.com/miekg/dns.MsgHdr.Rcode")
	if fn == nil || pick == nil || rcodeF == nil {
		return
	}
	nx := c.P.ConstVal("github.com/miekg/dns.RcodeNameError")
	if nx == nil {
		c.unresolved(R, "dns.RcodeNameError", "constant not found")
		return
	}
	nxv, _ := constant.Int64Val(constant.ToInt(nx))
	picks := instrsWhere(fn, isPlainCallTo(pick))
	if len(picks) == 0 {
		c.unresolved(R, "lookup|pickFallbackResponse", "no call found")
		return
	}
	// values handed to pickFallbackResponse
	fed := map[ssa.Value]bool{}
	for _, p := range picks {
		for _, a := range callCommon(p).Args {
			for _, l := range Origins(Desc(a), nil) {
				if l.V != nil {
					fed[l.V] = true
				}
			}
		}
	}
	reaches := func(from, to *ssa.BasicBlock) bool {
		seen := map[*ssa.BasicBlock]bool{}
		var dfs func(b *ssa.BasicBlock) bool
		dfs = func(b *ssa.BasicBlock) bool {
			if b == to {
				return true
			}
			if seen[b] {
				return false
			}
			seen[b] = true
			for _, s := range b.Succs {
				if dfs(s) {
					return true
				}
			}
			return false
		}
		for _, s := range from.Succs {
			if dfs(s) {
				return true
			}
		}
		return false
	}
	n := 0
	for _, b := range fn.Blocks {
		for _, in := range b.Instrs {
			cl, ok := in.(*ssa.Call)
			if !ok {
				continue
			}
			bi, ok := cl.Call.Value.(*ssa.Builtin)
			if !ok || bi.Name() != "append" || !fed[cl] {
				continue
			}
			n++
			// enclosing loop headers: blocks that dominate this one and lie on a cycle with it
			heads := map[*ssa.BasicBlock]bool{}
			for _, h := range fn.Blocks {
				if h != b && h.Dominates(b) && reaches(b, h) {
					heads[h] = true
				}
			}
			loopBar := Barrier{Name: "back to an enclosing loop", Instr: func(x ssa.Instruction) bool {
				hb := x.Block()
				return heads[hb] && len(hb.Instrs) > 0 && hb.Instrs[0] == x
			}}
			nxBar := OnCmp("Rcode==NameError", FieldIs(rcodeF), token.EQL, IsConstInt(nxv), true)
			r := reach([]Point{pointAfter(in)}, []Barrier{loopBar, nxBar}, nil)
			key := R + "|lookup|failing result → fallback verdict"
			bad := false
			for _, t := range r.order {
				if isPlainCallTo(pick)(t) {
					bad = true
					c.violation(R, key, instrPos(in), "after recording a failing result the server loop can be abandoned for the fallback verdict without the reply being an NXDOMAIN: remaining (possibly healthy) servers are never asked and the caller records a zone failure; path "+c.trail(r, t))
					break
				}
			}
			if !bad {
				c.ok(R, key, instrPos(in), "the loop is left early only across Rcode == NameError")
			}
		}
	}
	if n < 3 {
		c.unresolved(R, "lookup|failure records", fmt.Sprintf("expected the three failure lists (response, config, fatal) to be appended to, found %d", n))
	}
}

// C14-R6: the encoded-size refusal is exact for wrapped (CR/LF-carrying) keys too.
func c14R6(c *Ctx) {
	const R = "C14-R6"
	const pkg = "middleware/resolver/dnssec"
	c.Doc(R, "oversizedKeyMaterial (and an unexported helper it returns the verdict of): a constant `return false` is reached only across len(key) <= limit, or across the exit of a loop whose counter ran to len(key) — and in that loop a counter compared `> limit` leads to `return true` and nowhere else; dsDigestMatches and KeyTag rely on this answer before decoding, so a wrapped key with more than maxDSKeyMaterial octets can never match a DS the library would not produce")
	top := c.fn(R, pkg+".oversizedKeyMaterial")
	if top == nil {
		return
	}
	anyP := func(e *Expr) bool { return e != nil }
	counter := func(e *Expr) bool {
		e = strip(e)
		return e != nil && (e.K == EPhi || (e.K == EBin && e.Op == token.ADD))
	}
	retFalse := isReturnWith(0, IsConstBool(false))
	judged := 0
	var check func(fn *ssa.Function, keyIdx int, depth int)
	check = func(fn *ssa.Function, keyIdx int, depth int) {
		p0 := func(e *Expr) bool { e = strip(e); return e != nil && e.K == EParam && e.Idx == keyIdx }
		// the verdict may be delegated: return helper(key, …)
		if depth < 2 {
			for _, in := range instrsWhere(fn, isReturn) {
				r := in.(*ssa.Return)
				if in.Parent() != fn || len(r.Results) != 1 {
					continue
				}
				if cl, ok := r.Results[0].(*ssa.Call); ok {
					if h := localHelper(fn, &cl.Call); h != nil {
						for i, a := range cl.Call.Args {
							if p0(Desc(a)) {
								check(h, i, depth+1)
							}
						}
					}
				}
			}
		}
		if len(instrsWhere(fn, func(in ssa.Instruction) bool { return in.Parent() == fn && retFalse(in) })) == 0 {
			return
		}
		judged++
		within := OnCmp("len(key)<=limit", c14LenOf(p0), token.LEQ, anyP, true)
		scanned := OnCmp("index ran to len(key)", counter, token.LSS, c14LenOf(p0), false)
		rangeDone := OnFalse("range over the string exhausted", func(e *Expr) bool {
			e = strip(e)
			return e != nil && e.K == EExtract && e.Idx == 0 && e.X != nil && e.X.K == ERange
		})
		c.MustCross(R, fn, "return false", retFalse, within, scanned, rangeDone)
		if len(edgePoints(fn, scanned))+len(edgePoints(fn, rangeDone)) > 0 {
			over := OnCmp("counter>limit", counter, token.GTR, anyP, true)
			if len(edgePoints(fn, over)) == 0 {
				c.violation(R, R+"|"+fn.Name()+"|counter guard", fn.Pos(), "the scan over the key never compares the counted material with the limit: every wrapped key is reported as within bounds")
			} else {
				c.AfterEdge(R, fn, "counted material above the limit is not answered with true", over, func(in ssa.Instruction) bool {
					r, ok := in.(*ssa.Return)
					return ok && len(r.Results) == 1 && !IsConstBool(true)(Desc(r.Results[0]))
				})
			}
		}
	}
	check(top, 0, 0)
	if judged == 0 {
		c.ok(R, R+"|oversizedKeyMaterial|no constant false", top.Pos(), "the verdict is a computed comparison, not a constant false (shape not judged by this rule)")
	}
}

// C15-R7: the selected OPT is shimmed wherever it is referenced.
func c15R7(c *Ctx) {
	const R = "C15-R7"
	c.Doc(R, "packState.packInto: starting at the record's *dns.OPT type assertion, the copy carrying the extended rcode (store to packState.opt) is taken exactly when the assertion holds and the pointer equals the selected OPT, and dns.PackRR is reached directly otherwise — decided as a decision table over those two atoms; any further condition (section index, position) would pack an aliased OPT with the caller's stale TTL where the library packs the rewritten one")
	fn := c.fn(R, "internal/wire.(*packState).packInto")
	optF := c.field(R, "internal/wire.packState.opt")
	packRR := c.fobj(R, "github.com/miekg/dns.PackRR")
	if fn == nil || optF == nil || packRR == nil {
		return
	}
	n := 0
	// the per-record body (assertion, copy, PackRR) may live in packInto or in an unexported
	// helper it was extracted into: the table is read wherever the assertion is, and "the
	// selected OPT" is then the helper parameter that every call binds to a parameter of packInto
	for _, g := range scopeFuncs(fn) {
		var acts [][]*Expr
		if top := TopLevel(g); top != fn {
			acts = helperActivations(fn, top)
			if len(acts) == 0 {
				continue
			}
		}
		for _, b := range g.Blocks {
			for _, in := range b.Instrs {
				ta, ok := in.(*ssa.TypeAssert)
				if !ok || !ta.CommaOk {
					continue
				}
				pt, ok := ta.AssertedType.(*types.Pointer)
				if !ok {
					continue
				}
				nm, ok := pt.Elem().(*types.Named)
				if !ok || nm.Obj().Name() != "OPT" {
					continue
				}
				n++
				isOK := func(e *Expr) bool {
					e = strip(e)
					return e != nil && e.K == EExtract && e.Idx == 1 && e.X != nil && e.X.V == ssa.Value(ta)
				}
				isO := func(e *Expr) bool {
					e = strip(e)
					return e != nil && e.K == EExtract && e.Idx == 0 && e.X != nil && e.X.V == ssa.Value(ta)
				}
				isSel := func(e *Expr) bool {
					e = strip(e)
					if e == nil || e.K != EParam {
						return false
					}
					for _, args := range acts {
						if a := strip(inActivation(e, args)); a == nil || a.K != EParam {
							return false
						}
					}
					return true
				}
				atoms := []CmpAtom{{Name: "is *dns.OPT", Lhs: isOK, Op: token.ILLEGAL}, {Name: "o == opt", Lhs: isO, Rhs: isSel, Op: token.EQL}}
				key := R + "|packInto|selected OPT substitution"
				tab, why := DecisionTable(pointAfter(in), atoms, func(x ssa.Instruction) string {
					if isFieldStore(x, optF, nil) {
						return "copy"
					}
					if isPlainCallTo(packRR)(x) {
						return "plain"
					}
					return ""
				})
				if why != "" {
					c.violation(R, key, instrPos(in), "the substitution of the selected OPT depends on something other than the type assertion and the pointer identity: "+why)
					continue
				}
				bad := ""
				for row := range tab {
					A, B := row&1 != 0, row&2 != 0
					want := "plain"
					if A && B {
						want = "copy"
					}
					if tab[row] != want {
						bad = fmt.Sprintf("is-OPT=%v, same pointer=%v → %s (want %s)", A, B, tab[row], want)
					}
				}
				if bad != "" {
					c.violation(R, key, instrPos(in), "selected OPT substitution table is wrong: "+bad)
				} else {
					c.ok(R, key, instrPos(in), "copy ⇔ (rr is *dns.OPT ∧ rr == selected OPT), in every section")
				}
			}
		}
	}
	if n == 0 {
		c.unresolved(R, "packInto|OPT type assertion", "no comma-ok assertion to *dns.OPT found")
	}
}

// C18-R9: nothing that failed to reach the temp file is renamed over the destination.
func c18R9(c *Ctx) {
	const R = "C18-R9"
	c.Doc(R, "BlockList.persist: every error-returning call that touches the temp file (the file itself, a writer wrapping it, or a helper handed either) has its error tested, and the error edge cannot reach os.Rename (inside such a helper: cannot reach a nil-error return); the only errors that may go untested are a bufio.Writer's intermediate writes (sticky, reported by the tested Flush) — so a short write (ENOSPC, quota) leaves the previous complete file in place")
	fn := c.fn(R, "middleware/blocklist.(*BlockList).persist")
	createTemp := c.fobj(R, "os.CreateTemp")
	rename := c.fobj(R, "os.Rename")
	remove := c.fobj(R, "os.Remove")
	fname := c.fobj(R, "os.(*File).Name")
	if fn == nil || createTemp == nil || rename == nil || remove == nil || fname == nil {
		return
	}
	errT := types.Universe.Lookup("error").Type()
	n := 0
	// scan one function: `touch` says which values are the temp file (or wrap it); `forbidden`
	// is what an error edge (or a dropped error) must not reach
	var scan func(f *ssa.Function, touch Pat, forbidden func(ssa.Instruction) bool, what string, depth int)
	scan = func(f *ssa.Function, touch Pat, forbidden func(ssa.Instruction) bool, what string, depth int) {
		for _, b := range f.Blocks {
			for _, in := range b.Instrs {
				cl, ok := in.(*ssa.Call)
				if !ok || callIs(&cl.Call, rename, remove, fname, createTemp) {
					continue
				}
				var sig *types.Signature
				if cl.Call.IsInvoke() {
					sig, _ = cl.Call.Method.Type().(*types.Signature)
				} else {
					sig, _ = cl.Call.Value.Type().Underlying().(*types.Signature)
				}
				if sig == nil || sig.Results().Len() == 0 || !types.Identical(sig.Results().At(sig.Results().Len()-1).Type(), errT) {
					continue
				}
				touches := cl.Call.IsInvoke() && touch(Desc(cl.Call.Value))
				var touchIdx []int
				for i, a := range cl.Call.Args {
					if touch(Desc(a)) {
						touches = true
						touchIdx = append(touchIdx, i)
					}
				}
				if !touches {
					continue
				}
				n++
				var errVal ssa.Value = cl
				if sig.Results().Len() > 1 {
					errVal = nil
					if cl.Referrers() != nil {
						for _, r := range *cl.Referrers() {
							if ex, ok := r.(*ssa.Extract); ok && ex.Index == sig.Results().Len()-1 {
								errVal = ex
							}
						}
					}
				}
				name := "call"
				if fo, _, _ := calleeObj(&cl.Call); fo != nil {
					name = fo.Name()
				} else if cl.Call.IsInvoke() {
					name = cl.Call.Method.Name()
				}
				// a helper handed the file: its nil-error result must imply every write inside succeeded
				if h := localHelper(f, &cl.Call); h != nil && depth < 2 && len(touchIdx) > 0 {
					idxs := touchIdx
					isParamAt := func(e *Expr) bool {
						return Contains(func(x *Expr) bool {
							if x.K != EParam {
								return false
							}
							for _, i := range idxs {
								if x.Idx == i {
									return true
								}
							}
							return false
						})(e)
					}
					ri := sig.Results().Len() - 1
					scan(h, isParamAt, func(x ssa.Instruction) bool {
						r, ok := x.(*ssa.Return)
						if !ok || ri >= len(r.Results) {
							return false
						}
						for _, l := range Origins(Desc(r.Results[ri]), nil) {
							if IsNilConst(l) {
								return true
							}
						}
						return false
					}, "helper "+h.Name()+" reports success", depth+1)
				}
				key := fmt.Sprintf("%s|%s|%s on the temp file", R, f.Name(), name)
				var edge Barrier
				tested := false
				if errVal != nil {
					ev := errVal
					edge = OnTrue(name+" err", func(e *Expr) bool { e = strip(e); return e != nil && e.V == ev })
					tested = len(edgePoints(f, edge)) > 0
				}
				if tested {
					c.AfterEdge(R, f, name+" failed, yet "+what, edge, forbidden)
					continue
				}
				// returned as the function's own error: the caller tests it
				if errVal != nil && f != fn {
					returned := true
					if errVal.Referrers() != nil {
						for _, r := range *errVal.Referrers() {
							if _, ok := r.(*ssa.Return); !ok {
								if _, isPhi := r.(*ssa.Phi); !isPhi {
									returned = false
								}
							}
						}
					}
					if returned && errVal.Referrers() != nil && len(*errVal.Referrers()) > 0 {
						c.ok(R, key, instrPos(in), "error handed back to the caller")
						continue
					}
				}
				sticky := false
				if fo, _, _ := calleeObj(&cl.Call); fo != nil && fo.Pkg() != nil && fo.Pkg().Path() == "bufio" && methodOn(fo, "Writer") && fo.Name() != "Flush" {
					sticky = true
				}
				r := reach([]Point{pointAfter(in)}, nil, nil)
				reaches := false
				for _, t := range r.order {
					if forbidden(t) {
						reaches = true
						break
					}
				}
				switch {
				case sticky:
					c.ok(R, key, instrPos(in), "buffered write: the error is sticky and reported by Flush")
				case reaches:
					c.violation(R, key, instrPos(in), name+"'s error is dropped, yet "+what+": a short write replaces the previous complete file with a truncated one")
				default:
					c.ok(R, key, instrPos(in), "error unchecked on a path that never completes the replacement")
				}
			}
		}
	}
	scan(fn, Contains(ResultOf(0, createTemp)), isCallTo(rename), "the temp file is renamed over the destination", 0)
	if n < 2 {
		c.unresolved(R, "persist|temp-file operations", fmt.Sprintf("expected writes / Sync / Close on the temp file, found %d", n))
	}
}

// C20-R8: the well-known verdict is read from the final prefix set.
func c20R8(c *Ctx) {
	const R = "C20-R8"
	c.Doc(R, "dns64.compileConfig: after compiled.hasWellKnown() has been consulted (it decides whether the IPv4 exclusion ranges of the well-known prefix are loaded) no store to compiled.prefixes is reachable — the defaulted 64:ff9b::/96 is in place before the verdict, so special-use IPv4 addresses are never translated under a prefix that was only defaulted")
	fn := c.fn(R, "middleware/dns64.compileConfig")
	hasWK := c.fobj(R, "middleware/dns64.(*compiled).hasWellKnown")
	prefF := c.field(R, "middleware/dns64.compiled.prefixes")
	if fn == nil || hasWK == nil || prefF == nil {
		return
	}
	storesPrefixes := func(f *ssa.Function) bool {
		for _, g := range WithAnons(f) {
			if len(instrsWhere(g, func(in ssa.Instruction) bool { return in.Parent() == g && isFieldStore(in, prefF, nil) })) > 0 {
				return true
			}
		}
		return false
	}
	closureOf := func(v ssa.Value) *ssa.Function {
		switch x := v.(type) {
		case *ssa.MakeClosure:
			f, _ := x.Fn.(*ssa.Function)
			return f
		case *ssa.Function:
			return x
		}
		return nil
	}
	deferredStore := false
	for _, b := range fn.Blocks {
		for _, in := range b.Instrs {
			if d, ok := in.(*ssa.Defer); ok {
				if f := closureOf(d.Call.Value); f != nil && f.Parent() == fn && storesPrefixes(f) {
					deferredStore = true
				}
			}
		}
	}
	c.MustCrossFrom(R, fn, "prefix set changed after the well-known verdict", func(in ssa.Instruction) bool { return in.Parent() == fn && isCallTo(hasWK)(in) }, func(in ssa.Instruction) bool {
		if in.Parent() != fn {
			return false
		}
		if isFieldStore(in, prefF, nil) {
			return true
		}
		// a closure of compileConfig that rewrites the prefix set, called here — or deferred, i.e. run at every return
		if cl, ok := in.(*ssa.Call); ok {
			if f := closureOf(cl.Call.Value); f != nil && f.Parent() == fn && storesPrefixes(f) {
				return true
			}
		}
		if _, ok := in.(*ssa.Return); ok && deferredStore {
			return true
		}
		if _, ok := in.(*ssa.RunDefers); ok && deferredStore {
			return true
		}
		return false
	})
}

// C09-R11: a revocation is honoured from every state in which the key is still published.
func c09R11(c *Ctx) {
	const R = "C09-R11"
	const pkg = "middleware/resolver"
	c.Doc(R, "revocation covers every live anchor: LIVE is read off the code as the set of State constants S for which the append feeding Resolver.rootKeys is reachable when the entry's State equals S (today Valid and Missing); for each such S, (AutoTA) the X.State = StateRevoked store and (stageRevocationSelfSignatures) the revocationIsSelfSignedWithWork call are reachable when the old anchor's State equals S — path feasibility over the State-equality atoms only, nothing executed. A site that drops one live state leaves a revoked key published")
	stateF := c.field(R, pkg+".TrustAnchor.State")
	dnskeyF := c.field(R, pkg+".TrustAnchor.DNSKey")
	rootKeysF := c.field(R, pkg+".Resolver.rootKeys")
	auto := c.fn(R, pkg+".(*Resolver).AutoTA")
	selfSigned := c.fobj(R, pkg+".revocationIsSelfSignedWithWork")
	stage, _ := c09StagingFn(c, R, auto, selfSigned) // the function AutoTA stages with, whatever its name
	stT := c.P.TypeName(pkg + ".State")
	if stateF == nil || dnskeyF == nil || rootKeysF == nil || auto == nil || stage == nil || selfSigned == nil || stT == nil {
		return
	}
	// the State constants
	type stc struct {
		name string
		val  int64
	}
	var states []stc
	if pk := c.P.ByPath[c.P.expand(pkg)]; pk != nil {
		sc := pk.Types.Scope()
		for _, nm := range sc.Names() {
			if k, ok := sc.Lookup(nm).(*types.Const); ok && types.Identical(k.Type(), stT.Type()) {
				if v, ok := constant.Int64Val(constant.ToInt(k.Val())); ok {
					states = append(states, stc{nm, v})
				}
			}
		}
	}
	if len(states) < 4 {
		c.unresolved(R, "State constants", fmt.Sprintf("found %d", len(states)))
		return
	}
	// assume(base, S): barriers making every edge infeasible that contradicts <base>.State == S
	assume := func(base string, S int64) []Barrier {
		onState := func(e *Expr) bool {
			e = strip(e)
			return e != nil && e.K == EField && e.Var == stateF && (base == "" || (e.X != nil && e.X.String() == base))
		}
		var bars []Barrier
		for _, k := range states {
			if k.val == S {
				bars = append(bars, OnCmp(fmt.Sprintf("State!=%s", k.name), onState, token.EQL, IsConstInt(k.val), false))
			} else {
				bars = append(bars, OnCmp(fmt.Sprintf("State==%s", k.name), onState, token.EQL, IsConstInt(k.val), true))
			}
		}
		return bars
	}
	feasible := func(target ssa.Instruction, fn *ssa.Function, base string, S int64) bool {
		ug, _ := c.unguarded(target, assume(base, S), fn)
		return ug
	}
	// 1. LIVE: appends of <x>.DNSKey that feed a rootKeys store
	fed := map[ssa.Value]bool{}
	for _, s := range c.StoreSites(rootKeysF) {
		if TopLevel(s.Fn) != auto {
			continue
		}
		for _, l := range Origins(Desc(s.Val), func(e *Expr) []int {
			if x5IsBuiltinCall(e, "append") {
				return []int{0}
			}
			return nil
		}) {
			_ = l
		}
		Contains(func(x *Expr) bool {
			if x.V != nil {
				fed[x.V] = true
			}
			return false
		})(Desc(s.Val))
	}
	type feed struct {
		in   ssa.Instruction
		base string
	}
	var feeds []feed
	for _, b := range auto.Blocks {
		for _, in := range b.Instrs {
			cl, ok := in.(*ssa.Call)
			if !ok {
				continue
			}
			bi, ok := cl.Call.Value.(*ssa.Builtin)
			if !ok || bi.Name() != "append" || !fed[cl] || len(cl.Call.Args) < 2 {
				continue
			}
			var base string
			Contains(func(x *Expr) bool {
				if x.K == EField && x.Var == dnskeyF && x.X != nil {
					base = x.X.String()
				}
				return false
			})(Desc(cl.Call.Args[1]))
			if base != "" {
				feeds = append(feeds, feed{in, base})
			}
		}
	}
	if len(feeds) == 0 {
		c.unresolved(R, "AutoTA|rootKeys feed", "no append of an anchor's DNSKey that flows into Resolver.rootKeys was found")
		return
	}
	var live []stc
	for _, S := range states {
		for _, f := range feeds {
			if feasible(f.in, auto, f.base, S.val) {
				live = append(live, S)
				break
			}
		}
	}
	if len(live) == 0 || len(live) == len(states) {
		c.undecided(R, R+"|AutoTA|live set", auto.Pos(), fmt.Sprintf("the published-state set could not be read (%d of %d states feasible)", len(live), len(states)))
		return
	}
	var liveNames []string
	for _, S := range live {
		liveNames = append(liveNames, S.name)
	}
	c.ok(R, R+"|AutoTA|live set", auto.Pos(), "states published into rootKeys: "+strings.Join(liveNames, ", "))
	// 2. the revocation store in AutoTA
	var revV int64 = -1
	for _, S := range states {
		if S.name == "StateRevoked" {
			revV = S.val
		}
	}
	nrev := 0
	for _, in := range instrsWhere(auto, func(in ssa.Instruction) bool { return isFieldStore(in, stateF, IsConstInt(revV)) }) {
		st := in.(*ssa.Store)
		fa, ok := st.Addr.(*ssa.FieldAddr)
		if !ok {
			continue
		}
		base := Desc(fa.X).String()
		// only revocations decided downstream of a fetched REVOKE bit: the base is compared with live states somewhere
		guarded := false
		for _, S := range states {
			if !feasible(in, in.Parent(), base, S.val) {
				guarded = true
			}
		}
		if !guarded {
			continue // an unconditional marker write (migration / tombstone sweep), not the RevBit transition
		}
		nrev++
		for _, S := range live {
			key := fmt.Sprintf("%s|AutoTA|%s + RevBit → Revoked", R, S.name)
			if feasible(in, in.Parent(), base, S.val) {
				c.ok(R, key, instrPos(in), "the revocation transition is reachable from "+S.name)
			} else {
				c.violation(R, key, instrPos(in), "an anchor in state "+S.name+" is still published as a trust anchor, yet its accepted revocation is never applied from that state")
			}
		}
	}
	if nrev == 0 {
		c.unresolved(R, "AutoTA|revocation store", "no state-guarded X.State = StateRevoked store found")
	}
	// 3. staging
	calls := instrsWhere(stage, isPlainCallTo(selfSigned))
	if len(calls) == 0 {
		c.unresolved(R, "stageRevocationSelfSignatures|self-signature check", "no call found")
	}
	for _, in := range calls {
		for _, S := range live {
			key := fmt.Sprintf("%s|stageRevocationSelfSignatures|%s anchor's revocation is staged", R, S.name)
			if feasible(in, stage, "", S.val) {
				c.ok(R, key, instrPos(in), "self-signature verification is reachable for an old anchor in "+S.name)
			} else {
				c.violation(R, key, instrPos(in), "the self-signature of a revocation is never verified when the old anchor is in state "+S.name+": the consumer finds no staged verdict and ignores the revocation, the key stays published")
			}
		}
	}
}

// C12-R7: an over-budget request tree is not rescued by the fallback resolvers.
func c12R7(c *Ctx) {
	const R = "C12-R7"
	c.Doc(R, "failover.(*ResponseWriter).WriteMsg: every dnsclient.(*Client).Exchange (the fallback query) is behind the nil edge of middleware.RecursionWorkEnforcementError(ctx) — once the request tree's ledger latched a rejection (outbound, internal or DNSSEC budget), the client gets the SERVFAIL with its EDE, never an answer obtained by spending more work")
	fn := c.fn(R, "middleware/failover.(*ResponseWriter).WriteMsg")
	ex := c.fobj(R, "internal/dnsclient.(*Client).Exchange")
	enf := c.fobj(R, "middleware.RecursionWorkEnforcementError")
	if fn == nil || ex == nil || enf == nil {
		return
	}
	c.MustCross(R, fn, "fallback exchange", isCallTo(ex), OnFalse("RecursionWorkEnforcementError(ctx)", CallTo(enf)))
}

// C12-R8: the chase bound is loop-carried.
func c12R8(c *Ctx) {
	const R = "C12-R8"
	c.Doc(R, "Cache.additionalAnswer: from the internalExchange call every path back to the head of the loop that contains it crosses the true edge of `counter > 0` (or != 0 / >= 1), where counter is loop-carried — a phi merging a constant from outside the loop with its own decrement; a counter re-initialised inside the loop never runs out and an endless chain of distinct alias names is chased until the deadline")
	fn := c.fn(R, "middleware/cache.(*Cache).additionalAnswer")
	ie := c.fobj(R, "middleware/cache.(*Cache).internalExchange")
	if fn == nil || ie == nil {
		return
	}
	var isCounter func(v ssa.Value, d int) bool
	isCounter = func(v ssa.Value, d int) bool {
		if d > 6 {
			return false
		}
		switch x := v.(type) {
		case *ssa.BinOp:
			if x.Op == token.SUB {
				// counter - 1, or counter - <what the sub-query consumed> (F-C12-1: the
				// adequacy of the step is C12-R9's business; here the tested value only has
				// to be the loop-carried counter after its debit)
				return isCounter(x.X, d+1)
			}
		case *ssa.Phi:
			hasConst, hasDec := false, false
			for _, e := range x.Edges {
				switch y := e.(type) {
				case *ssa.Const:
					hasConst = true
				case *ssa.BinOp:
					if y.Op == token.SUB {
						// the decrement of this very phi (possibly through further phis)
						seen := map[ssa.Value]bool{}
						var back func(w ssa.Value) bool
						back = func(w ssa.Value) bool {
							if w == ssa.Value(x) {
								return true
							}
							if seen[w] {
								return false
							}
							seen[w] = true
							switch z := w.(type) {
							case *ssa.Phi:
								for _, e2 := range z.Edges {
									if back(e2) {
										return true
									}
								}
							case *ssa.BinOp:
								return back(z.X)
							}
							return false
						}
						if back(y.X) {
							hasDec = true
						}
					}
				case *ssa.Phi:
					if isCounter(y, d+1) {
						hasDec = true
					}
				}
			}
			return hasConst && hasDec
		}
		return false
	}
	counterPat := func(e *Expr) bool { e = strip(e); return e != nil && e.V != nil && isCounter(e.V, 0) }
	left := []Barrier{
		OnCmp("counter>0", counterPat, token.GTR, IsConstInt(0), true),
		OnCmp("counter!=0", counterPat, token.NEQ, IsConstInt(0), true),
		OnCmp("counter>=1", counterPat, token.GEQ, IsConstInt(1), true),
	}
	reachesBlk := func(from, to *ssa.BasicBlock) bool {
		seen := map[*ssa.BasicBlock]bool{}
		var dfs func(b *ssa.BasicBlock) bool
		dfs = func(b *ssa.BasicBlock) bool {
			if b == to {
				return true
			}
			if seen[b] {
				return false
			}
			seen[b] = true
			for _, s := range b.Succs {
				if dfs(s) {
					return true
				}
			}
			return false
		}
		for _, s := range from.Succs {
			if dfs(s) {
				return true
			}
		}
		return false
	}
	n := 0
	for _, in := range instrsWhere(fn, isCallTo(ie)) {
		if in.Parent() != fn {
			continue
		}
		b := in.Block()
		heads := map[*ssa.BasicBlock]bool{}
		for _, h := range fn.Blocks {
			if (h == b || h.Dominates(b)) && reachesBlk(b, h) {
				heads[h] = true
			}
		}
		key := R + "|additionalAnswer|chase loop bound"
		if len(heads) == 0 {
			c.ok(R, key, instrPos(in), "the sub-query is not inside a loop")
			n++
			continue
		}
		n++
		r := reach([]Point{pointAfter(in)}, left, nil)
		bad := false
		for _, t := range r.order {
			hb := t.Block()
			if heads[hb] && hb.Instrs[0] == t {
				bad = true
				c.violation(R, key, instrPos(in), "the chase loop is re-entered without crossing `counter > 0` on a loop-carried counter: the hop bound restarts (or is absent), so the work of one alias chase is unbounded; path "+c.trail(r, t))
				break
			}
		}
		if !bad {
			c.ok(R, key, instrPos(in), "every way back to the loop head crosses `counter > 0` on a loop-carried counter")
		}
	}
	if n == 0 {
		c.unresolved(R, "additionalAnswer|internalExchange", "no call found")
	}
}

// C01-R12: the DNSKEY RRset cannot vouch for itself.
func c01R12(c *Ctx) {
	const R = "C01-R12"
	c.Doc(R, "Resolver.verifyDNSSEC: the key map handed to dnssec.VerifyRRSIGWithWork is, on every route where the message being validated IS the DNSKEY response the keys were read from (msg == resp), the result of a dnssec function that was given the parent DS set (the DS-matched keys); the locally collected map of every DNSKEY in the response reaches the verifier only across msg != resp, i.e. after those keys were authenticated by the DNSKEY sub-query. Otherwise any key an on-path attacker appends to the DNSKEY RRset can sign the RRset and everything below it (RFC 4035 §5.2)")
	fn := c.fn(R, "middleware/resolver.(*Resolver).verifyDNSSEC")
	verify := c.fobj(R, "middleware/resolver/dnssec.VerifyRRSIGWithWork")
	if fn == nil || verify == nil {
		return
	}
	isResp := func(e *Expr) bool { e = strip(e); return e != nil && e.K == EParam && e.Name == "resp" }
	isDSParam := func(e *Expr) bool { e = strip(e); return e != nil && e.K == EParam && e.Name == "parentdsRR" }
	notSame := []Barrier{
		OnCmp("msg!=resp", func(e *Expr) bool { return e != nil }, token.EQL, isResp, false),
	}
	dsMatched := func(v ssa.Value) bool {
		e := strip(Desc(v))
		if e == nil {
			return false
		}
		call := e
		if e.K == EExtract {
			call = strip(e.X)
		}
		if call == nil || call.K != ECall || call.Fn == nil || call.Fn.Pkg() == nil || !strings.HasSuffix(call.Fn.Pkg().Path(), "/resolver/dnssec") {
			return false
		}
		for _, a := range call.Args {
			if Contains(isDSParam)(a) {
				return true
			}
		}
		return false
	}
	n := 0
	for _, in := range instrsWhere(fn, isPlainCallTo(verify)) {
		if in.Parent() != fn {
			continue
		}
		n++
		key := R + "|verifyDNSSEC|key set that verifies the signer's own DNSKEY response"
		bad := ""
		seen := map[ssa.Value]bool{}
		var walk func(v ssa.Value, guarded bool)
		walk = func(v ssa.Value, guarded bool) {
			if seen[v] && !guarded {
				return
			}
			seen[v] = true
			switch x := v.(type) {
			case *ssa.Phi:
				for i, e := range x.Edges {
					g := guarded || c.edgeGuarded(x.Block().Preds[i], x.Block(), notSame, fn)
					walk(e, g)
				}
			case *ssa.MakeMap:
				if !guarded {
					bad = "the map of every DNSKEY found in the response (built at " + c.P.pos(x.Pos()) + ")"
				}
			default:
				if guarded || dsMatched(v) {
					return
				}
				bad = "a key set of unknown origin: " + trunc(Desc(v).String(), 120)
			}
		}
		ug, _ := c.unguarded(in, notSame, fn)
		walk(callArg(in, 1), !ug)
		if bad != "" {
			c.violation(R, key, instrPos(in), "on the route where the validated message is the signer's own DNSKEY response (msg == resp) the signature may be checked against "+bad+": a key that merely appears in the RRset vouches for the RRset; only DS-matched keys may (RFC 4035 §5.2)")
		} else {
			c.ok(R, key, instrPos(in), "the unauthenticated key set reaches the verifier only across msg != resp; on msg == resp the keys come from the DS match")
		}
	}
	if n == 0 {
		c.unresolved(R, "verifyDNSSEC|VerifyRRSIGWithWork", "no call found")
	}
}

// C02-R11: an empty non-terminal is not "covered".
func c02R11(c *Ctx) {
	const R = "C02-R11"
	c.Doc(R, "dnssec.nsecCovers(owner, next, name): there is a boolean test relating exactly (next, name) — a descendant/suffix relation, which canonical ordering alone cannot express because an ancestor sorts directly before its descendants — such that on one of its edges no possibly-true return is reachable and every possibly-true return lies behind the other edge. Without it `a.example. NSEC x.b.example.` \"covers\" b.example. and an NXDOMAIN for the empty non-terminal b.example. validates")
	fn := c.fn(R, "middleware/resolver/dnssec.nsecCovers")
	if fn == nil {
		return
	}
	idx := map[string]int{}
	for i, p := range fn.Params {
		idx[p.Name()] = i
	}
	in, okN := idx["next"]
	im, okM := idx["name"]
	key := R + "|nsecCovers|next-below-name test"
	if !okN || !okM {
		c.unresolved(R, "nsecCovers|parameters", "parameters next / name not found")
		return
	}
	isP := func(i int) Pat {
		return func(e *Expr) bool { e = strip(e); return e != nil && e.K == EParam && e.Idx == i }
	}
	rel := func(e *Expr) bool {
		e = strip(e)
		if e == nil || e.K != ECall || e.V == nil {
			return false
		}
		if b, ok := e.V.Type().Underlying().(*types.Basic); !ok || b.Kind() != types.Bool {
			return false
		}
		hasN, hasM, other := false, false, false
		for _, a := range e.Args {
			switch {
			case Contains(isP(in))(a):
				hasN = true
			case Contains(isP(im))(a):
				hasM = true
			default:
				if Contains(func(x *Expr) bool { return x.K == EParam })(a) {
					other = true
				}
			}
		}
		return hasN && hasM && !other
	}
	mayTrue := func(x ssa.Instruction) bool {
		r, ok := x.(*ssa.Return)
		return ok && len(r.Results) == 1 && !IsConstBool(false)(Desc(r.Results[0]))
	}
	good := false
	for _, pol := range []bool{true, false} {
		var refuse, admit Barrier
		if pol {
			refuse, admit = OnTrue("rel(next,name)", rel), OnFalse("rel(next,name)", rel)
		} else {
			refuse, admit = OnFalse("rel(next,name)", rel), OnTrue("rel(next,name)", rel)
		}
		pts := edgePoints(fn, refuse)
		if len(pts) == 0 {
			continue
		}
		ok := true
		for _, pt := range pts {
			r := reach([]Point{pt}, nil, nil)
			for _, t := range r.order {
				if mayTrue(t) {
					ok = false
				}
			}
		}
		for _, t := range instrsWhere(fn, mayTrue) {
			if ug, _ := c.unguarded(t, []Barrier{admit}, fn); ug {
				ok = false
			}
		}
		if ok {
			good = true
		}
	}
	if good {
		c.ok(R, key, fn.Pos(), "a name whose NSEC successor lies below it is never reported as covered")
	} else {
		c.violation(R, key, fn.Pos(), "nsecCovers decides by canonical order alone: an NSEC whose next name is a descendant of the tested name (the name is an empty non-terminal and EXISTS) is reported as covering it, so a replayed `a.example. NSEC x.b.example.` plus the apex NSEC validates NXDOMAIN for b.example.")
	}
}

// C01-R13: the chain of trust starts at the anchors also for replies the root servers give themselves.
func c01R13(c *Ctx) {
	const R = "C01-R13"
	const res = "middleware/resolver"
	c.Doc(R, "Resolver.answer / Resolver.authority: the DS set passed to isZoneSecure, findDS and provenInsecureDelegation has, among its origins, the root trust anchors (a dsRRFromRootKeys result, directly or through a same-package helper that calls it) — not the raw parentDS parameter alone. Resolution starts at the root with an empty parentDS; without the anchor a non-referral reply from the root servers that is unsigned or signed by a zone below the root is taken for 'insecure' and relayed unvalidated")
	rootDS := c.fobj(R, res+".(*Resolver).dsRRFromRootKeys")
	if rootDS == nil {
		return
	}
	consumers := []*types.Func{c.fobj(R, res+".(*Resolver).isZoneSecure"), c.fobj(R, res+".(*Resolver).findDS"), c.fobj(R, res+".(*Resolver).provenInsecureDelegation")}
	callsRootDS := func(f *ssa.Function) bool {
		for _, g := range scopeFuncs(f) {
			if len(instrsWhere(g, isCallTo(rootDS))) > 0 {
				return true
			}
		}
		return false
	}
	anchored := func(e *Expr) bool {
		e = strip(e)
		if e == nil {
			return false
		}
		call := e
		if e.K == EExtract {
			call = strip(e.X)
		}
		if call == nil || call.K != ECall {
			return false
		}
		if sameFunc(call.Fn, rootDS) {
			return true
		}
		if cv, ok := call.V.(*ssa.Call); ok {
			if h := cv.Call.StaticCallee(); h != nil && len(h.Blocks) > 0 && fnPkg(h) == fnPkg(cv.Parent()) {
				return callsRootDS(h)
			}
		}
		return false
	}
	n := 0
	for _, name := range []string{"answer", "authority"} {
		fn := c.fn(R, res+".(*Resolver)."+name)
		if fn == nil {
			continue
		}
		for _, cons := range consumers {
			if cons == nil {
				continue
			}
			sig := cons.Type().(*types.Signature)
			pi := -1
			for i := 0; i < sig.Params().Len(); i++ {
				if sig.Params().At(i).Name() == "parentDS" {
					pi = i + 1 // receiver is argument 0
				}
			}
			if pi < 0 {
				continue
			}
			for _, in := range instrsWhere(fn, isPlainCallTo(cons)) {
				n++
				key := fmt.Sprintf("%s|%s|DS set handed to %s", R, name, cons.Name())
				has := false
				for _, l := range Origins(Desc(callArg(in, pi)), nil) {
					if anchored(l) {
						has = true
					}
				}
				if has {
					c.ok(R, key, instrPos(in), "the DS set can start at the root trust anchors")
				} else {
					c.violation(R, key, instrPos(in), cons.Name()+" receives the caller's parentDS as it came: at the root (no referral followed yet) that set is empty, so a non-referral root reply that is unsigned or signed below the root counts as insecure and is relayed to a CD=0 client without validation")
				}
			}
		}
	}
	if n < 4 {
		c.unresolved(R, "answer/authority consumers", fmt.Sprintf("expected isZoneSecure/findDS calls in answer and authority, found %d", n))
	}
}

// C07-R9: the answer section is scrubbed to the bailiwick before it is relayed.
func c07R9(c *Ctx) {
	const R = "C07-R9"
	const res = "middleware/resolver"
	c.Doc(R, "Resolver.resolve: from the groupLookup call every path to Resolver.answer (the relay of a positive reply) stores dnsutil.FilterRRsToZone(…) into the reply's Answer, or runs with the root as the asked zone, or has an empty answer section; alternatively answer() itself stores the filtered section before any return. An out-of-zone address appended behind an in-zone CNAME is otherwise relayed to the client, and taken instead of re-resolving the target")
	fn := c.fn(R, res+".(*Resolver).resolve")
	ans := c.fn(R, res+".(*Resolver).answer")
	gl := c.fobj(R, res+".(*Resolver).groupLookup")
	filter := c.fobj(R, "internal/dnsutil.FilterRRsToZone")
	answerF := c.field(R, "github.com/miekg/dns.Msg.Answer")
	zoneF := c.field(R, "internal/authority.Servers.Zone")
	if fn == nil || ans == nil || gl == nil || filter == nil || answerF == nil || zoneF == nil {
		return
	}
	ansObj := funcObjOf(ans)
	isRootConst := func(e *Expr) bool {
		e = strip(e)
		return e != nil && e.K == EConst && e.Val != nil && e.Val.Kind() == constant.String && constant.StringVal(e.Val) == "."
	}
	atRoot := OnCmp("zone == \".\"", FieldIs(zoneF), token.EQL, isRootConst, true)
	noAnswer := OnCmp("len(resp.Answer) == 0", c07Len(FieldIs(answerF)), token.GTR, IsConstInt(0), false)
	// scrubbed: the value stored into Answer is FilterRRsToZone(…) itself, or the
	// result of an unexported same-package helper that the filter (and possibly the
	// root / empty-section test next to it) was extracted into.  The helper is
	// judged on its own CFG with its parameters read as the call's arguments:
	// every return is either behind the root / empty-section edge, or behind a
	// FilterRRsToZone call whose result is used AND returns a value built from such
	// a call (a filter whose result is dropped scrubs nothing).
	usedFilterCall := Barrier{Name: "FilterRRsToZone(…) (result used)", Instr: func(in ssa.Instruction) bool {
		cl, ok := in.(*ssa.Call)
		if !ok || !callIs(&cl.Call, filter) {
			return false
		}
		refs := cl.Referrers()
		return refs != nil && len(*refs) > 0
	}}
	scrubMemo := map[ssa.Value]bool{}
	var scrubbed func(e *Expr, depth int) bool
	scrubbed = func(e *Expr, depth int) bool {
		if CallTo(filter)(e) {
			return true
		}
		e = strip(e)
		if e != nil && e.K == EExtract {
			e = strip(e.X)
		}
		if e == nil || e.K != ECall || e.V == nil || depth > 2 {
			return false
		}
		cl, ok := e.V.(*ssa.Call)
		if !ok {
			return false
		}
		if v, ok := scrubMemo[e.V]; ok {
			return v
		}
		scrubMemo[e.V] = false
		h := localHelper(cl.Parent(), &cl.Call)
		if h == nil {
			return false
		}
		args := make([]*Expr, len(cl.Call.Args))
		for i, a := range cl.Call.Args {
			args[i] = Desc(a)
		}
		behind := func(bars []Barrier) *reachResult {
			hc := &helperCtx{always: map[helperKey]int{}, implies: map[helperKey]int{}, act: map[*ssa.Function][]*Expr{}}
			hc.act[h] = args
			return reachH(entryPoint(h), bars, nil, hc)
		}
		noFilterNeeded := behind([]Barrier{atRoot, noAnswer})
		viaFilter := behind([]Barrier{usedFilterCall, atRoot, noAnswer})
		nret := 0
		for _, b := range h.Blocks {
			for _, in := range b.Instrs {
				ret, ok := in.(*ssa.Return)
				if !ok {
					continue
				}
				nret++
				if !noFilterNeeded.visited[in] {
					continue // only reached at the root / with nothing to filter
				}
				if viaFilter.visited[in] || len(ret.Results) == 0 {
					return false // a return reachable without filtering
				}
				fromFilter := false
				for _, rv := range ret.Results {
					if Contains(func(x *Expr) bool { return scrubbed(x, depth+1) })(Desc(rv)) {
						fromFilter = true
					}
				}
				if !fromFilter {
					return false // the filter ran but what is returned does not come from it
				}
			}
		}
		scrubMemo[e.V] = nret > 0
		return nret > 0
	}
	scrub := StoreBarrier("resp.Answer = FilterRRsToZone(…)", answerF, func(e *Expr) bool { return scrubbed(e, 0) })
	key := R + "|resolve|answer section scrubbed before relay"
	bad := ""
	nfrom := 0
	for _, in := range instrsWhere(fn, isPlainCallTo(gl)) {
		if in.Parent() != fn {
			continue
		}
		nfrom++
		r := reach([]Point{pointAfter(in)}, []Barrier{scrub, atRoot, noAnswer}, nil)
		for _, t := range r.order {
			if isPlainCallTo(ansObj)(t) {
				// the call itself may sit behind len(Answer) > 0; that does not scrub anything
				bad = c.trail(r, t)
				break
			}
		}
	}
	if nfrom == 0 {
		c.unresolved(R, "resolve|groupLookup", "no call found")
		return
	}
	if bad == "" {
		c.ok(R, key, fn.Pos(), "every positive reply passes FilterRRsToZone(resp.Answer, asked zone) before answer()")
		return
	}
	// alternative placement: inside answer(), before any return of a message
	inAnswer := true
	for _, t := range instrsWhere(ans, func(x ssa.Instruction) bool {
		r, ok := x.(*ssa.Return)
		return ok && x.Parent() == ans && len(r.Results) == 2 && !IsNilConst(Desc(r.Results[0]))
	}) {
		if ug, _ := c.unguarded(t, []Barrier{scrub}, ans); ug {
			inAnswer = false
		}
	}
	if inAnswer {
		c.ok(R, key, ans.Pos(), "answer() scrubs the answer section before every return of a message")
		return
	}
	c.violation(R, key, fn.Pos(), "a reply's answer section reaches Resolver.answer (and from there the client and the NS-address collector) without being filtered to the zone that was asked: `www.example.com. CNAME host.victim.net.` + `host.victim.net. A 6.6.6.6` from the example.com. servers is relayed as the answer; path "+bad)
}

// C15-R8: unwritten octets inside the payload read zero, as in the library's fresh array.
func c15R8(c *Ctx) {
	const R = "C15-R8"
	c.Doc(R, "packState.packInto: every write into the pooled buffer (binary.BigEndian.PutUint16 on it, packQuestion, dns.PackRR) is preceded on every path by builtin clear applied to a slice of packState.buf (in packInto itself, or in TryPack/PackClone before packInto is called): dns.Msg.Pack packs into a freshly zeroed array and some library packers skip octets without writing them (an A record holding a 16-byte non-IPv4 address advances 4 octets and copies none), so without the clear those octets are whatever the previous message left in the pool")
	fn := c.fn(R, "internal/wire.(*packState).packInto")
	bufF := c.field(R, "internal/wire.packState.buf")
	packRR := c.fobj(R, "github.com/miekg/dns.PackRR")
	if fn == nil || bufF == nil || packRR == nil {
		return
	}
	isClearBuf := func(in ssa.Instruction) bool {
		cl, ok := in.(*ssa.Call)
		if !ok || len(cl.Call.Args) != 1 {
			return false
		}
		b, ok := cl.Call.Value.(*ssa.Builtin)
		if !ok || b.Name() != "clear" {
			return false
		}
		return Contains(FieldIs(bufF))(Desc(cl.Call.Args[0]))
	}
	cleared := Barrier{Name: "clear(state.buf[…])", Instr: isClearBuf}
	writes := func(in ssa.Instruction) bool {
		if in.Parent() != fn {
			return false
		}
		if isPlainCallTo(packRR)(in) {
			return true
		}
		cc := callCommon(in)
		if cc == nil {
			return false
		}
		if fo, _, _ := calleeObj(cc); fo != nil && (fo.Name() == "PutUint16" || fo.Name() == "packQuestion") {
			for _, a := range cc.Args {
				if Contains(FieldIs(bufF))(Desc(a)) {
					return true
				}
			}
		}
		return false
	}
	key := R + "|packInto|pooled window zeroed before the first write"
	own := true
	for _, in := range instrsWhere(fn, writes) {
		if ug, _ := c.unguarded(in, []Barrier{cleared}, fn); ug {
			own = false
		}
	}
	if len(instrsWhere(fn, writes)) == 0 {
		c.unresolved(R, "packInto|writes", "no write into the pooled buffer found")
		return
	}
	if own {
		c.ok(R, key, fn.Pos(), "packInto clears the window it packs into")
		return
	}
	// alternatively every caller clears before calling packInto
	fo := funcObjOf(fn)
	sites := c.CallSites(fo)
	viaCallers := len(sites) > 0
	for _, s := range sites {
		if ug, _ := c.unguarded(s.Instr, []Barrier{cleared}, TopLevel(s.Fn)); ug {
			viaCallers = false
		}
	}
	if viaCallers {
		c.ok(R, key, fn.Pos(), "every caller clears the window before packInto")
		return
	}
	c.violation(R, key, fn.Pos(), "the pooled buffer is written without being zeroed first: octets the library's packers skip (A/L32 with a 16-byte non-IPv4 address, IPSECKEY/AMTRELAY IPv4 gateways) carry the previous message's bytes inside the payload handed to the transport and stored by the cache")
}
