package main

// Regression mutant for F-C19-4 (the resolver's singleflight collapses lookups from different forwarded client subnets).
func init() {
	addMutants("C19", []Mutant{
		{ID: "c19-singleflight-key-ignores-subnet", File: "middleware/resolver/resolver.go", Expect: fC19_4Rule + "|(*middleware/resolver.Resolver).groupLookup",
			Old: "\tif subnet := forwardedSubnetKey(req); subnet != \"\" {\n\t\tkey += \"|\" + subnet\n\t}\n",
			New: "",
			Why: "F-C19-4: the singleflight key is question|zone|CD|server set only; client B (203.0.113.9) joins client A's in-flight lookup and is handed the reply the authority scoped to 198.51.100.0/24, its own subnet is never sent"},
	})
}
