package main

import (
	"fmt"
	"go/ast"
	"go/constant"
	"go/token"
	"go/types"
	"strings"

	"golang.org/x/tools/go/ssa"
)

func init() {
	register(&PropDef{
		ID:    "C17",
		Title: "Access control is exact and applies to clients only",
		Run:   runC17,
		Explanation: "Decided (structure only): R1 in accesslist.ServeDNS the chain continues only across ContainsIP=true or Internal=true, the deny edge reaches only Cancel+return, and the handler never writes; " +
			"R2 the default chain (defaults.chain) equals gen.go's middlewareList, each entry constructs the handler of its own name, accesslist precedes every handler except {recovery, metrics, dnstap}, and those three reach no write/query before Next; " +
			"R3 ClientOnly() is the constant true for the eight client-side handlers, autoWire feeds SetQueryer/SetPrefetchQueryer from SubPipeline(skip…) with skip built behind ClientOnly()=true, and the policy handlers reach their policy decision only across Internal()=false; " +
			"R4 ipset.New adds an entry only on the parse-success edge; Contains unmaps 4-in-6 before choosing the family; add masks before bounds; " +
			"R4b the open default is installed only when the configured list is empty; R5 the view loop never iterates again after a ContainsIP hit; R6 ingredients of the stabbing query: sort before fold, maxHi is a running max-fold of hi, Contains compares against maxHi.",
		NotDecided: []string{
			"exactness of Contains/bounds/ones range arithmetic for every (list, address) — value-level",
			"RemoteIP derivation on every transport",
			"that a denied query causes no downstream work in handlers outside the default chain (plugins)",
		},
	})
}

var writeMethodNames = map[string]bool{"WriteMsg": true, "Write": true, "WriteWire": true, "CommitWire": true, "CancelWithRcode": true, "Query": true}

func isWriteLike(in ssa.Instruction) bool {
	cc := callCommon(in)
	if cc == nil {
		return false
	}
	_, _, name := calleeObj(cc)
	if cc.IsInvoke() {
		name = cc.Method.Name()
	}
	return writeMethodNames[name]
}

func runC17(c *Ctx) {
	next := c.fobj("C17-R1", "middleware.(*Chain).Next")
	cancel := c.fobj("C17-R1", "middleware.(*Chain).Cancel")
	containsIP := c.fobj("C17-R1", "internal/ipset.(*Set).ContainsIP")
	if next == nil || cancel == nil || containsIP == nil {
		return
	}
	internalAtom := MethodNamed("Internal")

	// R1
	c.Doc("C17-R1", "accesslist.(*List).ServeDNS: Next only across ContainsIP=true or Internal()=true; after the deny edge only Cancel then return; no write-like call anywhere in the handler")
	al := c.fn("C17-R1", "middleware/accesslist.(*List).ServeDNS")
	if al != nil {
		c.MustCross("C17-R1", al, "ch.Next", isCallTo(next), OnTrue("ContainsIP", CallTo(containsIP)), OnTrue("Internal", internalAtom))
		c.AfterEdge("C17-R1", al, "deny edge continues the chain", OnFalse("ContainsIP", CallTo(containsIP)), isCallTo(next))
		c.AfterEdge("C17-R1", al, "deny edge returns without Cancel", OnFalse("ContainsIP", CallTo(containsIP)), isReturn, CallBarrier("Cancel", cancel))
		nw := 0
		for _, in := range instrsWhere(al, isWriteLike) {
			nw++
			c.violation("C17-R1", "C17-R1|accesslist.ServeDNS|write", instrPos(in), "accesslist handler performs a write-like call (deny must be silent, allow must not answer)")
		}
		if nw == 0 {
			c.ok("C17-R1", "C17-R1|accesslist.ServeDNS|write", al.Pos(), "no write-like call in the handler")
		}
	}

	// R2 placement
	c.Doc("C17-R2", "defaults.chain == gen.go middlewareList (same order); every entry's constructor is <its own name>.New; only {recovery, metrics, dnstap} precede accesslist and none of them reaches a write/query before ch.Next")
	var chainNames []string
	if v, pk := c.P.pkgVarValue("middleware/defaults", "chain"); v != nil {
		names, elts, ok := stringList(v, pk.TypesInfo)
		if !ok {
			c.undecided("C17-R2", "C17-R2|defaults.chain", v.Pos(), "chain literal has an unexpected shape")
		} else {
			chainNames = names
			// each entry constructs its own handler
			for i, el := range elts {
				inner := el.(*ast.CompositeLit)
				okCtor := false
				ast.Inspect(inner.Elts[len(inner.Elts)-1], func(n ast.Node) bool {
					if call, ok := n.(*ast.CallExpr); ok {
						if sel, ok := call.Fun.(*ast.SelectorExpr); ok && sel.Sel.Name == "New" {
							if id, ok := sel.X.(*ast.Ident); ok {
								if pn, ok := pk.TypesInfo.Uses[id].(*types.PkgName); ok && strings.HasSuffix(pn.Imported().Path(), "/middleware/"+names[i]) {
									okCtor = true
								}
							}
						}
					}
					return true
				})
				key := "C17-R2|defaults.chain|ctor " + names[i]
				if okCtor {
					c.ok("C17-R2", key, el.Pos(), "entry "+names[i]+" constructs middleware/"+names[i]+".New")
				} else {
					c.violation("C17-R2", key, el.Pos(), "entry "+names[i]+" does not construct the handler of its own name")
				}
			}
		}
	} else {
		c.unresolved("C17-R2", "middleware/defaults.chain", "variable not found")
	}
	if f, fset, err := c.P.parseLooseFile("gen.go"); err != nil {
		c.unresolved("C17-R2", "gen.go", err.Error())
	} else if v := looseVarValue(f, "middlewareList"); v == nil {
		c.unresolved("C17-R2", "gen.go middlewareList", "variable not found")
	} else if gl, _, ok := stringList(v, nil); !ok {
		c.undecided("C17-R2", "C17-R2|gen.go", token.NoPos, "middlewareList has an unexpected shape")
	} else if strings.Join(gl, ",") != strings.Join(chainNames, ",") {
		c.violation("C17-R2", "C17-R2|gen.go vs defaults.chain", token.NoPos, fmt.Sprintf("lists differ: gen.go %v (%s) vs defaults %v", gl, fmtPos(fset, v.Pos()), chainNames))
	} else {
		c.ok("C17-R2", "C17-R2|gen.go vs defaults.chain", token.NoPos, fmt.Sprintf("identical order (%d handlers)", len(gl)))
	}
	aheadOK := map[string]string{"recovery": "writes only in its deferred recover arm", "metrics": "observes after Next", "dnstap": "taps; writes nothing itself"}
	ai := indexOf(chainNames, "accesslist")
	if ai < 0 {
		c.violation("C17-R2", "C17-R2|accesslist in chain", token.NoPos, "accesslist is not in the default chain")
	}
	for i := 0; i < ai; i++ {
		h := chainNames[i]
		key := "C17-R2|ahead of accesslist|" + h
		if _, ok := aheadOK[h]; !ok {
			c.violation("C17-R2", key, token.NoPos, "handler "+h+" runs ahead of accesslist and is not one of the three observers")
			continue
		}
		c.ok("C17-R2", key, token.NoPos, h+" is ahead of accesslist: "+aheadOK[h])
	}
	for _, h := range []struct{ name, fn string }{{"recovery", "middleware/recovery.(*Recovery).ServeDNS"}, {"metrics", "middleware/metrics.(*Metrics).ServeDNS"}, {"dnstap", "middleware/dnstap.(*Dnstap).ServeDNS"}} {
		fn := c.fn("C17-R2", h.fn)
		if fn == nil {
			continue
		}
		// top-level body only: write-like calls before Next
		r := reach(entryPoint(fn), []Barrier{CallBarrier("Next", next)}, nil)
		bad := false
		for _, in := range r.order {
			if isWriteLike(in) {
				if _, isDefer := in.(*ssa.Defer); isDefer {
					continue
				}
				bad = true
				c.violation("C17-R2", "C17-R2|"+h.name+"|write before Next", instrPos(in), h.name+" runs ahead of accesslist and reaches a write-like call before ch.Next")
			}
		}
		if !bad {
			c.ok("C17-R2", "C17-R2|"+h.name+"|write before Next", fn.Pos(), h.name+": no write-like call reachable before ch.Next")
		}
	}

	// R3 client-only
	c.Doc("C17-R3", "ClientOnly() returns the constant true for accesslist, ratelimit, reflex, views, metrics, dnstap, accesslog, dns64; autoWire builds queryers from SubPipeline(skip…) where skip is appended only behind ClientOnly()=true; policy handlers reach their decision only across Internal()=false")
	for _, h := range []string{"middleware/accesslist.(*List)", "middleware/ratelimit.(*RateLimit)", "middleware/reflex.(*Reflex)", "middleware/views.(*Views)", "middleware/metrics.(*Metrics)", "middleware/dnstap.(*Dnstap)", "middleware/accesslog.(*Log)", "middleware/dns64.(*DNS64)"} {
		c.ReturnsConst("C17-R3", c.fn("C17-R3", h+".ClientOnly"), 0, IsConstBool(true), "true")
	}
	if aw := c.fn("C17-R3", "middleware.(*Pipeline).autoWire"); aw != nil {
		sub := c.fobj("C17-R3", "middleware.(*Pipeline).SubPipeline")
		npq := c.fobj("C17-R3", "middleware.NewPipelineQueryer")
		for _, m := range []string{"SetQueryer", "SetPrefetchQueryer"} {
			for _, in := range instrsWhere(aw, isMethodCallNamed(m, nil)) {
				e := Desc(callArg(in, 1))
				key := "C17-R3|autoWire|" + m
				if !CallTo(npq)(e) {
					c.violation("C17-R3", key, instrPos(in), m+" argument is not a NewPipelineQueryer result: "+e.String())
					continue
				}
				if len(e.Args) == 0 || !CallTo(sub)(e.Args[0]) {
					c.violation("C17-R3", key, instrPos(in), m+": queryer is not built from a SubPipeline(...) result")
					continue
				}
				c.ok("C17-R3", key, instrPos(in), m+" ← NewPipelineQueryer(SubPipeline(skip…))")
			}
		}
		// every append into skip of a handler name is behind ClientOnly()=true
		feeds := map[ssa.Value]bool{}
		// the skip list may be built inline or by an unexported helper of the package:
		// in that case the values its returns are built from feed SubPipeline too
		var addFeeds func(e *Expr, depth int)
		addFeeds = func(e *Expr, depth int) {
			exprValues(e, feeds)
			if depth > 2 {
				return
			}
			Contains(func(x *Expr) bool {
				if x.K != ECall {
					return false
				}
				cl, ok := x.V.(*ssa.Call)
				if !ok {
					return false
				}
				if h := localHelper(cl.Parent(), &cl.Call); h != nil {
					for _, b := range h.Blocks {
						for _, in := range b.Instrs {
							if r, ok := in.(*ssa.Return); ok {
								for _, rv := range r.Results {
									addFeeds(Desc(rv), depth+1)
								}
							}
						}
					}
				}
				return false
			})(e)
		}
		for _, in := range instrsWhere(aw, isPlainCallTo(sub)) {
			addFeeds(Desc(callArg(in, 1)), 0)
		}
		c.MustCross("C17-R3", aw, "skip = append(skip, h.Name())", func(in ssa.Instruction) bool {
			cl, ok := in.(*ssa.Call)
			if !ok || !feeds[cl] {
				return false
			}
			if b, ok := cl.Call.Value.(*ssa.Builtin); !ok || b.Name() != "append" {
				return false
			}
			return Contains(MethodNamed("Name"))(Desc(cl.Call.Args[1]))
		}, OnTrue("ClientOnly()", MethodNamed("ClientOnly")))
		// the SubPipeline argument is the skip list (not empty / nil)
		for _, in := range instrsWhere(aw, isPlainCallTo(sub)) {
			e := Desc(callArg(in, 1))
			key := "C17-R3|autoWire|SubPipeline arg"
			derives := Contains(MethodNamed("Name"))(e)
			if !derives {
				// built by a helper: one of the values feeding THIS argument is an h.Name() result
				saved := feeds
				feeds = map[ssa.Value]bool{}
				addFeeds(e, 0)
				for v := range feeds {
					if cl, ok := v.(*ssa.Call); ok && MethodNamed("Name")(Desc(cl)) {
						derives = true
					}
				}
				feeds = saved
			}
			if derives {
				c.ok("C17-R3", key, instrPos(in), "SubPipeline receives the ClientOnly skip list")
			} else {
				c.violation("C17-R3", key, instrPos(in), "SubPipeline argument does not derive from the ClientOnly skip list: "+trunc(e.String(), 200))
			}
		}
	}
	// policy decisions behind Internal()=false
	rlAllow := MethodNamed("Allow")
	for _, pd := range []struct {
		fn     string
		what   string
		target func(ssa.Instruction) bool
	}{
		{"middleware/accesslist.(*List).ServeDNS", "ContainsIP", isPlainCallTo(containsIP)},
		{"middleware/views.(*Views).ServeDNS", "ContainsIP", isPlainCallTo(containsIP)},
		{"middleware/ratelimit.(*RateLimit).ServeDNS", "limiter.Allow / serveWire", func(in ssa.Instruction) bool {
			cc := callCommon(in)
			if cc == nil {
				return false
			}
			_, _, n := calleeObj(cc)
			return n == "Allow" || n == "serveWire" || n == "getLimiter"
		}},
		{"middleware/reflex.(*Reflex).ServeDNS", "tracker.RecordQuery / handleSuspicious", func(in ssa.Instruction) bool {
			cc := callCommon(in)
			if cc == nil {
				return false
			}
			_, _, n := calleeObj(cc)
			return n == "RecordQuery" || n == "handleSuspicious" || n == "RecordTCP"
		}},
	} {
		_ = rlAllow
		c.MustCross("C17-R3", c.fn("C17-R3", pd.fn), "policy decision "+pd.what, pd.target, OnFalse("Internal()", internalAtom))
	}

	// R4 bad entries ignored; unmap before family choice; mask before bounds
	c.Doc("C17-R4", "ipset.New calls add only on ParsePrefix's nil-error edge; in Contains the family test and key() operate on the unmapped address; add passes a Masked prefix to bounds")
	parsePrefix := c.fobj("C17-R4", "net/netip.ParsePrefix")
	add := c.fobj("C17-R4", "internal/ipset.(*Set).add")
	if fn := c.fn("C17-R4", "internal/ipset.New"); fn != nil && parsePrefix != nil && add != nil {
		c.MustCross("C17-R4", fn, "s.add(p)", isPlainCallTo(add), OnFalse("ParsePrefix err", ResultOf(1, parsePrefix)))
	}
	unmap := c.fobj("C17-R4", "net/netip.Addr.Unmap")
	is4 := c.fobj("C17-R4", "net/netip.Addr.Is4")
	keyF := c.fobj("C17-R4", "internal/ipset.key")
	is4in6 := c.fobj("C17-R4", "net/netip.Addr.Is4In6")
	if fn := c.fn("C17-R4", "internal/ipset.(*Set).Contains"); fn != nil && unmap != nil && is4 != nil && keyF != nil {
		for _, tgt := range []*types.Func{is4, keyF} {
			for _, in := range instrsWhere(fn, isPlainCallTo(tgt)) {
				leaves := Origins(Desc(callArg(in, 0)), nil)
				hasUnmap := false
				for _, l := range leaves {
					if CallTo(unmap)(l) {
						hasUnmap = true
					}
				}
				key := "C17-R4|Contains|" + tgt.Name() + " operand"
				if hasUnmap {
					c.ok("C17-R4", key, instrPos(in), tgt.Name()+" sees the unmapped address on the 4-in-6 path")
				} else {
					c.violation("C17-R4", key, instrPos(in), tgt.Name()+" operand never comes from Unmap(): an IPv4-mapped source is not answered as IPv4")
				}
			}
		}
		c.MustCross("C17-R4", fn, "Unmap", isPlainCallTo(unmap), OnTrue("Is4In6", CallTo(is4in6)))
	}
	masked := c.fobj("C17-R4", "net/netip.Prefix.Masked")
	bounds := c.fobj("C17-R4", "internal/ipset.bounds")
	if fn := c.fn("C17-R4", "internal/ipset.(*Set).add"); fn != nil && masked != nil && bounds != nil {
		for _, in := range instrsWhere(fn, isPlainCallTo(bounds)) {
			c.OriginCheck("C17-R4", "C17-R4|add|bounds arg", in, "bounds(p)", callArg(in, 0), nil, CallTo(masked))
		}
	}
	c.Floor("C17-R4", 5)

	// R4b the open default is installed only for an empty configured list
	c.Doc("C17-R4b", "accesslist.New: an all-addresses prefix constant (\"…/0\") enters the allowed set only on the edge where the configured list itself is empty (len(cfg.AccessList)==0, before parsing) — a list whose entries all fail to parse must stay closed")
	if fn := c.fn("C17-R4b", "middleware/accesslist.New"); fn != nil {
		al := c.field("C17-R4b", "config.Config.AccessList")
		isOpenConst := func(v ssa.Value) bool {
			k, ok := v.(*ssa.Const)
			if !ok || k.Value == nil || k.Value.Kind() != constant.String {
				return false
			}
			s := constant.StringVal(k.Value)
			return strings.HasSuffix(s, "/0")
		}
		target := func(in ssa.Instruction) bool {
			var ops []*ssa.Value
			for _, op := range in.Operands(ops) {
				if op != nil && *op != nil && isOpenConst(*op) {
					return true
				}
			}
			return false
		}
		if al != nil {
			c.MustCross("C17-R4b", fn, "open default (…/0) installed", target,
				OnCmp("len(cfg.AccessList)==0", func(e *Expr) bool {
					e = strip(e)
					return e != nil && e.K == ECall && e.Method == "builtin.len" && len(e.Args) == 1 && FieldIs(al)(e.Args[0])
				}, token.EQL, IsConstInt(0), true))
		}
	}

	// R5 first matching view
	c.Doc("C17-R5", "views.(*Views).ServeDNS: after a ContainsIP hit the view loop is never re-entered (return or break)")
	if fn := c.fn("C17-R5", "middleware/views.(*Views).ServeDNS"); fn != nil {
		c.AfterEdge("C17-R5", fn, "another view consulted after a hit", OnTrue("ContainsIP", CallTo(containsIP)), isPlainCallTo(containsIP))
	}

	// R6 stabbing query ingredients
	c.Doc("C17-R6", "ipset.compile sorts before folding; span.maxHi is stored from a running max-fold of hi (assignment behind max.lessEq(hi)); Contains answers with k.lessEq(spans[i-1].maxHi)")
	maxHi := c.field("C17-R6", "internal/ipset.span.maxHi")
	hi := c.field("C17-R6", "internal/ipset.span.hi")
	lessEq := c.fobj("C17-R6", "internal/ipset.u128.lessEq")
	sortSlice := c.fobj("C17-R6", "sort.Slice")
	if fn := c.fn("C17-R6", "internal/ipset.compile"); fn != nil && maxHi != nil && hi != nil && lessEq != nil && sortSlice != nil {
		// store to maxHi must come after sort.Slice
		c.MustCross("C17-R6", fn, "store span.maxHi", func(in ssa.Instruction) bool { return isFieldStore(in, maxHi, nil) }, CallBarrier("sort.Slice", sortSlice))
		for _, in := range instrsWhere(fn, func(in ssa.Instruction) bool { return isFieldStore(in, maxHi, nil) }) {
			st := in.(*ssa.Store)
			top := Desc(st.Val)
			leaves := Origins(top, nil)
			// the stored value must be the running accumulator (a merge of the
			// zero value and earlier his), not this span's own hi
			okFold := len(leaves) > 0 && (top.K == EPhi || (top.K == EAlloc && len(top.Args) >= 2))
			var ls []string
			for _, l := range leaves {
				ls = append(ls, l.String())
				if !(FieldIs(hi)(l) || isZeroStruct(l)) {
					okFold = false
				}
			}
			key := "C17-R6|compile|maxHi origin"
			if okFold {
				c.ok("C17-R6", key, instrPos(in), "maxHi ← running value drawn from {zero, spans[i].hi}: "+strings.Join(ls, " ; "))
			} else {
				c.violation("C17-R6", key, instrPos(in), "maxHi is not a fold over span.hi: "+strings.Join(ls, " ; "))
			}
		}
		// the fold only increases: the update of max is behind max.lessEq(spans[i].hi)
		n := 0
		for _, b := range fn.Blocks {
			for _, in := range b.Instrs {
				st, ok := in.(*ssa.Store)
				if !ok {
					continue
				}
				al, ok := st.Addr.(*ssa.Alloc)
				if !ok || !FieldIs(hi)(Desc(st.Val)) {
					continue
				}
				_ = al
				n++
				ug, tr := c.unguarded(in, []Barrier{OnTrue("max.lessEq(hi)", func(e *Expr) bool {
					return CallTo(lessEq)(e) && len(e.Args) == 2 && FieldIs(hi)(e.Args[1])
				})}, fn)
				key := "C17-R6|compile|max update guard"
				if ug {
					c.violation("C17-R6", key, instrPos(in), "max is overwritten with span.hi without the max.lessEq(hi) guard (no longer a running maximum); path "+tr)
				} else {
					c.ok("C17-R6", key, instrPos(in), "max = spans[i].hi only behind max.lessEq(spans[i].hi)")
				}
			}
		}
		if n == 0 {
			// phi-form (no cell): accept when the maxHi origin check above passed and a lessEq guard exists
			has := len(edgePoints(fn, OnTrue("lessEq", func(e *Expr) bool { return CallTo(lessEq)(e) && len(e.Args) == 2 && FieldIs(hi)(e.Args[1]) }))) > 0
			key := "C17-R6|compile|max update guard"
			if has {
				c.ok("C17-R6", key, fn.Pos(), "fold guarded by max.lessEq(spans[i].hi)")
			} else {
				c.violation("C17-R6", key, fn.Pos(), "no max.lessEq(spans[i].hi) guard in compile: maxHi is not a running maximum")
			}
		}
	}
	if fn := c.fn("C17-R6", "internal/ipset.(*Set).Contains"); fn != nil && maxHi != nil && lessEq != nil {
		for _, b := range fn.Blocks {
			for _, in := range b.Instrs {
				r, ok := in.(*ssa.Return)
				if !ok || len(r.Results) != 1 {
					continue
				}
				e := Desc(r.Results[0])
				if IsAnyConst(e) {
					if IsConstBool(true)(e) {
						c.violation("C17-R6", "C17-R6|Contains|return", instrPos(in), "Contains returns the constant true")
					}
					continue
				}
				key := "C17-R6|Contains|final comparison"
				if CallTo(lessEq)(e) && len(e.Args) == 2 && FieldIs(maxHi)(e.Args[1]) && CallTo(c.P.FuncObj("internal/ipset.key"))(e.Args[0]) {
					c.ok("C17-R6", key, instrPos(in), "answer = key(addr).lessEq(spans[i-1].maxHi)")
				} else {
					c.violation("C17-R6", key, instrPos(in), "Contains does not answer with k.lessEq(span.maxHi): "+trunc(e.String(), 200))
				}
			}
		}
	}
	c.Floor("C17-R6", 4)
}

func isZeroStruct(e *Expr) bool {
	e = strip(e)
	if e == nil {
		return false
	}
	if e.K == EConst {
		return true
	}
	// zero-initialised local cell
	return e.K == EAlloc && len(e.Args) == 0
}
