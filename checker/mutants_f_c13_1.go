package main

// Regression mutants for finding F-C13-1 (= F-C11-1): capacity sheds re-enter the shared
// RFC 9520 failure state.  Each Old snippet is part of the accepted fix.
func init() {
	addMutants("C13", []Mutant{
		{ID: "f-c13-1-zone-shed-unclassified", File: "middleware/resolver/errors.go", Expect: "C13-R10",
			Old: "\t\tMessage: \"Zone at in-flight lookup capacity\",\n\t\tErr:     middleware.ErrResolutionCapacity,\n", New: "\t\tMessage: \"Zone at in-flight lookup capacity\",\n",
			Why: "F-C13-1: the per-zone shed is again a plain EDE error, filed as a question failure by the cache writer"},
		{ID: "f-c13-1-class-forgets-capacity", File: "middleware/resolution_attempt.go", Expect: "C13-R10",
			Old: "\t\terrors.Is(err, ErrResolutionCapacity) ||\n", New: "",
			Why: "F-C13-1: the sentinel exists and is wrapped, but the class predicate does not know it"},
		{ID: "f-c13-1-ns-addr-shed-dropped", File: "middleware/resolver/resolver.go", Expect: "C13-R11",
			Old: "\t\t\tif middleware.IsRequestLocalResolutionError(err) {\n\t\t\t\t// RFC 9520 keys by question tuple", New: "\t\t\tif errors.Is(err, middleware.ErrResolutionAttemptLimit) {\n\t\t\t\t// RFC 9520 keys by question tuple",
			Why: "F-C13-1: a shed NS-address lookup leaves the delegation empty and is reported as 'no reachable authority' (zone failure)"},
	})
	addMutants("C11", []Mutant{
		{ID: "f-c11-1-global-shed-unclassified", File: "middleware/resolver/errors.go", Expect: "C11-R8",
			Old: "\t\tMessage: \"Resolver at in-flight resolution capacity\",\n\t\tErr:     middleware.ErrResolutionCapacity,\n", New: "\t\tMessage: \"Resolver at in-flight resolution capacity\",\n",
			Why: "F-C11-1: followers of a shed singleflight leader inherit the refusal; the SERVFAIL is shared with other clients"},
	})
}
