package main

// Regression mutants for finding F-C04-1 (DNS64 reads a negative TTL of 0 as "no SOA" and gives
// the synthesised AAAA min(600 s, A TTL)).  Old = the fixed tree.
func init() {
	addMutants("C04", []Mutant{
		{ID: "f-c04-1-zero-ttl-means-no-soa", File: "middleware/dns64/dns64.go", Expect: "C04-R11|(*middleware/dns64.responseWriter).synthesise",
			Old: "\tif negTTL, ok := negativeAAAATTL(orig); ok {", New: "\tif negTTL, ok := negativeAAAATTL(orig); ok && negTTL > 0 {",
			Why: "F-C04-1: a cached denial in its last second (SOA TTL 0) is treated as carrying no SOA; the synthesised AAAA lives min(600 s, A TTL)"},
		{ID: "f-c04-1-presence-flag-from-ttl", File: "middleware/dns64/dns64.go", Expect: "C04-R11|negativeAAAATTL",
			Old: "\t\t\treturn ttl, true\n", New: "\t\t\treturn ttl, ttl > 0\n",
			Why: "F-C04-1: the same conflation moved into the callee — the presence flag is the zero-test"},
	})
}
