package main

// Helpers private to the C07 / C12 rule files.
//
// c07Walk is a small path-sensitive walker over one function's CFG.  The
// shared E2 engine is path-insensitive: it cannot tell which phi edge a path
// took, so "the error that is finally returned is nil" (named results,
// `x := a && b` booleans, result cells of functions with defer) is invisible
// to it.  The walker enumerates abstract paths, resolving
//   - phis by the edge the path came in on,
//   - loads of simple local cells (named results) by the last store on the path,
//   - nil / bool tests on the values that can reach a return operand or a
//     phi-valued branch condition (facts), pruning infeasible edges,
// and records which marker edges / instructions the path crossed.  States are
// memoised on (block, env, facts, marks); values are invalidated when the
// block defining them is re-entered, so loops are handled conservatively.

import (
	"fmt"
	"go/constant"
	"go/token"
	"go/types"
	"sort"
	"strings"

	"golang.org/x/tools/go/ssa"
)

type c07PathEnd struct {
	Ret   *ssa.Return
	Vals  []ssa.Value // resolved result values (nil = unknown)
	Nil   []int       // -1 nil/false, +1 non-nil/true, 0 unknown
	Marks map[string]bool
	Trail string
}

type c07WalkSpec struct {
	Markers []Barrier
	// Reset clears every mark when it matches (a new message = new obligations).
	Reset func(in ssa.Instruction) bool
	// GlobalsNonNil: a load of a package-level variable counts as non-nil
	// (error sentinels initialised with errors.New).
	GlobalsNonNil bool
	MaxStates     int
}

type c07step struct {
	iff  *ssa.If
	succ int
}

type c07state struct {
	env   map[ssa.Value]ssa.Value // phi / alloc → resolved value (nil = unknown)
	facts map[ssa.Value]int
	marks map[string]bool
	trail []c07step
}

func (s *c07state) clone() *c07state {
	n := &c07state{env: make(map[ssa.Value]ssa.Value, len(s.env)), facts: make(map[ssa.Value]int, len(s.facts)), marks: make(map[string]bool, len(s.marks))}
	for k, v := range s.env {
		n.env[k] = v
	}
	for k, v := range s.facts {
		n.facts[k] = v
	}
	for k, v := range s.marks {
		n.marks[k] = v
	}
	n.trail = append([]c07step{}, s.trail...)
	return n
}

func c07vname(v ssa.Value) string {
	if v == nil {
		return "?"
	}
	return v.Name()
}

func (s *c07state) key(b *ssa.BasicBlock) string {
	var parts []string
	for k, v := range s.env {
		parts = append(parts, "e"+c07vname(k)+"="+c07vname(v))
	}
	for k, v := range s.facts {
		parts = append(parts, fmt.Sprintf("f%s=%d", c07vname(k), v))
	}
	for k := range s.marks {
		parts = append(parts, "m"+k)
	}
	sort.Strings(parts)
	return fmt.Sprintf("%d|%s", b.Index, strings.Join(parts, ","))
}

// c07SimpleCell: the alloc is only stored to and loaded from directly.
func c07SimpleCell(al *ssa.Alloc) bool {
	if al.Referrers() == nil {
		return false
	}
	for _, r := range *al.Referrers() {
		switch x := r.(type) {
		case *ssa.Store:
			if x.Addr != al {
				return false
			}
		case *ssa.UnOp:
			if x.Op != token.MUL {
				return false
			}
		case *ssa.DebugRef:
		default:
			return false
		}
	}
	return true
}

func c07IsNilConst(v ssa.Value) bool {
	c, ok := v.(*ssa.Const)
	return ok && c.Value == nil
}

func c07BoolConst(v ssa.Value) (bool, bool) {
	c, ok := v.(*ssa.Const)
	if !ok || c.Value == nil || c.Value.Kind() != constant.Bool {
		return false, false
	}
	return constant.BoolVal(c.Value), true
}

type c07walker struct {
	c       *Ctx
	fn      *ssa.Function
	spec    c07WalkSpec
	tracked map[ssa.Value]bool
}

func (w *c07walker) track(v ssa.Value) {
	if v == nil || w.tracked[v] {
		return
	}
	w.tracked[v] = true
	switch x := v.(type) {
	case *ssa.Phi:
		for _, e := range x.Edges {
			w.track(e)
		}
	case *ssa.UnOp:
		switch x.Op {
		case token.MUL:
			if al, ok := x.X.(*ssa.Alloc); ok && c07SimpleCell(al) {
				w.tracked[al] = true
				for _, r := range *al.Referrers() {
					if st, ok := r.(*ssa.Store); ok {
						w.track(st.Val)
					}
				}
			}
		case token.NOT:
			w.track(x.X)
		}
	case *ssa.BinOp:
		if x.Op == token.EQL || x.Op == token.NEQ {
			if c07IsNilConst(x.X) || c07IsNilConst(x.Y) {
				w.track(x.X)
				w.track(x.Y)
			} else if _, ok := c07BoolConst(x.X); ok {
				w.track(x.Y)
			} else if _, ok := c07BoolConst(x.Y); ok {
				w.track(x.X)
			}
		}
	case *ssa.ChangeInterface:
		w.track(x.X)
	case *ssa.ChangeType:
		w.track(x.X)
	}
}

// condRoot: the value a branch condition finally tests (through !, ==nil, ==true).
func c07condRoot(v ssa.Value) ssa.Value {
	for {
		switch x := v.(type) {
		case *ssa.UnOp:
			if x.Op == token.NOT {
				v = x.X
				continue
			}
		case *ssa.BinOp:
			if x.Op == token.EQL || x.Op == token.NEQ {
				if c07IsNilConst(x.Y) {
					v = x.X
					continue
				}
				if c07IsNilConst(x.X) {
					v = x.Y
					continue
				}
				if _, ok := c07BoolConst(x.Y); ok {
					v = x.X
					continue
				}
				if _, ok := c07BoolConst(x.X); ok {
					v = x.Y
					continue
				}
			}
		}
		return v
	}
}

func (w *c07walker) resolve(v ssa.Value, s *c07state) ssa.Value {
	for i := 0; i < 50 && v != nil; i++ {
		switch x := v.(type) {
		case *ssa.Phi:
			r, ok := s.env[x]
			if !ok {
				return v
			}
			v = r
			continue
		case *ssa.UnOp:
			if x.Op == token.MUL {
				if al, ok := x.X.(*ssa.Alloc); ok && w.tracked[al] {
					r, ok := s.env[al]
					if !ok {
						// never stored on this path: zero value
						return ssa.NewConst(nil, deref(al.Type()))
					}
					v = r
					continue
				}
			}
		case *ssa.ChangeInterface:
			v = x.X
			continue
		case *ssa.ChangeType:
			v = x.X
			continue
		}
		return v
	}
	return v
}

func (w *c07walker) nilness(v ssa.Value, s *c07state) int {
	if v == nil {
		return 0
	}
	if c, ok := v.(*ssa.Const); ok {
		if c.Value == nil {
			return -1
		}
		if b, ok := c07BoolConst(v); ok {
			if b {
				return 1
			}
			return -1
		}
		return 1
	}
	if f, ok := s.facts[v]; ok {
		return f
	}
	switch x := v.(type) {
	case *ssa.MakeInterface, *ssa.Alloc, *ssa.FieldAddr, *ssa.IndexAddr, *ssa.MakeClosure, *ssa.Function, *ssa.MakeMap, *ssa.MakeSlice, *ssa.MakeChan:
		return 1
	case *ssa.UnOp:
		if x.Op == token.MUL && w.spec.GlobalsNonNil {
			if _, ok := x.X.(*ssa.Global); ok {
				return 1
			}
		}
	}
	return 0
}

// eval reduces a condition to (atom, pol, known): the condition is true exactly
// when atom is truthy (pol) / falsy (!pol); known = +1 true, -1 false, 0 open.
func (w *c07walker) eval(v ssa.Value, s *c07state) (ssa.Value, bool, int) {
	v = w.resolve(v, s)
	if v == nil {
		return nil, true, 0
	}
	switch x := v.(type) {
	case *ssa.Const:
		if b, ok := c07BoolConst(v); ok {
			if b {
				return v, true, 1
			}
			return v, true, -1
		}
	case *ssa.UnOp:
		if x.Op == token.NOT {
			a, p, k := w.eval(x.X, s)
			return a, !p, -k
		}
	case *ssa.BinOp:
		if x.Op == token.EQL || x.Op == token.NEQ {
			var other ssa.Value
			if c07IsNilConst(x.Y) {
				other = x.X
			} else if c07IsNilConst(x.X) {
				other = x.Y
			}
			if other != nil {
				o := w.resolve(other, s)
				pol := x.Op == token.NEQ
				n := w.nilness(o, s)
				if !pol {
					n = -n
				}
				return o, pol, n
			}
			var b, ok bool
			if b, ok = c07BoolConst(x.Y); ok {
				other = x.X
			} else if b, ok = c07BoolConst(x.X); ok {
				other = x.Y
			}
			if other != nil {
				a, p, k := w.eval(other, s)
				if (x.Op == token.EQL) == b {
					return a, p, k
				}
				return a, !p, -k
			}
		}
	}
	k := 0
	if f, ok := s.facts[v]; ok {
		k = f
	}
	return v, true, k
}

// c07Walk enumerates abstract paths of fn (top function only) from its entry
// to every return.  complete=false when the state budget was exhausted.
func (c *Ctx) c07Walk(fn *ssa.Function, spec c07WalkSpec) (ends []c07PathEnd, complete bool) {
	if fn == nil || len(fn.Blocks) == 0 {
		return nil, false
	}
	if spec.MaxStates == 0 {
		spec.MaxStates = 200000
	}
	w := &c07walker{c: c, fn: fn, spec: spec, tracked: map[ssa.Value]bool{}}
	for _, b := range fn.Blocks {
		for _, in := range b.Instrs {
			switch x := in.(type) {
			case *ssa.Return:
				for _, r := range x.Results {
					w.track(r)
				}
			case *ssa.If:
				root := c07condRoot(x.Cond)
				switch r := root.(type) {
				case *ssa.Phi:
					w.track(x.Cond)
				case *ssa.UnOp:
					if al, ok := r.X.(*ssa.Alloc); ok && r.Op == token.MUL && c07SimpleCell(al) {
						w.track(x.Cond)
					}
				}
			}
		}
	}
	type item struct {
		b    *ssa.BasicBlock
		pred *ssa.BasicBlock
		s    *c07state
	}
	seen := map[string]bool{}
	stack := []item{{fn.Blocks[0], nil, &c07state{env: map[ssa.Value]ssa.Value{}, facts: map[ssa.Value]int{}, marks: map[string]bool{}}}}
	n := 0
	complete = true
	for len(stack) > 0 {
		it := stack[len(stack)-1]
		stack = stack[:len(stack)-1]
		b, s := it.b, it.s
		// phis (simultaneous assignment through the incoming edge)
		if it.pred != nil {
			idx := -1
			for i, p := range b.Preds {
				if p == it.pred {
					idx = i
				}
			}
			newv := map[ssa.Value]ssa.Value{}
			for _, in := range b.Instrs {
				phi, ok := in.(*ssa.Phi)
				if !ok {
					break
				}
				if !w.tracked[phi] || idx < 0 {
					continue
				}
				newv[phi] = w.resolve(phi.Edges[idx], s)
			}
			for k, v := range newv {
				s.env[k] = v
			}
		}
		// values (re)defined in this block lose what was known about them
		for _, in := range b.Instrs {
			v, ok := in.(ssa.Value)
			if !ok {
				continue
			}
			if _, isPhi := in.(*ssa.Phi); isPhi {
				continue
			}
			delete(s.facts, v)
			for k, ev := range s.env {
				if ev == v {
					s.env[k] = nil
				}
			}
		}
		k := s.key(b)
		if seen[k] {
			continue
		}
		seen[k] = true
		n++
		if n > spec.MaxStates {
			complete = false
			break
		}
		for _, in := range b.Instrs {
			if spec.Reset != nil && spec.Reset(in) {
				s.marks = map[string]bool{}
			}
			for _, m := range spec.Markers {
				if m.Instr != nil && m.Instr(in) {
					s.marks[m.Name] = true
				}
			}
			switch x := in.(type) {
			case *ssa.Store:
				if al, ok := x.Addr.(*ssa.Alloc); ok && w.tracked[al] {
					s.env[al] = w.resolve(x.Val, s)
				}
			case *ssa.Return:
				e := c07PathEnd{Ret: x, Marks: s.marks, Trail: c.c07trail(s.trail)}
				for _, r := range x.Results {
					rv := w.resolve(r, s)
					e.Vals = append(e.Vals, rv)
					e.Nil = append(e.Nil, w.nilness(rv, s))
				}
				ends = append(ends, e)
			case *ssa.If:
				atom, pol, known := w.eval(x.Cond, s)
				cond := condOf(x)
				for succ, sb := range b.Succs {
					if (known == 1 && succ == 1) || (known == -1 && succ == 0) {
						continue // infeasible on this path
					}
					ns := s.clone()
					if atom != nil && (w.tracked[atom] || w.tracked[c07condRoot(x.Cond)]) {
						if _, isConst := atom.(*ssa.Const); !isConst {
							truthy := pol
							if succ == 1 {
								truthy = !pol
							}
							if truthy {
								ns.facts[atom] = 1
							} else {
								ns.facts[atom] = -1
							}
						}
					}
					for _, m := range spec.Markers {
						if m.Edge != nil {
							if ok, which := m.Edge(cond); ok && which == succ {
								ns.marks[m.Name] = true
							}
						}
					}
					ns.trail = append(ns.trail, c07step{x, succ})
					stack = append(stack, item{sb, b, ns})
				}
			case *ssa.Jump:
				stack = append(stack, item{b.Succs[0], b, s})
			}
		}
	}
	return ends, complete
}

func (c *Ctx) c07trail(steps []c07step) string {
	var out []string
	for _, st := range steps {
		w := "T"
		if st.succ == 1 {
			w = "F"
		}
		out = append(out, fmt.Sprintf("%s[%s]", c.lineOf(st.iff), w))
	}
	if len(out) > 14 {
		out = append(out[:4], append([]string{"…"}, out[len(out)-9:]...)...)
	}
	return strings.Join(out, "→")
}

// c07Holds lifts a pattern over flow-insensitive cells and phis: the value is
// p itself or a cell / phi one of whose contents matches p.
func c07Holds(p Pat) Pat {
	return func(e *Expr) bool {
		e = strip(e)
		if e == nil {
			return false
		}
		if p(e) {
			return true
		}
		if e.K == EAlloc || e.K == EPhi {
			for _, a := range e.Args {
				if p(a) {
					return true
				}
			}
		}
		return false
	}
}

// c07EffectiveResult: for functions with named results and defer, a
// `return x, y` is lowered to stores into the result cells followed by loads;
// this returns the value stored last in the return's own block (or the
// operand itself when there is no such store).
func c07EffectiveResult(ret *ssa.Return, idx int) ssa.Value {
	if idx >= len(ret.Results) {
		return nil
	}
	v := ret.Results[idx]
	ld, ok := v.(*ssa.UnOp)
	if !ok || ld.Op != token.MUL {
		return v
	}
	al, ok := ld.X.(*ssa.Alloc)
	if !ok {
		return v
	}
	var last ssa.Value
	for _, in := range ret.Block().Instrs {
		if in == ssa.Instruction(ret) {
			break
		}
		if st, ok := in.(*ssa.Store); ok && st.Addr == al {
			last = st.Val
		}
	}
	if last != nil {
		return last
	}
	return v
}

// c07ParamIdx matches a parameter by position (renaming-proof).
func c07ParamIdx(idx int) Pat {
	return func(e *Expr) bool {
		e = strip(e)
		return e != nil && e.K == EParam && e.Idx == idx
	}
}

// c07ClosureArgs: when v is parameter #i of an anonymous function, the values
// passed for it at the calls of that closure inside its parent (nil if the
// closure escapes or is never called directly).
func c07ClosureArgs(v ssa.Value) []ssa.Value {
	p, ok := v.(*ssa.Parameter)
	if !ok || p.Parent() == nil || p.Parent().Parent() == nil {
		return nil
	}
	fn := p.Parent()
	idx := -1
	for i, q := range fn.Params {
		if q == p {
			idx = i
		}
	}
	if idx < 0 {
		return nil
	}
	var out []ssa.Value
	for _, par := range WithAnons(fn.Parent()) {
		for _, b := range par.Blocks {
			for _, in := range b.Instrs {
				cc := callCommon(in)
				if cc == nil || cc.IsInvoke() {
					continue
				}
				callee := cc.Value
				// direct call of the closure value, or of a cell holding it
				target := false
				switch x := callee.(type) {
				case *ssa.MakeClosure:
					target = x.Fn == fn
				case *ssa.Function:
					target = x == fn
				default:
					e := Desc(callee)
					for _, l := range Origins(e, nil) {
						if (l.K == EClosure || l.K == EFunc) && l.SFn == fn {
							target = true
						}
					}
				}
				if target && idx < len(cc.Args) {
					out = append(out, cc.Args[idx])
				}
			}
		}
	}
	return out
}

// c07NamedType reports whether t (after deref) is the named type pkgSuffix.name.
func c07NamedType(t types.Type, pkgSuffix, name string) bool {
	n, ok := deref(t).(*types.Named)
	if !ok || n.Obj() == nil || n.Obj().Name() != name {
		return false
	}
	return n.Obj().Pkg() != nil && strings.HasSuffix(n.Obj().Pkg().Path(), pkgSuffix)
}

// c07FieldOf: e is a load of field fv whose base matches base.
func c07FieldOf(fv *types.Var, base Pat) Pat {
	return func(e *Expr) bool {
		e = strip(e)
		return e != nil && e.K == EField && e.Var == fv && (base == nil || base(e.X))
	}
}

// c07WholeStores: the values stored as a whole into a local struct cell whose
// fields are only ever read (FieldAddr referrers are loaded, never stored
// through), also when the cell is captured by closures.  ok=false otherwise.
func c07WholeStores(al *ssa.Alloc) ([]ssa.Value, bool) {
	var out []ssa.Value
	var readOnly func(refs []ssa.Instruction, self ssa.Value, d int) bool
	readOnly = func(refs []ssa.Instruction, self ssa.Value, d int) bool {
		if d > 6 {
			return false
		}
		for _, r := range refs {
			switch x := r.(type) {
			case *ssa.Store:
				if x.Addr != self {
					return false
				}
				if self != ssa.Value(al) {
					return false // store through a field address
				}
				out = append(out, x.Val)
			case *ssa.UnOp:
				if x.Op != token.MUL {
					return false
				}
			case *ssa.FieldAddr:
				if x.Referrers() == nil {
					return false
				}
				for _, rr := range *x.Referrers() {
					switch y := rr.(type) {
					case *ssa.UnOp:
						if y.Op != token.MUL {
							return false
						}
					case *ssa.DebugRef:
					default:
						return false
					}
				}
			case *ssa.MakeClosure:
				fn, ok := x.Fn.(*ssa.Function)
				if !ok {
					return false
				}
				for i, b := range x.Bindings {
					if b == self && i < len(fn.FreeVars) {
						fv := fn.FreeVars[i]
						if fv.Referrers() == nil || !readOnlyFree(fv, &out, al) {
							return false
						}
					}
				}
			case *ssa.DebugRef:
			default:
				return false
			}
		}
		return true
	}
	if al.Referrers() == nil || !readOnly(*al.Referrers(), al, 0) {
		return nil, false
	}
	return out, true
}

func readOnlyFree(fv *ssa.FreeVar, out *[]ssa.Value, al *ssa.Alloc) bool {
	for _, r := range *fv.Referrers() {
		switch x := r.(type) {
		case *ssa.UnOp:
			if x.Op != token.MUL {
				return false
			}
		case *ssa.FieldAddr:
			if x.Referrers() == nil {
				return false
			}
			for _, rr := range *x.Referrers() {
				if y, ok := rr.(*ssa.UnOp); !ok || y.Op != token.MUL {
					if _, isDbg := rr.(*ssa.DebugRef); !isDbg {
						return false
					}
				}
			}
		case *ssa.DebugRef:
		default:
			return false
		}
	}
	return true
}

// c07Through: some sub-expression matches p, looking through read-only local
// struct copies (r := resp[0]; req spilled to a cell).
func c07Through(p Pat) Pat {
	var rec func(e *Expr, d int) bool
	rec = func(e *Expr, d int) bool {
		if e == nil || d > 30 {
			return false
		}
		if p(e) {
			return true
		}
		if e.K == EAlloc && len(e.Args) == 0 {
			if al, ok := e.V.(*ssa.Alloc); ok {
				if vs, ok := c07WholeStores(al); ok {
					for _, v := range vs {
						if rec(Desc(v), d+1) {
							return true
						}
					}
				}
			}
		}
		if rec(e.X, d+1) || rec(e.Y, d+1) {
			return true
		}
		for _, a := range e.Args {
			if rec(a, d+1) {
				return true
			}
		}
		return false
	}
	return func(e *Expr) bool { return rec(e, 0) }
}

// c07StructOrigins: leaf origins of v, looking through one read-only local
// struct copy.
func c07StructOrigins(v ssa.Value) []*Expr {
	if ld, ok := v.(*ssa.UnOp); ok && ld.Op == token.MUL {
		if al, ok := ld.X.(*ssa.Alloc); ok {
			if vs, ok := c07WholeStores(al); ok && len(vs) > 0 {
				var out []*Expr
				for _, sv := range vs {
					out = append(out, Origins(Desc(sv), nil)...)
				}
				return out
			}
		}
	}
	return Origins(Desc(v), nil)
}

// ---------------------------------------------------------------------------
// Boolean formulas decided on the CFG (round 2): the function's bool result as
// a decision table over named atoms.  Any arrangement of the same atoms —
// one && / || expression, early-return guards, nested ifs, De Morgan, named
// boolean locals (phis) — yields the same table; a dropped atom makes the
// table independent of it, an extra test is "something other than the atoms".

type c07Atom struct {
	Name string
	// Match: cond is this atom; the condition is true exactly when atom == pol.
	Match func(cond *Expr) (matched bool, pol bool)
}

// c07AtomTruthy: the atom is a value matched by p, tested for truth / non-nil
// (through !, == nil, != nil, == true …).
func c07AtomTruthy(name string, p Pat) c07Atom {
	return c07Atom{Name: name, Match: func(cond *Expr) (bool, bool) {
		a, pol := Truthy(cond)
		if a != nil && p(a) {
			return true, pol
		}
		return false, false
	}}
}

// c07AtomCmp: the atom is the comparison lhs op rhs (mirrored / negated forms included).
func c07AtomCmp(name string, lhs Pat, op token.Token, rhs Pat) c07Atom {
	return c07Atom{Name: name, Match: func(cond *Expr) (bool, bool) {
		return CmpMatch(cond, lhs, op, rhs)
	}}
}

// c07BoolTable evaluates result #idx of fn for each of the 2^n assignments
// (bit i = atom i true).  err != "" when a branch or the returned value is
// something other than a constant or one of the atoms.
func c07BoolTable(fn *ssa.Function, idx int, atoms []c07Atom) (table []bool, err string) {
	if fn == nil || len(fn.Blocks) == 0 {
		return nil, "function has no body"
	}
	n := len(atoms)
	table = make([]bool, 1<<n)
	for row := 0; row < 1<<n; row++ {
		env := map[*ssa.Phi]ssa.Value{}
		resolve := func(v ssa.Value) ssa.Value {
			for i := 0; i < 40; i++ {
				switch x := v.(type) {
				case *ssa.Phi:
					r, ok := env[x]
					if !ok {
						return v
					}
					v = r
					continue
				case *ssa.ChangeType:
					v = x.X
					continue
				}
				break
			}
			return v
		}
		var eval func(v ssa.Value) (bool, string)
		eval = func(v ssa.Value) (bool, string) {
			v = resolve(v)
			if b, ok := c07BoolConst(v); ok {
				return b, ""
			}
			if _, isPhi := v.(*ssa.Phi); isPhi {
				return false, "unresolved phi"
			}
			// !x and x == const-bool over phis are not visible to Desc: peel here
			if u, ok := v.(*ssa.UnOp); ok && u.Op == token.NOT {
				b, e := eval(u.X)
				return !b, e
			}
			if bo, ok := v.(*ssa.BinOp); ok && (bo.Op == token.EQL || bo.Op == token.NEQ) {
				if k, ok := c07BoolConst(bo.Y); ok {
					b, e := eval(bo.X)
					return (b == k) == (bo.Op == token.EQL), e
				}
				if k, ok := c07BoolConst(bo.X); ok {
					b, e := eval(bo.Y)
					return (b == k) == (bo.Op == token.EQL), e
				}
			}
			e := Desc(v)
			for ai, a := range atoms {
				if m, pol := a.Match(e); m {
					return (row&(1<<ai) != 0) == pol, ""
				}
			}
			return false, "tests something other than the declared atoms: " + trunc(e.String(), 160)
		}
		b := fn.Blocks[0]
		var pred *ssa.BasicBlock
		steps := 0
	walk:
		for {
			steps++
			if steps > 5000 {
				return nil, "walk did not reach a return"
			}
			if pred != nil {
				pi := -1
				for i, p := range b.Preds {
					if p == pred {
						pi = i
					}
				}
				nv := map[*ssa.Phi]ssa.Value{}
				for _, in := range b.Instrs {
					phi, ok := in.(*ssa.Phi)
					if !ok {
						break
					}
					if pi >= 0 {
						nv[phi] = resolve(phi.Edges[pi])
					}
				}
				for k, v := range nv {
					env[k] = v
				}
			}
			if len(b.Instrs) == 0 {
				return nil, "empty block"
			}
			switch t := b.Instrs[len(b.Instrs)-1].(type) {
			case *ssa.Return:
				if idx >= len(t.Results) {
					return nil, "result index out of range"
				}
				v, e := eval(t.Results[idx])
				if e != "" {
					return nil, "returned value " + e
				}
				table[row] = v
				break walk
			case *ssa.If:
				v, e := eval(t.Cond)
				if e != "" {
					return nil, "branch " + e
				}
				pred = b
				if v {
					b = b.Succs[0]
				} else {
					b = b.Succs[1]
				}
			case *ssa.Jump:
				pred = b
				b = b.Succs[0]
			default:
				return nil, "reached a non-return exit"
			}
		}
	}
	return table, ""
}

// c07FormulaCheck: fn's bool result ≡ ref over the atoms (decided on the CFG).
func (c *Ctx) c07FormulaCheck(rule, key string, fn *ssa.Function, idx int, atoms []c07Atom, ref func(v map[string]bool) bool, refText string) {
	if fn == nil {
		c.unresolved(rule, key, "function not found")
		return
	}
	tab, err := c07BoolTable(fn, idx, atoms)
	if err != "" {
		c.undecided(rule, key, fn.Pos(), fnKey(fn)+": "+err+" (expected "+refText+")")
		return
	}
	for row := range tab {
		v := map[string]bool{}
		var as []string
		for i, a := range atoms {
			v[a.Name] = row&(1<<i) != 0
			as = append(as, fmt.Sprintf("%s=%v", a.Name, v[a.Name]))
		}
		if want := ref(v); want != tab[row] {
			c.violation(rule, key, fn.Pos(), fmt.Sprintf("%s differs from %s at %s: code=%v reference=%v", fnKey(fn), refText, strings.Join(as, ","), tab[row], want))
			return
		}
	}
	var names []string
	for _, a := range atoms {
		names = append(names, a.Name)
	}
	c.ok(rule, key, fn.Pos(), fmt.Sprintf("%s ≡ %s over atoms %v (decision table on the CFG, %d rows)", fnKey(fn), refText, names, len(tab)))
}

// ---------------------------------------------------------------------------
// Guard lifting through unexported helpers (round 2).
//
// c07LiftAny(bars…) is one barrier that is crossed by
//   - any edge / instruction one of bars matches directly, or
//   - the "good" edge of a branch on the result of a module-internal helper
//     call: the truthy edge for a bool result, the nil edge for an error /
//     pointer result — provided every path of the helper that can return a
//     good value (possibly true / possibly nil) crossed one of bars inside the
//     helper (decided path-sensitively with c07Walk; helpers of helpers up to
//     depth 2).
// So `if !inBailiwick(name, qname, level) { continue }` or
// `if err := r.admitAttempt(…); err != nil { return nil, err }` establish what
// the inlined comparisons established.  Patterns inside bars must not depend on
// the anchored function's parameter positions.

var c07LiftCache = map[string]bool{}

func (c *Ctx) c07LiftAny(name string, bars ...Barrier) Barrier {
	return c.c07LiftDepth(name, 0, bars...)
}

func (c *Ctx) c07LiftDepth(name string, depth int, bars ...Barrier) Barrier {
	var bn []string
	for _, b := range bars {
		bn = append(bn, b.Name)
	}
	setKey := strings.Join(bn, "|")
	helperGood := func(sf *ssa.Function, idx int) bool {
		if sf == nil || len(sf.Blocks) == 0 || depth >= 2 {
			return false
		}
		pk := fnPkg(sf)
		if pk == nil || !c.P.inModule(pk.Path()) {
			return false
		}
		key := fmt.Sprintf("%p|%d|%s|%d", sf, idx, setKey, depth)
		if v, ok := c07LiftCache[key]; ok {
			return v
		}
		c07LiftCache[key] = false // recursion guard
		good, bad, decided := c.c07GoodReturnsGuarded(sf, idx, depth, bars...)
		c07LiftCache[key] = decided && bad == nil && good > 0
		return c07LiftCache[key]
	}
	return Barrier{
		Name: name,
		Instr: func(in ssa.Instruction) bool {
			for _, b := range bars {
				if b.Instr != nil && b.Instr(in) {
					return true
				}
			}
			return false
		},
		Edge: func(cond *Expr) (bool, int) {
			for _, b := range bars {
				if b.Edge != nil {
					if m, s := b.Edge(cond); m {
						return m, s
					}
				}
			}
			a, pol := Truthy(cond)
			a = strip(a)
			if a == nil {
				return false, 0
			}
			idx := 0
			call := a
			if a.K == EExtract {
				idx = a.Idx
				call = strip(a.X)
			}
			if call == nil || call.K != ECall || call.SFn == nil {
				return false, 0
			}
			if !helperGood(call.SFn, idx) {
				return false, 0
			}
			isBool := false
			if call.SFn.Signature.Results().Len() > idx {
				if bt, ok := call.SFn.Signature.Results().At(idx).Type().Underlying().(*types.Basic); ok && bt.Kind() == types.Bool {
					isBool = true
				}
			}
			// bool: truthy edge; error/pointer: falsy (nil) edge
			wantTruthy := isBool
			if pol == wantTruthy {
				return true, 0
			}
			return true, 1
		},
	}
}

// c07ParamOfType: any parameter whose type is the named type pkgSuffix.name
// (position-independent, so the pattern also works inside an extracted helper).
func c07ParamOfType(pkgSuffix, name string) Pat {
	return func(e *Expr) bool {
		e = strip(e)
		if e == nil || e.K != EParam || e.V == nil {
			return false
		}
		return c07NamedType(e.V.Type(), pkgSuffix, name)
	}
}

// c07IntParam: any parameter of a basic integer type.
func c07IntParam(e *Expr) bool {
	e = strip(e)
	if e == nil || e.K != EParam || e.V == nil {
		return false
	}
	bt, ok := e.V.Type().Underlying().(*types.Basic)
	return ok && bt.Info()&types.IsInteger != 0
}

// c07GoodReturnsGuarded: every path of fn that can return a "good" value in
// result #idx (possibly true for bool, possibly nil for error/pointer) crossed
// one of bars — directly, through a helper (lifting, depth-limited), or by
// returning the guarding value itself.  Returns the number of good path
// classes, the first offending path, and whether the question was decidable.
func (c *Ctx) c07GoodReturnsGuarded(fn *ssa.Function, idx int, depth int, bars ...Barrier) (good int, bad *c07PathEnd, decided bool) {
	if fn == nil || len(fn.Blocks) == 0 {
		return 0, nil, false
	}
	res := fn.Signature.Results()
	if idx >= res.Len() {
		return 0, nil, false
	}
	isBool := false
	if bt, ok := res.At(idx).Type().Underlying().(*types.Basic); ok && bt.Kind() == types.Bool {
		isBool = true
	} else {
		switch res.At(idx).Type().Underlying().(type) {
		case *types.Interface, *types.Pointer:
		default:
			return 0, nil, false
		}
	}
	inner := c.c07LiftDepth("m", depth+1, bars...)
	inner.Name = "m"
	ends, complete := c.c07Walk(fn, c07WalkSpec{Markers: []Barrier{inner}, GlobalsNonNil: true, MaxStates: 20000})
	if !complete {
		return 0, nil, false
	}
	for i := range ends {
		e := &ends[i]
		if idx >= len(e.Nil) {
			return 0, nil, false
		}
		isGood := (isBool && e.Nil[idx] != -1) || (!isBool && e.Nil[idx] != 1)
		if !isGood {
			continue
		}
		good++
		if e.Marks["m"] {
			continue
		}
		// the function may return the guarding value itself (`return a >= b`,
		// `return ledger.Debit(k)`, `return helper(x)`): a good value of it is the barrier's edge
		est := false
		if e.Vals[idx] != nil && inner.Edge != nil {
			if m, succ := inner.Edge(Desc(e.Vals[idx])); m && ((isBool && succ == 0) || (!isBool && succ == 1)) {
				est = true
			}
		}
		if !est && bad == nil {
			bad = e
		}
	}
	return good, bad, true
}

// c07ViaParam: the expression matches p, or it is a parameter of a declared
// (non-closure) module function every call site of which passes an argument
// matching p (one level; position taken from the parameter itself, so it
// follows values into an extracted helper).
func (c *Ctx) c07ViaParam(p Pat) Pat {
	return func(e *Expr) bool {
		if p(e) {
			return true
		}
		e = strip(e)
		if e == nil || e.K != EParam {
			return false
		}
		par, ok := e.V.(*ssa.Parameter)
		if !ok || par.Parent() == nil || par.Parent().Parent() != nil {
			return false
		}
		fo := funcObjOf(par.Parent())
		if fo == nil {
			return false
		}
		sites := c.CallSites(fo)
		if len(sites) == 0 {
			return false
		}
		for _, s := range sites {
			if s.Kind == "ref" || s.Kind == "invoke" {
				return false
			}
			a := callArg(s.Instr, e.Idx)
			if a == nil || !p(Desc(a)) {
				return false
			}
		}
		return true
	}
}

// c07WhoMay is WhoMay that looks through extracted helpers: a site inside a
// declared function that is not in the table is accepted when every call site
// of that function (transitively, at most three levels, no function-value
// escapes) lies in a tabled function — the effect then still happens only on
// behalf of the tabled owners.  Table rows reached only that way count as used.
func (c *Ctx) c07WhoMay(rule, what string, sites []Site, allow map[string]string) {
	used := map[string]bool{}
	var owners func(fn *ssa.Function, depth int, seen map[*ssa.Function]bool) ([]string, bool)
	owners = func(fn *ssa.Function, depth int, seen map[*ssa.Function]bool) ([]string, bool) {
		top := TopLevel(fn)
		k := fnKey(top)
		if _, ok := allow[k]; ok {
			return []string{k}, true
		}
		if depth >= 3 || seen[top] {
			return nil, false
		}
		seen[top] = true
		fo := funcObjOf(top)
		if fo == nil || fo.Exported() {
			return nil, false
		}
		cs := c.CallSites(fo)
		if len(cs) == 0 {
			return nil, false
		}
		var out []string
		for _, s := range cs {
			if s.Kind == "ref" || s.Kind == "invoke" {
				return nil, false
			}
			if TopLevel(s.Fn) == top {
				continue // self recursion of the helper
			}
			o, ok := owners(s.Fn, depth+1, seen)
			if !ok {
				return nil, false
			}
			out = append(out, o...)
		}
		return out, len(out) > 0
	}
	for _, s := range sites {
		top := fnKey(TopLevel(s.Fn))
		key := fmt.Sprintf("%s|%s|%s", rule, what, top)
		if reason, ok := allow[top]; ok {
			used[top] = true
			c.ok(rule, key, instrPos(s.Instr), fmt.Sprintf("%s: %s site in %s (allowed: %s)", what, s.Kind, top, reason))
			continue
		}
		if s.Kind != "ref" {
			if os, ok := owners(s.Fn, 0, map[*ssa.Function]bool{}); ok {
				for _, o := range os {
					used[o] = true
				}
				sort.Strings(os)
				c.ok(rule, key, instrPos(s.Instr), fmt.Sprintf("%s: %s site in helper %s, reachable only from tabled %v", what, s.Kind, top, os))
				continue
			}
		}
		c.violation(rule, key, instrPos(s.Instr), fmt.Sprintf("%s: %s site in %s is not in the allowed set (nor a helper called only from it)", what, s.Kind, top))
	}
	var names []string
	for k := range allow {
		names = append(names, k)
	}
	sort.Strings(names)
	for _, k := range names {
		if !used[k] {
			c.unresolved(rule, what+"|"+k, "allowed site no longer exists (table row stale)")
		}
	}
}
