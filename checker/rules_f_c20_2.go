package main

// F-C20-2 / C20-R10 — the AAAA-filtered copy never reaches the client with the
// validator's AD bit, whichever way WriteMsg leaves.
//
// filterUpstreamAAAA returns the upstream answer itself when nothing was
// excluded, and otherwise a Copy() of it with records removed from Answer —
// header included, so the copy still says AD=1 although it is no longer the
// RRset the validator vouched for.  C20-R3 starts from the `stripped > 0`
// comparison and therefore only sees the arm in which that comparison is
// spelled; the defect was on the arm that never asks.  The necessary condition
// is stated from the other end:
//
//   on every path from the filterUpstreamAAAA call to a delegate WriteMsg whose
//   argument may be the filter's result #0 (directly, or through the local it
//   was assigned to), the path crosses
//     - a store AuthenticatedData=false, or
//     - an edge on which `stripped > 0` is false (result #3 of the same call:
//       nothing was removed, the message is the upstream's own) or on which the
//       upstream's / the copy's AD bit is not set (nothing to clear), tested
//       directly or through a boolean local that is false unless assigned such
//       atoms or their conjunction.
//   Alternatively the filter itself clears AD on the copy on every path from its
//   Copy() to its returns (cleared by construction) — then every consumer is
//   covered and nothing is asked of WriteMsg.
//
// Replies built by synthesise / buildAResponseAsBasis are not targets (their
// argument does not derive from the filter's result; C20-R3 covers them).
// Decided on the SSA CFG; nothing is executed.

import (
	"go/token"
	"go/types"

	"golang.org/x/tools/go/ssa"
)

// Rule id in one place: renumber here if the coordinator merges another C20 rule first.
const fC20_2Rule = "C20-R10"

func init() {
	wrap := func(id string, extra func(c *Ctx), explain string) {
		pd := props[id]
		if pd == nil {
			return
		}
		orig := pd.Run
		pd.Run = func(c *Ctx) { orig(c); extra(c) }
		pd.Explanation += " " + explain
	}
	wrap("C20", c20FilteredAD, "R10 (added): every path from the filterUpstreamAAAA call to a delegate write of a message that may be the filtered copy crosses AuthenticatedData=false or an edge on which stripped>0 is false (or the filter clears AD on its copy itself) — the copy inherits the validator's AD bit with the header, and the arm on which nothing survives the filter and synthesis yields no replacement wrote it unchanged.")
}

// nothingStrippedEdge is the branch edge on which the filtered copy is known not
// to be an edited message that still says AD=1:
//   - result #3 of the filter call (the count of removed records) is not positive:
//     the false edge of `stripped > 0` (also spelled != 0 / >= 1, mirrored or negated);
//   - the AD bit of the upstream message / of the copy (same header) is not set
//     (only when adF is given).
//
// Either is tested directly or through a boolean local.  A flag that starts out
// false and is only ever assigned such atoms or their conjunction
// (`strippedAny, filteredAD := false, false; … = stripped > 0, stripped > 0 && m.AuthenticatedData`)
// counts as the atom: flag=false means one of the conjuncts is false, or the
// filter never ran — in every case there is nothing to clear.
func nothingStrippedEdge(name string, filt *types.Func, adF *types.Var) Barrier {
	cmp := func(e *Expr) (bool, bool) {
		if m, p := CmpMatch(e, ResultOf(3, filt), token.GTR, IsConstInt(0)); m {
			return m, p
		}
		if m, p := CmpMatch(e, ResultOf(3, filt), token.NEQ, IsConstInt(0)); m {
			return m, p
		}
		return CmpMatch(e, ResultOf(3, filt), token.GEQ, IsConstInt(1))
	}
	adOfReply := func(e *Expr) bool {
		if adF == nil || e == nil || e.K != EField || e.Var != adF {
			return false
		}
		// MsgHdr is embedded: the base is (&msg.MsgHdr) of the message handed to the writer or of the copy
		ok := false
		for _, l := range Origins(e.X, func(x *Expr) []int { return nil }) {
			b := l
			for b != nil && b.K == EField {
				b = b.X
			}
			if b == nil {
				return false
			}
			good := false
			for _, o := range Origins(b, nil) {
				if o.K == EParam || ResultOf(0, filt)(o) {
					good = true
				} else {
					return false
				}
			}
			if !good {
				return false
			}
			ok = true
		}
		return ok
	}
	var safeWhenFalse func(e *Expr, d int) bool
	safeWhenFalse = func(e *Expr, d int) bool {
		if e == nil || d > 4 {
			return false
		}
		if m, p := cmp(e); m {
			return p
		}
		if adOfReply(e) {
			return true
		}
		if e.K == EPhi {
			n := 0
			for _, op := range e.Args {
				if IsConstBool(false)(op) {
					continue
				}
				if !safeWhenFalse(op, d+1) {
					return false
				}
				n++
			}
			return n > 0
		}
		return false
	}
	flag := func(e *Expr) (bool, bool) {
		if m, p := cmp(e); m {
			return m, p
		}
		if safeWhenFalse(e, 0) {
			return true, true
		}
		return false, false
	}
	return Barrier{Name: name, Edge: func(c *Expr) (bool, int) { return edgeFor(c, flag, false) }}
}

// filterResultItself: the value may BE result #0 of the filter call (through phis
// and local cells) — not merely be computed from it (a reply synthesise built
// from the filtered message is a different message, covered by C20-R3's builder clause).
func filterResultItself(filt *types.Func) Pat {
	return func(e *Expr) bool {
		for _, l := range Origins(e, nil) {
			if ResultOf(0, filt)(l) {
				return true
			}
		}
		return false
	}
}

func c20FilteredAD(c *Ctx) {
	R := fC20_2Rule
	const pkg = "middleware/dns64"
	c.Doc(R, "dns64 responseWriter.WriteMsg: from the filterUpstreamAAAA call, every delegate WriteMsg whose argument may be the filter's result #0 is behind a store AuthenticatedData=false or behind the false edge of stripped>0 (result #3, directly or through a boolean local); or filterUpstreamAAAA clears AD on the copy between Copy() and every return")
	adF := c.field(R, "github.com/miekg/dns.MsgHdr.AuthenticatedData")
	filt := c.fobj(R, pkg+".(*responseWriter).filterUpstreamAAAA")
	filtFn := c.fn(R, pkg+".(*responseWriter).filterUpstreamAAAA")
	msgCopy := c.fobj(R, "github.com/miekg/dns.(*Msg).Copy")
	if adF == nil || filt == nil || filtFn == nil || msgCopy == nil {
		return
	}
	clearAD := StoreBarrier("AuthenticatedData=false", adF, IsConstBool(false))

	// cleared by construction inside the filter?
	if copies := instrsWhere(filtFn, isPlainCallTo(msgCopy)); len(copies) > 0 {
		byConstruction := true
		for _, cp := range copies {
			r := reach([]Point{pointAfter(cp)}, []Barrier{clearAD}, nil)
			for _, t := range r.order {
				if isReturn(t) {
					byConstruction = false
				}
			}
		}
		if byConstruction {
			c.ok(R, R+"|(*"+pkg+".responseWriter).filterUpstreamAAAA|copy leaves the filter with AD cleared", filtFn.Pos(), "filterUpstreamAAAA stores AuthenticatedData=false on every path from Copy() to a return: every consumer of the filtered copy is covered")
			return
		}
	}

	// the consumers: every function that calls the filter (discovered through the callee)
	n := 0
	seen := map[*ssa.Function]bool{}
	for _, s := range c.CallSites(filt) {
		if s.Kind != "call" {
			continue
		}
		fn := TopLevel(s.Fn)
		if seen[fn] {
			continue
		}
		seen[fn] = true
		fromFilter := filterResultItself(filt)
		writesFiltered := func(in ssa.Instruction) bool {
			cc := callCommon(in)
			if cc == nil || !cc.IsInvoke() || cc.Method.Name() != "WriteMsg" || len(cc.Args) != 1 {
				return false
			}
			return fromFilter(Desc(cc.Args[0]))
		}
		n += c.MustCrossFrom(R, fn, "AAAA-filtered copy written with the validator's AD bit", isPlainCallTo(filt), writesFiltered,
			clearAD,
			nothingStrippedEdge("stripped>0 is false / AD not set", filt, adF))
	}
	if n == 0 {
		c.unresolved(R, "filterUpstreamAAAA call", "no caller of filterUpstreamAAAA found (rule would pass vacuously)")
	}
}
