package main

// W4 / C01-w4g2c3 — C01-R18: a DNAME is applied on label boundaries only.
//
// RFC 6672 §2.3: a DNAME redirects the names strictly BELOW its owner, and
// "below" is a relation between label sequences.  Wherever the module performs
// the substitution — the left-over labels of the rewritten name spliced in
// front of the DNAME's target, i.e. a string concatenation one operand of
// which is a dns.DNAME's Target field — the DNAME's owner must have been
// established as a label-wise ancestor of the rewritten name.  An octet
// comparison (strings.HasSuffix, a hand-cut `name[len(name)-len(owner):] ==
// owner`) takes `shop.corp.test.` for an ancestor of `www.myshop.corp.test.`:
// answerChain then keeps a foreign DNAME and the records of the spliced name
// `www.my`+target as "the chain the question leads to", and they are relayed
// with AD=1 because each of them is genuinely signed by the zone.
//
//   every concatenation with a dns.DNAME.Target operand in non-test module
//   code (today: resolver.answerChain, dnsutil.DnameTarget,
//   dnssec.isSynthesizedCNAME — found through the field, not listed) lies
//   behind
//     - the true edge of a label-aware ancestor predicate: dnsutil.NameInZone,
//       dns.IsSubDomain, dnsname.Sub — applied (directly or inside an
//       unexported helper, engine summaries) to the name being rewritten when
//       that name is identifiable as the sliced operand, or
//     - the edge on which the number of shared trailing LABELS
//       (dnsname.CompareSuffix / dns.CompareDomainName) equals a dns.CountLabel.
//
// What the rule does not decide: that the number of octets cut off is right
// (value level), and that the predicate's other argument is the DNAME's owner
// (kept loose so that canonicalised copies, helper parameters and renamed
// locals are all accepted).  Nothing is executed.

import (
	"go/token"
	"go/types"
	"sort"

	"golang.org/x/tools/go/ssa"
)

func init() {
	wrap := func(id string, extra func(c *Ctx), explain string) {
		pd := props[id]
		if pd == nil {
			return
		}
		orig := pd.Run
		pd.Run = func(c *Ctx) { orig(c); extra(c) }
		pd.Explanation += " " + explain
	}
	wrap("C01", c01R18, "R18 (added): every DNAME substitution in the module (prefix of a name + DNAME target) is behind a label-wise ancestor test of the rewritten name against the DNAME owner — an octet-suffix test lets a DNAME owned by shop.corp.test. redirect www.myshop.corp.test. and pulls the records of an unrelated owner into an AD=1 answer.")
}

func c01R18(c *Ctx) {
	const R = "C01-R18"
	c.Doc(R, "DNAME substitution respects label boundaries: every string concatenation in non-test module code that has a dns.DNAME.Target operand (prefix of the rewritten name + target; discovered through the field) lies behind the true edge of a label-aware ancestor predicate (dnsutil.NameInZone / dns.IsSubDomain / dnsname.Sub, mentioning the sliced name where there is one) or behind `shared trailing labels (dnsname.CompareSuffix / dns.CompareDomainName) == dns.CountLabel(…)`; an octet-suffix comparison is not such a test")
	targetF := c.field(R, "github.com/miekg/dns.DNAME.Target")
	nameInZone := c.fobj(R, "internal/dnsutil.NameInZone")
	isSub := c.fobj(R, "github.com/miekg/dns.IsSubDomain")
	sub := c.fobj(R, "internal/dnsname.Sub")
	cmpSuffix := c.fobj(R, "internal/dnsname.CompareSuffix")
	cmpDomain := c.fobj(R, "github.com/miekg/dns.CompareDomainName")
	countLabel := c.fobj(R, "github.com/miekg/dns.CountLabel")
	if targetF == nil || nameInZone == nil || isSub == nil || sub == nil || cmpSuffix == nil || cmpDomain == nil || countLabel == nil {
		return
	}
	isTarget := FieldIs(targetF)
	// the operand of a concatenation that is (a conversion / canonicalisation-free read of) DNAME.Target
	readsTarget := func(v ssa.Value) bool {
		e := strip(Desc(v))
		return e != nil && isTarget(e)
	}
	// the base string of the slice on the other side, "" when the prefix is not a slice
	slicedBase := func(v ssa.Value) string {
		e := strip(Desc(v))
		if e == nil || e.K != ESlice || e.X == nil {
			return ""
		}
		return strip(e.X).String()
	}
	type site struct {
		in   *ssa.BinOp
		base string
	}
	var sites []site
	for _, f := range c.P.RepoFuncs() {
		for _, b := range f.Blocks {
			for _, in := range b.Instrs {
				bo, ok := in.(*ssa.BinOp)
				if !ok || bo.Op != token.ADD {
					continue
				}
				if bt, ok := bo.Type().Underlying().(*types.Basic); !ok || bt.Info()&types.IsString == 0 {
					continue
				}
				switch {
				case readsTarget(bo.Y):
					sites = append(sites, site{bo, slicedBase(bo.X)})
				case readsTarget(bo.X):
					sites = append(sites, site{bo, slicedBase(bo.Y)})
				}
			}
		}
	}
	if len(sites) == 0 {
		c.unresolved(R, "DNAME substitution", "no concatenation with a dns.DNAME.Target operand found in the module (rule would pass vacuously)")
		return
	}
	perFn := map[string]int{}
	for _, s := range sites {
		top := TopLevel(s.in.Parent())
		fk := fnKey(top)
		perFn[fk]++
		key := R + "|" + fk + "|DNAME target spliced onto a name only below the DNAME owner (label-wise)"
		if perFn[fk] > 1 {
			key += " #" + string(rune('0'+perFn[fk]))
		}
		mentionsBase := func(e *Expr) bool { return true }
		if s.base != "" {
			base := s.base
			mentionsBase = func(e *Expr) bool {
				for _, a := range e.Args {
					if Contains(func(x *Expr) bool { return x != nil && strip(x) != nil && strip(x).String() == base })(a) {
						return true
					}
				}
				return false
			}
		}
		ancestor := func(e *Expr) bool {
			e = strip(e)
			if e == nil || e.K != ECall || !CallTo(nameInZone, isSub, sub)(e) {
				return false
			}
			// inside a helper the arguments are the helper's parameters: the engine substitutes the
			// call's arguments, so the mention test is applied to what the caller passed
			return mentionsBase(e)
		}
		bars := []Barrier{
			OnTrue("label-wise ancestor(name, owner)", ancestor),
			OnCmp("shared trailing labels == CountLabel(owner)", CallTo(cmpSuffix, cmpDomain), token.EQL, CallTo(countLabel), true),
		}
		ug, tr := c.unguarded(s.in, bars, top)
		if !ug {
			c.ok(R, key, instrPos(s.in), "the substitution is behind a label-wise ancestor test")
			continue
		}
		// name the octet comparison that stands where the label test should be
		hint := ""
		var hs []string
		for _, g := range scopeFuncs(top) {
			for _, in := range instrsWhere(g, isCallNamed("HasSuffix", "HasPrefix", "TrimSuffix", "CutSuffix")) {
				hs = append(hs, c.P.pos(instrPos(in)))
			}
		}
		if len(hs) > 0 {
			sort.Strings(hs)
			hint = " (an octet-wise suffix operation is used at " + hs[0] + ": it compares characters, not labels)"
		}
		c.violation(R, key, instrPos(s.in), "a DNAME's target is spliced onto the left-over of "+w4c3NonEmpty(s.base, "a name")+" on a path that never established, label by label, that the name lies below the DNAME's owner"+hint+": a DNAME owned by shop.corp.test. then \"redirects\" www.myshop.corp.test. to www.my<target> — in answerChain the foreign DNAME, its RRSIG and the records of the spliced owner are kept as the answer chain and, each genuinely signed by the zone, relayed with AD=1; in isSynthesizedCNAME an unsigned CNAME is excused from the signature requirement by a DNAME that does not cover it; in DnameTarget the resolver chases a target the zone never published; path "+tr)
	}
}

func w4c3NonEmpty(s, alt string) string {
	if s == "" {
		return alt
	}
	if len(s) > 4 && s[:4] == "phi(" {
		return "the name the chain currently stands at"
	}
	return trunc(s, 80)
}
