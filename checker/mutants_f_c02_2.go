package main

// Regression mutants for F-C02-2 (the parent's delegation NSEC/NSEC3 accepted as a denial of the child zone's names and types).
func init() {
	const nsec, nsec3 = "middleware/resolver/dnssec/nsec.go", "middleware/resolver/dnssec/nsec3.go"
	addMutants("C02", []Mutant{
		{ID: "c02-nodata-nsec-parent-delegation-only-ns-refused", File: nsec, Expect: "C02-R12|middleware/resolver/dnssec.VerifyNODATANSEC|exact-owner NODATA",
			Old: "if q.Qtype != dns.TypeDS && nsecDelegationBitmap(nsec.TypeBitMap) {", New: "if q.Qtype == dns.TypeNS && nsecDelegationBitmap(nsec.TypeBitMap) {",
			Why: "F-C02-2: the parent-side NSEC of a zone cut (NS, no SOA) is refused only for an NS query; for A/MX/TXT… it is again an authenticated NODATA for RRsets that live at the child's apex"},
		{ID: "c02-nodata-nsec3-parent-delegation-insecure-cut-accepted", File: nsec3, Expect: "C02-R12|middleware/resolver/dnssec.VerifyNODATAForZoneWithWork|exact-owner NODATA",
			Old: "if q.Qtype != dns.TypeDS && nsecDelegationBitmap(types) {", New: "if q.Qtype != dns.TypeDS && nsecDelegationBitmap(types) && typesSet(types, dns.TypeDS) {",
			Why: "F-C02-2 (NSEC3 twin): only the record of a SECURE delegation is refused; the matching NSEC3 of an insecure cut still denies the child's apex types"},
		{ID: "c02-nxdomain-nsec-cut-scan-dropped", File: nsec, Expect: "C02-R12|middleware/resolver/dnssec.VerifyNameErrorNSEC|interval denial",
			Old: "\tif nsecBelowCut(nsecSet, qname) {\n\t\treturn ErrNSECBadDelegation\n\t}\n\n\tvar covering *dns.NSEC\n", New: "\tvar covering *dns.NSEC\n",
			Why: "F-C02-2: NXDOMAIN is again accepted on interval order alone; the cut's NSEC covers every name of the child zone in canonical order"},
		{ID: "c02-cut-scan-ignores-delegation-bitmap", File: nsec, Expect: "C02-R12|middleware/resolver/dnssec.VerifyNameErrorNSEC|ancestor-cut scan",
			Old: "if nsecDelegationBitmap(nsec.TypeBitMap) || typesSet(nsec.TypeBitMap, dns.TypeDNAME) {", New: "if typesSet(nsec.TypeBitMap, dns.TypeDNAME) {",
			Why: "F-C02-2: the scan over ancestor-owned records still runs but no longer recognises a delegation (NS, no SOA), only DNAME — names below a cut are denied by the parent's record again"},
	})
}
