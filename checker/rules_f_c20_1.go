package main

// F-C20-1 / C20-R9 — a validation failure leaves the DNSSEC validator with an
// Extended DNS Error code.
//
// DNS64 (isDNSSECFailure), the failure cache and the client all tell "the
// validator rejected this answer" from an ordinary SERVFAIL by the EDE code the
// resolver attaches, and dnsutil.ErrorToEDE derives that code from the error
// value alone: an error that has an EDECode() (a *dnsutil.EDEError, possibly
// wrapped) keeps its code, every other error becomes code 0 "Other".  An error
// value produced OUTSIDE the module — a sentinel of the DNS library (dns.ErrSig,
// dns.ErrAlg), the result of a library call (RRSIG.Verify), a bare errors.New /
// fmt.Errorf — can never carry a code.  So the necessary condition is a
// value-origin one at the validator's boundary:
//
//   for every exported function of package middleware/resolver/dnssec with an
//   error result (the verdict functions the resolver calls; discovered from the
//   package scope), no error it can return ORIGINATES outside the module.
//   Origins are followed through phis, local cells and — by summary — through
//   the error results of the same-package functions it calls, so the check is
//   independent of how the verification is split into helpers.  A foreign
//   error that is stored into the Err field of a dnsutil.EDEError is wrapped:
//   the value that flows on is the EDEError.  A return that is only reachable
//   across the IsWorkError(v)=true edge passes v on as a work-budget error (a
//   request-local condition with its own typed representation) and is exempt.
//   fmt.Errorf / errors.Join that are handed a module error (%w of a sentinel)
//   keep that error's code (errors.As) and are not foreign.
//
// Decided on value descriptions; nothing is executed.
// Not decided (value-level): that the code chosen is the RIGHT one of the DNSSEC
// codes; module-declared sentinels with code 0 (ErrTrustAnchorsUnavailable) and
// the resolver-side untyped errors of verifyDNSSEC (recorded by the reviewer as
// residual, outside this package).

import (
	"fmt"
	"go/types"
	"sort"
	"strings"

	"golang.org/x/tools/go/ssa"
)

// Rule id in one place: renumber here if the coordinator merges another C20 rule first.
const fC20_1Rule = "C20-R9"

const fC20_1Pkg = "middleware/resolver/dnssec"

func init() {
	wrap := func(id string, extra func(c *Ctx), explain string) {
		pd := props[id]
		if pd == nil {
			return
		}
		orig := pd.Run
		pd.Run = func(c *Ctx) { orig(c); extra(c) }
		pd.Explanation += " " + explain
	}
	wrap("C20", c20TypedVerdicts, "R9 (added): no error returned by an exported function of the DNSSEC validator package originates outside the module (a library sentinel such as dns.ErrSig / dns.ErrAlg, the result of RRSIG.Verify, a bare errors.New) unless it was wrapped into a dnsutil.EDEError or passed on across IsWorkError=true — ErrorToEDE maps any such value to EDE 0 \"Other\", which isDNSSECFailure does not recognise, so DNS64 would synthesise over a bogus AAAA.")
}

type foreignErr struct {
	leaf  string   // the foreign producer
	chain []string // functions the value travels through, outermost first
	param int      // >0: not a producer but "parameter #param-1 is passed through"
}

func c20TypedVerdicts(c *Ctx) {
	R := fC20_1Rule
	c.Doc(R, "every exported function of middleware/resolver/dnssec with an error result returns only errors that originate inside the module (typed sentinels, dnsutil.EDEError values, work errors): origins are followed through same-package callees by summary; a foreign error (library sentinel, library call result, bare errors.New/fmt.Errorf) must have been wrapped into an EDEError or passed on behind IsWorkError(v)=true — ErrorToEDE gives every other value EDE 0, which DNS64's isDNSSECFailure does not treat as a validation failure")
	isWorkErr := c.fobj(R, fC20_1Pkg+".IsWorkError")
	errorsAs := c.fobj(R, "errors.As")
	fns := c.P.FuncsInPkg(fC20_1Pkg)
	if len(fns) == 0 {
		c.unresolved(R, fC20_1Pkg, "package not loaded")
		return
	}
	if isWorkErr == nil {
		return
	}
	var pkgT *types.Package
	for _, f := range fns {
		if p := fnPkg(f); p != nil {
			pkgT = p
			break
		}
	}
	errT := types.Universe.Lookup("error").Type()
	isErr := func(t types.Type) bool { return t != nil && types.Identical(t, errT) }
	errIdx := func(sig *types.Signature) int {
		for i := sig.Results().Len() - 1; i >= 0; i-- {
			if isErr(sig.Results().At(i).Type()) {
				return i
			}
		}
		return -1
	}
	inModule := func(p *types.Package) bool { return p != nil && c.P.inModule(p.Path()) }

	// guarded: the return of v is reachable only across IsWorkError(v)=true, or across
	// errors.As(v, &t)=true with t a module type / an interface that declares EDECode
	// (the value has just been shown to carry a code or to be a work error)
	moduleTarget := func(e *Expr) bool {
		if e == nil || e.V == nil {
			return false
		}
		t := deref(e.V.Type())
		if nt, ok := deref(t).(*types.Named); ok && nt.Obj() != nil && inModule(nt.Obj().Pkg()) {
			return true
		}
		if it, ok := t.Underlying().(*types.Interface); ok {
			for i := 0; i < it.NumMethods(); i++ {
				if it.Method(i).Name() == "EDECode" {
					return true
				}
			}
		}
		return false
	}
	guarded := func(f *ssa.Function, ret ssa.Instruction, v ssa.Value) bool {
		vs := Desc(v).String()
		same := func(a *Expr) bool { return a != nil && (a.V == v || a.String() == vs) }
		bar := OnTrue("IsWorkError(v) / errors.As(v,&typed)", func(e *Expr) bool {
			if e.K != ECall {
				return false
			}
			if CallTo(isWorkErr)(e) {
				return len(e.Args) == 1 && same(e.Args[0])
			}
			if errorsAs != nil && CallTo(errorsAs)(e) {
				return len(e.Args) == 2 && same(e.Args[0]) && moduleTarget(e.Args[1])
			}
			return false
		})
		r := reach(entryPoint(f), []Barrier{bar}, nil)
		return !r.visited[ret]
	}

	memo := map[*ssa.Function][]foreignErr{}
	state := map[*ssa.Function]int{} // 1 in progress, 2 done
	var summary func(f *ssa.Function, depth int) []foreignErr
	var classify func(l *Expr, f *ssa.Function, depth int) []foreignErr

	// carriesCode: one of the operands handed to a foreign wrapper (fmt.Errorf %w, errors.Join)
	// certainly carries a code — a module sentinel, a module error value under construction, an
	// error parameter (the caller's), or the result of a module call that cannot yield a
	// foreign error itself.
	var carriesCode func(args []*Expr, f *ssa.Function, depth int) bool
	carriesCode = func(args []*Expr, f *ssa.Function, depth int) bool {
		errIface := errT.Underlying().(*types.Interface)
		for _, a := range args {
			var cands []*Expr
			Contains(func(x *Expr) bool {
				switch x.K {
				case EGlobal, EParam, ECall, EExtract, EAlloc, EMake:
					cands = append(cands, x)
				}
				return false
			})(a)
			for _, x := range cands {
				switch x.K {
				case EGlobal:
					if x.Obj != nil && inModule(x.Obj.Pkg()) && types.Implements(x.Obj.Type(), errIface) {
						return true
					}
				case EParam:
					if x.V != nil && isErr(x.V.Type()) {
						return true
					}
				case EAlloc, EMake:
					if x.V != nil {
						if nt, ok := deref(x.V.Type()).(*types.Named); ok && inModule(nt.Obj().Pkg()) && types.Implements(types.NewPointer(nt), errIface) {
							return true
						}
					}
				case ECall, EExtract:
					if x.V == nil || !isErr(x.V.Type()) {
						continue
					}
					call := x
					if x.K == EExtract {
						call = x.X
					}
					if call == nil || call.SFn == nil || !inModule(fnPkg(call.SFn)) {
						continue
					}
					if len(classify(x, f, depth+1)) == 0 {
						return true
					}
				}
			}
		}
		return false
	}

	classify = func(l *Expr, f *ssa.Function, depth int) []foreignErr {
		switch l.K {
		case EParam:
			if pv, ok := l.V.(*ssa.Parameter); ok && pv.Parent() == f && isErr(pv.Type()) && l.Idx >= 0 {
				return []foreignErr{{param: l.Idx + 1}}
			}
		case EGlobal:
			if l.Obj != nil && l.Obj.Pkg() != nil && !inModule(l.Obj.Pkg()) {
				return []foreignErr{{leaf: "the library sentinel " + l.Obj.Pkg().Name() + "." + l.Obj.Name()}}
			}
		case ECall, EExtract:
			call, idx := l, -1
			if l.K == EExtract {
				call, idx = l.X, l.Idx
			}
			if call == nil || call.K != ECall {
				return nil
			}
			sf := call.SFn
			if sf == nil {
				return nil // interface method / unknown function value: not decidable, not foreign by construction
			}
			p := fnPkg(sf)
			switch {
			case p != nil && pkgT != nil && p == pkgT:
				if idx < 0 {
					idx = 0
				}
				if ei := errIdx(sf.Signature); ei != idx && !(sf.Signature.Results().Len() == 1 && idx == 0) {
					return nil
				}
				var out []foreignErr
				for _, t := range summary(sf, depth+1) {
					if t.param > 0 {
						// the helper hands one of its parameters back: what the caller passed is what flows on
						if i := t.param - 1; i < len(call.Args) && depth < 8 {
							for _, al := range Origins(call.Args[i], nil) {
								out = append(out, classify(al, f, depth+1)...)
							}
						}
						continue
					}
					out = append(out, foreignErr{leaf: t.leaf, chain: append([]string{fnKey(sf)}, t.chain...)})
				}
				return out
			case inModule(p):
				return nil
			default:
				if depth < 8 && carriesCode(call.Args, f, depth) {
					return nil // fmt.Errorf("%w", typed) / errors.Join(typed, …): the code survives errors.As
				}
				return []foreignErr{{leaf: "the result of " + strings.TrimPrefix(sf.String(), "github.com/miekg/")}}
			}
		}
		return nil
	}

	summary = func(f *ssa.Function, depth int) []foreignErr {
		if f == nil || len(f.Blocks) == 0 || depth > 8 {
			return nil
		}
		if state[f] == 2 {
			return memo[f]
		}
		if state[f] == 1 {
			return nil
		}
		state[f] = 1
		ei := errIdx(f.Signature)
		var out []foreignErr
		seen := map[string]bool{}
		if ei >= 0 {
			for _, b := range f.Blocks {
				for _, in := range b.Instrs {
					ret, ok := in.(*ssa.Return)
					if !ok || ei >= len(ret.Results) {
						continue
					}
					v := ret.Results[ei]
					if IsNilConst(Desc(v)) || guarded(f, ret, v) {
						continue
					}
					for _, l := range Origins(Desc(v), nil) {
						for _, t := range classify(l, f, depth) {
							k := fmt.Sprintf("%s|%s|%d", t.leaf, strings.Join(t.chain, ">"), t.param)
							if !seen[k] {
								seen[k] = true
								out = append(out, t)
							}
						}
					}
				}
			}
		}
		sort.Slice(out, func(i, j int) bool {
			return out[i].leaf+strings.Join(out[i].chain, ">") < out[j].leaf+strings.Join(out[j].chain, ">")
		})
		memo[f] = out
		state[f] = 2
		return out
	}

	n := 0
	for _, f := range fns {
		if f.Parent() != nil || f.Signature.Recv() != nil || f.Synthetic != "" {
			continue
		}
		fo := funcObjOf(f)
		if fo == nil || !fo.Exported() || errIdx(f.Signature) < 0 {
			continue
		}
		n++
		key := fmt.Sprintf("%s|%s|error result carries an EDE code", R, fnKey(f))
		var ts []foreignErr
		for _, t := range summary(f, 0) {
			if t.param == 0 { // an error the caller handed in is the caller's
				ts = append(ts, t)
			}
		}
		if len(ts) == 0 {
			c.ok(R, key, f.Pos(), "every error "+fo.Name()+" can return originates inside the module (typed sentinel / EDEError / work error)")
			continue
		}
		var parts []string
		for i, t := range ts {
			if i == 4 {
				parts = append(parts, fmt.Sprintf("… and %d more", len(ts)-4))
				break
			}
			via := ""
			if len(t.chain) > 0 {
				via = " via " + strings.Join(t.chain, " → ")
			}
			parts = append(parts, t.leaf+via)
		}
		c.violation(R, key, f.Pos(), fo.Name()+" can return an error that originates outside the module and therefore has no EDECode(): "+strings.Join(parts, "; ")+
			". dnsutil.ErrorToEDE maps it to EDE 0 \"Other\"; dns64.isDNSSECFailure recognises a validation failure by SERVFAIL + one of the DNSSEC codes, so the rejected AAAA is treated as \"no answer\" and a synthesised AAAA is served over a bogus RRset. Wrap it in a dnsutil.EDEError (Err: …) where it is taken over")
	}
	if n < 5 {
		c.unresolved(R, "exported verdict functions", fmt.Sprintf("expected the Verify* entry points of %s, found %d exported functions with an error result", fC20_1Pkg, n))
	}
}
