package main

// Regression mutants for F-C01-6 (the wildcard's NSEC, renamed, verified under another owner
// through RFC 4035 §5.3.2 reconstruction and was read as a denial for that owner).
func init() {
	addMutants("C01", []Mutant{
		{ID: "c01-denial-labels-check-skips-nsec3", File: "middleware/resolver/dnssec/verify.go", Expect: "C01-R15|middleware/resolver/dnssec.verifyRRSIGWithWork",
			Old: "return rtype == dns.TypeNSEC || rtype == dns.TypeNSEC3",
			New: "return rtype == dns.TypeNSEC",
			Why: "F-C01-6: NSEC3 RRsets are no longer held to their own owner; an NSEC3-signed zone's wildcard-labelled RRSIG is accepted for a denial record again"},
		{ID: "c01-denial-labels-compared-the-wrong-way", File: "middleware/resolver/dnssec/verify.go", Expect: "C01-R15|middleware/resolver/dnssec.verifyRRSIGWithWork",
			Old: "return int(sig.Labels) < labels",
			New: "return int(sig.Labels) > labels",
			Why: "F-C01-6: the added test repeats the bound signatureMatchesRRset already enforces (Labels not larger than the owner) and never fires for a signature with FEWER labels than the owner, which is the wildcard reconstruction case"},
	})
}
