package main

// Regression mutants for F-C20-1 (a DNSSEC validation failure reaches DNS64 as EDE 0 "Other" and is synthesised over).
func init() {
	addMutants("C20", []Mutant{
		{ID: "c20-bad-signature-untyped", File: "middleware/resolver/dnssec/verify.go", Expect: fC20_1Rule + "|middleware/resolver/dnssec.VerifyRRSIG",
			Old: "\t\t\tlastErr = &dnsutil.EDEError{\n\t\t\t\tCode:    dns.ExtendedErrorCodeDNSBogus,\n\t\t\t\tMessage: \"RRSIG does not verify against the zone's DNSKEY\",\n\t\t\t\tErr:     err,\n\t\t\t}\n",
			New: "\t\t\tlastErr = err\n",
			Why: "F-C20-1: the library's bare dns.ErrSig leaves the validator; ErrorToEDE yields EDE 0 \"Other\", isDNSSECFailure says no, DNS64 answers NOERROR with a synthesised AAAA over a tampered AAAA RRset"},
		{ID: "c20-unsupported-rrsig-alg-untyped", File: "middleware/resolver/dnssec/verify.go", Expect: fC20_1Rule + "|middleware/resolver/dnssec.VerifyRRSIG",
			Old: "\t\treturn ErrUnsupportedRRSIGAlgorithm\n",
			New: "\t\treturn dns.ErrAlg\n",
			Why: "F-C20-1 (sibling found by the rule, demonstrated): an RRset of a secure zone whose only RRSIG names an unimplemented algorithm is rejected with the bare dns.ErrAlg → EDE 0 → DNS64 synthesises over it"},
	})
}
