package main

// Regression mutants for C10-R11 (wave 4, change C10-w4g5c5: the TCP in-place
// rejection no longer zeroes the header window of the reused TX slab).
func init() {
	addMutants("C10", []Mutant{
		{ID: "c10-w4-tcp-reject-header-not-zeroed", File: "server/tcp_engine.go", Expect: "C10-R11|(*server.tcpJob).rejectInPlace",
			Old: "\tfor i := range out {\n\t\tout[i] = 0\n\t}\n\tcopy(out[0:2], j.rx[0:2])",
			New: "\tcopy(out[0:2], j.rx[0:2])",
			Why: "seeded C10-w4g5c5: bytes 4-11 of the rejection (the four section counts) are whatever the last reply packed into this slab left there — another client's reply's counts after slab reuse"},
		{ID: "c10-w4-tcp-reject-zeroed-on-one-verdict", File: "server/tcp_engine.go", Expect: "C10-R11|(*server.tcpJob).rejectInPlace",
			Old: "\tfor i := range out {\n\t\tout[i] = 0\n\t}\n\tcopy(out[0:2], j.rx[0:2])",
			New: "\tif verdict == acceptNotImplemented {\n\t\tclear(out)\n\t}\n\tcopy(out[0:2], j.rx[0:2])",
			Why: "variant: the window is scrubbed on the NOTIMP path only; a FORMERR rejection built on a reused slab still carries the previous reply's section counts"},
		{ID: "c10-w4-udp-reject-built-in-tx", File: "server/udp_engine.go", Expect: "C10-R11|(*server.udpJob).rejectInPlace",
			Old: "\tvar reply [wire.HeaderLen]byte\n\tcopy(reply[0:2], j.rx[0:2]) // ID echo",
			New: "\treply := j.tx[:wire.HeaderLen]\n\tcopy(reply[0:2], j.rx[0:2]) // ID echo",
			Why: "variant at the other listener: the UDP rejection is assembled in the job's TX buffer instead of a fresh zero array and only bytes 0-3 are stored; bytes 4-11 are the previous datagram reply's"},
	})
}
