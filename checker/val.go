package main

// Symbolic description of SSA values.  go/ssa has no CSE, so "the same field"
// or "the result of that call" is decided on this description (callee object,
// field *types.Var, constant value), never on value identity or text.

import (
	"fmt"
	"go/constant"
	"go/token"
	"go/types"
	"strings"

	"golang.org/x/tools/go/ssa"
)

type EK int

const (
	EUnknown    EK = iota
	ECall          // Fn / Method, Args ; Recv as Args[0] for methods
	EExtract       // X (call), Idx
	EField         // X base, Var
	EConst         // Val
	EParam         // Name, Idx
	EFree          // Name (captured variable) ; X = resolved binding when known
	EBin           // Op, X, Y
	EUn            // Op, X
	EPhi           // Args
	EGlobal        // Obj
	EAlloc         // local cell with several stores: Args = stored values
	EIndex         // X[Y]
	ELookup        // map X[Y]
	ESlice         // X[lo:hi:max] Args
	EConvert       // X
	ETypeAssert    // X
	EFunc          // function value: Fn
	EClosure       // Fn + bindings
	EMake          // make(...) / new: fresh allocation
	ERange         // range/next
)

type Expr struct {
	K       EK
	V       ssa.Value
	Fn      *types.Func // static callee (origin for generics)
	SFn     *ssa.Function
	Method  string // for dynamic calls: interface method name
	Var     *types.Var
	Obj     types.Object
	Val     constant.Value
	IsNil   bool
	Op      token.Token
	X, Y    *Expr
	Args    []*Expr
	Idx     int
	Name    string
	CommaOk bool
}

type descer struct {
	depth int
	seen  map[ssa.Value]bool
}

const maxDescDepth = 14

// Desc describes v.
func Desc(v ssa.Value) *Expr {
	d := &descer{seen: map[ssa.Value]bool{}}
	return d.desc(v, 0)
}

func calleeObj(c *ssa.CallCommon) (*types.Func, *ssa.Function, string) {
	if c.IsInvoke() {
		return c.Method, nil, c.Method.Name()
	}
	if sf := c.StaticCallee(); sf != nil {
		f := sf
		if o := f.Origin(); o != nil {
			f = o
		}
		if obj, ok := f.Object().(*types.Func); ok && obj != nil {
			return obj, sf, obj.Name()
		}
		return nil, sf, sf.Name()
	}
	if b, ok := c.Value.(*ssa.Builtin); ok {
		return nil, nil, "builtin." + b.Name()
	}
	return nil, nil, ""
}

func (d *descer) desc(v ssa.Value, depth int) *Expr {
	if v == nil {
		return &Expr{K: EUnknown}
	}
	if depth > maxDescDepth {
		return &Expr{K: EUnknown, V: v}
	}
	switch x := v.(type) {
	case *ssa.Const:
		return &Expr{K: EConst, V: v, Val: x.Value, IsNil: x.Value == nil}
	case *ssa.Parameter:
		idx := -1
		for i, p := range x.Parent().Params {
			if p == x {
				idx = i
			}
		}
		return &Expr{K: EParam, V: v, Name: x.Name(), Idx: idx}
	case *ssa.FreeVar:
		e := &Expr{K: EFree, V: v, Name: x.Name()}
		// resolve the binding in the parent, when the closure is created once
		if par := x.Parent().Parent(); par != nil && !d.seen[v] {
			idx := -1
			for i, fv := range x.Parent().FreeVars {
				if fv == x {
					idx = i
				}
			}
			var mc *ssa.MakeClosure
			n := 0
			for _, b := range par.Blocks {
				for _, in := range b.Instrs {
					if m, ok := in.(*ssa.MakeClosure); ok && m.Fn == x.Parent() {
						mc = m
						n++
					}
				}
			}
			if n == 1 && idx >= 0 && idx < len(mc.Bindings) {
				d.seen[v] = true
				e.X = d.desc(mc.Bindings[idx], depth+1)
				delete(d.seen, v)
			}
		}
		return e
	case *ssa.Global:
		return &Expr{K: EGlobal, V: v, Obj: x.Object(), Name: x.Name()}
	case *ssa.Function:
		f := x
		if o := f.Origin(); o != nil {
			f = o
		}
		fo, _ := f.Object().(*types.Func)
		return &Expr{K: EFunc, V: v, Fn: fo, SFn: x}
	case *ssa.Builtin:
		return &Expr{K: EFunc, V: v, Name: "builtin." + x.Name()}
	case *ssa.MakeClosure:
		e := &Expr{K: EClosure, V: v}
		if f, ok := x.Fn.(*ssa.Function); ok {
			e.SFn = f
		}
		return e
	case *ssa.Call:
		fo, sf, name := calleeObj(&x.Call)
		e := &Expr{K: ECall, V: v, Fn: fo, SFn: sf, Method: name}
		if x.Call.IsInvoke() {
			e.Args = append(e.Args, d.desc(x.Call.Value, depth+1))
		} else if sf == nil && fo == nil && !strings.HasPrefix(name, "builtin.") {
			// call of a function value
			e.X = d.desc(x.Call.Value, depth+1)
			if e.X.K == EClosure || e.X.K == EFunc {
				e.SFn = e.X.SFn
				e.Fn = e.X.Fn
			}
		}
		for _, a := range x.Call.Args {
			e.Args = append(e.Args, d.desc(a, depth+1))
		}
		return e
	case *ssa.Extract:
		return &Expr{K: EExtract, V: v, X: d.desc(x.Tuple, depth+1), Idx: x.Index}
	case *ssa.Field:
		st := x.X.Type().Underlying().(*types.Struct)
		return &Expr{K: EField, V: v, X: d.desc(x.X, depth+1), Var: st.Field(x.Field).Origin(), Name: st.Field(x.Field).Name()}
	case *ssa.FieldAddr:
		st := deref(x.X.Type()).Underlying().(*types.Struct)
		return &Expr{K: EField, V: v, X: d.desc(x.X, depth+1), Var: st.Field(x.Field).Origin(), Name: st.Field(x.Field).Name(), Op: token.AND}
	case *ssa.UnOp:
		switch x.Op {
		case token.MUL: // load
			switch a := x.X.(type) {
			case *ssa.FieldAddr:
				e := d.desc(a, depth)
				e2 := *e
				e2.Op = 0
				e2.V = v
				return &e2
			case *ssa.IndexAddr:
				return &Expr{K: EIndex, V: v, X: d.desc(a.X, depth+1), Y: d.desc(a.Index, depth+1)}
			case *ssa.Alloc:
				return d.allocLoad(a, v, depth)
			case *ssa.Global:
				return &Expr{K: EGlobal, V: v, Obj: a.Object(), Name: a.Name()}
			case *ssa.FreeVar:
				// captured variable cell: loads see stores made anywhere
				fe := d.desc(a, depth+1)
				if fe.X != nil && fe.X.K == EAlloc && fe.X.V != nil {
					if al, ok := fe.X.V.(*ssa.Alloc); ok {
						return d.allocLoad(al, v, depth)
					}
				}
				return &Expr{K: EUn, V: v, Op: token.MUL, X: fe}
			}
			return &Expr{K: EUn, V: v, Op: token.MUL, X: d.desc(x.X, depth+1)}
		case token.ARROW:
			return &Expr{K: EUn, V: v, Op: token.ARROW, X: d.desc(x.X, depth+1), CommaOk: x.CommaOk}
		}
		return &Expr{K: EUn, V: v, Op: x.Op, X: d.desc(x.X, depth+1)}
	case *ssa.BinOp:
		return &Expr{K: EBin, V: v, Op: x.Op, X: d.desc(x.X, depth+1), Y: d.desc(x.Y, depth+1)}
	case *ssa.Phi:
		if d.seen[v] {
			return &Expr{K: EUnknown, V: v, Name: "phi-cycle"}
		}
		d.seen[v] = true
		e := &Expr{K: EPhi, V: v}
		for _, ed := range x.Edges {
			e.Args = append(e.Args, d.desc(ed, depth+1))
		}
		delete(d.seen, v)
		return e
	case *ssa.Alloc:
		return &Expr{K: EAlloc, V: v, Name: x.Comment}
	case *ssa.IndexAddr:
		return &Expr{K: EIndex, V: v, X: d.desc(x.X, depth+1), Y: d.desc(x.Index, depth+1), Op: token.AND}
	case *ssa.Index:
		return &Expr{K: EIndex, V: v, X: d.desc(x.X, depth+1), Y: d.desc(x.Index, depth+1)}
	case *ssa.Lookup:
		return &Expr{K: ELookup, V: v, X: d.desc(x.X, depth+1), Y: d.desc(x.Index, depth+1), CommaOk: x.CommaOk}
	case *ssa.Slice:
		if al, ok := x.X.(*ssa.Alloc); ok && (al.Comment == "varargs" || al.Comment == "slicelit") {
			// slice literal / variadic pack: describe by its element stores
			e := &Expr{K: EMake, V: v, Name: al.Comment}
			if refs := al.Referrers(); refs != nil {
				for _, r := range *refs {
					ia, ok := r.(*ssa.IndexAddr)
					if !ok || ia.Referrers() == nil {
						continue
					}
					for _, rr := range *ia.Referrers() {
						if st, ok := rr.(*ssa.Store); ok && st.Addr == ia {
							e.Args = append(e.Args, d.desc(st.Val, depth+1))
						}
					}
				}
			}
			return e
		}
		e := &Expr{K: ESlice, V: v, X: d.desc(x.X, depth+1)}
		for _, b := range []ssa.Value{x.Low, x.High, x.Max} {
			if b == nil {
				e.Args = append(e.Args, nil)
			} else {
				e.Args = append(e.Args, d.desc(b, depth+1))
			}
		}
		return e
	case *ssa.MakeInterface:
		return d.desc(x.X, depth) // transparent
	case *ssa.ChangeType:
		return d.desc(x.X, depth)
	case *ssa.ChangeInterface:
		return d.desc(x.X, depth)
	case *ssa.Convert:
		return &Expr{K: EConvert, V: v, X: d.desc(x.X, depth+1)}
	case *ssa.SliceToArrayPointer:
		return &Expr{K: EConvert, V: v, X: d.desc(x.X, depth+1)}
	case *ssa.TypeAssert:
		return &Expr{K: ETypeAssert, V: v, X: d.desc(x.X, depth+1), CommaOk: x.CommaOk}
	case *ssa.MakeSlice, *ssa.MakeMap, *ssa.MakeChan:
		return &Expr{K: EMake, V: v}
	case *ssa.Range, *ssa.Next:
		return &Expr{K: ERange, V: v}
	case *ssa.Select:
		return &Expr{K: EUnknown, V: v, Name: "select"}
	}
	return &Expr{K: EUnknown, V: v}
}

// allocLoad describes a load from a local cell: the values stored into it
// anywhere in the function (and its closures, for captured cells).
func (d *descer) allocLoad(a *ssa.Alloc, v ssa.Value, depth int) *Expr {
	if d.seen[a] {
		return &Expr{K: EUnknown, V: v, Name: "cell-cycle"}
	}
	d.seen[a] = true
	defer delete(d.seen, a)
	// block-local reaching definition (covers go/ssa's defer-spilled results:
	// "*r = v; rundefers; t = *r; return t"): exact when no closure captures the cell
	if ld, ok := v.(*ssa.UnOp); ok && ld.Block() != nil && !capturedByClosure(a) {
		blk := ld.Block()
		at := -1
		for i, in := range blk.Instrs {
			if in == ssa.Instruction(ld) {
				at = i
				break
			}
		}
		for i := at - 1; i >= 0; i-- {
			if st, ok := blk.Instrs[i].(*ssa.Store); ok && st.Addr == ssa.Value(a) {
				return d.desc(st.Val, depth+1)
			}
		}
	}
	stores := cellStores(a)
	if stores == nil {
		// address escapes in a way we do not follow
		return &Expr{K: EAlloc, V: a, Name: a.Comment}
	}
	e := &Expr{K: EAlloc, V: a, Name: a.Comment}
	for _, s := range stores {
		e.Args = append(e.Args, d.desc(s, depth+1))
	}
	if len(e.Args) == 1 {
		one := *e.Args[0]
		return &one
	}
	return e
}

// cellStores returns the values stored directly into the cell a (through the
// alloc itself or through closures capturing it). nil if the address escapes
// otherwise (passed to a call, stored, etc.); an empty non-nil slice means no
// store (zero value).
func cellStores(a *ssa.Alloc) []ssa.Value {
	out := []ssa.Value{}
	var walk func(refs []ssa.Instruction, self ssa.Value) bool
	walk = func(refs []ssa.Instruction, self ssa.Value) bool {
		for _, r := range refs {
			switch x := r.(type) {
			case *ssa.Store:
				if x.Addr == self {
					out = append(out, x.Val)
				} else {
					return false // address stored somewhere
				}
			case *ssa.UnOp:
				// load: fine
			case *ssa.MakeClosure:
				fn, ok := x.Fn.(*ssa.Function)
				if !ok {
					return false
				}
				for i, b := range x.Bindings {
					if b == self && i < len(fn.FreeVars) {
						fv := fn.FreeVars[i]
						if !walk(*fv.Referrers(), fv) {
							return false
						}
					}
				}
			case *ssa.DebugRef:
			case *ssa.FieldAddr, *ssa.IndexAddr:
				// partial writes to a struct/array cell: treated as opaque cell
				return false
			default:
				return false
			}
		}
		return true
	}
	if a.Referrers() == nil {
		return nil
	}
	if !walk(*a.Referrers(), a) {
		return nil
	}
	return out
}

func deref(t types.Type) types.Type {
	if p, ok := t.Underlying().(*types.Pointer); ok {
		return p.Elem()
	}
	return t
}

// String renders an Expr canonically (position-free); used for lock identity
// and evidence.
func (e *Expr) String() string {
	if e == nil {
		return "_"
	}
	switch e.K {
	case ECall:
		n := e.Method
		if e.Fn != nil {
			n = funcObjKey(e.Fn)
		} else if e.SFn != nil {
			n = fnKey(e.SFn)
		}
		var as []string
		for _, a := range e.Args {
			as = append(as, a.String())
		}
		return n + "(" + strings.Join(as, ",") + ")"
	case EExtract:
		return fmt.Sprintf("%s#%d", e.X.String(), e.Idx)
	case EField:
		p := ""
		if e.Op == token.AND {
			p = "&"
		}
		return p + e.X.String() + "." + e.Name
	case EConst:
		if e.IsNil {
			return "nil"
		}
		return e.Val.ExactString()
	case EParam:
		return e.Name
	case EFree:
		if e.X != nil {
			return e.X.String()
		}
		return "free:" + e.Name
	case EBin:
		return "(" + e.X.String() + " " + e.Op.String() + " " + e.Y.String() + ")"
	case EUn:
		return e.Op.String() + e.X.String()
	case EPhi:
		var as []string
		for _, a := range e.Args {
			as = append(as, a.String())
		}
		return "phi(" + strings.Join(as, "|") + ")"
	case EGlobal:
		return "global:" + e.Name
	case EAlloc:
		if len(e.Args) > 0 {
			var as []string
			for _, a := range e.Args {
				as = append(as, a.String())
			}
			return "cell(" + strings.Join(as, "|") + ")"
		}
		return "local:" + e.Name
	case EIndex:
		return e.X.String() + "[" + e.Y.String() + "]"
	case ELookup:
		return e.X.String() + "{" + e.Y.String() + "}"
	case ESlice:
		return e.X.String() + "[:]"
	case EConvert:
		return "conv(" + e.X.String() + ")"
	case ETypeAssert:
		return e.X.String() + ".(T)"
	case EFunc:
		if e.Fn != nil {
			return "func:" + funcObjKey(e.Fn)
		}
		return "func:" + e.Name
	case EClosure:
		return "closure:" + fnKey(e.SFn)
	case EMake:
		if len(e.Args) > 0 {
			var as []string
			for _, a := range e.Args {
				as = append(as, a.String())
			}
			return "[" + strings.Join(as, ",") + "]"
		}
		return "make"
	case ERange:
		return "range"
	}
	if e.Name != "" {
		return "?" + e.Name
	}
	return "?"
}

func funcObjKey(f *types.Func) string {
	if f == nil {
		return "<nil>"
	}
	s := f.FullName()
	s = strings.ReplaceAll(s, modPath+"/", "")
	return s
}

// ---------------------------------------------------------------------------
// Patterns over Exprs

type Pat func(e *Expr) bool

// strip removes value-preserving wrappers (extract of single, conversions).
func strip(e *Expr) *Expr {
	for e != nil {
		switch e.K {
		case EConvert, ETypeAssert:
			e = e.X
			continue
		case EFree:
			if e.X != nil {
				e = e.X
				continue
			}
		}
		break
	}
	return e
}

// CallTo matches a call (or a result extracted from a call) to the function object.
func CallTo(fs ...*types.Func) Pat {
	return func(e *Expr) bool {
		e = strip(e)
		if e == nil {
			return false
		}
		if e.K == EExtract {
			e = strip(e.X)
		}
		if e == nil || e.K != ECall || e.Fn == nil {
			return false
		}
		for _, f := range fs {
			if f != nil && sameFunc(e.Fn, f) {
				return true
			}
		}
		return false
	}
}

// ResultOf matches result #idx of a call to f (idx 0 also matches single-result calls).
func ResultOf(idx int, fs ...*types.Func) Pat {
	return func(e *Expr) bool {
		e = strip(e)
		if e == nil {
			return false
		}
		if e.K == EExtract {
			if e.Idx != idx {
				return false
			}
			return CallTo(fs...)(e.X)
		}
		if e.K == ECall && idx == 0 {
			return CallTo(fs...)(e)
		}
		return false
	}
}

func sameFunc(a, b *types.Func) bool {
	if a == b {
		return true
	}
	if a == nil || b == nil {
		return false
	}
	return a.Origin() == b.Origin()
}

// FieldIs matches a load of the given field (any base).
func FieldIs(vs ...*types.Var) Pat {
	return func(e *Expr) bool {
		e = strip(e)
		if e == nil || e.K != EField {
			return false
		}
		for _, v := range vs {
			if v != nil && e.Var == v {
				return true
			}
		}
		return false
	}
}

// MethodNamed matches a (static or dynamic) call of a method/function with that name.
func MethodNamed(names ...string) Pat {
	return func(e *Expr) bool {
		e = strip(e)
		if e != nil && e.K == EExtract {
			e = strip(e.X)
		}
		if e == nil || e.K != ECall {
			return false
		}
		for _, n := range names {
			if e.Method == n {
				return true
			}
		}
		return false
	}
}

func AnyOf(ps ...Pat) Pat {
	return func(e *Expr) bool {
		for _, p := range ps {
			if p(e) {
				return true
			}
		}
		return false
	}
}

// Contains matches when any sub-expression matches p.
func Contains(p Pat) Pat {
	var rec func(e *Expr, d int) bool
	rec = func(e *Expr, d int) bool {
		if e == nil || d > 40 {
			return false
		}
		if p(e) {
			return true
		}
		if rec(e.X, d+1) || rec(e.Y, d+1) {
			return true
		}
		for _, a := range e.Args {
			if rec(a, d+1) {
				return true
			}
		}
		return false
	}
	return func(e *Expr) bool { return rec(e, 0) }
}

func IsConstInt(n int64) Pat {
	return func(e *Expr) bool {
		e = strip(e)
		if e == nil || e.K != EConst || e.Val == nil {
			return false
		}
		if e.Val.Kind() != constant.Int {
			return false
		}
		v, ok := constant.Int64Val(e.Val)
		return ok && v == n
	}
}

func IsAnyConst(e *Expr) bool { e = strip(e); return e != nil && e.K == EConst }

func IsNilConst(e *Expr) bool { e = strip(e); return e != nil && e.K == EConst && e.IsNil }

func IsConstBool(b bool) Pat {
	return func(e *Expr) bool {
		e = strip(e)
		return e != nil && e.K == EConst && e.Val != nil && e.Val.Kind() == constant.Bool && constant.BoolVal(e.Val) == b
	}
}

func Any(e *Expr) bool { return true }

// ---------------------------------------------------------------------------
// Boolean normalisation of branch conditions

// Truthy reduces a branch condition to (atom, polarity): the condition is true
// exactly when atom is "truthy" (true / non-nil / non-zero-length …) if pol,
// or exactly when it is falsy if !pol.  Comparisons other than with nil, bool
// constants are returned as themselves with pol=true.
func Truthy(e *Expr) (*Expr, bool) {
	pol := true
	for e != nil {
		switch {
		case e.K == EUn && e.Op == token.NOT:
			pol = !pol
			e = e.X
			continue
		case e.K == EBin && (e.Op == token.EQL || e.Op == token.NEQ):
			var other *Expr
			var k *Expr
			if IsAnyConst(e.Y) {
				other, k = e.X, strip(e.Y)
			} else if IsAnyConst(e.X) {
				other, k = e.Y, strip(e.X)
			}
			if k != nil {
				if k.IsNil {
					// x != nil : truthy(x)
					if e.Op == token.EQL {
						pol = !pol
					}
					e = other
					continue
				}
				if k.Val != nil && k.Val.Kind() == constant.Bool {
					same := constant.BoolVal(k.Val)
					if (e.Op == token.EQL) != same {
						pol = !pol
					}
					e = other
					continue
				}
			}
		}
		break
	}
	return e, pol
}

var negOp = map[token.Token]token.Token{token.LSS: token.GEQ, token.GEQ: token.LSS, token.GTR: token.LEQ, token.LEQ: token.GTR, token.EQL: token.NEQ, token.NEQ: token.EQL}
var swapOp = map[token.Token]token.Token{token.LSS: token.GTR, token.GTR: token.LSS, token.LEQ: token.GEQ, token.GEQ: token.LEQ, token.EQL: token.EQL, token.NEQ: token.NEQ}

// CmpMatch reports whether condition e is (possibly negated / mirrored) the
// comparison lhs op rhs, and with which polarity: matched,true means e is true
// exactly when "lhs op rhs" holds.
func CmpMatch(e *Expr, lhs Pat, op token.Token, rhs Pat) (bool, bool) {
	a, pol := Truthy(e)
	if a == nil || a.K != EBin {
		return false, false
	}
	try := func(o token.Token, x, y *Expr) (bool, bool) {
		if !lhs(x) || !rhs(y) {
			return false, false
		}
		if o == op {
			return true, pol
		}
		if negOp[o] == op {
			return true, !pol
		}
		return false, false
	}
	if m, p := try(a.Op, a.X, a.Y); m {
		return m, p
	}
	if so, ok := swapOp[a.Op]; ok {
		if m, p := try(so, a.Y, a.X); m {
			return m, p
		}
	}
	return false, false
}

// exprValues collects the SSA values mentioned anywhere in e.
func exprValues(e *Expr, into map[ssa.Value]bool) {
	if e == nil {
		return
	}
	if e.V != nil {
		if into[e.V] && e.K != EPhi {
			// already walked
		}
		into[e.V] = true
	}
	exprValues(e.X, into)
	exprValues(e.Y, into)
	for _, a := range e.Args {
		exprValues(a, into)
	}
}

func capturedByClosure(a *ssa.Alloc) bool {
	if a.Referrers() == nil {
		return false
	}
	for _, r := range *a.Referrers() {
		if _, ok := r.(*ssa.MakeClosure); ok {
			return true
		}
	}
	return false
}
