package main

import (
	"go/types"
	"strings"

	"golang.org/x/tools/go/ssa"
)

func init() {
	registerControl(controlDef{Name: "E5 verify-before-use typestate (full verifier, inline conjunction, verifying consumer, loop alias; half verifier, early use, bad consumer, ||, raw return)",
		Good: []string{"good-GoodVerifier", "good-GoodInline", "good-GoodConsumer", "good-GoodLoop", "good-GoodNamedBool"},
		Bad:  []string{"bad-BadHalf", "bad-BadEarly", "bad-BadConsumer", "bad-BadOr", "bad-BadReturn", "bad-BadNamedBool"},
		Run: func(c *Ctx) {
			raw := c.P.FuncObj("ctl/typestate.(*table).raw")
			same := c.P.FuncObj("ctl/typestate.sameName")
			entry := c.P.TypeName("ctl/typestate.Entry")
			if raw == nil || same == nil || entry == nil {
				c.unresolved("good-GoodVerifier", "ctl/typestate", "control package not loaded")
				return
			}
			spec := &c03Spec{
				Rule: "ctl",
				Alts: func(t types.Type) [][]string {
					if n, ok := deref(t).(*types.Named); ok && n.Obj() == entry {
						return [][]string{{"name", "qtype"}}
					}
					return nil
				},
				Comparators: map[*types.Func][]int{same: {0, 1}},
				RuleFor: func(fn *ssa.Function) string {
					n := TopLevel(fn).Name()
					switch {
					case strings.HasPrefix(n, "Good"):
						return "good-" + n
					case strings.HasPrefix(n, "Bad"):
						return "bad-" + n
					}
					return "helper-" + n
				},
			}
			eng := newC03Engine(c, spec)
			var primary []c03Source
			for _, fn := range c.P.FuncsInPkg("ctl/typestate") {
				for _, b := range fn.Blocks {
					for _, in := range b.Instrs {
						if cl, ok := in.(*ssa.Call); ok && callIs(&cl.Call, raw) {
							primary = append(primary, c03Source{Fn: fn, At: in, Vals: c03ResultVals(in, 0), Desc: "raw()"})
						}
					}
				}
			}
			eng.Run(primary)
		}})
}
