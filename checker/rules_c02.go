package main

import (
	"fmt"
	"go/token"
	"go/types"
	"sort"
	"strings"

	"golang.org/x/tools/go/ssa"
)

func init() {
	register(&PropDef{
		ID:    "C02",
		Title: "Denial of existence is accepted or synthesised only when actually proven",
		Run:   runC02,
		Explanation: "Decided (admission, provenance and gating — not the interval arithmetic): " +
			"R1 the shared denial indexes (denial-proof index, subtree cuts) are written only through Store.RecordDenialProof / Store.RecordNXDomainCut, which only cache.ResponseWriter.WriteMsg and PrefetchQueue.processPrefetch call; the provenance map has one writer. " +
			"R2 at both admission sites the publish is reachable only across ValidatedNegativeProofForResponse ok ∧ Aggressive ∧ Proof≠nil and the false edge of every isolation atom (scoped client, request ECS, tree bypass, request CD, response CD; prefetch: scoped entry, request CD, RequestHadECS, raw ECS option, response CD, and the ReplaceIfCurrent true edge); a cut is inserted only for an NXDOMAIN, CD=0 proof message; the published subject/zone/kind/proof are the fields of that provenance record. " +
			"R3 Aggressive is set only in Resolver.authority (from the constant false, or true only across EvaluateAggressiveNSEC{,3} err=nil ∧ classified rcode = response rcode, NSEC3 additionally denialSecure) and in the two cache hit handlers re-serving admitted state; authority marks provenance only across denialSecure ∧ ¬CD ∧ a denial verifier call; who may mark/propagate is fixed. " +
			"R4 every NSEC/NSEC3 slice handed to a denial verifier or aggressive evaluator outside package dnssec is FilterRRsToZone(ExtractRRSet(<msg>.Ns, \"\", <matching type>), <the same signer the verifier is bound to>); the signer-less verifier variants have no caller outside dnssec. " +
			"R5 opt-out: nxDomainCutProof succeeds only across HasNSEC3OptOut=false; the RFC 8020 early stop lies behind secure ∧ Aggressive ∧ Proof NXDOMAIN ∧ ¬HasNSEC3OptOut; the NSEC3 verifiers' secure result after a cover lookup is false or !optOut; EvaluateAggressiveNSEC3 accepts past the next-closer cover only across Flags&1=0. " +
			"R6 every denial-verifier error in authority/validateDelegation/authenticatedDelegationDS is tested and its non-nil edge reaches no nil-error return; a negative response without NSEC/NSEC3, and a DS-less referral/DS answer, is accepted only across a verifier call. " +
			"R7 the cache consumers reach the shared indexes only across the false edges of CD, client scope, raw ECS, tree bypass (and the kill switch); lookupWithMeta returns a response only across CD=0, a successful evaluation and the conflict re-check. " +
			"R8 the accept returns of the NSEC and NSEC3 verdicts lie behind exactly these bitmap tests: insecure delegation NS ∧ ¬{DS,SOA}; NODATA ¬{qtype,CNAME} and for DS ¬{SOA}; closest encloser ¬{DNAME} ∧ ¬(NS ∧ ¬SOA); NSEC accept behind owner equality, NSEC3 behind the matching/covering lookups' nil-error edges; DS-NODATA without exact match and opt-out delegation only across optOut=true.",
		NotDecided: []string{
			"soundness of the proofs themselves: canonical ordering, interval cover incl. wrap-around (nsecCovers), closest-encloser selection, NSEC3 ring uniqueness, hash handling, label-boundary cases — relations over name/hash values; a flipped comparison in nsecCovers changes no structure the rules see",
			"VerifyNameErrorNSEC's two-cover structure (its accept is guarded by a nil test on a loop-carried pointer, which a path-insensitive CFG rule cannot attribute)",
			"typesSet's own membership loop (value-level)",
			"admission / expiry orderings across histories of the aggressive-negative and subtree-cut caches",
			"the wire fast path's audience gating for cut hits (decided with C05/C03: only the CD gate is checked here)",
		},
	})
}

func runC02(c *Ctx) {
	// every edge barrier of this property also recognises its guard through negations and named booleans (c02Deep)
	OnTrue := func(name string, p Pat) Barrier { return c02Deep(OnTrue(name, p)) }
	OnFalse := func(name string, p Pat) Barrier { return c02Deep(OnFalse(name, p)) }
	OnCmp := func(name string, lhs Pat, op token.Token, rhs Pat, holds bool) Barrier {
		return c02Deep(OnCmp(name, lhs, op, rhs, holds))
	}
	const (
		cpkg = "middleware/cache"
		rpkg = "middleware/resolver"
		dpkg = "middleware/resolver/dnssec"
		mpkg = "middleware"
		lib  = "github.com/miekg/dns"
	)
	fo := func(rule, p string) *types.Func { return c.fobj(rule, p) }
	fld := func(rule, p string) *types.Var { return c.field(rule, p) }

	writeMsg := "(*" + cpkg + ".ResponseWriter).WriteMsg"
	prefetch := "(*" + cpkg + ".PrefetchQueue).processPrefetch"

	recDP := fo("C02-R1", cpkg+".(*Store).RecordDenialProof")
	recCut := fo("C02-R1", cpkg+".(*Store).RecordNXDomainCut")
	cutRecord := fo("C02-R1", cpkg+".(*nxDomainCutCache).record")
	dpRecordKind := fo("C02-R1", cpkg+".(*denialProofCache).recordWithKind")
	dpRecord := fo("C02-R1", cpkg+".(*denialProofCache).record")
	vnpfr := fo("C02-R2", mpkg+".ValidatedNegativeProofForResponse")
	markVNP := fo("C02-R3", mpkg+".MarkValidatedNegativeProofResponse")
	markInner := fo("C02-R3", mpkg+".(*ResponseMeta).markValidatedNegativeProofResponse")

	vnp := func(n string) *types.Var { return fld("C02-R2", mpkg+".ValidatedNegativeProof."+n) }
	fAggr, fProof, fZone, fKind, fSubject := vnp("Aggressive"), vnp("Proof"), vnp("Zone"), vnp("Kind"), vnp("Subject")
	fCD := fld("C02-R2", lib+".MsgHdr.CheckingDisabled")
	fRcode := fld("C02-R2", lib+".MsgHdr.Rcode")
	negOf := func(f *types.Var) Pat { return c02FieldOf(f, ResultOf(0, vnpfr)) }

	// ---------------------------------------------------------------- R1
	c.Doc("C02-R1", "who may publish shared denial state: Store.RecordDenialProof / RecordNXDomainCut ← {ResponseWriter.WriteMsg, PrefetchQueue.processPrefetch}; the index writers ← the Store wrappers; map insertions into the indexes ← record / recordWithKind / publishZoneLocked")
	admit := map[string]string{writeMsg: "external write-back admission site", prefetch: "prefetch write-back admission site"}
	if recDP != nil {
		c.WhoMay("C02-R1", "Store.RecordDenialProof", c.CallSites(recDP), admit)
	}
	if recCut != nil {
		c.WhoMay("C02-R1", "Store.RecordNXDomainCut", c.CallSites(recCut), admit)
	}
	if cutRecord != nil {
		c.WhoMay("C02-R1", "nxDomainCutCache.record", c.CallSites(cutRecord), map[string]string{"(*" + cpkg + ".Store).RecordNXDomainCut": "Store wrapper (kill switch)"})
	}
	if dpRecordKind != nil {
		c.WhoMay("C02-R1", "denialProofCache.recordWithKind", c.CallSites(dpRecordKind), map[string]string{
			"(*" + cpkg + ".Store).RecordDenialProof": "Store wrapper (kill switches, kind binding)",
			"(*" + cpkg + ".denialProofCache).record": "kind-less wrapper, itself without production caller",
		})
	}
	if dpRecord != nil {
		c.WhoMay("C02-R1", "denialProofCache.record (kind-less)", c.CallSites(dpRecord), map[string]string{})
	}
	for _, mi := range []struct {
		field string
		allow map[string]string
	}{
		{cpkg + ".nxDomainCutCache.entries", map[string]string{"(*" + cpkg + ".nxDomainCutCache).record": "admission"}},
		{cpkg + ".nxDomainCutCache.byHash", map[string]string{"(*" + cpkg + ".nxDomainCutCache).record": "admission"}},
		{cpkg + ".denialProofCache.byID", map[string]string{"(*" + cpkg + ".denialProofCache).recordWithKind": "admission"}},
		{cpkg + ".denialProofCache.zoneIndex", map[string]string{"(*" + cpkg + ".denialProofCache).publishZoneLocked": "derived view of byID, rebuilt under the write lock"}},
		{mpkg + ".validatedNegativeProofResponseSet.messages", map[string]string{"(*" + mpkg + ".ResponseMeta).markValidatedNegativeProofResponse": "the single provenance writer"}},
	} {
		if fv := fld("C02-R1", mi.field); fv != nil {
			c.WhoMay("C02-R1", "insert into "+mi.field[strings.LastIndex(mi.field, "/")+1:], c02MapUpdateSites(c, fv), mi.allow)
		}
	}
	c.Floor("C02-R1", 13)

	// ---------------------------------------------------------------- R2
	c.Doc("C02-R2", "admission guard atoms at both admission sites (each atom separately), the cut only for NXDOMAIN proofs, and the published arguments are the provenance record's own fields")
	isPublish := isPlainCallTo(recDP, recCut)
	common := []Barrier{
		OnTrue("provenance ok", ResultOf(1, vnpfr)),
		OnTrue("negative.Aggressive", negOf(fAggr)),
		OnTrue("negative.Proof != nil", negOf(fProof)),
	}
	checkArgs := func(fn *ssa.Function) {
		for _, in := range instrsWhere(fn, isPublish) {
			cc := callCommon(in)
			f, _, _ := calleeObj(cc)
			want := []*types.Var{fProof, fZone, fKind}
			names := []string{"proof", "zone", "kind"}
			if sameFunc(f, recCut) {
				want = []*types.Var{fProof, fSubject, fZone}
				names = []string{"proof", "denied name", "zone"}
			}
			for i, w := range want {
				key := fmt.Sprintf("C02-R2|%s|%s %s argument", fnKey(fn), f.Name(), names[i])
				e := Desc(callArg(in, i+1))
				if negOf(w)(e) {
					c.ok("C02-R2", key, instrPos(in), fmt.Sprintf("%s %s = negative.%s of the provenance record", f.Name(), names[i], w.Name()))
				} else {
					c.violation("C02-R2", key, instrPos(in), fmt.Sprintf("%s %s is not negative.%s of the ValidatedNegativeProofForResponse record: %s", f.Name(), names[i], w.Name(), trunc(e.String(), 160)))
				}
			}
		}
	}
	rwField := func(n string) *types.Var { return fld("C02-R2", cpkg+".ResponseWriter."+n) }
	isValid := fo("C02-R2", "net/netip.Prefix.IsValid")
	if fn := c.fn("C02-R2", cpkg+".(*ResponseWriter).WriteMsg"); fn != nil && recDP != nil && recCut != nil && vnpfr != nil {
		scopeValid := func(e *Expr) bool {
			return CallTo(isValid)(e) && len(strip(e).Args) == 1 && FieldIs(rwField("clientScope"))(strip(e).Args[0])
		}
		bars := append([]Barrier{}, common...)
		bars = append(bars,
			OnFalse("w.clientScope.IsValid()", scopeValid),
			OnFalse("w.requestHasECS", FieldIs(rwField("requestHasECS"))),
			OnFalse("w.requestTreeBypassesSharedDenial", FieldIs(rwField("requestTreeBypassesSharedDenial"))),
			OnFalse("w.requestCD", FieldIs(rwField("requestCD"))),
			OnFalse("res.CheckingDisabled", FieldIs(fCD)))
		c.MustCrossAll("C02-R2", fn, "publish", isPublish, bars...)
		checkArgs(fn)
	}
	if fn := c.fn("C02-R2", cpkg+".(*PrefetchQueue).processPrefetch"); fn != nil && recDP != nil && recCut != nil && vnpfr != nil {
		pr := func(n string) *types.Var { return fld("C02-R2", cpkg+".PrefetchRequest."+n) }
		reqCD := c02FieldPath(pr("Request"), fld("C02-R2", lib+".Msg.MsgHdr"), fCD)
		exch := fo("C02-R2", cpkg+".(*Cache).prefetchExchange")
		respCD := func(e *Expr) bool {
			e = strip(e)
			return FieldIs(fCD)(e) && e.X != nil && e.X.X != nil && ResultOf(0, exch)(e.X.X)
		}
		bars := append([]Barrier{}, common...)
		bars = append(bars,
			OnTrue("ReplaceIfCurrent", CallTo(fo("C02-R2", cpkg+".(*Store).ReplaceIfCurrent"))),
			OnFalse("req.Entry.scoped()", CallTo(fo("C02-R2", cpkg+".(*CacheEntry).scoped"))),
			c02Either("requestCD (req.Request != nil && req.Request.CheckingDisabled)=false", OnFalse("", c02AndPhi(reqCD)), OnFalse("", reqCD)),
			OnFalse("req.RequestHadECS", FieldIs(pr("RequestHadECS"))),
			OnFalse("hasEDNSClientSubnet(req.Request)", CallTo(fo("C02-R2", cpkg+".hasEDNSClientSubnet"))),
			OnFalse("resp.CheckingDisabled", respCD))
		c.MustCrossAll("C02-R2", fn, "publish", isPublish, bars...)
		checkArgs(fn)
	}
	// a subtree cut is built only from an NXDOMAIN, CD=0 proof message (enforced where the index is written;
	// the Rcode test at the two admission sites is a redundant early-out and is not armed)
	if fn := c.fn("C02-R2", cpkg+".(*nxDomainCutCache).record"); fn != nil {
		ent := fld("C02-R2", cpkg+".nxDomainCutCache.entries")
		ins := func(in ssa.Instruction) bool {
			mu, ok := in.(*ssa.MapUpdate)
			return ok && FieldIs(ent)(Desc(mu.Map))
		}
		msgHdr := func(f *types.Var) Pat {
			return func(e *Expr) bool {
				e = strip(e)
				return FieldIs(f)(e) && e.X != nil && e.X.X != nil && c14ParamIdx(1)(e.X.X)
			}
		}
		c.MustCrossAll("C02-R2", fn, "cut inserted", ins,
			OnCmp("msg.Rcode == NXDOMAIN", msgHdr(fRcode), token.EQL, IsConstInt(3), true),
			OnFalse("msg.CheckingDisabled", msgHdr(fCD)))
	}
	c.Floor("C02-R2", 48)

	// ---------------------------------------------------------------- R3
	c.Doc("C02-R3", "provenance is local and exact: writers of ValidatedNegativeProof.Aggressive, origin of its value in Resolver.authority, guards of the mark in authority, callers of the mark / propagate helpers")
	authKey := "(*" + rpkg + ".Resolver).authority"
	if fAggr != nil {
		c.WhoMay("C02-R3", "store ValidatedNegativeProof.Aggressive", c.StoreSites(fAggr), map[string]string{
			authKey: "from aggressiveEligible",
			"(*" + cpkg + ".Cache).handleNXDomainCutHit": "re-serves an admitted subtree cut",
			"(*" + cpkg + ".Cache).handleDenialProofHit": "re-serves an admitted aggressive proof",
		})
	}
	evalNSEC := fo("C02-R3", dpkg+".EvaluateAggressiveNSEC")
	evalNSEC3 := fo("C02-R3", dpkg+".EvaluateAggressiveNSEC3")
	vNameErr3 := fo("C02-R3", dpkg+".VerifyNameErrorForZoneWithWork")
	vNODATA3 := fo("C02-R3", dpkg+".VerifyNODATAForZoneWithWork")
	vNameErr := fo("C02-R3", dpkg+".VerifyNameErrorNSEC")
	vNODATA := fo("C02-R3", dpkg+".VerifyNODATANSEC")
	vDeleg3 := fo("C02-R3", dpkg+".VerifyDelegationForZoneWithWork")
	vDeleg := fo("C02-R3", dpkg+".VerifyDelegationNSEC")
	denialSecure := c02LeavesPat([]Pat{IsConstBool(true), ResultOf(0, vNameErr3), ResultOf(0, vNODATA3)}, []Pat{ResultOf(0, vNameErr3), ResultOf(0, vNODATA3)})
	authFn := c.fn("C02-R3", rpkg+".(*Resolver).authority")
	if authFn != nil && fAggr != nil {
		resRcode := fld("C02-R3", dpkg+".AggressiveNegativeResult.Rcode")
		for _, s := range c.StoreSites(fAggr) {
			if TopLevel(s.Fn) != authFn {
				continue
			}
			// every way the flag can become true: a constant true merged in over an edge, or a
			// boolean operand assigned directly (`eligible = err == nil && rcode == …`), which
			// makes the flag true exactly when the operand holds
			srcs := c02TrueSources(s.Val)
			if len(srcs) == 0 {
				c.unresolved("C02-R3", "authority|Aggressive value", "no path assigns true (rule would pass vacuously)")
				continue
			}
			for _, src := range srcs {
				for _, bs := range [][]Barrier{
					{OnFalse("EvaluateAggressiveNSEC3 err", ResultOf(1, evalNSEC3)), OnFalse("EvaluateAggressiveNSEC err", ResultOf(1, evalNSEC))},
					{OnCmp("result.Rcode == resp.Rcode", FieldIs(resRcode), token.EQL, FieldIs(fRcode), true)},
				} {
					var names []string
					for _, b := range bs {
						names = append(names, b.Name)
					}
					k := "C02-R3|" + fnKey(authFn) + "|aggressiveEligible=true|" + strings.Join(names, ",")
					if src.Residual != nil {
						implied := false
						for _, b := range bs {
							if m, which := b.Edge(Desc(src.Residual)); m && which == 0 {
								implied = true
							}
						}
						if implied {
							c.ok("C02-R3", k, instrPos(src.Term), "aggressiveEligible is assigned the guard itself {"+strings.Join(names, " | ")+"}")
							continue
						}
					}
					if src.Term == nil {
						c.violation("C02-R3", k, instrPos(s.Instr), "Aggressive is assigned "+trunc(Desc(src.Residual).String(), 120)+", which does not imply {"+strings.Join(names, " | ")+"}")
						continue
					}
					if ug, tr := c.unguarded(src.Term, bs, authFn); ug {
						c.violation("C02-R3", k, instrPos(src.Term), "aggressiveEligible becomes true without crossing {"+strings.Join(names, " | ")+"}; path "+tr)
					} else {
						c.ok("C02-R3", k, instrPos(src.Term), "aggressiveEligible = true only behind {"+strings.Join(names, " | ")+"}")
					}
				}
			}
		}
		// the NSEC3 evaluator runs only for a secure (non-opt-out) exact proof
		c.MustCross("C02-R3", authFn, "EvaluateAggressiveNSEC3", isPlainCallTo(evalNSEC3), OnTrue("denialSecure", denialSecure))
		// mark only after a verifier, on the CD=0 side, for a secure proof
		reqParamCD := func(e *Expr) bool {
			e = strip(e)
			return FieldIs(fCD)(e) && e.X != nil && e.X.X != nil && c14ParamIdx(2)(e.X.X)
		}
		c.MustCrossAll("C02-R3", authFn, "MarkValidatedNegativeProofResponse", isPlainCallTo(markVNP),
			OnTrue("denialSecure", denialSecure),
			OnFalse("req.CheckingDisabled", reqParamCD))
		// isNegative is one SSA value tested twice (dispatch into the verifiers, and the mark's own
		// condition): a path that takes its false edge at one test and its true edge at the other is
		// infeasible, so the false edge counts as a barrier next to the verifier calls.
		if isNegV := c02IsNegativeValue(c, authFn, fRcode); isNegV != nil {
			same := func(e *Expr) bool { return e != nil && e.V == isNegV }
			c.MustCross("C02-R3", authFn, "MarkValidatedNegativeProofResponse", isPlainCallTo(markVNP), OnTrue("isNegative", same))
			c.MustCross("C02-R3", authFn, "MarkValidatedNegativeProofResponse", isPlainCallTo(markVNP),
				CallBarrier("a denial verifier", vNameErr3, vNODATA3, vNameErr, vNODATA), OnFalse("isNegative", same))
		}
	}
	if markVNP != nil {
		c.WhoMay("C02-R3", "MarkValidatedNegativeProofResponse", c.CallSites(markVNP), map[string]string{
			authKey: "the validator",
			"(*" + cpkg + ".Cache).handleNXDomainCutHit": "re-serves an admitted subtree cut",
			"(*" + cpkg + ".Cache).handleDenialProofHit": "re-serves an admitted aggressive proof",
		})
	}
	if markInner != nil {
		c.WhoMay("C02-R3", "markValidatedNegativeProofResponse", c.CallSites(markInner), map[string]string{
			mpkg + ".MarkValidatedDenialResponse":             "legacy NXDOMAIN mark, Kind Unknown, never aggressive",
			mpkg + ".MarkValidatedNegativeProofResponse":      "typed mark",
			mpkg + ".PropagateValidatedDenialResponse":        "explicit propagation (NXDOMAIN)",
			mpkg + ".PropagateValidatedNegativeProofResponse": "explicit propagation (same rcode)",
		})
	}
	if f := fo("C02-R3", mpkg+".MarkValidatedDenialResponse"); f != nil {
		c.WhoMay("C02-R3", "MarkValidatedDenialResponse (legacy)", c.CallSites(f), map[string]string{})
	}
	prop := map[string]string{
		"(*" + rpkg + ".Resolver).answer":        "alias splice: outer response inherits the target's terminal proof",
		"(*" + cpkg + ".Cache).additionalAnswer": "CNAME chase: outer response inherits the target's terminal proof",
	}
	for _, n := range []string{"PropagateValidatedDenialResponse", "PropagateValidatedNegativeProofResponse"} {
		if f := fo("C02-R3", mpkg+"."+n); f != nil {
			c.WhoMay("C02-R3", n, c.CallSites(f), prop)
			// propagation re-reads the provenance of `from` and refuses without it
			if pf := c.fn("C02-R3", mpkg+"."+n); pf != nil && markInner != nil {
				c.MustCross("C02-R3", pf, "re-mark", isPlainCallTo(markInner), OnTrue("provenance of from", ResultOf(1, vnpfr)))
			}
		}
	}
	c.Floor("C02-R3", 22)

	// ---------------------------------------------------------------- R4
	c.Doc("C02-R4", "denial records are zone-filtered: the record slice of every verifier/evaluator call outside package dnssec is FilterRRsToZone(ExtractRRSet(<msg>.Ns, \"\", <type>), signer) with the verifier bound to the same signer; signer-less variants are not called outside dnssec")
	filter := fo("C02-R4", "internal/dnsutil.FilterRRsToZone")
	extract := fo("C02-R4", "internal/dnsutil.ExtractRRSet")
	fNs := fld("C02-R4", lib+".Msg.Ns")
	type vspec struct {
		f            *types.Func
		recs, signer int // argument indices (signer < 0: verifier is not signer-bound)
		rrtype       int64
	}
	specs := []vspec{
		{vNameErr3, 1, 2, 50}, {vNODATA3, 1, 2, 50}, {evalNSEC3, 2, 1, 50}, {vDeleg3, 2, 1, 50},
		{vNameErr, 1, -1, 47}, {vNODATA, 1, -1, 47}, {evalNSEC, 2, 1, 47}, {vDeleg, 1, -1, 47},
	}
	cacheOK := map[string]string{cpkg + ".denialProofEvaluate": "re-evaluates records of the admitted index (R1/R2), bound to the index's zone key"}
	usedCacheRow := false
	for _, sp := range specs {
		if sp.f == nil || filter == nil || extract == nil {
			continue
		}
		for _, s := range c.CallSites(sp.f) {
			if c02InPkg(s.Fn, dpkg) {
				continue
			}
			top := fnKey(TopLevel(s.Fn))
			key := fmt.Sprintf("C02-R4|%s|%s records", top, sp.f.Name())
			if s.Kind != "call" {
				c.violation("C02-R4", key, instrPos(s.Instr), sp.f.Name()+" is referenced other than by a direct call ("+s.Kind+")")
				continue
			}
			if _, ok := cacheOK[top]; ok {
				usedCacheRow = true
				c.ok("C02-R4", key, instrPos(s.Instr), "allowed: "+cacheOK[top])
				continue
			}
			var bad []string
			for _, l := range c02OriginsThroughHelpers(Desc(callArg(s.Instr, sp.recs)), CallTo(filter, extract), 0) {
				ls := strip(l)
				if !CallTo(filter)(ls) || len(ls.Args) != 2 {
					bad = append(bad, "not a FilterRRsToZone result: "+trunc(l.String(), 120))
					continue
				}
				in := strip(ls.Args[0])
				if !CallTo(extract)(in) || len(in.Args) != 3 || !FieldIs(fNs)(in.Args[0]) {
					bad = append(bad, "filter input is not ExtractRRSet(<msg>.Ns, …): "+trunc(in.String(), 120))
					continue
				}
				if ts, oth := c02PackMembersExpr(in.Args[2]); len(oth) > 0 || !c02SameInts(ts, sp.rrtype) {
					bad = append(bad, fmt.Sprintf("extracted types %s, want {%d}", c02IntSet(ts), sp.rrtype))
				}
				if sp.signer >= 0 {
					sg := Desc(callArg(s.Instr, sp.signer)).String()
					if ls.Args[1].String() != sg {
						bad = append(bad, "filtered to "+trunc(ls.Args[1].String(), 80)+" but verified against signer "+trunc(sg, 80))
					}
				}
			}
			if len(bad) > 0 {
				c.violation("C02-R4", key, instrPos(s.Instr), sp.f.Name()+": "+strings.Join(bad, "; "))
			} else {
				c.ok("C02-R4", key, instrPos(s.Instr), sp.f.Name()+" receives FilterRRsToZone(ExtractRRSet(msg.Ns), signer) bound to the verifier's own signer")
			}
		}
	}
	if !usedCacheRow {
		c.unresolved("C02-R4", "cache.denialProofEvaluate", "allowed site no longer exists (table row stale)")
	}
	for _, n := range []string{"VerifyNameError", "VerifyNameErrorWithWork", "VerifyNODATA", "VerifyNODATAWithWork", "VerifyDelegation", "VerifyDelegationWithWork"} {
		f := fo("C02-R4", dpkg+"."+n)
		if f == nil {
			continue
		}
		var outside []Site
		for _, s := range c.CallSites(f) {
			if !c02InPkg(s.Fn, dpkg) {
				outside = append(outside, s)
			}
		}
		if len(outside) == 0 {
			c.ok("C02-R4", "C02-R4|signer-less "+n, f.Pos(), n+" (zone inferred from the records) has no caller outside dnssec")
		}
		c.WhoMay("C02-R4", "signer-less "+n, outside, map[string]string{})
	}
	c.Floor("C02-R4", 17)

	// ---------------------------------------------------------------- R5
	c.Doc("C02-R5", "opt-out never earns AD nor shared state")
	optOutF := fo("C02-R5", "internal/dnsutil.HasNSEC3OptOut")
	if fn := c.fn("C02-R5", cpkg+".nxDomainCutProof"); fn != nil && optOutF != nil {
		c.MustCross("C02-R5", fn, "cut proof built", isReturnWith(2, IsConstBool(true)), OnFalse("HasNSEC3OptOut(msg.Ns, zone)", CallTo(optOutF)))
		for _, in := range instrsWhere(fn, isPlainCallTo(optOutF)) {
			c.OriginCheck("C02-R5", "C02-R5|nxDomainCutProof|opt-out zone argument", in, "zone judged for opt-out", callArg(in, 1), nil, c14ParamIdx(2))
		}
	}
	if fn := c.fn("C02-R5", cpkg+".(*nxDomainCutCache).record"); fn != nil {
		cutProof := fo("C02-R5", cpkg+".nxDomainCutProof")
		for _, fv := range []string{"entries", "byHash"} {
			f := fld("C02-R5", cpkg+".nxDomainCutCache."+fv)
			c.MustCross("C02-R5", fn, "insert into "+fv, func(in ssa.Instruction) bool {
				mu, ok := in.(*ssa.MapUpdate)
				return ok && FieldIs(f)(Desc(mu.Map))
			}, OnTrue("nxDomainCutProof ok", ResultOf(2, cutProof)))
		}
	}
	authObj := fo("C02-R5", rpkg+".(*Resolver).authority")
	if fn := c.fn("C02-R5", rpkg+".(*Resolver).processAuthoritySection"); fn != nil && authObj != nil && vnpfr != nil {
		early := func(in ssa.Instruction) bool {
			r, ok := in.(*ssa.Return)
			return ok && len(r.Results) == 2 && IsNilConst(Desc(r.Results[1])) && ResultOf(0, authObj)(Desc(r.Results[0]))
		}
		c.MustCrossAll("C02-R5", fn, "RFC 8020 early stop", early,
			OnFalse("authority err", ResultOf(1, authObj)),
			OnTrue("provenance ok", ResultOf(1, vnpfr)),
			OnTrue("negative.Aggressive", negOf(fAggr)),
			OnTrue("negative.Proof != nil", negOf(fProof)),
			OnCmp("negative.Proof.Rcode == NXDOMAIN", c02FieldPath(fProof, fld("C02-R5", lib+".Msg.MsgHdr"), fRcode), token.EQL, IsConstInt(3), true),
			OnFalse("HasNSEC3OptOut(result.Ns, negative.Zone)", CallTo(optOutF)))
		for _, in := range instrsWhere(fn, isPlainCallTo(optOutF)) {
			key := "C02-R5|processAuthoritySection|opt-out zone argument"
			if negOf(fZone)(Desc(callArg(in, 1))) {
				c.ok("C02-R5", key, instrPos(in), "opt-out judged for the provenance record's signer zone")
			} else {
				c.violation("C02-R5", key, instrPos(in), "HasNSEC3OptOut is not asked about negative.Zone: "+trunc(Desc(callArg(in, 1)).String(), 120))
			}
		}
	}
	coverer := fo("C02-R5", dpkg+".findCovererWithWork")
	for _, vn := range []string{dpkg + ".verifyNameErrorWithRing", dpkg + ".VerifyNODATAForZoneWithWork"} {
		fn := c.fn("C02-R5", vn)
		if fn == nil || coverer == nil {
			continue
		}
		var after []Point
		for _, in := range instrsWhere(fn, isPlainCallTo(coverer)) {
			after = append(after, pointAfter(in))
		}
		if len(after) == 0 {
			c.unresolved("C02-R5", vn, "no findCovererWithWork call (rule would pass vacuously)")
			continue
		}
		r := reach(after, nil, nil)
		n := 0
		for _, in := range r.order {
			ret, ok := in.(*ssa.Return)
			if !ok || len(ret.Results) != 2 || !IsNilConst(Desc(ret.Results[1])) {
				continue
			}
			n++
			key := "C02-R5|" + fnKey(fn) + "|secure after a cover"
			bad := ""
			for _, l := range Origins(Desc(ret.Results[0]), nil) {
				ls := strip(l)
				okL := IsConstBool(false)(ls) || (ls.K == EUn && ls.Op == token.NOT && ResultOf(1, coverer)(ls.X))
				if !okL {
					bad = l.String()
				}
			}
			if bad != "" {
				c.violation("C02-R5", key, instrPos(in), "a proof that consulted a covering NSEC3 returns secure = "+trunc(bad, 100)+" (must be false or !optOut): opt-out would earn AD")
			} else {
				c.ok("C02-R5", key, instrPos(in), "secure after a cover is false or !optOut")
			}
		}
		if n == 0 {
			c.unresolved("C02-R5", vn+"|accept after cover", "no accept return after a cover lookup")
		}
	}
	if fn := c.fn("C02-R5", dpkg+".verifyNameErrorWithRing"); fn != nil && coverer != nil {
		// the opt-out bit that decides AD is the next-closer cover's
		fNext := fld("C02-R5", dpkg+".nsec3ClosestEncloserProof.nextCloser")
		for _, in := range returnsWhere(fn, 1, IsNilConst) {
			e := strip(Desc(in.(*ssa.Return).Results[0]))
			key := "C02-R5|" + fnKey(fn) + "|secure = !nextOptOut"
			okE := e.K == EUn && e.Op == token.NOT && ResultOf(1, coverer)(e.X)
			if okE {
				call := strip(e.X)
				if call.K == EExtract {
					call = strip(call.X)
				}
				okE = len(call.Args) >= 1 && FieldIs(fNext)(call.Args[0])
			}
			if okE {
				c.ok("C02-R5", key, instrPos(in), "NXDOMAIN secure = !optOut of the next-closer cover")
			} else {
				c.violation("C02-R5", key, instrPos(in), "NXDOMAIN secure is not !optOut of the next-closer cover: "+trunc(e.String(), 120))
			}
		}
	}
	if fn := c.fn("C02-R5", dpkg+".EvaluateAggressiveNSEC3"); fn != nil {
		look := fo("C02-R5", dpkg+".lookupAggressiveNSEC3")
		closest := fo("C02-R5", dpkg+".findAggressiveNSEC3ClosestEncloser")
		flags := fld("C02-R5", lib+".NSEC3.Flags")
		optBit := func(e *Expr) bool {
			e = strip(e)
			return e != nil && e.K == EBin && e.Op == token.AND && FieldIs(flags)(e.X) && IsConstInt(1)(e.Y)
		}
		c.MustCrossFrom("C02-R5", fn, "aggressive accept past the next-closer cover",
			func(in ssa.Instruction) bool {
				return isPlainCallTo(look)(in) && Contains(ResultOf(1, closest))(Desc(callArg(in, 0)))
			},
			isReturnWith(1, IsNilConst),
			OnCmp("cover.Flags&1 == 0", optBit, token.EQL, IsConstInt(0), true))
	}
	c.Floor("C02-R5", 16)

	// ---------------------------------------------------------------- R6
	c.Doc("C02-R6", "errors never fabricate a denial: every denial-verifier error in the resolver is tested and its non-nil edge reaches no nil-error return; a proof-less negative response / DS-less referral is accepted only across a verifier call")
	exactVerifiers := []*types.Func{vNameErr3, vNODATA3, vNameErr, vNODATA, vDeleg3, vDeleg}
	for _, f := range exactVerifiers {
		if f == nil {
			continue
		}
		for _, s := range c.CallSites(f) {
			if !c02InPkg(s.Fn, rpkg) {
				continue
			}
			top := TopLevel(s.Fn)
			key := fmt.Sprintf("C02-R6|%s|%s error", fnKey(top), f.Name())
			ev := c02ErrValue(s.Instr)
			if ev == nil {
				c.violation("C02-R6", key, instrPos(s.Instr), f.Name()+": error result is discarded")
				continue
			}
			pts := c02ErrEdge(top, ev)
			if len(pts) == 0 {
				c.violation("C02-R6", key, instrPos(s.Instr), f.Name()+": error result is never tested against nil")
				continue
			}
			nres := top.Signature.Results().Len()
			r := reach(pts, nil, nil)
			bad := false
			for _, in := range r.order {
				if ret, ok := in.(*ssa.Return); ok && len(ret.Results) == nres && IsNilConst(Desc(ret.Results[nres-1])) {
					bad = true
					c.violation("C02-R6", key, instrPos(in), fmt.Sprintf("%s failed at %s, yet a nil-error return is reachable at %s; path %s", f.Name(), c.P.pos(instrPos(s.Instr)), c.P.pos(instrPos(in)), c.trail(r, in)))
					break
				}
			}
			if !bad {
				c.ok("C02-R6", key, instrPos(s.Instr), f.Name()+": the error edge reaches only error returns")
			}
		}
	}
	if authFn != nil {
		// a negative response validated as signed is accepted only after a verifier ran:
		// from the isNegative=true edge that dispatches into the proof-kind switch, no
		// nil-error return is reachable without executing one of the four verifiers
		// (the default arm — neither NSEC nor NSEC3 — returns ErrNSECMissingCoverage).
		if isNegV := c02IsNegativeValue(c, authFn, fRcode); isNegV != nil {
			same := func(e *Expr) bool { return e != nil && e.V == isNegV }
			isVerifier := isPlainCallTo(vNameErr3, vNODATA3, vNameErr, vNODATA)
			key := "C02-R6|" + fnKey(authFn) + "|negative response accepted without a denial verifier"
			n := 0
			for _, pt := range edgePoints(authFn, OnTrue("isNegative", same)) {
				dispatch := false
				for _, in := range reach([]Point{pt}, nil, nil).order {
					if isVerifier(in) {
						dispatch = true
					}
				}
				if !dispatch {
					continue // the mark's own re-test of the same value
				}
				n++
				r := reach([]Point{pt}, []Barrier{CallBarrier("a denial verifier", vNameErr3, vNODATA3, vNameErr, vNODATA)}, nil)
				bad := false
				for _, in := range r.order {
					if ret, ok := in.(*ssa.Return); ok && len(ret.Results) == 2 && IsNilConst(Desc(ret.Results[1])) {
						bad = true
						c.violation("C02-R6", key, instrPos(in), "a signed negative response is accepted without any NSEC/NSEC3 verifier having run; path "+c.trail(r, in))
						break
					}
				}
				if !bad {
					c.ok("C02-R6", key, instrPos(pt.B.Instrs[0]), "after isNegative every accepting return crosses a denial verifier (proof-less arm returns an error)")
				}
			}
			if n == 0 {
				c.unresolved("C02-R6", "authority|isNegative dispatch", "no isNegative edge leads to the verifiers (rule would pass vacuously)")
			}
		}
	}
	extractPat := Contains(CallTo(extract))
	if fn := c.fn("C02-R6", rpkg+".(*Resolver).validateDelegation"); fn != nil {
		c.AfterEdge("C02-R6", fn, "verified referral without DS accepted without a delegation verifier",
			OnCmp("len(childDS) > 0 is false", c14LenOf(func(e *Expr) bool { return IsNilConst(e) || extractPat(e) }), token.GTR, IsConstInt(0), false),
			func(in ssa.Instruction) bool {
				ret, ok := in.(*ssa.Return)
				return ok && len(ret.Results) == 2 && IsNilConst(Desc(ret.Results[1]))
			}, CallBarrier("a delegation verifier", vDeleg3, vDeleg))
	}
	if fn := c.fn("C02-R6", rpkg+".(*Resolver).authenticatedDelegationDS"); fn != nil {
		c.MustCross("C02-R6", fn, "insecure verdict without a DS set", func(in ssa.Instruction) bool {
			ret, ok := in.(*ssa.Return)
			return ok && len(ret.Results) == 3 && IsNilConst(Desc(ret.Results[0])) && IsConstBool(true)(Desc(ret.Results[1]))
		}, CallBarrier("a delegation verifier", vDeleg3, vDeleg))
	}
	c.Floor("C02-R6", 14)

	// ---------------------------------------------------------------- R7
	c.Doc("C02-R7", "consumers re-gate: the shared indexes are consulted only across the false edges of CD, client scope, raw ECS, tree bypass and the kill switch; lookupWithMeta returns a response only across CD=0, a successful evaluation and the conflict re-check")
	lookCut := fo("C02-R7", cpkg+".(*Store).LookupNXDomainCut")
	lookCutWire := fo("C02-R7", cpkg+".(*Store).LookupNXDomainCutWire")
	lookDP := fo("C02-R7", cpkg+".(*Store).lookupDenialProofWithExpiry")
	bypass := fo("C02-R7", cpkg+".sharedDenialBypass")
	hasECS := fo("C02-R7", cpkg+".hasEDNSClientSubnet")
	paramValid := func(i int) Pat {
		return func(e *Expr) bool {
			return CallTo(isValid)(e) && len(strip(e).Args) == 1 && c14ParamIdx(i)(strip(e).Args[0])
		}
	}
	if fn := c.fn("C02-R7", cpkg+".(*Cache).lookupNXDomainCut"); fn != nil {
		c.MustCrossAll("C02-R7", fn, "Store.LookupNXDomainCut", isPlainCallTo(lookCut),
			OnFalse("req.CheckingDisabled", FieldIs(fCD)),
			OnFalse("clientScope.IsValid()", paramValid(3)),
			OnFalse("sharedDenialBypass(ctx)", CallTo(bypass)))
	}
	if fn := c.fn("C02-R7", cpkg+".(*Cache).lookupDenialProof"); fn != nil {
		c.MustCrossAll("C02-R7", fn, "Store.lookupDenialProofWithExpiry", isPlainCallTo(lookDP),
			OnFalse("req.CheckingDisabled", FieldIs(fCD)),
			OnFalse("clientScope.IsValid()", paramValid(3)),
			OnFalse("hasEDNSClientSubnet(req)", CallTo(hasECS)),
			OnFalse("sharedDenialBypass(ctx)", CallTo(bypass)))
	}
	if fn := c.fn("C02-R7", cpkg+".(*Store).GetWithContext"); fn != nil {
		// the four bypass atoms, whether tested inline or first folded into a named boolean
		// (an || phi): each atom's false edge, or the false edge of an || value it is part of
		for _, at := range []struct {
			name string
			p    Pat
		}{
			{"req.CheckingDisabled", FieldIs(fCD)},
			{"hasEDNSClientSubnet(req)", CallTo(hasECS)},
			{"middleware.HasClientECS(ctx)", CallTo(fo("C02-R7", mpkg+".HasClientECS"))},
			{"sharedDenialBypass(ctx)", CallTo(bypass)},
		} {
			c.MustCross("C02-R7", fn, "shared denial lookup", isPlainCallTo(lookCut, lookDP),
				c02Either(at.name+"=false", OnFalse("", at.p), OnFalse("", c02OrPhi(at.p))))
		}
	}
	if fn := c.fn("C02-R7", cpkg+".(*Cache).serveCompositeFromWire"); fn != nil {
		c.MustCross("C02-R7", fn, "Store.LookupNXDomainCutWire", isPlainCallTo(lookCutWire), OnFalse("req.CD()", MethodNamed("CD")))
	}
	// the Store lookups themselves: kill switch and CD
	if fn := c.fn("C02-R7", cpkg+".(*Store).LookupNXDomainCut"); fn != nil {
		c.MustCrossAll("C02-R7", fn, "nxDomainCuts.lookup", isPlainCallTo(fo("C02-R7", cpkg+".(*nxDomainCutCache).lookup")),
			OnFalse("s.sharedDenialDisabled", FieldIs(fld("C02-R7", cpkg+".Store.sharedDenialDisabled"))),
			OnFalse("req.CheckingDisabled", FieldIs(fCD)))
	}
	if fn := c.fn("C02-R7", cpkg+".(*Store).lookupDenialProofWithExpiry"); fn != nil {
		c.MustCrossAll("C02-R7", fn, "denialProofs.lookupWithMeta", isPlainCallTo(fo("C02-R7", cpkg+".(*denialProofCache).lookupWithMeta")),
			OnFalse("s.sharedDenialDisabled", FieldIs(fld("C02-R7", cpkg+".Store.sharedDenialDisabled"))),
			OnFalse("s.rfc8198Disabled", FieldIs(fld("C02-R7", cpkg+".Store.rfc8198Disabled"))))
	}
	if fn := c.fn("C02-R7", cpkg+".(*denialProofCache).lookupWithMeta"); fn != nil {
		accept := isReturnWith(4, IsConstBool(true))
		c.MustCrossAll("C02-R7", fn, "synthesised denial returned", accept,
			OnFalse("req.CheckingDisabled", FieldIs(fCD)),
			OnTrue("denialProofEvaluate ok", ResultOf(3, fo("C02-R7", cpkg+".denialProofEvaluate"))),
			OnFalse("nsec3SelectionConflictedLocked", CallTo(fo("C02-R7", cpkg+".(*denialProofCache).nsec3SelectionConflictedLocked"))))
	}
	c.Floor("C02-R7", 17)

	// ---------------------------------------------------------------- R8
	runC02R8(c)
}

// c02PackMembersExpr is c02PackMembers on an already described value.
func c02PackMembersExpr(e *Expr) (consts []int64, others []*Expr) {
	e = strip(e)
	if e == nil {
		return nil, nil
	}
	if e.K != EMake {
		return nil, []*Expr{e}
	}
	for _, a := range e.Args {
		if n, ok := constInt(a); ok {
			consts = append(consts, n)
		} else {
			others = append(others, a)
		}
	}
	return
}

// c02PhiCondAtoms: for a boolean phi built from && / ||, the branch conditions
// of the predecessors that supply its constant edges plus its non-constant
// operands (recursively).
func c02PhiCondAtoms(e *Expr) []*Expr {
	var out []*Expr
	seen := map[ssa.Value]bool{}
	var walk func(v ssa.Value)
	walk = func(v ssa.Value) {
		phi, ok := v.(*ssa.Phi)
		if !ok {
			out = append(out, Desc(v))
			return
		}
		if seen[phi] {
			return
		}
		seen[phi] = true
		for i, ed := range phi.Edges {
			if _, isC := ed.(*ssa.Const); isC {
				pred := phi.Block().Preds[i]
				if iff, ok := pred.Instrs[len(pred.Instrs)-1].(*ssa.If); ok {
					out = append(out, condOf(iff))
				}
				continue
			}
			walk(ed)
		}
	}
	if e != nil && e.V != nil {
		walk(e.V)
	}
	return out
}

// ---------------------------------------------------------------------- R8

func runC02R8(c *Ctx) {
	// every edge barrier of this property also recognises its guard through negations and named booleans (c02Deep)
	OnTrue := func(name string, p Pat) Barrier { return c02Deep(OnTrue(name, p)) }
	OnFalse := func(name string, p Pat) Barrier { return c02Deep(OnFalse(name, p)) }
	OnCmp := func(name string, lhs Pat, op token.Token, rhs Pat, holds bool) Barrier {
		return c02Deep(OnCmp(name, lhs, op, rhs, holds))
	}
	const (
		dpkg = "middleware/resolver/dnssec"
		lib  = "github.com/miekg/dns"
	)
	c.Doc("C02-R8", "type-bitmap conditions of the verdicts, NSEC ↔ NSEC3 agreement: the accept return of every denial verifier is reachable only across its bitmap tests with exactly the stated constant type sets, an owner-equality / matching-lookup success edge, and — where the proof rests on a cover — the opt-out edge")
	typesSet := c.fobj("C02-R8", dpkg+".typesSet")
	qtype := c.field("C02-R8", lib+".Question.Qtype")
	if typesSet == nil || qtype == nil {
		return
	}
	// A bitmap test typesSet(bitmap, L…) is read by what its edges establish, not by
	// how the type list is spelled or split over calls:
	//   false edge ⇒ no type of L is present   → has(T) matches any call whose list contains T
	//   true edge  ⇒ some type of L is present → only(T…) matches a call whose list ⊆ {T…}
	// so `typesSet(b, q, CNAME)`, `typesSet(b, q) || typesSet(b, CNAME)` and a list
	// hardened with a further type all satisfy "accept only if neither q nor CNAME
	// is present", while dropping a type from the list does not.
	tsList := func(e *Expr) (consts []int64, others []*Expr, ok bool) {
		if !CallTo(typesSet)(e) {
			return nil, nil, false
		}
		e = strip(e)
		if len(e.Args) != 2 {
			return nil, nil, false
		}
		consts, others = c02PackMembersExpr(e.Args[1])
		return consts, others, true
	}
	has := func(t int64) Pat {
		return func(e *Expr) bool {
			cs, _, ok := tsList(e)
			if !ok {
				return false
			}
			for _, x := range cs {
				if x == t {
					return true
				}
			}
			return false
		}
	}
	hasQ := func(q Pat) Pat {
		return func(e *Expr) bool {
			_, oth, ok := tsList(e)
			if !ok {
				return false
			}
			for _, o := range oth {
				if q(o) {
					return true
				}
			}
			return false
		}
	}
	only := func(ts ...int64) Pat {
		return func(e *Expr) bool {
			cs, oth, ok := tsList(e)
			if !ok || len(oth) > 0 || len(cs) == 0 {
				return false
			}
			for _, x := range cs {
				in := false
				for _, t := range ts {
					if x == t {
						in = true
					}
				}
				if !in {
					return false
				}
			}
			return true
		}
	}
	lacks := func(t int64, name string) Barrier { return OnFalse("bitmap lacks "+name, has(t)) }
	lacksQ := func(q Pat) Barrier { return OnFalse("bitmap lacks qtype", hasQ(q)) }
	isQ := FieldIs(qtype)
	const (
		tNS, tCNAME, tSOA, tDNAME, tDS = 2, 5, 6, 39, 43
	)
	acceptNil := isReturnWith(0, IsNilConst)
	notDS := OnCmp("q.Qtype != DS", isQ, token.NEQ, IsConstInt(tDS), true)

	// insecure delegation: NS ∧ ¬{DS,SOA}
	for _, name := range []string{dpkg + ".verifyDelegationTypes", dpkg + ".VerifyDelegationNSEC"} {
		fn := c.fn("C02-R8", name)
		if fn == nil {
			continue
		}
		bars := []Barrier{OnTrue("bitmap has NS", only(tNS)), lacks(tDS, "DS"), lacks(tSOA, "SOA")}
		if name == dpkg+".verifyDelegationTypes" {
			c.c14MustCrossAcceptAll("C02-R8", fn, "insecure delegation accepted", 0, IsNilConst, nil, bars...)
		} else {
			c.MustCrossAll("C02-R8", fn, "insecure delegation accepted", acceptNil, bars...)
		}
	}
	toLower := c.fobj("C02-R8", "strings.ToLower")
	canon := c.fobj("C02-R8", lib+".CanonicalName")
	hdr := MethodNamed("Header")
	ownerOf := func(f *types.Func) Pat {
		return func(e *Expr) bool { return CallTo(f)(e) && Contains(hdr)(e) }
	}
	if fn := c.fn("C02-R8", dpkg+".VerifyDelegationNSEC"); fn != nil {
		c.MustCross("C02-R8", fn, "insecure delegation accepted", acceptNil,
			OnCmp("owner == delegation", ownerOf(toLower), token.EQL, CallTo(toLower), true))
	}
	// NODATA, NSEC: both arms
	if fn := c.fn("C02-R8", dpkg+".VerifyNODATANSEC"); fn != nil {
		c.MustCross("C02-R8", fn, "NODATA accepted", acceptNil, lacksQ(isQ))
		c.MustCross("C02-R8", fn, "NODATA accepted", acceptNil, lacks(tCNAME, "CNAME"))
		c.MustCross("C02-R8", fn, "NODATA accepted", acceptNil, notDS, lacks(tSOA, "SOA"))
		c.MustCross("C02-R8", fn, "NODATA accepted", acceptNil,
			OnCmp("owner == qname", ownerOf(canon), token.EQL, CallTo(canon), true),
			OnCmp("owner == *.closest-encloser", ownerOf(toLower), token.EQL, CallTo(toLower), true))
		// sibling agreement of the two arms: after either owner-equality edge the same two tests decide
		for _, eq := range []Barrier{
			OnCmp("owner == qname", ownerOf(canon), token.EQL, CallTo(canon), true),
			OnCmp("owner == *.closest-encloser", ownerOf(toLower), token.EQL, CallTo(toLower), true),
		} {
			c.AfterEdge("C02-R8", fn, "arm accepts without its own bitmap test", eq, acceptNil, lacksQ(isQ))
			c.AfterEdge("C02-R8", fn, "arm accepts without its own bitmap test", eq, acceptNil, lacks(tCNAME, "CNAME"))
			c.AfterEdge("C02-R8", fn, "arm accepts a DS NODATA from the child apex", eq, acceptNil, notDS, lacks(tSOA, "SOA"))
		}
	}
	// NODATA, NSEC3
	matching := c.fobj("C02-R8", dpkg+".findMatchingWithWork")
	coverer := c.fobj("C02-R8", dpkg+".findCovererWithWork")
	closestF := c.fobj("C02-R8", dpkg+".findClosestEncloserWithWork")
	validateCE := c.fobj("C02-R8", dpkg+".validateNSEC3ClosestEncloser")
	prepare := c.fobj("C02-R8", dpkg+".prepareNSEC3Set")
	if fn := c.fn("C02-R8", dpkg+".VerifyNODATAForZoneWithWork"); fn != nil && matching != nil && coverer != nil {
		okRet := func(in ssa.Instruction) bool {
			r, ok := in.(*ssa.Return)
			return ok && len(r.Results) == 2 && IsNilConst(Desc(r.Results[1]))
		}
		bitmapArm := func(in ssa.Instruction) bool { // exact and wildcard arms: secure is not the constant false
			return okRet(in) && !IsConstBool(false)(Desc(in.(*ssa.Return).Results[0]))
		}
		optOutArm := func(in ssa.Instruction) bool {
			return okRet(in) && IsConstBool(false)(Desc(in.(*ssa.Return).Results[0]))
		}
		c.MustCross("C02-R8", fn, "NSEC3 NODATA accepted (exact / wildcard arm)", bitmapArm, lacksQ(isQ))
		c.MustCross("C02-R8", fn, "NSEC3 NODATA accepted (exact / wildcard arm)", bitmapArm, lacks(tCNAME, "CNAME"))
		c.MustCross("C02-R8", fn, "NSEC3 NODATA accepted (exact / wildcard arm)", bitmapArm, OnFalse("findMatchingWithWork err", ResultOf(1, matching)))
		c.MustCross("C02-R8", fn, "NSEC3 NODATA accepted (exact / wildcard arm)", bitmapArm, notDS, lacks(tSOA, "SOA"))
		c.MustCrossAll("C02-R8", fn, "NSEC3 DS NODATA accepted on a cover", optOutArm,
			OnTrue("optOut", ResultOf(1, coverer)),
			OnCmp("q.Qtype == DS", isQ, token.EQL, IsConstInt(tDS), true),
			OnFalse("validateNSEC3ClosestEncloser err", CallTo(validateCE)))
		// the no-opt-out DS arm refuses with ErrNSECOptOut
		optErr := c.P.Object(dpkg + ".ErrNSECOptOut")
		c.AfterEdge("C02-R8", fn, "DS NODATA on a non-opt-out cover accepted", OnFalse("optOut", func(e *Expr) bool {
			return ResultOf(1, coverer)(e)
		}), func(in ssa.Instruction) bool {
			r, ok := in.(*ssa.Return)
			if !ok || len(r.Results) != 2 {
				return false
			}
			// only the DS arm tests optOut in a branch; its refusal must be the sentinel
			return !Contains(GlobalIs(optErr))(Desc(r.Results[1]))
		})
	}
	// closest encloser: not below a DNAME or a delegation
	if fn := c.fn("C02-R8", dpkg+".validateNSEC3ClosestEncloser"); fn != nil {
		c.c14MustCrossAccept("C02-R8", fn, "closest encloser accepted", 0, IsNilConst, nil, lacks(tDNAME, "DNAME"))
		c.c14MustCrossAccept("C02-R8", fn, "closest encloser accepted", 0, IsNilConst, nil, lacks(tNS, "NS"), OnTrue("bitmap has SOA", only(tSOA)))
	}
	// every NSEC3 verdict that used the closest-encloser route validated it, and no incomplete step accepts
	for _, name := range []string{dpkg + ".verifyNameErrorWithRing", dpkg + ".VerifyNODATAForZoneWithWork", dpkg + ".VerifyDelegationForZoneWithWork"} {
		fn := c.fn("C02-R8", name)
		if fn == nil || closestF == nil || validateCE == nil {
			continue
		}
		nres := fn.Signature.Results().Len()
		accept := func(in ssa.Instruction) bool {
			r, ok := in.(*ssa.Return)
			return ok && len(r.Results) == nres && IsNilConst(Desc(r.Results[nres-1]))
		}
		c.MustCrossFrom("C02-R8", fn, "accept after the closest-encloser search without validating the encloser",
			isPlainCallTo(closestF), accept, OnFalse("validateNSEC3ClosestEncloser err", CallTo(validateCE)))
		for _, step := range []*types.Func{coverer, closestF, validateCE, prepare} {
			if step == nil {
				continue
			}
			for _, in := range instrsWhere(fn, isPlainCallTo(step)) {
				key := fmt.Sprintf("C02-R8|%s|%s error", fnKey(fn), step.Name())
				ev := c02ErrValue(in)
				var pts []Point
				if ev != nil {
					pts = c02ErrEdge(fn, ev)
				}
				if len(pts) == 0 {
					c.violation("C02-R8", key, instrPos(in), step.Name()+": error result is not tested — an incomplete proof step is ignored")
					continue
				}
				r := reach(pts, nil, nil)
				bad := false
				for _, x := range r.order {
					if accept(x) {
						bad = true
						c.violation("C02-R8", key, instrPos(x), fmt.Sprintf("%s failed at %s yet an accept return is reachable; path %s", step.Name(), c.P.pos(instrPos(in)), c.trail(r, x)))
						break
					}
				}
				if !bad {
					c.ok("C02-R8", key, instrPos(in), step.Name()+": a failed proof step reaches only error returns")
				}
			}
		}
	}
	// NSEC3 insecure delegation: exact match → verifyDelegationTypes(bitmap of the match); otherwise only an opt-out cover
	if fn := c.fn("C02-R8", dpkg+".VerifyDelegationForZoneWithWork"); fn != nil && matching != nil {
		vdt := c.fobj("C02-R8", dpkg+".verifyDelegationTypes")
		c.MustCross("C02-R8", fn, "NSEC3 delegation accepted on a cover", acceptNil, OnTrue("optOut", ResultOf(1, coverer)))
		n := 0
		for _, in := range returnsWhere(fn, 0, CallTo(vdt)) {
			n++
			e := strip(Desc(in.(*ssa.Return).Results[0]))
			key := "C02-R8|" + fnKey(fn) + "|exact match judged by verifyDelegationTypes"
			if len(e.Args) == 1 && ResultOf(0, matching)(e.Args[0]) {
				c.ok("C02-R8", key, instrPos(in), "exact match: verdict = verifyDelegationTypes(bitmap of the matching NSEC3)")
			} else {
				c.violation("C02-R8", key, instrPos(in), "verifyDelegationTypes does not judge the matching NSEC3's bitmap: "+trunc(e.String(), 120))
			}
		}
		if n == 0 {
			c.violation("C02-R8", "C02-R8|"+fnKey(fn)+"|exact match judged by verifyDelegationTypes", fn.Pos(), "the exact-match arm no longer returns verifyDelegationTypes(types)")
		}
		// every other return is an error value or the guarded nil
		for _, in := range returnsWhere(fn, 0, nil) {
			e := Desc(in.(*ssa.Return).Results[0])
			if IsNilConst(e) || CallTo(vdt)(e) {
				continue
			}
			key := "C02-R8|" + fnKey(fn) + "|other returns are errors"
			bad := false
			for _, l := range Origins(e, nil) {
				if IsNilConst(l) {
					bad = true
				}
			}
			if bad {
				c.violation("C02-R8", key, instrPos(in), "a return may yield nil outside the two accepting arms")
			} else {
				c.ok("C02-R8", key, instrPos(in), "error return")
			}
		}
	}
	// NSEC3 NXDOMAIN: both covers are required
	if fn := c.fn("C02-R8", dpkg+".verifyNameErrorWithRing"); fn != nil && coverer != nil {
		calls := instrsWhere(fn, isPlainCallTo(coverer))
		key := "C02-R8|" + fnKey(fn) + "|next-closer and wildcard covers"
		fNext := c.field("C02-R8", dpkg+".nsec3ClosestEncloserProof.nextCloser")
		fName := c.field("C02-R8", dpkg+".nsec3ClosestEncloserProof.name")
		hasNext, hasWild := false, false
		for _, in := range calls {
			a := Desc(callArg(in, 0))
			if FieldIs(fNext)(a) {
				hasNext = true
			}
			if sa := strip(a); sa.K == EBin && sa.Op == token.ADD && FieldIs(fName)(sa.Y) {
				if v, ok := sa.X, true; ok && v.K == EConst && v.Val != nil && v.Val.ExactString() == `"*."` {
					hasWild = true
				}
			}
		}
		if hasNext && hasWild {
			c.ok("C02-R8", key, fn.Pos(), "NXDOMAIN requires covers of the next-closer name and of *.<closest encloser>")
		} else {
			c.violation("C02-R8", key, fn.Pos(), fmt.Sprintf("NXDOMAIN proof no longer looks up both covers (next-closer %v, wildcard %v)", hasNext, hasWild))
		}
	}
	// the shared-state gate (aggressive classifier) applies the same NODATA bitmap rule
	if fn := c.fn("C02-R8", dpkg+".validateAggressiveExactNODATA"); fn != nil {
		qp := c14ParamIdx(0)
		deleg := c.fobj("C02-R8", dpkg+".aggressiveDelegationBitmap")
		c.c14MustCrossAccept("C02-R8", fn, "aggressive NODATA accepted", 0, IsNilConst, nil, lacksQ(qp))
		c.c14MustCrossAccept("C02-R8", fn, "aggressive NODATA accepted", 0, IsNilConst, nil, lacks(tCNAME, "CNAME"))
		c.c14MustCrossAccept("C02-R8", fn, "aggressive NODATA accepted", 0, IsNilConst, nil, OnCmp("qtype != DS", qp, token.NEQ, IsConstInt(tDS), true), lacks(tSOA, "SOA"))
		c.c14MustCrossAccept("C02-R8", fn, "aggressive NODATA accepted", 0, IsNilConst, nil, OnCmp("qtype == DS", qp, token.EQL, IsConstInt(tDS), true), OnFalse("aggressiveDelegationBitmap", CallTo(deleg)))
	}
	var _ = sort.Strings
	c.Floor("C02-R8", 60)
}
