package main

// Regression mutants for finding F-C03-1 (a mis-echoed ECS option chooses the audience an
// answer is filed for).  Old = the fixed tree.
func init() {
	addMutants("C03", []Mutant{
		{ID: "f-c03-1-echo-check-dropped", File: "middleware/cache/cache.go", Expect: "C03-R9|(*middleware/cache.ResponseWriter).WriteMsg",
			Old: "\t\t\tif clamped.Contains(w.clientScope.Addr()) {", New: "\t\t\tif clamped.IsValid() {",
			Why: "F-C03-1: the scoped insert is filed under whatever address the upstream's option names (other subnet / other family)"},
		{ID: "f-c03-1-echo-check-against-itself", File: "middleware/cache/cache.go", Expect: "C03-R9|(*middleware/cache.ResponseWriter).WriteMsg",
			Old: "\t\t\tif clamped.Contains(w.clientScope.Addr()) {", New: "\t\t\tif clamped.Contains(respScope.Addr()) {",
			Why: "F-C03-1: the containment test compares the response option with itself, never with the prefix the query was sent for"},
	})
}
