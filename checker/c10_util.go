package main

// Helpers for C10 (ownership / scrubbing of reused storage).  Everything is
// resolved through type information; nothing here matches source text.

import (
	"fmt"
	"go/token"
	"go/types"
	"sort"
	"strings"

	"golang.org/x/tools/go/ssa"
)

// ---------------------------------------------------------------------------
// sync.Pool discovery

type c10Pool struct {
	Key   string     // module-relative "pkg.Var" or "pkg.Type.field"
	Var   *types.Var // package-level variable or struct field
	Field bool
}

func c10IsSyncPool(t types.Type) bool {
	if a, ok := t.Underlying().(*types.Array); ok {
		t = a.Elem()
	}
	n, ok := t.(*types.Named)
	return ok && n.Obj().Pkg() != nil && n.Obj().Pkg().Path() == "sync" && n.Obj().Name() == "Pool"
}

// c10DiscoverPools lists every package-level variable and struct field of type
// sync.Pool (or array of sync.Pool) declared in the request-path packages.
func c10DiscoverPools(c *Ctx) []c10Pool {
	var out []c10Pool
	inScope := func(rel string) bool {
		return rel == "middleware" || strings.HasPrefix(rel, "middleware/") || rel == "server" || strings.HasPrefix(rel, "server/") ||
			rel == "internal/wire" || rel == "internal/dnsclient"
	}
	var paths []string
	for p := range c.P.ByPath {
		paths = append(paths, p)
	}
	sort.Strings(paths)
	for _, p := range paths {
		if !c.P.inModule(p) {
			continue
		}
		rel := strings.TrimPrefix(p, c.P.ModPath+"/")
		if !inScope(rel) {
			continue
		}
		pk := c.P.ByPath[p]
		if pk.Types == nil {
			continue
		}
		sc := pk.Types.Scope()
		for _, name := range sc.Names() {
			switch o := sc.Lookup(name).(type) {
			case *types.Var:
				if c10IsSyncPool(o.Type()) {
					out = append(out, c10Pool{Key: rel + "." + name, Var: o})
				}
			case *types.TypeName:
				st, ok := o.Type().Underlying().(*types.Struct)
				if !ok || o.IsAlias() {
					continue
				}
				for i := 0; i < st.NumFields(); i++ {
					if c10IsSyncPool(st.Field(i).Type()) {
						out = append(out, c10Pool{Key: rel + "." + name + "." + st.Field(i).Name(), Var: st.Field(i), Field: true})
					}
				}
			}
		}
	}
	return out
}

// c10PoolSites returns the Get and Put call sites of one pool.
func c10PoolSites(c *Ctx, p c10Pool) (gets, puts []ssa.Instruction) {
	isPool := func(e *Expr) bool {
		for d := 0; e != nil && d < 6; d++ {
			switch e.K {
			case EGlobal:
				return !p.Field && e.Obj == p.Var
			case EField:
				if p.Field && e.Var == p.Var {
					return true
				}
				return false
			case EIndex:
				e = e.X
				continue
			case EFree:
				e = e.X
				continue
			}
			return false
		}
		return false
	}
	for _, fn := range c.P.RepoFuncs() {
		for _, b := range fn.Blocks {
			for _, in := range b.Instrs {
				cc := callCommon(in)
				if cc == nil || cc.IsInvoke() || len(cc.Args) == 0 {
					continue
				}
				fo, _, _ := calleeObj(cc)
				if fo == nil || fo.Pkg() == nil || fo.Pkg().Path() != "sync" || !methodOn(fo, "Pool") {
					continue
				}
				if !isPool(Desc(cc.Args[0])) {
					continue
				}
				switch fo.Name() {
				case "Get":
					gets = append(gets, in)
				case "Put":
					puts = append(puts, in)
				}
			}
		}
	}
	return
}

// ---------------------------------------------------------------------------
// field-path store collection

type c10cov struct {
	c       *Ctx
	paths   map[string]bool
	visited map[string]bool
}

// c10AddrPath resolves an address value to (base value, field path below it).
func c10AddrPath(v ssa.Value) (ssa.Value, string) {
	var names []string
	for d := 0; d < 12; d++ {
		switch x := v.(type) {
		case *ssa.FieldAddr:
			st := deref(x.X.Type()).Underlying().(*types.Struct)
			names = append([]string{st.Field(x.Field).Name()}, names...)
			v = x.X
			continue
		case *ssa.Phi:
			// "may be": first edge that leads somewhere useful
			for _, e := range x.Edges {
				if _, ok := e.(*ssa.FieldAddr); ok {
					v = e
					break
				}
			}
			if _, ok := v.(*ssa.Phi); ok {
				return v, strings.Join(names, ".")
			}
			continue
		case *ssa.ChangeType:
			v = x.X
			continue
		}
		break
	}
	return v, strings.Join(names, ".")
}

// structAt returns the struct type reached from root by following path.
func c10StructAt(root types.Type, path string) types.Type {
	t := root
	if path == "" {
		return t
	}
	for _, n := range strings.Split(path, ".") {
		st, ok := t.Underlying().(*types.Struct)
		if !ok {
			return nil
		}
		found := false
		for i := 0; i < st.NumFields(); i++ {
			if st.Field(i).Name() == n {
				t = st.Field(i).Type()
				found = true
				break
			}
		}
		if !found {
			return nil
		}
	}
	return t
}

// collect gathers the field paths (relative to a value of struct type st,
// reported with prefix) that fn and — for methods called on the value or on
// one of its sub-structs — its in-module callees assign.
func (k *c10cov) collect(fn *ssa.Function, st types.Type, prefix string, depth int) {
	if fn == nil || st == nil {
		return
	}
	vk := fnKey(fn) + "|" + prefix + "|" + st.String()
	if k.visited[vk] {
		return
	}
	k.visited[vk] = true
	join := func(rel string) string {
		switch {
		case prefix == "":
			return rel
		case rel == "":
			return prefix
		}
		return prefix + "." + rel
	}
	// resolves an address to a path below a (non-fresh) value of type *st
	resolve := func(addr ssa.Value) (string, bool) {
		base, rel := c10AddrPath(addr)
		if base == nil {
			return "", false
		}
		if _, fresh := base.(*ssa.Alloc); fresh {
			return "", false // composite literal under construction / local
		}
		pt, ok := base.Type().Underlying().(*types.Pointer)
		if !ok || !types.Identical(pt.Elem().Underlying(), st.Underlying()) {
			return "", false
		}
		return rel, true
	}
	for _, f := range WithAnons(fn) {
		for _, b := range f.Blocks {
			for _, in := range b.Instrs {
				switch x := in.(type) {
				case *ssa.Store:
					if rel, ok := resolve(x.Addr); ok {
						k.paths[join(rel)] = true
					}
				case *ssa.Call, *ssa.Defer:
					cc := callCommon(in)
					if cc.IsInvoke() {
						continue
					}
					if bi, ok := cc.Value.(*ssa.Builtin); ok {
						if bi.Name() == "clear" && len(cc.Args) == 1 {
							if ld, ok := cc.Args[0].(*ssa.UnOp); ok && ld.Op == token.MUL {
								if rel, ok := resolve(ld.X); ok {
									k.paths[join(rel)] = true
								}
							}
						}
						continue
					}
					fo, sf, _ := calleeObj(cc)
					if len(cc.Args) == 0 {
						continue
					}
					rel, ok := resolve(cc.Args[0])
					if !ok {
						continue
					}
					if fo != nil && fo.Pkg() != nil && fo.Pkg().Path() == "sync/atomic" && (fo.Name() == "Store" || fo.Name() == "Swap") {
						k.paths[join(rel)] = true
						continue
					}
					if sf == nil || depth >= 3 || fo == nil || fo.Pkg() == nil || !k.c.P.inModule(fo.Pkg().Path()) {
						continue
					}
					sig := fo.Type().(*types.Signature)
					if sig.Recv() == nil {
						continue // only methods of the value / its sub-structs are followed
					}
					sub := c10StructAt(st, rel)
					if sub == nil {
						continue
					}
					if _, isStruct := sub.Underlying().(*types.Struct); !isStruct {
						continue
					}
					callee := sf
					if o := callee.Origin(); o != nil {
						callee = o
					}
					// a reset helper counts for what it assigns on EVERY path through it: a
					// store behind a condition (reset only when parked, only when dirty) leaves
					// the previous request's value on the other branch
					for p := range k.mustPaths(callee, sub, depth+1) {
						if p == "" {
							k.paths[join(rel)] = true
						} else if rel == "" {
							k.paths[join(p)] = true
						} else {
							k.paths[join(rel+"."+p)] = true
						}
					}
				}
			}
		}
	}
}

// mustPaths: the field paths (relative to the receiver of type *st) that method fn
// assigns on every path from its entry to its returns — directly, or through further
// methods of the value that must-assign them.
func (k *c10cov) mustPaths(fn *ssa.Function, st types.Type, depth int) map[string]bool {
	res := map[string]bool{}
	if fn == nil || st == nil || depth > 3 || len(fn.Blocks) == 0 {
		return res
	}
	resolve := func(addr ssa.Value) (string, bool) {
		base, rel := c10AddrPath(addr)
		if base == nil {
			return "", false
		}
		if _, fresh := base.(*ssa.Alloc); fresh {
			return "", false
		}
		pt, ok := base.Type().Underlying().(*types.Pointer)
		if !ok || !types.Identical(pt.Elem().Underlying(), st.Underlying()) {
			return "", false
		}
		return rel, true
	}
	cand := map[string]map[ssa.Instruction]bool{}
	add := func(p string, in ssa.Instruction) {
		if cand[p] == nil {
			cand[p] = map[ssa.Instruction]bool{}
		}
		cand[p][in] = true
	}
	for _, b := range fn.Blocks {
		for _, in := range b.Instrs {
			switch x := in.(type) {
			case *ssa.Store:
				if rel, ok := resolve(x.Addr); ok {
					add(rel, in)
				}
			case *ssa.Call:
				cc := &x.Call
				if cc.IsInvoke() || len(cc.Args) == 0 {
					continue
				}
				if bi, ok := cc.Value.(*ssa.Builtin); ok {
					if bi.Name() == "clear" && len(cc.Args) == 1 {
						if ld, ok := cc.Args[0].(*ssa.UnOp); ok && ld.Op == token.MUL {
							if rel, ok := resolve(ld.X); ok {
								add(rel, in)
							}
						}
					}
					continue
				}
				fo, sf, _ := calleeObj(cc)
				rel, ok := resolve(cc.Args[0])
				if !ok || fo == nil {
					continue
				}
				if fo.Pkg() != nil && fo.Pkg().Path() == "sync/atomic" && (fo.Name() == "Store" || fo.Name() == "Swap") {
					add(rel, in)
					continue
				}
				if sf == nil || fo.Pkg() == nil || !k.c.P.inModule(fo.Pkg().Path()) {
					continue
				}
				if sig, _ := fo.Type().(*types.Signature); sig == nil || sig.Recv() == nil {
					continue
				}
				sub := c10StructAt(st, rel)
				if sub == nil {
					continue
				}
				if _, isStruct := sub.Underlying().(*types.Struct); !isStruct {
					continue
				}
				callee := sf
				if o := callee.Origin(); o != nil {
					callee = o
				}
				if callee == fn {
					continue
				}
				for p := range k.mustPaths(callee, sub, depth+1) {
					switch {
					case p == "":
						add(rel, in)
					case rel == "":
						add(p, in)
					default:
						add(rel+"."+p, in)
					}
				}
			}
		}
	}
	isRecv := func(e *Expr) bool { e = strip(e); return e != nil && e.K == EParam && e.Idx == 0 }
	for p, ins := range cand {
		set := ins
		last := p
		if i := strings.LastIndex(p, "."); i >= 0 {
			last = p[i+1:]
		}
		// the field is also in its reset state on the edge where it is already zero
		// (if x.f != nil { x.f(); x.f = nil }) and there is nothing to reset behind a nil receiver
		sameField := func(e *Expr) bool {
			e = strip(e)
			return e != nil && e.K == EField && e.Name == last && Contains(isRecv)(e)
		}
		bars := []Barrier{
			{Name: "assign " + p, Instr: func(in ssa.Instruction) bool { return set[in] }},
			OnFalse("receiver is nil", isRecv),
		}
		if last != "" {
			bars = append(bars, OnFalse(last+" already zero", sameField))
		}
		r := reach(entryPoint(fn), bars, nil)
		must := true
		for _, t := range r.order {
			if isReturn(t) {
				must = false
				break
			}
		}
		if must {
			res[p] = true
		}
	}
	return res
}

// covered: the path itself or an ancestor is assigned, or (struct-typed) all
// of its fields are covered.
func (k *c10cov) covered(root types.Type, path string, exempt map[string]string) bool {
	for p := path; ; {
		if k.paths[p] {
			return true
		}
		i := strings.LastIndex(p, ".")
		if i < 0 {
			break
		}
		p = p[:i]
	}
	if k.paths[""] {
		return true
	}
	t := c10StructAt(root, path)
	if t == nil {
		return false
	}
	st, ok := t.Underlying().(*types.Struct)
	if !ok || st.NumFields() == 0 {
		return false
	}
	for i := 0; i < st.NumFields(); i++ {
		sub := path + "." + st.Field(i).Name()
		if exempt[sub] != "" {
			continue
		}
		if !k.covered(root, sub, exempt) {
			return false
		}
	}
	return true
}

// c10Coverage evaluates "every field of elem is assigned in each of the
// function groups": groups is a list of alternatives-sets; a field is fine when
// for at least one set, every function of the set assigns it.
type c10Group struct {
	Name string
	Fns  []*ssa.Function
}

func (c *Ctx) c10Coverage(rule, what string, elem types.Type, sets [][]c10Group, exempt map[string]string) {
	st, ok := elem.Underlying().(*types.Struct)
	if !ok {
		c.unresolved(rule, what, "pooled element is not a struct: "+elem.String())
		return
	}
	covs := make([][]*c10cov, len(sets))
	for i, set := range sets {
		for _, g := range set {
			k := &c10cov{c: c, paths: map[string]bool{}, visited: map[string]bool{}}
			for _, fn := range g.Fns {
				k.collect(fn, elem, "", 0)
			}
			covs[i] = append(covs[i], k)
		}
	}
	used := map[string]bool{}
	tn := elem.String()
	if n, ok := elem.(*types.Named); ok {
		tn = n.Obj().Name()
	}
	for i := 0; i < st.NumFields(); i++ {
		f := st.Field(i)
		key := fmt.Sprintf("%s|%s|%s.%s", rule, what, tn, f.Name())
		if r := exempt[f.Name()]; r != "" {
			used[f.Name()] = true
			c.ok(rule, key, f.Pos(), fmt.Sprintf("%s: field %s exempt: %s", what, f.Name(), r))
			continue
		}
		good := false
		var where []string
		for si, set := range sets {
			if len(set) == 0 {
				continue
			}
			all := true
			for gi := range set {
				if !covs[si][gi].covered(elem, f.Name(), exempt) {
					all = false
					where = append(where, set[gi].Name)
				}
			}
			if all {
				good = true
				break
			}
		}
		for e := range exempt {
			if strings.HasPrefix(e, f.Name()+".") {
				used[e] = true
			}
		}
		if good {
			c.ok(rule, key, f.Pos(), fmt.Sprintf("%s: field %s is (re)assigned before reuse", what, f.Name()))
		} else {
			c.violation(rule, key, f.Pos(), fmt.Sprintf("%s: field %s.%s is neither reset before Put nor assigned after Get nor exempt (missing in: %s) — the previous request's value survives reuse", what, tn, f.Name(), strings.Join(where, ", ")))
		}
	}
	var ex []string
	for e := range exempt {
		ex = append(ex, e)
	}
	sort.Strings(ex)
	for _, e := range ex {
		if used[e] {
			continue
		}
		if c10StructAt(elem, e) == nil {
			c.unresolved(rule, what+"."+e, "exempted field no longer exists (stale table row)")
		}
	}
}

// topLevelSet returns the distinct top-level functions containing the instructions.
func c10TopFns(ins []ssa.Instruction) []*ssa.Function {
	seen := map[*ssa.Function]bool{}
	var out []*ssa.Function
	for _, in := range ins {
		t := TopLevel(in.Parent())
		if !seen[t] {
			seen[t] = true
			out = append(out, t)
		}
	}
	sort.Slice(out, func(i, j int) bool { return fnKey(out[i]) < fnKey(out[j]) })
	return out
}

// ---------------------------------------------------------------------------
// small predicates

// isCallWithConstArg: call to f whose argument #i (receiver = 0) is the integer constant n.
func c10CallConstArg(f *types.Func, i int, n int64) func(ssa.Instruction) bool {
	return func(in ssa.Instruction) bool {
		cc := callCommon(in)
		if cc == nil || !callIs(cc, f) {
			return false
		}
		a := callArg(in, i)
		return a != nil && IsConstInt(n)(Desc(a))
	}
}

func c10Or(ps ...func(ssa.Instruction) bool) func(ssa.Instruction) bool {
	return func(in ssa.Instruction) bool {
		for _, p := range ps {
			if p != nil && p(in) {
				return true
			}
		}
		return false
	}
}

func c10InstrBarrier(name string, p func(ssa.Instruction) bool) Barrier {
	return Barrier{Name: name, Instr: func(in ssa.Instruction) bool {
		if _, isDefer := in.(*ssa.Defer); isDefer {
			return false
		}
		return p(in)
	}}
}

// c10ConstInt resolves a package-level integer constant.
func (c *Ctx) c10ConstInt(rule, path string) (int64, bool) {
	v := c.P.ConstVal(path)
	if v == nil {
		c.unresolved(rule, path, "constant not found")
		return 0, false
	}
	n, ok := constInt(&Expr{K: EConst, Val: v})
	return n, ok
}

// c10NoPathToExit: from every instruction matching `from` in fn (top function
// only, closures separately), no Return (or `again` instruction) is reachable
// without crossing a barrier.
func (c *Ctx) c10AfterEach(rule string, fn *ssa.Function, what string, from func(ssa.Instruction) bool, bad func(ssa.Instruction) bool, bars ...Barrier) int {
	if fn == nil {
		c.unresolved(rule, what, "function not found")
		return 0
	}
	var bn []string
	for _, b := range bars {
		bn = append(bn, b.Name)
	}
	n := 0
	for _, f := range WithAnons(fn) {
		for _, b := range f.Blocks {
			for _, in := range b.Instrs {
				if !from(in) {
					continue
				}
				n++
				key := fmt.Sprintf("%s|%s|%s", rule, fnKey(fn), what)
				r := reach([]Point{pointAfter(in)}, bars, nil)
				hit := false
				for _, t := range r.order {
					if bad(t) {
						hit = true
						c.violation(rule, key, instrPos(t), fmt.Sprintf("%s: after %s, %s is reachable without crossing {%s}; path %s", what, c.P.pos(instrPos(in)), c.P.pos(instrPos(t)), strings.Join(bn, " | "), c.trail(r, t)))
						break
					}
				}
				if !hit {
					c.ok(rule, key, instrPos(in), fmt.Sprintf("%s: every continuation after %s crosses {%s}", what, c.P.pos(instrPos(in)), strings.Join(bn, " | ")))
				}
			}
		}
	}
	if n == 0 {
		c.unresolved(rule, fmt.Sprintf("%s|%s", fnKey(fn), what), "no start site found (rule would pass vacuously)")
	}
	return n
}

// c10Absent records that a build-tagged anchor is not part of this configuration.
func (c *Ctx) c10Absent(rule, what string) {
	c.ok(rule, fmt.Sprintf("%s|%s|not in build %s", rule, what, c.Config), token.NoPos, what+": not in this build configuration ("+c.Config+")")
}

// closureOfDefer returns the function run by a Defer/Go of a closure or function value.
func c10CalleeFn(in ssa.Instruction) *ssa.Function {
	cc := callCommon(in)
	if cc == nil {
		return nil
	}
	switch v := cc.Value.(type) {
	case *ssa.MakeClosure:
		f, _ := v.Fn.(*ssa.Function)
		return f
	case *ssa.Function:
		return v
	}
	return cc.StaticCallee()
}

// ---------------------------------------------------------------------------
// value leaves through locals, phis and small same-module helpers

// c10Leaf is one leaf producer of a value; Base maps a base-expression string
// of the leaf (valid inside a helper) to the caller's expression string.
type c10Leaf struct {
	E    *Expr
	Base func(string) string
}

// c10ValueLeaves walks e back through phis, local cells and conversions
// (Origins) and, additionally, through calls to in-module functions with a
// body: the leaves of such a call are the leaves of the callee's returned
// values, with the callee's parameters renamed to the caller's arguments.
func c10ValueLeaves(e *Expr, depth int) []c10Leaf {
	id := func(s string) string { return s }
	var out []c10Leaf
	for _, l := range Origins(e, nil) {
		l = strip(l)
		if l == nil {
			continue
		}
		call, idx := l, 0
		if l.K == EExtract && l.X != nil {
			call, idx = strip(l.X), l.Idx
		}
		if call != nil && call.K == ECall && call.SFn != nil && len(call.SFn.Blocks) > 0 && depth < 2 &&
			call.Fn != nil && call.Fn.Pkg() != nil && (call.Fn.Pkg().Path() == modPath || len(call.Fn.Pkg().Path()) > len(modPath) && call.Fn.Pkg().Path()[:len(modPath)+1] == modPath+"/") {
			ren := map[string]string{}
			for i, p := range call.SFn.Params {
				if i < len(call.Args) {
					ren[p.Name()] = call.Args[i].String()
				}
			}
			n := 0
			for _, b := range call.SFn.Blocks {
				for _, in := range b.Instrs {
					rt, ok := in.(*ssa.Return)
					if !ok || idx >= len(rt.Results) {
						continue
					}
					for _, sub := range c10ValueLeaves(Desc(rt.Results[idx]), depth+1) {
						inner := sub.Base
						out = append(out, c10Leaf{E: sub.E, Base: func(s string) string {
							s = inner(s)
							if r, ok := ren[s]; ok {
								return r
							}
							return s
						}})
						n++
					}
				}
			}
			if n > 0 {
				continue
			}
		}
		out = append(out, c10Leaf{E: l, Base: id})
	}
	return out
}
