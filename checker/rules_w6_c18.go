package main

// C18-R15 (red wave 6, change C18-w6g3c2) — the test that recognises a persist
// temp file looks at the file's NAME.  persist's temp files are created in the
// list directory with the prefix persistTempPrefix; every place that has to tell
// such a file from a list (the start-up cleanup, the reload walk that must skip an
// in-flight persist, the enumerated removals of C18-R13) does so with
// strings.HasPrefix(x, persistTempPrefix).  x has to be a base name — what
// os.FileInfo.Name() / fs.DirEntry.Name() / filepath.Base() return.  A walked
// path includes the directory, never starts with the prefix, and turns the test
// into dead code: the in-flight temp file is then parsed as a list and names the
// API already removed come back.
//
// Structurally: every call strings.HasPrefix(x, K) / strings.CutPrefix / TrimPrefix
// in the module whose second operand is the constant persistTempPrefix has, as
// the leaf origins of x, only results of a method named Name (FileInfo, DirEntry,
// *os.File is excluded: its Name() is a path) or of path/filepath.Base / path.Base.
// Nothing is executed.

import (
	"fmt"
	"go/constant"
	"go/types"

	"golang.org/x/tools/go/ssa"
)

func init() {
	wrap := func(id string, extra func(c *Ctx), explain string) {
		pd := props[id]
		if pd == nil {
			return
		}
		orig := pd.Run
		pd.Run = func(c *Ctx) { orig(c); extra(c) }
		pd.Explanation += " " + explain
	}
	wrap("C18", c18R15, "R15 (added, red wave 6): every test of a name against persist's temp-file prefix takes a base name (FileInfo/DirEntry Name(), filepath.Base) — a walked path never starts with the prefix, so the test would be dead and an in-flight persist temp file would be read back as a list.")
}

func c18R15(c *Ctx) {
	const R = "C18-R15"
	const pkg = "middleware/blocklist"
	c.Doc(R, "every strings.HasPrefix/CutPrefix/TrimPrefix whose prefix operand is the constant persistTempPrefix tests a base name: the tested operand originates only from a Name() method of os.FileInfo / fs.DirEntry or from filepath.Base / path.Base — never from a walked path, which includes the directory and makes the test dead")
	kv := c.P.ConstVal(pkg + ".persistTempPrefix")
	hasPrefix := c.fobj(R, "strings.HasPrefix")
	cutPrefix := c.fobj(R, "strings.CutPrefix")
	trimPrefix := c.fobj(R, "strings.TrimPrefix")
	fbase := c.fobj(R, "path/filepath.Base")
	if kv == nil {
		c.unresolved(R, "persistTempPrefix", "constant not found")
		return
	}
	if hasPrefix == nil || cutPrefix == nil || trimPrefix == nil || fbase == nil {
		return
	}
	want := constant.StringVal(kv)
	isK := func(v ssa.Value) bool {
		k, ok := v.(*ssa.Const)
		return ok && k.Value != nil && k.Value.Kind() == constant.String && constant.StringVal(k.Value) == want
	}
	// Name() of an interface value (FileInfo, DirEntry) — not (*os.File).Name, which is a path
	nameOfEntry := func(e *Expr) bool {
		e = strip(e)
		if e == nil || e.K != ECall || e.Method != "Name" {
			return false
		}
		if e.Fn != nil {
			if sig, ok := e.Fn.Type().(*types.Signature); ok && sig.Recv() != nil {
				if _, isIface := sig.Recv().Type().Underlying().(*types.Interface); !isIface {
					return false
				}
			}
		}
		return true
	}
	allowed := []Pat{nameOfEntry, CallTo(fbase)}
	if pb := c.P.FuncObj("path.Base"); pb != nil {
		allowed = append(allowed, CallTo(pb))
	}
	n := 0
	for _, fn := range c.P.RepoFuncs() {
		for _, b := range fn.Blocks {
			for _, in := range b.Instrs {
				if !isPlainCallTo(hasPrefix, cutPrefix, trimPrefix)(in) {
					continue
				}
				pre := callArg(in, 1)
				if pre == nil || !isK(pre) {
					continue
				}
				n++
				key := fmt.Sprintf("%s|%s|persist temp prefix is tested against a base name", R, fnKey(TopLevel(fn)))
				c.OriginCheckThroughCallers(R, key, in,
					"name tested against persist's temp-file prefix (allowed: FileInfo/DirEntry Name(), filepath.Base; a walked path includes the directory and never starts with the prefix)",
					callArg(in, 0), nil, allowed...)
			}
		}
	}
	if n == 0 {
		c.unresolved(R, "persistTempPrefix tests", "no prefix test against persistTempPrefix found (rule would pass vacuously)")
	}
	c.Floor(R, 2)
}
