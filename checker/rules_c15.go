package main

import (
	"fmt"
	"go/ast"
	"go/constant"
	"go/token"
	"go/types"
	"sort"
	"strings"

	"golang.org/x/tools/go/ssa"
)

func init() {
	register(&PropDef{
		ID:    "C15",
		Title: "The pooled packer is byte-identical to the library and side-effect free",
		Run:   runC15,
		Explanation: "Decided (structure only): R1 in TryPack every decline (handled=false) happens before consume, inadmissible records / unsafe OPT shapes / out-of-range rcodes / oversize probes never reach the pool or packInto, consume runs only behind packInto ok, and release is paired with Get; " +
			"R2 no store in internal/wire has an address derived from a message, record or OPT parameter (only locals, fresh copies and the pooled state are written), dns.PackRR is called with &state.rr whose Header() returns the shim's own copy stored just before, and the mutating msg.Pack() is called on the caller's message only on the library-semantics edges; " +
			"R3 release reassigns every field of packState/rrView (buf exempt), clears or drops the dictionary on every path before Put, and is the only Put site; " +
			"R4 the slice handed to consume is the three-index state.buf[:off:off]; " +
			"R5 msgBits' field→bit table equals the library's setHdr table and its opcode/rcode word equals the library's, wire.Flag* equal the library's _QR…_CD, ClearAD/SetAD/SetRA touch byte 3 with the low-byte image of those constants, selectOPT scans Extra in the library's IsEdns0 direction, msgIsCompressible ≡ dns.Msg.isCompressible; " +
			"R6 responseWriter.WriteMsg reaches TryPack only across directPack ∧ !internal, directPack is set only by AllowDirectPack whose callers are the server's raw ingress functions, and after handled=true no caller of TryPack packs or writes a second time.",
		NotDecided: []string{
			"byte parity with dns.Msg.Pack for every message (compression choices, every record type, sizes around the pool buffer)",
			"that library pack methods of library-owned records read only their own fields",
			"absence of data races between concurrent packs beyond the pool discipline (each pack owns the state between Get and Put)",
		},
	})
}

func runC15(c *Ctx) {
	c15R1(c)
	c15R2(c)
	c15R3(c)
	c15R4(c)
	c15R5(c)
	c15R6(c)
}

const x5WirePkgRel = "internal/wire"

func x5IsFuncParamCall(name string) func(ssa.Instruction) bool {
	return func(in ssa.Instruction) bool {
		cc := callCommon(in)
		if cc == nil || cc.IsInvoke() {
			return false
		}
		p, ok := cc.Value.(*ssa.Parameter)
		return ok && p.Name() == name
	}
}

// x5PoolCall matches (*sync.Pool).<method> on the package-level pool variable.
func x5PoolCall(method string, pool types.Object) func(ssa.Instruction) bool {
	return func(in ssa.Instruction) bool {
		cc := callCommon(in)
		if cc == nil || cc.IsInvoke() {
			return false
		}
		fo, _, _ := calleeObj(cc)
		if fo == nil || fo.Name() != method || fo.Pkg() == nil || fo.Pkg().Path() != "sync" || len(cc.Args) == 0 {
			return false
		}
		g, ok := cc.Args[0].(*ssa.Global)
		return ok && g.Object() == pool
	}
}

// ---------------------------------------------------------------------------

func c15R1(c *Ctx) {
	const R = "C15-R1"
	c.Doc(R, "wire.TryPack: no `return false, …` after consume; the inadmissible-record edge, the unsafe-OPT edge, the rcode range and the size probe are crossed before packStatePool.Get / packInto; consume is called only behind packInto's ok; release is deferred/paired with Get")
	fn := c.fn(R, x5WirePkgRel+".TryPack")
	admissible := c.fobj(R, x5WirePkgRel+".admissibleRR")
	selectOPT := c.fobj(R, x5WirePkgRel+".selectOPT")
	packInto := c.fobj(R, x5WirePkgRel+".(*packState).packInto")
	release := c.fobj(R, x5WirePkgRel+".(*packState).release")
	pool := c.P.Object(x5WirePkgRel + ".packStatePool")
	lenM := c.fobj(R, x5DnsPkg+".(*Msg).Len")
	fRcode := c.field(R, x5DnsPkg+".MsgHdr.Rcode")
	bufSize, okb := x5ConstInt64(c, R, x5WirePkgRel+".packBufferSize")
	if fn == nil || admissible == nil || selectOPT == nil || packInto == nil || release == nil || pool == nil || lenM == nil || fRcode == nil || !okb {
		if pool == nil {
			c.unresolved(R, x5WirePkgRel+".packStatePool", "variable not found")
		}
		return
	}
	isConsume := x5IsFuncParamCall("consume")
	isGet := x5PoolCall("Get", pool)
	retFalse := isReturnWith(0, IsConstBool(false))
	c.MustCrossFrom(R, fn, "decline after output", isConsume, retFalse)
	work := func(in ssa.Instruction) bool { return isGet(in) || isPlainCallTo(packInto)(in) || isConsume(in) }
	c.AfterEdge(R, fn, "inadmissible record reaches the packer", OnFalse("admissibleRR", CallTo(x5FalseImplying(c, x5WirePkgRel, admissible)...)), work)
	c.AfterEdge(R, fn, "unsafe OPT shape reaches the packer", OnFalse("selectOPT safe", ResultOf(1, selectOPT)), work)
	c.MustCross(R, fn, "pool Get (OPT selected)", isGet, OnTrue("selectOPT safe", ResultOf(1, selectOPT)))
	c.MustCross(R, fn, "pool Get (size probe)", isGet, OnCmp("Len()>packBufferSize", CallTo(lenM), token.GTR, IsConstInt(bufSize), false))
	c.MustCross(R, fn, "pool Get (rcode ≤ 0xFFF)", isGet, OnCmp("Rcode>0xFFF", FieldIs(fRcode), token.GTR, IsConstInt(0xFFF), false))
	c.MustCross(R, fn, "pool Get (rcode ≥ 0)", isGet, OnCmp("Rcode<0", FieldIs(fRcode), token.LSS, IsConstInt(0), false))
	c.MustCross(R, fn, "pool Get (extended rcode needs an OPT)", isGet, OnTrue("opt!=nil", ResultOf(0, selectOPT)), OnCmp("Rcode>0xF", FieldIs(fRcode), token.GTR, IsConstInt(0xF), false))
	c.MustCross(R, fn, "consume", isConsume, OnTrue("packInto ok", ResultOf(1, packInto)))
	c.MustCrossFrom(R, fn, "decline after Get other than packInto failure", isGet, retFalse, OnFalse("packInto ok", ResultOf(1, packInto)))
	c.Paired(R, fn, "packStatePool.Get → state.release", isGet, isCallTo(release))
	// the size probe runs on a copy with Compress=false
	for _, in := range instrsWhere(fn, isPlainCallTo(lenM)) {
		recv := strip(Desc(callArg(in, 0)))
		_, isLocal := recv.V.(*ssa.Alloc)
		c.x5Decide(R, "C15-R1|TryPack|size probe receiver", instrPos(in), isLocal, "Len() is taken on a local shallow copy", "Len() probe runs on the caller's message: "+recv.String())
	}
	// packInto declines with (0,false) only, and TryPack is its sole caller
	c.WhoMay(R, "packInto callers", c.CallSites(packInto), map[string]string{"internal/wire.TryPack": "the only pack driver"})
	c.Floor(R, 13)
}

// x5AddrRoot walks a store address to its root and reports whether a pointer
// held in memory was dereferenced on the way (load through a loaded pointer).
func x5AddrRoot(v ssa.Value) (root ssa.Value, derefLoaded bool) {
	for i := 0; i < 40; i++ {
		switch x := v.(type) {
		case *ssa.FieldAddr:
			v = x.X
		case *ssa.IndexAddr:
			v = x.X
		case *ssa.Slice:
			v = x.X
		case *ssa.ChangeType:
			v = x.X
		case *ssa.Convert:
			v = x.X
		case *ssa.UnOp:
			if x.Op == token.MUL {
				derefLoaded = true
				v = x.X
				continue
			}
			return v, derefLoaded
		case *ssa.Phi:
			// conservative: follow the first non-self edge, flag as loaded when edges disagree
			var first ssa.Value
			for _, e := range x.Edges {
				if e != v {
					if first == nil {
						first = e
					} else if e != first {
						derefLoaded = true
					}
				}
			}
			if first == nil {
				return v, derefLoaded
			}
			v = first
		case *ssa.TypeAssert:
			if _, isCall := x.X.(*ssa.Call); isCall {
				return x.X, derefLoaded // value produced by a call (pool.Get().(*T)): classified by the caller
			}
			derefLoaded = true
			v = x.X
		case *ssa.Extract:
			return v, derefLoaded
		default:
			return v, derefLoaded
		}
	}
	return v, true
}

func c15R2(c *Ctx) {
	const R = "C15-R2"
	c.Doc(R, "every store in internal/wire's message-handling functions writes a local, a fresh allocation, a captured local or the pooled *packState — never memory reached from a *dns.Msg / dns.RR / *dns.OPT / *dns.Question parameter; dns.PackRR receives &state.rr after rr.RR and rr.hdr were set, rrView.Header returns &v.hdr; (*dns.Msg).Pack on the caller's message only on the rcode-invalid / inadmissible / unsafe-or-no-OPT edges")
	admissible := c.fobj(R, x5WirePkgRel+".admissibleRR")
	selectOPT := c.fobj(R, x5WirePkgRel+".selectOPT")
	fRcode := c.field(R, x5DnsPkg+".MsgHdr.Rcode")
	pool := c.P.Object(x5WirePkgRel + ".packStatePool")
	if admissible == nil || selectOPT == nil || fRcode == nil {
		return
	}
	isLibParam := func(p *ssa.Parameter) bool {
		t := p.Type()
		for {
			switch u := t.Underlying().(type) {
			case *types.Pointer:
				t = u.Elem()
				continue
			case *types.Slice:
				t = u.Elem()
				continue
			}
			break
		}
		n, ok := t.(*types.Named)
		return ok && n.Obj().Pkg() != nil && n.Obj().Pkg().Path() == x5DnsPkg
	}
	nFn, nStore := 0, 0
	for _, fn := range c.P.FuncsInPkg(x5WirePkgRel) {
		top := TopLevel(fn)
		// message-handling functions: a library-typed parameter on the top-level function
		has := false
		for _, p := range top.Params {
			if isLibParam(p) {
				has = true
			}
		}
		if !has {
			continue
		}
		nFn++
		for _, b := range fn.Blocks {
			for _, in := range b.Instrs {
				var addr ssa.Value
				switch x := in.(type) {
				case *ssa.Store:
					addr = x.Addr
				case *ssa.MapUpdate:
					addr = x.Map
				default:
					continue
				}
				nStore++
				root, loaded := x5AddrRoot(addr)
				key := fmt.Sprintf("%s|%s|store", R, fnKey(top))
				switch r := root.(type) {
				case *ssa.Alloc, *ssa.MakeSlice, *ssa.MakeMap:
					if loaded {
						// through a pointer held in a local copy: only fresh copies made here are fine
						if _, ok := r.(*ssa.Alloc); ok && x5StoreThroughOwnSlice(addr) {
							c.ok(R, key, instrPos(in), "store into a slice allocated in this function")
						} else {
							c.violation(R, key, instrPos(in), "store through a pointer loaded from "+Desc(root).String()+": may alias the caller's message")
						}
					} else {
						c.ok(R, key, instrPos(in), "store into a local / fresh allocation")
					}
				case *ssa.FreeVar:
					c.x5Decide(R, key, instrPos(in), !loaded, "store into a captured local", "store through a captured pointer: "+Desc(addr).String())
				case *ssa.Parameter:
					if x5IsNamedType(r.Type(), c.P.expand(x5WirePkgRel), "packState") && !loaded {
						c.ok(R, key, instrPos(in), "store into the pooled state")
					} else if x5IsNamedType(r.Type(), c.P.expand(x5WirePkgRel), "packState") {
						c.violation(R, key, instrPos(in), "store through a pointer held in the pooled state: "+Desc(addr).String())
					} else {
						c.violation(R, key, instrPos(in), fmt.Sprintf("store into memory reached from parameter %s (%s): the packer writes the caller's message", r.Name(), r.Type()))
					}
				case *ssa.Call:
					if pool != nil && x5PoolCall("Get", pool)(r) && !loaded {
						c.ok(R, key, instrPos(in), "store into the pooled state just taken from the pool")
					} else {
						c.violation(R, key, instrPos(in), "store into memory returned by a call: "+trunc(Desc(addr).String(), 160))
					}
				default:
					c.violation(R, key, instrPos(in), "store address of unknown provenance: "+trunc(Desc(addr).String(), 160))
				}
			}
		}
	}
	if nFn < 8 || nStore < 15 {
		c.unresolved(R, "pack functions", fmt.Sprintf("expected ≥8 message-handling functions with ≥15 stores, found %d / %d", nFn, nStore))
	}
	// PackRR shim
	packRR := c.fobj(R, x5DnsPkg+".PackRR")
	fRR := c.field(R, x5WirePkgRel+".packState.rr")
	vRR := c.field(R, x5WirePkgRel+".rrView.RR")
	vHdr := c.field(R, x5WirePkgRel+".rrView.hdr")
	if pi := c.fn(R, x5WirePkgRel+".(*packState).packInto"); pi != nil && packRR != nil && fRR != nil && vRR != nil && vHdr != nil {
		for _, s := range c.CallSites(packRR) {
			if !x5InPkgTree(s.Fn, x5WirePkgRel) {
				continue
			}
			e := strip(Desc(callArg(s.Instr, 0)))
			good := e != nil && e.K == EField && e.Var == fRR && e.Op == token.AND && e.X.K == EParam
			c.x5Decide(R, "C15-R2|"+fnKey(TopLevel(s.Fn))+"|PackRR argument", instrPos(s.Instr), good, "dns.PackRR(&state.rr, …)", "dns.PackRR is handed "+e.String()+" instead of the shim: the library writes Rdlength into the caller's record")
		}
		// The shim is loaded (rr.RR = record) in packInto itself or in an unexported helper
		// its per-record body was extracted into: the ordering "record loaded … header copy
		// … PackRR" is judged in every function of packInto's scope that loads the shim, and
		// at least one of them must.
		loadsShim := func(in ssa.Instruction) bool { return isFieldStore(in, vRR, NotNilConst) }
		nLoad := 0
		for _, g := range scopeFuncs(pi) {
			if g.Parent() != nil || len(instrsWhere(g, loadsShim)) == 0 {
				continue // closures are walked with their top-level function
			}
			nLoad += c.MustCrossFrom(R, g, "PackRR without a fresh header copy", loadsShim, isPlainCallTo(packRR), StoreBarrier("rr.hdr", vHdr, nil))
		}
		if nLoad == 0 {
			c.unresolved(R, fnKey(pi)+"|PackRR without a fresh header copy", "no start site found (rule would pass vacuously)")
		}
		if h := c.fn(R, x5WirePkgRel+".(*rrView).Header"); h != nil {
			good := false
			for _, in := range returnsWhere(h, 0, nil) {
				e := strip(Desc(in.(*ssa.Return).Results[0]))
				good = e != nil && e.K == EField && e.Var == vHdr && e.Op == token.AND && e.X.K == EParam
			}
			c.x5Decide(R, "C15-R2|rrView.Header|returns", h.Pos(), good, "Header() returns &v.hdr", "rrView.Header does not return the shim's own header copy")
		}
	}
	// direct msg.Pack() on the caller's message
	pack := c.fobjs(R, x5DnsPkg+".(*Msg).Pack", x5DnsPkg+".(*Msg).PackBuffer")
	nPack := 0
	for _, fn := range c.P.FuncsInPkg(x5WirePkgRel) {
		for _, b := range fn.Blocks {
			for _, in := range b.Instrs {
				if !isCallTo(pack...)(in) {
					continue
				}
				nPack++
				root, _ := x5AddrRoot(callArg(in, 0))
				key := "C15-R2|" + fnKey(TopLevel(fn)) + "|Msg.Pack receiver"
				if _, isParam := root.(*ssa.Parameter); !isParam {
					c.ok(R, key, instrPos(in), "Pack() on a local copy")
					continue
				}
				ug, tr := c.unguarded(in, []Barrier{
					OnCmp("Rcode<0", FieldIs(fRcode), token.LSS, IsConstInt(0), true),
					OnCmp("Rcode>0xFFF", FieldIs(fRcode), token.GTR, IsConstInt(0xFFF), true),
					OnFalse("admissibleRR", CallTo(x5FalseImplying(c, x5WirePkgRel, admissible)...)),
					OnFalse("selectOPT safe", ResultOf(1, selectOPT)),
					OnFalse("opt!=nil", ResultOf(0, selectOPT)),
				}, TopLevel(fn))
				c.x5Decide(R, key, instrPos(in), !ug, "mutating Pack() on the caller's message only on a library-semantics edge", "msg.Pack() (which writes the extended rcode into the caller's OPT) is reachable for an ordinary message; path "+tr)
			}
		}
	}
	if nPack < 4 {
		c.unresolved(R, "Msg.Pack sites", fmt.Sprintf("expected 4 in libraryPackImmutable, found %d", nPack))
	}
	c.Floor(R, 60)
}

// x5StoreThroughOwnSlice: the address is an element of a slice value that was
// produced by make() in this function (replaced := make(...); replaced[i] = …).
func x5StoreThroughOwnSlice(addr ssa.Value) bool {
	ia, ok := addr.(*ssa.IndexAddr)
	if !ok {
		return false
	}
	for _, l := range Origins(Desc(ia.X), nil) {
		if l == nil || l.K != EMake {
			return false
		}
	}
	return true
}

// ---------------------------------------------------------------------------

func c15R3(c *Ctx) {
	const R = "C15-R3"
	c.Doc(R, "packState.release reassigns opt and (through rrView) rr.RR, rr.hdr; buf is exempt; the dictionary is cleared or dropped on every path to packStatePool.Put; release is the only Put site and TryPack the only Get site")
	rel := c.fn(R, x5WirePkgRel+".(*packState).release")
	pool := c.P.Object(x5WirePkgRel + ".packStatePool")
	fComp := c.field(R, x5WirePkgRel+".packState.compression")
	if rel == nil || pool == nil || fComp == nil {
		return
	}
	c.FieldCoverage(R, x5WirePkgRel+".packState", []*ssa.Function{rel}, map[string]string{
		"buf": "output bytes: overwritten from offset 0 by every pack and handed out capacity-pinned (R4)",
		"rr":  "nested shim: its fields are covered by the rrView coverage of the same function",
	}, "release")
	c.FieldCoverage(R, x5WirePkgRel+".rrView", []*ssa.Function{rel}, nil, "release")
	isPut := x5PoolCall("Put", pool)
	isGet := x5PoolCall("Get", pool)
	c.AfterEdge(R, rel, "dictionary returned to the pool with the message's names", OnTrue("state.compression!=nil", FieldIs(fComp)), isPut,
		StoreBarrier("compression=nil", fComp, IsNilConst),
		Barrier{Name: "clear(compression)", Instr: func(in ssa.Instruction) bool {
			return calleeName(in) == "builtin.clear" && FieldIs(fComp)(Desc(callCommon(in).Args[0]))
		}})
	// reset values are zero values
	for _, in := range instrsWhere(rel, func(in ssa.Instruction) bool { _, ok := in.(*ssa.Store); return ok }) {
		st := in.(*ssa.Store)
		v := strip(Desc(st.Val))
		zero := IsNilConst(v) || (v.K == EConst) || (v.K == EAlloc && len(v.Args) == 0)
		c.x5Decide(R, "C15-R3|release|reset value", instrPos(in), zero, "field reset to its zero value", "release stores a non-zero value: "+trunc(v.String(), 120))
	}
	nPut, nGet := 0, 0
	for _, fn := range c.P.FuncsInPkg(x5WirePkgRel) {
		for _, b := range fn.Blocks {
			for _, in := range b.Instrs {
				if isPut(in) {
					nPut++
					c.x5Decide(R, "C15-R3|"+fnKey(TopLevel(fn))+"|pool Put", instrPos(in), TopLevel(fn) == rel, "Put only in release", "pack state returned to the pool outside release (unscrubbed)")
				}
				if isGet(in) {
					nGet++
					c.x5Decide(R, "C15-R3|"+fnKey(TopLevel(fn))+"|pool Get", instrPos(in), fnKey(TopLevel(fn)) == "internal/wire.TryPack", "Get only in TryPack", "pack state taken from the pool outside TryPack (no deferred release there)")
				}
			}
		}
	}
	if nPut != 1 || nGet != 1 {
		c.unresolved(R, "pool sites", fmt.Sprintf("expected one Put and one Get, found %d / %d", nPut, nGet))
	}
	c.Floor(R, 13)
}

// ---------------------------------------------------------------------------

func c15R4(c *Ctx) {
	const R = "C15-R4"
	c.Doc(R, "the slice TryPack hands to consume is state.buf[:off:off] — a full slice expression whose capacity equals its length — so the tail of an earlier pack is unreachable from the callback")
	fn := c.fn(R, x5WirePkgRel+".TryPack")
	fBuf := c.field(R, x5WirePkgRel+".packState.buf")
	if fn == nil || fBuf == nil {
		return
	}
	n := 0
	for _, in := range instrsWhere(fn, x5IsFuncParamCall("consume")) {
		n++
		arg := callCommon(in).Args[0]
		sl, ok := arg.(*ssa.Slice)
		key := "C15-R4|TryPack|consume argument"
		if !ok {
			c.violation(R, key, instrPos(in), "consume is not handed a slice expression of the pooled buffer: "+Desc(arg).String())
			continue
		}
		base := strip(Desc(sl.X))
		good := base != nil && base.K == EField && base.Var == fBuf && sl.Max != nil && sl.High != nil &&
			(sl.Max == sl.High || Desc(sl.Max).String() == Desc(sl.High).String()) && (sl.Low == nil || IsConstInt(0)(Desc(sl.Low)))
		c.x5Decide(R, key, instrPos(in), good, "consume(state.buf[:off:off])", "the buffer is handed out without pinning capacity to length: a callback reslicing to cap reads the previous message's bytes")
	}
	if n == 0 {
		c.unresolved(R, "TryPack|consume", "no call of consume found")
	}
	// nothing else lets the buffer escape: state.buf is referenced only in TryPack/packInto
	for _, fn2 := range c.P.FuncsInPkg(x5WirePkgRel) {
		for _, b := range fn2.Blocks {
			for _, in := range b.Instrs {
				fa, ok := in.(*ssa.FieldAddr)
				if !ok {
					continue
				}
				st, ok := deref(fa.X.Type()).Underlying().(*types.Struct)
				if !ok || st.Field(fa.Field) != fBuf {
					continue
				}
				top := fnKey(TopLevel(fn2))
				c.x5Decide(R, "C15-R4|"+top+"|state.buf reference", instrPos(in), top == "internal/wire.TryPack" || top == "(*internal/wire.packState).packInto",
					"pooled buffer referenced by the pack driver only", "pooled buffer referenced outside TryPack/packInto")
			}
		}
	}
	c.Floor(R, 3)
}

// ---------------------------------------------------------------------------

func c15R5(c *Ctx) {
	const R = "C15-R5"
	c.Doc(R, "msgBits' literal {field, bit} table equals the field↔bit table of the library's (*Msg).setHdr, its opcode/rcode word equals the library's; wire.FlagQR…FlagCD equal the library's _QR…_CD; ClearAD/SetAD/SetRA modify byte 3 with the low byte of the same constants; selectOPT indexes msg.Extra in the direction of the library's IsEdns0; msgIsCompressible ≡ (*dns.Msg).isCompressible")
	// library table from setHdr
	lib := map[string]int64{}
	if sh := c.fn(R, x5DnsPkg+".(*Msg).setHdr"); sh != nil {
		for _, in := range instrsWhere(sh, func(in ssa.Instruction) bool { _, ok := in.(*ssa.Store); return ok }) {
			st := in.(*ssa.Store)
			fa, ok := st.Addr.(*ssa.FieldAddr)
			if !ok {
				continue
			}
			s := deref(fa.X.Type()).Underlying().(*types.Struct)
			v := strip(Desc(st.Val))
			if v.K == EBin && v.Op == token.NEQ && IsConstInt(0)(v.Y) {
				if a := strip(v.X); a.K == EBin && a.Op == token.AND {
					if k, ok := constInt(a.Y); ok {
						lib[s.Field(fa.Field).Name()] = k
					}
				}
			}
		}
	}
	if len(lib) != 8 {
		c.unresolved(R, "library setHdr table", fmt.Sprintf("expected 8 flag fields, extracted %d", len(lib)))
	}
	// sdns table from the msgBits literal
	fd, pk := c.P.FuncDecl(x5WirePkgRel + ".msgBits")
	got := map[string]int64{}
	if fd == nil {
		c.unresolved(R, x5WirePkgRel+".msgBits", "declaration not found")
	} else {
		ast.Inspect(fd.Body, func(n ast.Node) bool {
			cl, ok := n.(*ast.CompositeLit)
			if !ok || len(cl.Elts) != 2 {
				return true
			}
			sel, ok := ast.Unparen(cl.Elts[0]).(*ast.SelectorExpr)
			if !ok {
				return true
			}
			fv, _ := pk.TypesInfo.Uses[sel.Sel].(*types.Var)
			tv, ok := pk.TypesInfo.Types[cl.Elts[1]]
			if fv == nil || !fv.IsField() || !ok || tv.Value == nil {
				return true
			}
			if k, ok := constant.Int64Val(constant.ToInt(tv.Value)); ok {
				got[fv.Name()] = k
			}
			return true
		})
		same := len(got) == len(lib)
		var diff []string
		for f, k := range lib {
			if got[f] != k {
				same = false
				diff = append(diff, fmt.Sprintf("%s: sdns %#x library %#x", f, got[f], k))
			}
		}
		sort.Strings(diff)
		c.x5Decide(R, "C15-R5|msgBits|flag table", fd.Pos(), same && len(lib) == 8, fmt.Sprintf("msgBits table equals the library's for %d flags", len(lib)), "msgBits table differs from the library's header bits: "+strings.Join(diff, "; "))
	}
	// opcode/rcode word
	wordOf := func(fn *ssa.Function) string {
		if fn == nil {
			return ""
		}
		for _, b := range fn.Blocks {
			for _, in := range b.Instrs {
				bo, ok := in.(*ssa.BinOp)
				if !ok || bo.Op != token.OR {
					continue
				}
				s := x5CanonExpr(Desc(bo), 0)
				if strings.Contains(s, "opcode") && strings.Contains(s, "rcode") {
					return s
				}
			}
		}
		return ""
	}
	w1 := wordOf(c.fn(R, x5WirePkgRel+".msgBits"))
	w2 := wordOf(c.fn(R, x5DnsPkg+".(*Msg).packBufferWithCompressionMap"))
	c.x5Decide(R, "C15-R5|msgBits|opcode/rcode word", token.NoPos, w1 != "" && w1 == w2, "opcode/rcode word "+w1+" equals the library's", "opcode/rcode word differs: sdns "+w1+" library "+w2)
	// wire.Flag* vs library constants
	for s, l := range map[string]string{"FlagQR": "_QR", "FlagAA": "_AA", "FlagTC": "_TC", "FlagRD": "_RD", "FlagRA": "_RA", "FlagAD": "_AD", "FlagCD": "_CD"} {
		sv, ok1 := x5ConstInt64(c, R, x5WirePkgRel+"."+s)
		lv, ok2 := x5ConstInt64(c, R, x5DnsPkg+"."+l)
		if ok1 && ok2 {
			c.x5Decide(R, "C15-R5|wire."+s, token.NoPos, sv == lv, fmt.Sprintf("wire.%s == dns.%s (%#x)", s, l, lv), fmt.Sprintf("wire.%s=%#x differs from the library's %s=%#x", s, sv, l, lv))
		}
	}
	// byte-3 setters
	for _, bs := range []struct {
		fn  string
		op  token.Token
		lib string
	}{{"ClearAD", token.AND_NOT, "_AD"}, {"SetAD", token.OR, "_AD"}, {"SetRA", token.OR, "_RA"}} {
		fn := c.fn(R, x5WirePkgRel+"."+bs.fn)
		lv, ok := x5ConstInt64(c, R, x5DnsPkg+"."+bs.lib)
		if fn == nil || !ok {
			continue
		}
		good, seen := false, ""
		for _, in := range instrsWhere(fn, func(in ssa.Instruction) bool { _, ok := in.(*ssa.Store); return ok }) {
			st := in.(*ssa.Store)
			ia, ok := st.Addr.(*ssa.IndexAddr)
			if !ok {
				continue
			}
			v := strip(Desc(st.Val))
			seen = fmt.Sprintf("body[%s] = %s", Desc(ia.Index).String(), v.String())
			if IsConstInt(3)(Desc(ia.Index)) && v.K == EBin && v.Op == bs.op && IsConstInt(lv&0xFF)(v.Y) && strip(v.X).K == EIndex && IsConstInt(3)(strip(v.X).Y) {
				good = true
			}
		}
		c.x5Decide(R, "C15-R5|wire."+bs.fn, fn.Pos(), good, fmt.Sprintf("%s: body[3] %s= %#x (low byte of %s)", bs.fn, bs.op, lv&0xFF, bs.lib), bs.fn+" does not modify byte 3 with the low byte of "+bs.lib+": "+seen)
	}
	// scan direction
	fExtra := c.field(R, x5DnsPkg+".Msg.Extra")
	d1 := x5ScanDirection(c.fn(R, x5WirePkgRel+".selectOPT"), fExtra)
	d2 := x5ScanDirection(c.fn(R, x5DnsPkg+".(*Msg).IsEdns0"), fExtra)
	c.x5Decide(R, "C15-R5|selectOPT|scan direction", token.NoPos, d1 != "" && d1 == d2 && d1 != "?", "selectOPT scans Extra "+d1+" like IsEdns0", "selectOPT scans Extra "+d1+" but the library's IsEdns0 scans "+d2+": with several OPTs a different record carries the extended rcode")
	// msgIsCompressible
	f1, f2 := c.fn(R, x5WirePkgRel+".msgIsCompressible"), c.fn(R, x5DnsPkg+".(*Msg).isCompressible")
	if f1 != nil && f2 != nil {
		a1, e1, ok1 := x5DecisionTable(f1)
		a2, e2, ok2 := x5DecisionTable(f2)
		key := "C15-R5|msgIsCompressible ≡ isCompressible"
		if !ok1 || !ok2 {
			c.undecided(R, key, f1.Pos(), "a condition is not a length predicate this rule can canonicalise")
		} else {
			u := map[string]bool{}
			for _, a := range append(a1, a2...) {
				u[a] = true
			}
			var all []string
			for a := range u {
				all = append(all, a)
			}
			sort.Strings(all)
			diff := ""
			for row := 0; diff == "" && row < 1<<len(all) && len(all) <= 12; row++ {
				as := map[string]bool{}
				for i, a := range all {
					as[a] = row&(1<<i) != 0
				}
				v1, k1 := e1(as)
				v2, k2 := e2(as)
				if !k1 || !k2 {
					diff = "undecidable result"
				} else if v1 != v2 {
					diff = fmt.Sprintf("at %v: sdns %s library %s", as, v1, v2)
				}
			}
			switch {
			case diff == "":
				c.ok(R, key, f1.Pos(), "same predicate over "+strings.Join(all, " ; "))
			case strings.HasPrefix(diff, "at "):
				c.violation(R, key, f1.Pos(), "compressibility test differs from the library's: "+diff)
			default:
				c.undecided(R, key, f1.Pos(), diff)
			}
		}
	}
	c.Floor(R, 14)
}

// x5ScanDirection classifies how fn indexes <msg>.Extra: "backward" (index
// starts at len-1 and decreases), "forward" (starts at 0/-1 and increases).
func x5ScanDirection(fn *ssa.Function, fExtra *types.Var) string {
	if fn == nil || fExtra == nil {
		return ""
	}
	for _, b := range fn.Blocks {
		for _, in := range b.Instrs {
			var idx, base ssa.Value
			switch x := in.(type) {
			case *ssa.IndexAddr:
				idx, base = x.Index, x.X
			case *ssa.Index:
				idx, base = x.Index, x.X
			default:
				continue
			}
			if !FieldIs(fExtra)(Desc(base)) {
				continue
			}
			// follow to the phi (range loops index with phi+1)
			for i := 0; i < 3; i++ {
				if bo, ok := idx.(*ssa.BinOp); ok {
					if _, isPhi := bo.X.(*ssa.Phi); isPhi {
						idx = bo.X
					}
				}
			}
			phi, ok := idx.(*ssa.Phi)
			if !ok {
				return "?"
			}
			dec, inc, fromLen, fromZero := false, false, false, false
			for _, e := range phi.Edges {
				d := strip(Desc(e))
				switch {
				case d.K == EBin && (d.Op == token.SUB || d.Op == token.ADD) && d.X.V == phi:
					k, _ := constInt(d.Y)
					if (d.Op == token.SUB && k > 0) || (d.Op == token.ADD && k < 0) {
						dec = true
					} else {
						inc = true
					}
				case d.K == EBin && d.Op == token.SUB && x5LenOf(FieldIs(fExtra))(d.X) && IsConstInt(1)(d.Y):
					fromLen = true
				case IsConstInt(0)(d), IsConstInt(-1)(d):
					fromZero = true
				}
			}
			switch {
			case dec && fromLen && !inc:
				return "backward"
			case inc && fromZero && !dec:
				return "forward"
			}
			return "?"
		}
	}
	return "?"
}

// ---------------------------------------------------------------------------

func c15R6(c *Ctx) {
	const R = "C15-R6"
	c.Doc(R, "responseWriter.WriteMsg calls wire.TryPack only across directPack=true ∧ internal=false; responseWriter.directPack is stored true only in Chain.AllowDirectPack, whose callers are the server's raw-ingress functions (serveMsgBy only behind its directPack parameter, fed true only by ServeRaw/ServeRawReplay); after TryPack reports handled no caller packs or writes again")
	tryPack := c.fobj(R, x5WirePkgRel+".TryPack")
	wm := c.fn(R, "middleware.(*responseWriter).WriteMsg")
	fDirect := c.field(R, "middleware.responseWriter.directPack")
	fInternal := c.field(R, "middleware.responseWriter.internal")
	allow := c.fobj(R, "middleware.(*Chain).AllowDirectPack")
	if tryPack == nil || wm == nil || fDirect == nil || fInternal == nil || allow == nil {
		return
	}
	c.MustCrossAll(R, wm, "wire.TryPack", isPlainCallTo(tryPack), OnTrue("w.directPack", FieldIs(fDirect)), OnFalse("w.internal", FieldIs(fInternal)))
	// no second write after handled
	again := func(in ssa.Instruction) bool {
		switch calleeName(in) {
		case "Pack", "PackBuffer", "WriteMsg", "Write", "libraryPackImmutable":
			return true
		}
		return false
	}
	nCallers := 0
	for _, s := range c.CallSites(tryPack) {
		if s.Kind != "call" {
			continue
		}
		nCallers++
		c.AfterEdge(R, TopLevel(s.Fn), "second pack/write after handled", OnTrue("handled", ResultOf(0, tryPack)), again)
	}
	if nCallers < 3 {
		c.unresolved(R, "TryPack callers", fmt.Sprintf("expected 3 (responseWriter.WriteMsg, validatedNegativeProofFingerprint, PackClone), found %d", nCallers))
	}
	// directPack stores
	for _, s := range c.StoreSites(fDirect) {
		top := fnKey(TopLevel(s.Fn))
		v := Desc(s.Val)
		key := "C15-R6|" + top + "|directPack store"
		switch {
		case IsConstBool(false)(v):
			c.ok(R, key, instrPos(s.Instr), "capability cleared")
		case IsConstBool(true)(v) && top == "(*middleware.Chain).AllowDirectPack":
			c.ok(R, key, instrPos(s.Instr), "capability declared by AllowDirectPack")
		default:
			c.violation(R, key, instrPos(s.Instr), "directPack set outside AllowDirectPack: "+v.String())
		}
	}
	c.WhoMay(R, "AllowDirectPack callers", c.CallSites(allow), map[string]string{
		"(*server.Server).serveMsgBy":     "decoded fallback of the raw ingress, behind its directPack parameter",
		"(*server.Server).serveWire":      "strict path of ServeRaw (owned UDP/TCP job)",
		"(*server.Server).ServeRawInline": "strict path on the reader (owned UDP job)",
		"(*server.Server).ServeRawReplay": "strict path replay (owned UDP job)",
	})
	if smb := c.fn(R, "server.(*Server).serveMsgBy"); smb != nil {
		c.MustCross(R, smb, "AllowDirectPack", isCallTo(allow), OnTrue("directPack", func(e *Expr) bool { return e.K == EParam && e.Name == "directPack" }))
		smbo := funcObjOf(smb)
		for _, s := range c.CallSites(smbo) {
			top := fnKey(TopLevel(s.Fn))
			v := Desc(callArg(s.Instr, 4))
			key := "C15-R6|" + top + "|serveMsgBy directPack argument"
			switch {
			case IsConstBool(true)(v):
				c.x5Decide(R, key, instrPos(s.Instr), top == "(*server.Server).ServeRaw" || top == "(*server.Server).ServeRawReplay", "true from the raw ingress", "directPack=true passed from "+top+", which is not the raw ingress")
			case v.K == EParam:
				// forwarded: every caller of the forwarder must pass false
				for _, s2 := range c.CallSites(funcObjOf(TopLevel(s.Fn))) {
					v2 := Desc(callArg(s2.Instr, 4))
					c.x5Decide(R, "C15-R6|"+fnKey(TopLevel(s2.Fn))+"|serveMsg directPack argument", instrPos(s2.Instr), IsConstBool(false)(v2), "decoded-message API passes directPack=false", "decoded-message entry passes directPack="+v2.String())
				}
				c.ok(R, key, instrPos(s.Instr), "forwards its own parameter")
			default:
				c.x5Decide(R, key, instrPos(s.Instr), IsConstBool(false)(v), "directPack=false", "directPack argument is "+v.String())
			}
		}
	}
	c.Floor(R, 16)
}
