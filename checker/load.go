package main

// Loading of the analysed program: go/packages (type-checked syntax of the
// current working tree) + go/ssa for every package of the build.  Nothing in
// the analysed repository is executed.

import (
	"fmt"
	"go/ast"
	"go/constant"
	"go/token"
	"go/types"
	"os"
	"sort"
	"strings"

	"golang.org/x/tools/go/packages"
	"golang.org/x/tools/go/ssa"
	"golang.org/x/tools/go/ssa/ssautil"
)

const modPath = "github.com/semihalev/sdns"

// Prog is one loaded build configuration of the repository.
type Prog struct {
	Dir     string
	Env     []string
	Roots   []*packages.Package
	ByPath  map[string]*packages.Package
	SSA     *ssa.Program
	Fset    *token.FileSet
	ModPath string

	repoFuncs []*ssa.Function // every function (incl. anonymous) whose package is in the module
	fnByObj   map[*types.Func]*ssa.Function
	nFiles    int
	astFuncs  map[*types.Func]*ast.FuncDecl
	astPkgOf  map[*ast.FuncDecl]*packages.Package
	sharedIdx *index
}

// LoadConfig describes what to load.
type LoadConfig struct {
	Dir      string
	ModPath  string
	GOOS     string
	GOARCH   string
	Patterns []string
	Overlay  map[string][]byte
	Tags     string
}

func Load(lc LoadConfig) (*Prog, error) {
	env := []string{}
	const pinned = "/opt/veriftools/go1.26.8/bin"
	for _, kv := range os.Environ() {
		if strings.HasPrefix(kv, "PATH=") {
			if _, err := os.Stat(pinned); err == nil && !strings.HasPrefix(kv, "PATH="+pinned) {
				kv = "PATH=" + pinned + ":" + kv[5:]
			}
			os.Setenv("PATH", kv[5:]) // go/packages resolves "go" through the process PATH
		}
		if strings.HasPrefix(kv, "GOOS=") || strings.HasPrefix(kv, "GOARCH=") || strings.HasPrefix(kv, "GOFLAGS=") || strings.HasPrefix(kv, "GOWORK=") {
			continue
		}
		env = append(env, kv)
	}
	env = append(env, "GOFLAGS=-mod=mod", "GOPROXY=off", "GOSUMDB=off", "GOTOOLCHAIN=local", "GOWORK=off", "CGO_ENABLED=0")
	if lc.GOOS != "" {
		env = append(env, "GOOS="+lc.GOOS)
	}
	if lc.GOARCH != "" {
		env = append(env, "GOARCH="+lc.GOARCH)
	}
	cfg := &packages.Config{
		Mode:    packages.LoadAllSyntax,
		Dir:     lc.Dir,
		Env:     env,
		Tests:   false,
		Overlay: lc.Overlay,
	}
	if lc.Tags != "" {
		cfg.BuildFlags = []string{"-tags=" + lc.Tags}
	}
	pats := lc.Patterns
	if len(pats) == 0 {
		pats = []string{"./..."}
	}
	roots, err := packages.Load(cfg, pats...)
	if err != nil {
		return nil, fmt.Errorf("packages.Load: %w", err)
	}
	if len(roots) == 0 {
		return nil, fmt.Errorf("no packages loaded from %s", lc.Dir)
	}
	p := &Prog{Dir: lc.Dir, Env: env, Roots: roots, ByPath: map[string]*packages.Package{}, ModPath: lc.ModPath}
	if p.ModPath == "" {
		p.ModPath = modPath
	}
	var errs []string
	packages.Visit(roots, nil, func(pk *packages.Package) {
		p.ByPath[pk.PkgPath] = pk
		if p.inModule(pk.PkgPath) {
			for _, e := range pk.Errors {
				errs = append(errs, e.Error())
			}
		}
	})
	if len(errs) > 0 {
		sort.Strings(errs)
		if len(errs) > 10 {
			errs = errs[:10]
		}
		return nil, fmt.Errorf("type/parse errors in analysed packages:\n  %s", strings.Join(errs, "\n  "))
	}
	p.Fset = roots[0].Fset
	prog, _ := ssautil.AllPackages(roots, ssa.InstantiateGenerics)
	prog.Build()
	p.SSA = prog
	p.fnByObj = map[*types.Func]*ssa.Function{}
	p.astFuncs = map[*types.Func]*ast.FuncDecl{}
	p.astPkgOf = map[*ast.FuncDecl]*packages.Package{}
	var addFn func(fn *ssa.Function)
	seenFn := map[*ssa.Function]bool{}
	addFn = func(fn *ssa.Function) {
		if fn == nil || seenFn[fn] {
			return
		}
		seenFn[fn] = true
		p.repoFuncs = append(p.repoFuncs, fn)
		if o, ok := fn.Object().(*types.Func); ok && o != nil {
			p.fnByObj[o] = fn
		}
		for _, a := range fn.AnonFuncs {
			addFn(a)
		}
	}
	for path, pk := range p.ByPath {
		if !p.inModule(path) || pk.Types == nil {
			continue
		}
		sp := prog.Package(pk.Types)
		if sp == nil {
			continue
		}
		for _, m := range sp.Members {
			switch x := m.(type) {
			case *ssa.Function:
				addFn(x) // generic origins and plain functions, incl. init
			case *ssa.Type:
				if named, ok := x.Type().(*types.Named); ok {
					for i := 0; i < named.NumMethods(); i++ {
						addFn(prog.FuncValue(named.Method(i)))
					}
				}
			}
		}
	}
	sort.Slice(p.repoFuncs, func(i, j int) bool { return fnKey(p.repoFuncs[i]) < fnKey(p.repoFuncs[j]) })
	for _, pk := range p.ByPath {
		if !p.inModule(pk.PkgPath) {
			continue
		}
		p.nFiles += len(pk.Syntax)
		for _, f := range pk.Syntax {
			for _, d := range f.Decls {
				if fd, ok := d.(*ast.FuncDecl); ok {
					if o, ok := pk.TypesInfo.Defs[fd.Name].(*types.Func); ok {
						p.astFuncs[o] = fd
						p.astPkgOf[fd] = pk
					}
				}
			}
		}
	}
	return p, nil
}

func (p *Prog) inModule(path string) bool {
	return path == p.ModPath || strings.HasPrefix(path, p.ModPath+"/")
}

func fnPkg(fn *ssa.Function) *types.Package {
	for f := fn; f != nil; f = f.Parent() {
		if f.Pkg != nil {
			return f.Pkg.Pkg
		}
		if o := f.Origin(); o != nil && o.Pkg != nil {
			return o.Pkg.Pkg
		}
		if ob := f.Object(); ob != nil && ob.Pkg() != nil {
			return ob.Pkg()
		}
	}
	return nil
}

// fnKey is the stable, position-free name of a function used as instance key.
func fnKey(fn *ssa.Function) string {
	if fn == nil {
		return "<nil>"
	}
	s := fn.String()
	s = strings.ReplaceAll(s, modPath+"/", "")
	s = strings.ReplaceAll(s, modPath, "sdns")
	return s
}

// expand turns a module-relative object path ("middleware/cache.(*Store).Get")
// into the full one; paths that already contain a dot-domain are left alone.
func (p *Prog) expand(path string) string {
	first := path
	if i := strings.IndexAny(first, "/."); i >= 0 {
		first = first[:i]
	}
	trim := strings.TrimLeft(path, "(*")
	if strings.HasPrefix(trim, "github.com/") || strings.HasPrefix(trim, "golang.org/") || strings.HasPrefix(trim, p.ModPath+"/") {
		return path
	}
	switch strings.TrimLeft(first, "(*") {
	case "api", "config", "internal", "middleware", "server", "contrib", "gen":
		if strings.HasPrefix(path, "(*") {
			return "(*" + p.ModPath + "/" + path[2:]
		}
		if strings.HasPrefix(path, "(") {
			return "(" + p.ModPath + "/" + path[1:]
		}
		return p.ModPath + "/" + path
	}
	return path
}

// splitObjPath splits "pkg/path.(*T).M", "pkg/path.T.M", "pkg/path.F",
// "pkg/path.F$1" into package path, receiver type name, member and closure suffix.
func splitObjPath(full string) (pkg, recv, name, anon string) {
	if i := strings.Index(full, "$"); i >= 0 {
		anon = full[i:]
		full = full[:i]
	}
	// find the last '/' then the first '.' after it
	slash := strings.LastIndex(full, "/")
	dot := strings.Index(full[slash+1:], ".")
	if dot < 0 {
		return full, "", "", anon
	}
	pkg = full[:slash+1+dot]
	rest := full[slash+1+dot+1:]
	if strings.HasPrefix(rest, "(*") {
		end := strings.Index(rest, ")")
		recv = rest[2:end]
		name = strings.TrimPrefix(rest[end+1:], ".")
		return
	}
	if strings.HasPrefix(rest, "(") {
		end := strings.Index(rest, ")")
		recv = rest[1:end]
		name = strings.TrimPrefix(rest[end+1:], ".")
		return
	}
	if i := strings.Index(rest, "."); i >= 0 {
		recv = rest[:i]
		name = rest[i+1:]
		return
	}
	name = rest
	return
}

// FuncObj resolves a function or method object by path; nil if absent.
func (p *Prog) FuncObj(path string) *types.Func {
	pkgPath, recv, name, _ := splitObjPath(p.expand(path))
	pk := p.ByPath[pkgPath]
	if pk == nil || pk.Types == nil {
		return nil
	}
	if recv == "" {
		f, _ := pk.Types.Scope().Lookup(name).(*types.Func)
		return f
	}
	tn, _ := pk.Types.Scope().Lookup(recv).(*types.TypeName)
	if tn == nil {
		return nil
	}
	obj, _, _ := types.LookupFieldOrMethod(types.NewPointer(tn.Type()), true, pk.Types, name)
	f, _ := obj.(*types.Func)
	if f == nil {
		// interface method
		if it, ok := tn.Type().Underlying().(*types.Interface); ok {
			for i := 0; i < it.NumMethods(); i++ {
				if it.Method(i).Name() == name {
					return it.Method(i)
				}
			}
		}
	}
	return f
}

// Func resolves an SSA function by path, including "$N" closure suffixes.
func (p *Prog) Func(path string) *ssa.Function {
	_, _, _, anon := splitObjPath(p.expand(path))
	base := path
	if anon != "" {
		base = path[:strings.Index(path, "$")]
	}
	o := p.FuncObj(base)
	if o == nil {
		return nil
	}
	fn := p.SSA.FuncValue(o)
	if fn == nil {
		return nil
	}
	for anon != "" {
		anon = anon[1:]
		n := 0
		i := 0
		for i < len(anon) && anon[i] >= '0' && anon[i] <= '9' {
			n = n*10 + int(anon[i]-'0')
			i++
		}
		anon = anon[i:]
		if n < 1 || n > len(fn.AnonFuncs) {
			return nil
		}
		fn = fn.AnonFuncs[n-1]
	}
	return fn
}

// TypeName resolves "pkg/path.T".
func (p *Prog) TypeName(path string) *types.TypeName {
	pkgPath, _, name, _ := splitObjPath(p.expand(path))
	pk := p.ByPath[pkgPath]
	if pk == nil || pk.Types == nil {
		return nil
	}
	tn, _ := pk.Types.Scope().Lookup(name).(*types.TypeName)
	return tn
}

// Field resolves "pkg/path.T.f" to the field variable.
func (p *Prog) Field(path string) *types.Var {
	pkgPath, recv, name, _ := splitObjPath(p.expand(path))
	pk := p.ByPath[pkgPath]
	if pk == nil || pk.Types == nil || recv == "" {
		return nil
	}
	tn, _ := pk.Types.Scope().Lookup(recv).(*types.TypeName)
	if tn == nil {
		return nil
	}
	st, _ := tn.Type().Underlying().(*types.Struct)
	if st == nil {
		return nil
	}
	for i := 0; i < st.NumFields(); i++ {
		if st.Field(i).Name() == name {
			return st.Field(i)
		}
	}
	return nil
}

// Object resolves a package-level object "pkg/path.Name".
func (p *Prog) Object(path string) types.Object {
	pkgPath, _, name, _ := splitObjPath(p.expand(path))
	pk := p.ByPath[pkgPath]
	if pk == nil || pk.Types == nil {
		return nil
	}
	return pk.Types.Scope().Lookup(name)
}

// ConstVal resolves a package-level constant's value.
func (p *Prog) ConstVal(path string) constant.Value {
	c, _ := p.Object(path).(*types.Const)
	if c == nil {
		return nil
	}
	return c.Val()
}

// RepoFuncs returns every analysed function of the module.
func (p *Prog) RepoFuncs() []*ssa.Function { return p.repoFuncs }

// FuncsInPkg returns analysed functions (incl. closures) of module-relative package rel.
func (p *Prog) FuncsInPkg(rel string) []*ssa.Function {
	full := p.expand(rel)
	var out []*ssa.Function
	for _, fn := range p.repoFuncs {
		if pk := fnPkg(fn); pk != nil && pk.Path() == full {
			out = append(out, fn)
		}
	}
	return out
}

// WithAnons returns fn and all transitively nested anonymous functions.
func WithAnons(fn *ssa.Function) []*ssa.Function {
	out := []*ssa.Function{fn}
	for _, a := range fn.AnonFuncs {
		out = append(out, WithAnons(a)...)
	}
	return out
}

// TopLevel returns the outermost enclosing function.
func TopLevel(fn *ssa.Function) *ssa.Function {
	for fn.Parent() != nil {
		fn = fn.Parent()
	}
	return fn
}

func (p *Prog) pos(pos token.Pos) string {
	if !pos.IsValid() {
		return "-"
	}
	ps := p.Fset.Position(pos)
	f := ps.Filename
	if strings.HasPrefix(f, p.Dir+"/") {
		f = f[len(p.Dir)+1:]
	} else if i := strings.Index(f, "/pkg/mod/"); i >= 0 {
		f = f[i+9:]
	}
	return fmt.Sprintf("%s:%d", f, ps.Line)
}

// instrPos finds a usable position for an instruction (SSA drops some).
func instrPos(in ssa.Instruction) token.Pos {
	if in.Pos().IsValid() {
		return in.Pos()
	}
	if v, ok := in.(ssa.Value); ok {
		_ = v
	}
	var ops []*ssa.Value
	ops = in.Operands(ops)
	for _, o := range ops {
		if o != nil && *o != nil && (*o).Pos().IsValid() {
			return (*o).Pos()
		}
	}
	// fall back to neighbours in the block
	b := in.Block()
	if b != nil {
		idx := -1
		for i, x := range b.Instrs {
			if x == in {
				idx = i
			}
		}
		for i := idx - 1; i >= 0; i-- {
			if b.Instrs[i].Pos().IsValid() {
				return b.Instrs[i].Pos()
			}
		}
		for i := idx + 1; i < len(b.Instrs); i++ {
			if b.Instrs[i].Pos().IsValid() {
				return b.Instrs[i].Pos()
			}
		}
	}
	if in.Parent() != nil {
		return in.Parent().Pos()
	}
	return token.NoPos
}

// FuncDecl returns the syntax of a declared function.
func (p *Prog) FuncDecl(path string) (*ast.FuncDecl, *packages.Package) {
	o := p.FuncObj(path)
	if o == nil {
		return nil, nil
	}
	fd := p.astFuncs[o]
	if fd == nil {
		// dependency package: search its syntax
		pk := p.ByPath[o.Pkg().Path()]
		if pk == nil {
			return nil, nil
		}
		for _, f := range pk.Syntax {
			for _, d := range f.Decls {
				if x, ok := d.(*ast.FuncDecl); ok && pk.TypesInfo.Defs[x.Name] == o {
					return x, pk
				}
			}
		}
		return nil, nil
	}
	return fd, p.astPkgOf[fd]
}
